(* C04 — Beam search returns distinct, correctly scored, best-first paths per element.
   Property theorems only: each is closed by [exact <lemma>] and followed by
   [Print Assumptions].  The harness re-checks this file on every run.

   Reading guide.  [search topk calc dstate V width eos fin_all pad max_iters inits] is the
   model of BeamSearch.forward (Model.v): [topk] any function meeting [topk_ok] (sorted,
   duplicate-free, dominates the rest: whatever tie-break torch uses), [calc] any language
   model meeting [lm_ok] (its answer at position idx depends on the tokens before idx only;
   V entries per row) with an arbitrary state type threaded through the flat [prev] list,
   [inits] the batch of initial states (length 1 when batch_size is unset).
   [beams_of ...] = [fst (fst (search ...))] : one list of [width] slots per batch element;
   [vpath sl] = the first [len sl] cells of the slot's column (what y[:y_lens] denotes),
   [sc sl] = its score, [None] = -inf.  [chain calc s0 p] is the language model run afresh
   on [p] from state [s0], adding up the log-probability of each token of [p]. *)
From Coq Require Import List ZArith Arith Bool.
From PV Require Import C04.Model C04.Spec C04.Topk C04.Abstract C04.Refine C04.Proofs.
Import ListNotations.

(* result shape: one beam per element, [width] slots each, every length within the tensor *)
Theorem c04_beam_shape : forall (state : Type) topk (calc : list Z -> state -> nat -> list score * state)
    dstate V width eos fin_all pad,
  topk_ok topk -> lm_ok calc V -> 1 <= V -> 1 <= width -> forall max_iters inits,
  length (beams_of topk calc dstate V width eos fin_all pad max_iters inits) = length inits /\
  forall beam, In beam (beams_of topk calc dstate V width eos fin_all pad max_iters inits) ->
    length beam = width /\ forall sl, In sl beam -> len sl <= length (col sl).
Proof. exact @shape. Qed.
Print Assumptions c04_beam_shape.

(* "its reported log-probability equals the model's own chained log-probability of exactly
   that token sequence" (a sequence over the vocabulary, as long as the reported length) *)
Theorem c04_beam_scores_chain : forall (state : Type) topk (calc : list Z -> state -> nat -> list score * state)
    dstate V width eos fin_all pad,
  topk_ok topk -> lm_ok calc V -> 1 <= V -> 1 <= width -> forall max_iters inits n,
  n < length inits ->
  forall sl z, In sl (nth n (beams_of topk calc dstate V width eos fin_all pad max_iters inits) []) ->
  sc sl = Some z ->
  chain calc (nth n inits dstate) (vpath sl) = Some z /\ in_vocab V (vpath sl) /\
  length (vpath sl) = len sl.
Proof. exact @scores_chain. Qed.
Print Assumptions c04_beam_scores_chain.

(* "every returned path with a finite score ... stops at its first end-of-sequence (counted
   in its length)": no eos before the last valid position *)
Theorem c04_beam_eos_first : forall (state : Type) topk (calc : list Z -> state -> nat -> list score * state)
    dstate V width eos fin_all pad,
  topk_ok topk -> lm_ok calc V -> 1 <= V -> 1 <= width -> forall max_iters inits n,
  n < length inits ->
  forall sl, In sl (nth n (beams_of topk calc dstate V width eos fin_all pad max_iters inits) []) ->
  sfin (sc sl) = true -> eos_first eos (vpath sl).
Proof. exact @eos_is_first. Qed.
Print Assumptions c04_beam_eos_first.

(* "every returned path with a finite score is distinct within its beam" *)
Theorem c04_beam_paths_distinct : forall (state : Type) topk (calc : list Z -> state -> nat -> list score * state)
    dstate V width eos fin_all pad,
  topk_ok topk -> lm_ok calc V -> 1 <= V -> 1 <= width -> forall max_iters inits n,
  n < length inits ->
  let beam := nth n (beams_of topk calc dstate V width eos fin_all pad max_iters inits) [] in
  forall i j, i < width -> j < width -> i <> j ->
  sfin (sc (nth i beam dslot)) = true -> sfin (sc (nth j beam dslot)) = true ->
  vpath (nth i beam dslot) <> vpath (nth j beam dslot).
Proof. exact @paths_distinct. Qed.
Print Assumptions c04_beam_paths_distinct.

(* "paths are ordered best first and unusable slots carry minus infinity at the end" *)
Theorem c04_beam_sorted_inf_last : forall (state : Type) topk (calc : list Z -> state -> nat -> list score * state)
    dstate V width eos fin_all pad,
  topk_ok topk -> lm_ok calc V -> 1 <= V -> 1 <= width -> forall max_iters inits n,
  n < length inits ->
  let beam := nth n (beams_of topk calc dstate V width eos fin_all pad max_iters inits) [] in
  sorted_desc (map sc beam) /\
  forall i j, i <= j -> j < width -> sc (nth i beam dslot) = None -> sc (nth j beam dslot) = None.
Proof. exact @sorted_inf_last. Qed.
Print Assumptions c04_beam_sorted_inf_last.

(* "what is returned for one batch element is what searching that element alone returns,
   however early or late the other elements finish": for EVERY batch [inits], element n of the
   batched search and the search of [nth n inits] alone return the same valid prefixes and
   scores, slot by slot (the batched loop freezes finished elements, shares the decision to
   grow y, and indexes one flat state list; none of it leaks between elements) *)
Theorem c04_beam_batch_independent : forall (state : Type) topk (calc : list Z -> state -> nat -> list score * state)
    dstate V width eos fin_all pad,
  topk_ok topk -> lm_ok calc V -> 1 <= V -> 1 <= width -> forall max_iters inits n,
  n < length inits ->
  map vslot (nth n (beams_of topk calc dstate V width eos fin_all pad max_iters inits) [])
  = map vslot (nth 0 (beams_of topk calc dstate V width eos fin_all pad max_iters [nth n inits dstate]) []).
Proof. exact @batch_independent. Qed.
Print Assumptions c04_beam_batch_independent.

(* "When the width is at least the number of complete sequences and all paths are run to
   completion the result is the full set of them."
   [eos_ok]: eos is a token of the vocabulary (the constructor checks it);
   [to_completion]: finish_all_paths is set, or eos is unset;
   [wide]: every duplicate-free list of complete sequences (for step limit max_iters) has at most
   [width] members;  [complete]: over the vocabulary, and either ended by its first eos within
   max_iters tokens, or max_iters tokens without eos.  Every complete sequence the model gives a
   non-zero probability is then returned, with its chained score (a zero-probability sequence
   cannot be told from an unusable slot, as the documentation warns). *)
Theorem c04_beam_exhaustive_when_wide : forall (state : Type) topk (calc : list Z -> state -> nat -> list score * state)
    dstate V width eos fin_all pad,
  topk_ok topk -> lm_ok calc V -> 1 <= V -> 1 <= width -> forall max_iters inits n,
  n < length inits ->
  forall p, eos_ok V eos -> wide V width eos max_iters -> to_completion eos fin_all ->
  complete V eos max_iters p -> sfin (chain calc (nth n inits dstate) p) = true ->
  exists sl, In sl (nth n (beams_of topk calc dstate V width eos fin_all pad max_iters inits) []) /\
             vpath sl = p /\ sc sl = chain calc (nth n inits dstate) p.
Proof. exact @exhaustive_wide. Qed.
Print Assumptions c04_beam_exhaustive_when_wide.

(* the backbone: element n of the batched model, seen through valid prefixes and scores, IS the
   junk-free single-element search [asearch] (Abstract.v) started from the n-th initial state;
   and one step of that search preserves the loop invariant [AInv]: beam full width; every path
   over the vocabulary; a live finite-score path has length t, no eos, carries the state the
   language model reaches on exactly that path; a finished one ends in its first eos; scores
   are chained sums, sorted, and finite-score paths pairwise distinct *)
Theorem c04_search_refines : forall (state : Type) topk (calc : list Z -> state -> nat -> list score * state)
    dstate V width eos fin_all pad,
  topk_ok topk -> lm_ok calc V -> 1 <= V -> 1 <= width -> forall max_iters inits,
  let out := fst (fst (search topk calc dstate V width eos fin_all pad max_iters inits)) in
  length out = length inits /\
  forall n, n < length inits ->
    map vslot (nth n out []) =
    map (vaslot (state:=state)) (asearch topk calc dstate V width eos fin_all max_iters (nth n inits dstate)) /\
    forall sl, In sl (nth n out []) -> len sl <= length (col sl).
Proof. exact @search_refines. Qed.
Print Assumptions c04_search_refines.

Theorem c04_beam_invariant : forall (state : Type) topk (calc : list Z -> state -> nat -> list score * state)
    dstate V width eos,
  topk_ok topk -> lm_ok calc V -> 1 <= V -> 1 <= width -> forall s0 t beam,
  AInv calc dstate V width eos s0 t beam ->
  AInv calc dstate V width eos s0 (S t) (astep topk calc dstate V width eos t beam).
Proof. exact @AInv_step. Qed.
Print Assumptions c04_beam_invariant.

(* [wide] follows from the count the checker computes: the enumeration [complete_seqs]
   (Spec.v) contains every complete sequence *)
Theorem c04_wide_of_count : forall V width eos T,
  length (complete_seqs V eos T) <= width -> wide V width eos T.
Proof. exact wide_of_count. Qed.
Print Assumptions c04_wide_of_count.

(* the executable topk of the correspondence (stable) meets the specification assumed above *)
Theorem c04_topk_stable_ok : topk_ok topk_stable.
Proof. exact topk_stable_ok. Qed.
Print Assumptions c04_topk_stable_ok.

(* the stateful language model of the correspondence meets [lm_ok] *)
Theorem c04_hash_lm_ok : forall a b c M V table,
  Forall (fun r => length r = V) table -> lm_ok (hash_calc a b c M V table) V.
Proof. exact hash_calc_lm_ok. Qed.
Print Assumptions c04_hash_lm_ok.

(* non-vacuity: a concrete stateful LM, a batch of two initial states whose searches finish at
   different steps, width 2 < number of complete sequences (pruning happens) *)
Example c04_nonvacuous :
  topk_ok topk_stable /\ lm_ok ex_lm 2 /\
  map (map vslot) (beams_of topk_stable ex_lm 0%Z 2 2 (Some 1%Z) true (-100)%Z 3 [0%Z; 1%Z])
  = [[([0%Z; 1%Z], Some (-5)%Z); ([1%Z], Some (-10)%Z)];
     [([1%Z], Some (-2)%Z); ([0%Z; 0%Z; 1%Z], Some (-17)%Z)]].
Proof. exact ex_nonvacuous. Qed.

(* ... and the hypotheses of the exhaustiveness theorem are met by a concrete instance *)
Example c04_wide_nonvacuous :
  wide 2 3 (Some 1%Z) 2 /\ eos_ok 2 (Some 1%Z) /\ to_completion (Some 1%Z) true /\
  complete 2 (Some 1%Z) 2 [0%Z; 1%Z] /\ sfin (chain ex_lm 0%Z [0%Z; 1%Z]) = true.
Proof. exact ex_wide. Qed.
