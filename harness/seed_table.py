#!/usr/bin/env python3
"""developer tool: markdown list of the seeded changes under /verif/seeded and what the checks did with them"""
import glob
import json
import os

V = os.path.dirname(os.path.dirname(os.path.abspath(__file__)))
for d in sorted(glob.glob(os.path.join(V, "seeded", "*"))):
    sid = os.path.basename(d)
    try:
        m = json.load(open(os.path.join(d, "meta.json")))
    except Exception:
        continue
    title = ""
    n = os.path.join(d, "notes.md")
    if os.path.exists(n):
        title = open(n).readline().strip().lstrip("# ").strip()
    if m.get("caught_with_concrete_input"):
        res = "caught, concrete input"
    elif m.get("caught"):
        res = "caught (no-failing-input-found)"
    else:
        res = "MISSED"
    hist = (" - " + m["history"]) if m.get("history") else ""
    print(f"* `{sid}` ({title[:110]}): {res}{hist}")
