(* C18, second tie — kernel-checked lemmas: the Python text of MeanVarianceNormalization.accumulate / store
   (PV.Gen.C18BSrc.acc_body / store_body, regenerated from /repo/src/pydrobert/torch/_feats.py on every run),
   interpreted by PV.MiniPy.Interp with the torch calls given the meaning of PV.MiniTorch.OpsC18B (SrcRunB.ext_t),
   computes exactly Model.accumulate / Model.store - for EVERY tensor, dim, accumulated statistics, flags and
   every sqrt oracle.  If the source is edited so that this stops being true, this file stops compiling. *)
From Coq Require Import ZArith QArith List String Bool Arith Lia ZifyBool ZifyNat.
From PV Require Import MiniPy.Syntax MiniPy.Interp MiniTorch.Value MiniTorch.Lemmas Gen.C18BSrc.
From PV Require MiniTorch.Ops.
From PV Require Import C18.SrcRun MiniTorch.OpsC18B MiniTorch.LemmasC18B C18.SrcRunB.
From PV Require Import C18.Model C18.Spec C18.QLemmas C18.Tensor C18.ProofsMvn.
Import ListNotations.
Local Open Scope string_scope.

(* ---- tensors inside the interpreter ------------------------------------------------------------------------------ *)
Lemma dect_enc : forall t, dect (enc_tensor t) = Some t.
Proof. intros [sh d]. unfold dect, enc_tensor, of_model. now rewrite dec_enc. Qed.

Lemma on1_enc : forall why t k st, on1 why (enc_tensor t) k st = ret why (k t) st.
Proof. intros. unfold on1. now rewrite dect_enc. Qed.

Lemma on2_enc : forall why t u k st, on2 why (enc_tensor t) (enc_tensor u) k st = ret why (k t u) st.
Proof. intros. unfold on2. now rewrite !dect_enc. Qed.

Lemma method_enc : forall t m args, method (enc_tensor t) m args = None.
Proof. reflexivity. Qed.

Lemma attribute_enc : forall ext t a st, attribute ext (enc_tensor t) a st = ext ("$attr." ++ a) [enc_tensor t] [] st.
Proof. reflexivity. Qed.

Lemma is_none_enc : forall t, cmp_eval Is (enc_tensor t) VNone = Some false.
Proof. reflexivity. Qed.

Lemma dect_int : forall z, dect (VInt z) = None.
Proof. reflexivity. Qed.
Lemma dect_none : dect VNone = None.
Proof. reflexivity. Qed.

Lemma is_none_none : cmp_eval Is VNone VNone = Some true.
Proof. reflexivity. Qed.

Lemma add_enc_int : forall t z st, binop_eval Add (enc_tensor t) (VInt z) st = Stuck "add".
Proof. reflexivity. Qed.
Lemma sub_enc_int : forall t z st, binop_eval Sub (enc_tensor t) (VInt z) st = Stuck "sub".
Proof. reflexivity. Qed.
Lemma add_enc_enc : forall t u st, binop_eval Add (enc_tensor t) (enc_tensor u) st = Stuck "add".
Proof. reflexivity. Qed.
Lemma sub_enc_enc : forall t u st, binop_eval Sub (enc_tensor t) (enc_tensor u) st = Stuck "sub".
Proof. reflexivity. Qed.
Lemma mul_enc_enc : forall t u st, binop_eval Mul (enc_tensor t) (enc_tensor u) st = Stuck "mul".
Proof. reflexivity. Qed.
Lemma div_enc_enc : forall t u st, binop_eval Div (enc_tensor t) (enc_tensor u) st = Stuck "truediv".
Proof. reflexivity. Qed.

Lemma scalar_enc : forall t, scalar (enc_tensor t) = None.
Proof. reflexivity. Qed.

Lemma foreign_enc : forall t, foreign (enc_tensor t) = true.
Proof. reflexivity. Qed.

Lemma foreign_tuple_enc : forall t r, foreign (VTuple (enc_tensor t :: r)) = false.
Proof. reflexivity. Qed.

Lemma zeros_nat : forall n, zeros (Z.of_nat n) = ROk (mkT [n] (repeat 0%Q n)).
Proof. intros n. unfold zeros. replace (Z.of_nat n <? 0)%Z with false by lia. now rewrite Nat2Z.id. Qed.

Lemma zeros_1 : zeros 1 = ROk (mkT [1%nat] [0%Q]).
Proof. reflexivity. Qed.

Lemma size_mat1 : forall a b d, OpsC18B.size (mkT [a; b] d) 1 = ROk b.
Proof. reflexivity. Qed.

Lemma sum1_mat : forall a b d, sum1 (mkT [a; b] d) = ROk (mkT [a] (map qsum (rows a b d))).
Proof. reflexivity. Qed.

Lemma square_mat : forall sh d, square (mkT sh d) = mkT sh (map qsq d).
Proof. reflexivity. Qed.

Lemma add_scalar_1 : forall c q, add_scalar (mkT [1%nat] [c]) q = mkT [1%nat] [(c + q)%Q].
Proof. reflexivity. Qed.

#[local] Arguments enc_tensor : simpl never.
#[local] Arguments dect : simpl never.
#[local] Arguments OpsC18B.size : simpl never.
#[local] Arguments OpsC18B.transpose : simpl never.
#[local] Arguments OpsC18B.unsqueeze : simpl never.
#[local] Arguments OpsC18B.flatten : simpl never.
#[local] Arguments OpsC18B.view : simpl never.
#[local] Arguments zeros : simpl never.
#[local] Arguments square : simpl never.
#[local] Arguments sum1 : simpl never.
#[local] Arguments OpsC18B.iadd : simpl never.
#[local] Arguments OpsC18B.imul : simpl never.
#[local] Arguments OpsC18B.sub : simpl never.
#[local] Arguments OpsC18B.div : simpl never.
#[local] Arguments add_scalar : simpl never.
#[local] Arguments sub_scalar : simpl never.
#[local] Arguments OpsC18B.clamp_min : simpl never.
#[local] Arguments sqrt_ : simpl never.
#[local] Arguments lt_scalar_truth : simpl never.
#[local] Arguments Model.transpose : simpl never.
#[local] Arguments Z.of_nat : simpl never.
#[local] Arguments Z.eqb : simpl never.
#[local] Arguments foreign : simpl never.
#[local] Arguments cmp_eval : simpl never.
#[local] Arguments Qplus : simpl never.
#[local] Arguments Qminus : simpl never.
#[local] Arguments Qmult : simpl never.
#[local] Arguments Qdiv : simpl never.
#[local] Arguments Qle_bool : simpl never.
#[local] Arguments Qeq_bool : simpl never.
#[local] Arguments qsum : simpl never.
#[local] Arguments qsq : simpl never.
#[local] Arguments qmax : simpl never.
#[local] Arguments rows : simpl never.
#[local] Arguments rows_width : simpl never.
#[local] Arguments repeat : simpl never.
#[local] Arguments zipw : simpl never.
#[local] Arguments inject_Z : simpl never.

Ltac tstep :=
  cbn; change (Z.of_nat 3) with 3%Z; change (Z.of_nat 2) with 2%Z; change (Z.of_nat 1) with 1%Z; change (Pos.to_nat 1) with 1%nat; change (Pos.to_nat 2) with 2%nat;
  rewrite ?method_enc, ?attribute_enc, ?dect_enc, ?on1_enc, ?on2_enc, ?is_none_enc, ?is_none_none, ?dect_int, ?dect_none, ?add_enc_int, ?sub_enc_int,
    ?add_enc_enc, ?sub_enc_enc, ?mul_enc_enc, ?div_enc_enc, ?scalar_enc, ?foreign_enc, ?foreign_tuple_enc.

(* ---- the (X, M) matrix x.transpose(0, dim).unsqueeze(-1).flatten(1).double() ------------------------------------ *)
Definition rows_mat (x : tensor) (d : nat) : tensor :=
  mkT [nth d (shape x) 0%nat; rows_width x d] (data (Model.transpose x 0 d)).

Lemma rows_chain : forall x dim d, norm_dim (List.length (shape x)) dim = Some d ->
  rbind (rbind (OpsC18B.transpose x 0 dim) (fun t => OpsC18B.unsqueeze t (-1))) (fun t => OpsC18B.flatten t 1 (-1))
  = ROk (rows_mat x d).
Proof.
  intros x dim d H. rewrite (transpose0_ok _ _ _ H). cbn [rbind]. rewrite unsqueeze_last. cbn [rbind].
  pose proof (norm_dim_lt _ _ _ H) as Hd.
  rewrite shape_transpose, (swapl_hd _ _ Hd). rewrite flatten_rows. reflexivity.
Qed.

Lemma iadd_vec' : forall n a m b, List.length a = n -> List.length b = m ->
  OpsC18B.iadd (mkT [n] a) (mkT [m] b) =
  match Model.iadd a b with Ok l => ROk (mkT [List.length l] l) | Err _ => RRaise runtime_error end.
Proof. intros n a m b <- <-. apply iadd_vec. Qed.

Ltac run := repeat (progress (tstep; rewrite ?zeros_nat, ?zeros_1, ?size_mat1, ?sum1_mat, ?square_mat, ?add_scalar_1, ?unsqueeze_last)).

(* from `count, sum_, sumsq = self.count, self.sum, self.sumsq` on: common to both cases *)
Ltac acc_tail H Hd E1 E2 :=
  rewrite (transpose0_ok _ _ _ H); run;
  rewrite shape_transpose, (swapl_hd _ _ Hd), flatten_rows; run;
  rewrite (iadd_vec' _ _ _ _ eq_refl (eq_trans (map_length _ _) (length_rows _ _ _))), E1; run;
  rewrite rows_map, map_map;
  rewrite (iadd_vec' _ _ _ _ eq_refl (eq_trans (map_length _ _) (length_rows _ _ _))), E2; run;
  eexists; split; [reflexivity|]; repeat split; reflexivity.

(* accumulate on a module that holds statistics *)
Lemma acc_some : forall sq dim eps mean std s0 x s',
  accumulate dim (Some s0) x = Ok s' ->
  exists fin, run_acc sq (mkM dim eps mean std (Some s0)) x = Interp.Ok VNone fin /\
    lookup "count" (vars fin) = Some (enc_tensor (mkT [1%nat] [cnt s'])) /\
    lookup "sum_" (vars fin) = Some (enc_tensor (vec (ssum s'))) /\
    lookup "sumsq" (vars fin) = Some (enc_tensor (vec (ssq s'))).
Proof.
  intros sq dim eps mean std s0 x s' Hacc.
  unfold accumulate in Hacc. destruct (norm_dim (List.length (shape x)) dim) as [d|] eqn:H; [|discriminate].
  pose proof (norm_dim_lt _ _ _ H) as Hd.
  rewrite (rows_of_rows _ _ Hd) in Hacc.
  destruct (Model.iadd (ssum s0) (map qsum (rows (nth d (shape x) 0%nat) (rows_width x d) (data (Model.transpose x 0 d))))) as [s1|e1] eqn:E1; [|discriminate].
  cbn [Model.bind] in Hacc.
  destruct (Model.iadd (ssq s0) (map (fun r => qsum (map qsq r)) (rows (nth d (shape x) 0%nat) (rows_width x d) (data (Model.transpose x 0 d))))) as [s2|e2] eqn:E2; [|discriminate].
  cbn [Model.bind] in Hacc. injection Hacc as <-. unfold rows_width in E1, E2.
  unfold run_acc, Interp.run, acc_body, acc_vars, self_val.
  cbn [m_dim m_eps m_mean m_std m_stats count_val sum_val sumsq_val option_map opt_vec ssum ssq cnt]. unfold vec.
  run. acc_tail H Hd E1 E2.
Qed.

(* the first accumulate: the buffers are created (torch.zeros) and then updated *)
Lemma acc_none : forall sq dim eps mean std x s',
  accumulate dim None x = Ok s' ->
  exists fin, run_acc sq (mkM dim eps mean std None) x = Interp.Ok VNone fin /\
    lookup "count" (vars fin) = Some (enc_tensor (mkT [1%nat] [cnt s'])) /\
    lookup "sum_" (vars fin) = Some (enc_tensor (vec (ssum s'))) /\
    lookup "sumsq" (vars fin) = Some (enc_tensor (vec (ssq s'))).
Proof.
  intros sq dim eps mean std x s' Hacc.
  unfold accumulate in Hacc. destruct (norm_dim (List.length (shape x)) dim) as [d|] eqn:H; [|discriminate].
  pose proof (norm_dim_lt _ _ _ H) as Hd.
  rewrite (rows_of_rows _ _ Hd) in Hacc. cbn [ssum ssq cnt] in Hacc.
  destruct (Model.iadd (repeat 0%Q (nth d (shape x) 0%nat)) (map qsum (rows (nth d (shape x) 0%nat) (rows_width x d) (data (Model.transpose x 0 d))))) as [s1|e1] eqn:E1; [|discriminate].
  cbn [Model.bind] in Hacc.
  destruct (Model.iadd (repeat 0%Q (nth d (shape x) 0%nat)) (map (fun r => qsum (map qsq r)) (rows (nth d (shape x) 0%nat) (rows_width x d) (data (Model.transpose x 0 d))))) as [s2|e2] eqn:E2; [|discriminate].
  cbn [Model.bind] in Hacc. injection Hacc as <-. unfold rows_width in E1, E2.
  unfold run_acc, Interp.run, acc_body, acc_vars, self_val.
  cbn [m_dim m_eps m_mean m_std m_stats count_val sum_val sumsq_val option_map opt_vec ssum ssq cnt].
  do 4 tstep. rewrite (size_ok _ _ _ H). run.
  rewrite (transpose0_ok _ _ _ H); run;
  rewrite shape_transpose, (swapl_hd _ _ Hd), flatten_rows; run.
  rewrite (iadd_vec' _ _ _ _ (repeat_length _ _) (eq_trans (map_length _ _) (length_rows _ _ _))), E1; run.
  rewrite rows_map, map_map.
  rewrite (iadd_vec' _ _ _ _ (repeat_length _ _) (eq_trans (map_length _ _) (length_rows _ _ _))), E2; run.
  eexists; split; [reflexivity|]; repeat split; reflexivity.
Qed.

(* ---- reading the values back ------------------------------------------------------------------------------------- *)
Lemma dec_vec_enc : forall n l, dec_vec (enc_tensor (mkT [n] l)) = Some l.
Proof. intros. unfold dec_vec. now rewrite dect_enc. Qed.

Lemma dec_count_enc : forall c, dec_count (enc_tensor (mkT [1%nat] [c])) = Some c.
Proof. intros. unfold dec_count. now rewrite dec_vec_enc. Qed.

(* _partial: rests on the GLUE of SrcRunB.src_accumulate (the new statistics are read from the locals count, sum_, sumsq:
   the in-place `+=` on the aliased buffers is not rendered by MiniPy's value semantics) *)
Theorem src_accumulate_ok_partial : forall sq m x s',
  accumulate (m_dim m) (m_stats m) x = Ok s' -> src_accumulate sq m x = Some (Ok s').
Proof.
  intros sq [dim eps mean std [s0|]] x s' H; cbn [m_dim m_stats] in H; unfold src_accumulate.
  - destruct (acc_some sq dim eps mean std s0 x s' H) as [fin [-> [-> [-> ->]]]].
    unfold vec. rewrite dec_count_enc, !dec_vec_enc. now destruct s'.
  - destruct (acc_none sq dim eps mean std x s' H) as [fin [-> [-> [-> ->]]]].
    unfold vec. rewrite dec_count_enc, !dec_vec_enc. now destruct s'.
Qed.
