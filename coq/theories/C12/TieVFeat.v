(* C12 — tie (part 3e) of the blocks of `_info_and_validate`: the feature block (the loop body up to the `if info:` after the feature checks).  See TieVTac.v for the method. *)
From Coq Require Import ZArith QArith List String Bool Arith Lia ZifyBool.
From PV Require Import MiniPy.Syntax MiniPy.Interp MiniPy.Lemmas MiniTorch.OpsC12 MiniTorch.LemmasC12 MiniTorch.LemmasC12V Gen.C12ValSrc.
From PV Require Import C12.SrcRun C12.SrcRunV C12.TieLib C12.TieLibV C12.TieVTac.
From PV Require C12.Model.
Import ListNotations.
Local Open Scope string_scope.

#[local] Arguments enc12 : simpl never.
#[local] Arguments dec12 !v /.
#[local] Arguments T1 : simpl never.
#[local] Arguments T2 : simpl never.
#[local] Arguments NZ : simpl never.
#[local] Arguments new_full : simpl never.
#[local] Arguments cat : simpl never.
#[local] Arguments ndim : simpl never.
#[local] Arguments size : simpl never.
#[local] Arguments numel : simpl never.
#[local] Arguments select_col : simpl never.
#[local] Arguments set_item : simpl never.
#[local] Arguments get_item : simpl never.
#[local] Arguments item : simpl never.
#[local] Arguments unsqueeze : simpl never.
#[local] Arguments slice0 : simpl never.
#[local] Arguments nonzero : simpl never.
#[local] Arguments eq_scalar : simpl never.
#[local] Arguments cpu : simpl never.
#[local] Arguments long : simpl never.
#[local] Arguments then_ ext b !c st /.
#[local] Arguments exec : simpl never.
#[local] Arguments for_loop : simpl never.
#[local] Arguments q_cmp : simpl never.
#[local] Arguments fill_slice : simpl never.
#[local] Arguments set_row : simpl never.
#[local] Arguments rows_of : simpl never.
#[local] Arguments tolist2 : simpl never.
#[local] Arguments full_long : simpl never.
#[local] Arguments row3 : simpl never.
#[local] Arguments inject_Z : simpl never.
#[local] Arguments firstn : simpl never.
#[local] Arguments skipn : simpl never.
#[local] Arguments cmp_eval op !a !b /.
#[local] Arguments Z.of_nat : simpl never.
#[local] Arguments torch_module : simpl never.
#[local] Arguments store : simpl never.
#[local] Arguments set_var x v !st /.
#[local] Arguments ext12 env f !args kw st /.
#[local] Arguments bind {A B} !o f /.
#[local] Arguments Z.add : simpl never.
#[local] Arguments Z.sub : simpl never.
#[local] Arguments ds_obj : simpl never.
#[local] Arguments isinstance12 : simpl never.
#[local] Arguments instance_of : simpl never.
#[local] Arguments feat_tens : simpl never.
#[local] Arguments ids_val : simpl never.
#[local] Arguments subscript !o !k st /.
#[local] Arguments utt_tuple : simpl never.
#[local] Arguments env_ds : simpl never.
#[local] Arguments class_token : simpl never.


(* ================================================ the feature block ================================================== *)
Definition feat_vbody : stmt := Eval cbv in if_then (seq_nth 6 iv_feat).
Definition feat_dtype_chk : stmt := Eval cbv in seq_nth 0 feat_vbody.
Definition feat_cuda : stmt := Eval cbv in seq_nth 1 feat_vbody.
Definition feat_dtype_set : stmt := Eval cbv in seq_drop 2 feat_vbody.
Definition feat_dim : stmt := Eval cbv in seq_nth 7 iv_feat.
Definition feat_shape : stmt := Eval cbv in seq_nth 8 iv_feat.
Definition feat_nf : stmt := Eval cbv in seq_nth 9 iv_feat.
Definition feat_save : stmt := Eval cbv in seq_nth 10 iv_feat.
Definition feat_info : stmt := Eval cbv in seq_drop 11 iv_feat.

(* what get_utterance_tuple loads of the reference *)
Definition loaded_ref (c : Model.cfg) (u : Model.utt) : Model.exn + option tens :=
  match Model.u_ref u with
  | None => inr None
  | Some r => match Model.load_ref c r with inl e => inl e | inr lr => inr (Some (tens_of_ref lr)) end
  end.

Lemma utt_tuple_ok : forall c u st lref, Model.c_suppress_alis c = false -> loaded_ref c u = inr lref ->
  utt_tuple c u st = Ok (VTuple [enc12 (feat_tens (Model.u_feat u)); opt_tens (option_map ali_tens (Model.u_ali u)); opt_tens lref]) st.
Proof. intros c u st lref Hs Hl. unfold utt_tuple. fold (loaded_ref c u). rewrite Hl, Hs. reflexivity. Qed.

Lemma utt_tuple_exc : forall c u st e, loaded_ref c u = inl e -> utt_tuple c u st = Exc (name_of_exn e) st.
Proof. intros c u st e Hl. unfold utt_tuple. fold (loaded_ref c u). rewrite Hl. reflexivity. Qed.

(* features are never canonical 1-D / 2-D tensors here: let [cpu] compute *)
#[local] Arguments cpu t /.

Definition nf_val (o : option nat) : val := match o with None => VNone | Some n => VInt (Z.of_nat n) end.
Definition dt_val (o : option Model.dtype) : val := match o with None => VNone | Some d => VStr (dtype_name d) end.

Section Feat.
  Variables (c : Model.cfg) (d : Model.dir) (ids : list string) (fx : option Z).
  Variables (r2d Tp idx2 r tok start end_ : val) (i : nat).
  Local Notation ext := (ext12 (env_ds c d)).
  Definition stF (nf fdt fn t1 feat ali ref wb prefix dir_ prefix_ msg t2 T F : val) (evs : list event) : state :=
    mkState (mkvars ids fx (VInt (Z.of_nat i)) nf r2d fdt fn t1 feat ali ref wb prefix dir_ prefix_ msg t2 T F Tp
                    idx2 r tok start end_) evs.

  (* -- `fn = ...` to `prefix_ = ...` -- *)
  Lemma feat_head_run : forall u id nf fdt fn t1 feat ali ref wb prefix dir_ prefix_ msg t2 T F evs,
    nth_error d i = Some u -> nth_error ids i = Some id -> Model.c_suppress_alis c = false ->
    let st := stF nf fdt fn t1 feat ali ref wb prefix dir_ prefix_ msg t2 T F evs in
    match loaded_ref c u with
    | inl e => exists st', exec ext iv_feat st = Exc (name_of_exn e) st' /\ events st' = evs
    | inr lref =>
        exists t1',
        exec ext iv_feat st
        = exec ext (seq_drop 6 iv_feat)
            (stF nf fdt (VStr (id ++ ".pt")) t1' (enc12 (feat_tens (Model.u_feat u))) (opt_tens (option_map ali_tens (Model.u_ali u)))
                 (opt_tens lref) (VBool false) (VStr "") (VStr "d/feat") (VStr "") msg t2 T F evs)
    end.
  Proof.
    intros u id nf fdt fn t1 feat ali ref wb prefix dir_ prefix_ msg t2 T F evs Hu Hid Hs st. subst st.
    destruct (loaded_ref c u) as [e|lref] eqn:EL.
    - eexists. split.
      { unfold iv_feat, stF, mkvars. run. run. rewrite (utt_tuple_exc c u _ e EL). cbn [bind]. reflexivity. }
      reflexivity.
    - eexists. unfold iv_feat, stF, mkvars. run. run. rewrite (utt_tuple_ok c u _ lref Hs EL).
      repeat (lazymatch goal with
              | H : ?s = SSeq (SIf (EName "validate") _ _) _ |- exec _ ?s _ = _ => fail
              | _ => xs
              end).
      subst. cbn [seq_drop]. reflexivity.
  Qed.

  (* -- `if validate:` ... `if info:` -- *)
  Definition save_feat (t : tens) (fnv : string) : event := ("torch.save", [enc12 t; VStr ("d/feat" ++ "/" ++ fnv)]).

  Lemma feat_tail_run : forall f vst fnv t1 ali ref prefix prefix_ msg t2 T F evs,
    let st := stF (nf_val (Model.s_nf vst)) (dt_val (Model.s_dt vst)) (VStr fnv) t1 (enc12 (feat_tens f)) ali ref (VBool false)
                  prefix (VStr "d/feat") prefix_ msg t2 T F evs in
    match Model.feat_part true fx vst f with
    | inl _ => exists st', exec ext (seq_drop 6 iv_feat) st = Exc "ValueError" st' /\ events st' = evs
    | inr (f', Tn, Fn, vst1) =>
        exists msg' t2',
        exec ext (seq_drop 6 iv_feat) st
        = Ok CNormal (stF (nf_val (Model.s_nf vst1)) (dt_val (Model.s_dt vst1)) (VStr fnv) t1 (enc12 (feat_tens f')) ali ref (VBool false)
                          prefix (VStr "d/feat") prefix_ msg' t2' (VInt (Z.of_nat Tn)) (VInt (Z.of_nat Fn))
                          (if Model.f_cuda f then (evs ++ [save_feat (feat_tens f') fnv])%list else evs))
    end.
  Proof.
    intros [cu dt sh] [snf s2d sdt] fnv t1 ali ref prefix prefix_ msg t2 T F evs st. subst st.
    unfold Model.feat_part. cbn [Model.f_cuda Model.f_dtype Model.f_shape Model.s_nf Model.s_2d Model.s_dt andb].
    unfold feat_tens. cbn [Model.f_cuda Model.f_dtype Model.f_shape].
    cbn [seq_drop iv_feat]. unfold stF, mkvars.
    destruct sdt as [d0|]; [destruct (Model.dtype_beq d0 dt) eqn:Edt|]; cbn [negb dt_val].
    2: { eexists. split; [run; reflexivity|reflexivity]. }
    all: destruct cu; [destruct fx as [k|]|]; cbn [Model.is_some negb andb].
    all: try (eexists; split; [run; reflexivity|reflexivity]).
    all: destruct sh as [|a [|b [|c0 sh']]].
    all: try (eexists; split; [run; reflexivity|reflexivity]).
    all: destruct snf as [nf|]; [destruct (b =? nf)%nat eqn:Enf|]; cbn [negb nf_val].
    all: try (eexists; split; [run; reflexivity|reflexivity]).
    all: do 2 eexists; run; reflexivity.
  Qed.
End Feat.
