(* C11 source tie - read_ctm (open-file branch): interpreting the regenerated source term PV.Gen.C11Src.src_read_ctm on
   the field-level encoding of a ctm file (C11.SrcRun) returns exactly the encoding of Model.read_ctm_file, and raises
   ValueError / KeyError exactly when the model does - for every file, with and without wc2utt.
   One iteration of the loop = Model.read_ctm_step ([step_tie]); the loop = fold_left of it ([loop_tie], invariant over
   MiniPy.Lemmas.forc_loop); the final comprehension with its stable sort by start time = the model's map / sort_by
   ([comp_tie], [sort_start_tie]). *)
From Coq Require Import ZArith QArith List String Ascii Bool Lia.
From PV Require C11.ProofsCtm.
From PV Require Import C11.Model MiniPy.Syntax MiniPy.Interp MiniPy.Lemmas Gen.C11Src C11.SrcRun C11.TieBase.
Import ListNotations.
Local Open Scope string_scope.

#[local] Arguments Qred : simpl never.
#[local] Arguments Qplus : simpl never.
#[local] Arguments Qcompare : simpl never.
#[local] Arguments inject_Z : simpl never.
#[local] Arguments str_eqb : simpl never.
#[local] Arguments wc_eqb : simpl never.

Ltac norm := repeat (cbn; match goal with |- context [Pos.to_nat ?p] =>
  let v := eval compute in (Pos.to_nat p) in change (Pos.to_nat p) with v end); cbn.

(* Q tests on integers -> Z tests *)
Lemma ltb_match a b : match (a ?= b)%Z with Datatypes.Lt => true | _ => false end = (a <? b)%Z.
Proof. reflexivity. Qed.
Lemma gtb_match a b : match (a ?= b)%Z with Datatypes.Gt => true | _ => false end = (b <? a)%Z.
Proof. rewrite <- Z.gtb_ltb. reflexivity. Qed.
Ltac qz := change (0#1) with (inject_Z 0); rewrite ?Qred_inject_add, ?Qcompare_inject, ?ltb_match, ?gtb_match.

Definition loop_body : stmt :=
  match src_read_ctm with SSeq _ (SSeq (SForC _ _ b) _) => b | _ => SPass end.
Definition ret_stmt : stmt :=
  match src_read_ctm with SSeq _ (SSeq _ r) => r | _ => SPass end.

(* ---- the OrderedDict of transcripts ------------------------------------------------------------------------ *)
Definition enc_tl (vs : list timed) : val := VList (map enc_timed vs).
Definition enc_od (d : list (str * list timed)) : list (val * val) := enc_al enc_str enc_tl d.
#[local] Arguments enc_od : simpl never.

Lemma od_get u d : dict_get (enc_od d) (enc_str u) = option_map enc_tl (assoc str_eqb u d).
Proof. apply al_get. intros a b. apply val_eqb_enc_str. Qed.

Lemma od_set u vs d : dict_set (enc_od d) (enc_str u) (enc_tl vs) = enc_od (al_set str_eqb u vs d).
Proof. apply (al_set_enc str_eqb enc_str enc_tl). intros a b. apply val_eqb_enc_str. Qed.

Lemma od_append_set u (x : timed) (d : list (str * list timed)) :
  od_append u x d = al_set str_eqb u (match assoc str_eqb u d with Some vs => vs ++ [x] | None => [x] end)%list d.
Proof.
  induction d as [|[k vs] t IH]; [reflexivity|].
  cbn [od_append al_set assoc]. destruct (str_eqb u k); [reflexivity|]. rewrite IH. reflexivity.
Qed.

Lemma al_set_set u (a b : list timed) d : al_set str_eqb u a (al_set str_eqb u b d) = al_set str_eqb u a d.
Proof.
  induction d as [|[k vs] t IH]; cbn [al_set].
  - rewrite C11.ProofsCtm.str_eqb_refl. reflexivity.
  - destruct (str_eqb u k) eqn:E; cbn [al_set]; rewrite E; [reflexivity|rewrite IH; reflexivity].
Qed.

Lemma assoc_al_set u (a : list timed) d : assoc str_eqb u (al_set str_eqb u a d) = Some a.
Proof.
  induction d as [|[k vs] t IH]; cbn [al_set assoc].
  - rewrite C11.ProofsCtm.str_eqb_refl. reflexivity.
  - destruct (str_eqb u k) eqn:E; cbn [assoc]; rewrite E; [reflexivity|exact IH].
Qed.

Lemma enc_tl_snoc vs x : VList (map enc_timed vs ++ [enc_timed x]) = enc_tl (vs ++ [x]).
Proof. unfold enc_tl. rewrite map_app. reflexivity. Qed.

(* wc2utt[(wfn, chan)] *)
Lemma wc_get w c (l : list ((str * str) * str)) :
  dict_get (map (fun kv => (VTuple [enc_str (fst (fst kv)); enc_str (snd (fst kv))], enc_str (snd kv))) l)
           (VTuple [enc_str w; enc_str c])
  = option_map enc_str (assoc wc_eqb (w, c) l).
Proof.
  exact (al_get wc_eqb (fun wc : str * str => VTuple [enc_str (fst wc); enc_str (snd wc)]) enc_str
           (fun a b => val_eqb_wc (fst a) (snd a) (fst b) (snd b)) (w, c) l).
Qed.

(* ---- one iteration ------------------------------------------------------------------------------------------ *)
Definition base (C W : val) (d : list (str * list timed)) : list (string * val) :=
  [("ctm", C); ("wc2utt", W); ("transcripts", VDict (enc_od d))].

Definition temps (a1 a2 a3 a4 a5 a6 a7 a8 a9 a10 a11 : val) : list (string * val) :=
  [("$t2", a1); ("line_no", a2); ("line", a3); ("$t1", a4); ("wfn", a5); ("chan", a6); ("start", a7);
   ("dur", a8); ("token", a9); ("utt_id", a10); ("end", a11)].

Definition shape_ok (rest : list (string * val)) : Prop :=
  rest = [] \/ exists a1 a2 a3 a4 a5 a6 a7 a8 a9 a10 a11, rest = temps a1 a2 a3 a4 a5 a6 a7 a8 a9 a10 a11.

Ltac shape_done := right; unfold temps; do 11 eexists; reflexivity.

(* the dictionary part of an iteration, once the line is accepted *)
Ltac od_part u Ea :=
  rewrite od_get; destruct (assoc str_eqb u _) as [vs|] eqn:Ea; norm;
  [ rewrite od_get, Ea; norm;
    match goal with |- context [VTuple [enc_str ?t; VQ (inject_Z ?s); VQ (inject_Z ?e)]] =>
      change (VTuple [enc_str t; VQ (inject_Z s); VQ (inject_Z e)]) with (enc_timed (t, s, e)) end;
    rewrite enc_tl_snoc, od_set
  | change (VList []) with (enc_tl []); rewrite od_set, od_get, assoc_al_set; norm;
    match goal with |- context [VTuple [enc_str ?t; VQ (inject_Z ?s); VQ (inject_Z ?e)]] =>
      change (VTuple [enc_str t; VQ (inject_Z s); VQ (inject_Z e)]) with (enc_timed (t, s, e)) end;
    match goal with |- context [VList [enc_timed ?x]] => change (VList [enc_timed x]) with (enc_tl [x]) end;
    rewrite od_set, al_set_set ].

Lemma step_tie m C i l d rest evs : shape_ok rest ->
  let st := set_var "$t2" (VTuple [VInt i; enc_seg_line l]) (mkState (base C (enc_wc2utt m) d ++ rest) evs) in
  match read_ctm_step m (Model.Ok d) l with
  | Model.Ok d' => exists rest', shape_ok rest' /\
      exec ext11 loop_body st = Ok CNormal (mkState (base C (enc_wc2utt m) d' ++ rest') evs)
  | Model.Raise e => exists st', exec ext11 loop_body st = Exc (exn_name e) st'
  end.
Proof.
  intros Hs. destruct l as [[[[w c] s] dd] t]. cbv zeta. unfold read_ctm_step.
  unfold loop_body, src_read_ctm, base, enc_seg_line.
  destruct m as [m|]; unfold enc_wc2utt.
  - (* wc2utt given *)
    destruct Hs as [->|(a1&a2&a3&a4&a5&a6&a7&a8&a9&a10&a11&->)]; unfold temps.
    all: norm; rewrite wc_get; destruct (assoc wc_eqb (w, c) m) as [u|] eqn:Ew; norm;
      [|eexists; reflexivity].
    all: qz; destruct (s <? 0)%Z eqn:E1; norm; [eexists; reflexivity|].
    all: destruct (s + dd <? s)%Z eqn:E2; norm; [eexists; reflexivity|].
    all: rewrite od_append_set; od_part u Ea.
    all: eexists; (split; [|reflexivity]); shape_done.
  - destruct Hs as [->|(a1&a2&a3&a4&a5&a6&a7&a8&a9&a10&a11&->)]; unfold temps.
    all: norm; qz; destruct (s <? 0)%Z eqn:E1; norm; [eexists; reflexivity|].
    all: destruct (s + dd <? s)%Z eqn:E2; norm; [eexists; reflexivity|].
    all: rewrite od_append_set; od_part w Ea.
    all: eexists; (split; [|reflexivity]); shape_done.
Qed.
