(* C19 - the translated accept / reject bookkeeping of `IndependentMetropolisHastingsEstimator.__call__`
   (src/pydrobert/torch/_mc.py) as an executable.  Definitions only; the lemmas are in TieMc.v.

   The body of __call__ is `with torch.no_grad():` around a `for` whose body contains a `while` - both outside MiniPy.
   PV.Gen.C19McSrc holds, regenerated from /repo on every run, its marked statement BLOCKS:
     mh_init    v = None ... uniform_draws = torch.rand(..).log()                 (before the loop)
     mh_accept  cur_sample = self.proposal.sample([1]) ... cur_ratio = accept * cur_ratio + (~accept) * last_ratio
     mh_update  cur_sample = torch.where(accept, cur_sample, last_sample) ... last_sample, last_ratio = cur_sample, cur_ratio
     mh_final   if self.is_log: .. else: v /= num_kept; return v               (after the loop)
   NOT translated: the `with`, `if self.initial_sample is None: .. find_initial_sample()` (the model's find_initial is used
   by the executable), the `for n in range(self.mc_samples)` header and `while accept.dim() < cur_sample.dim(): accept =
   accept.unsqueeze(-1)`.  The GLUE [mh_run] below plays the `for`: it binds n and executes mh_accept; mh_update in turn.
   ABSTRACTION (that of PV.C19.Model): a sample is the INDEX of an outcome per batch element - a tensor of shape (1, B)
   without event dimensions, so the `while` does not execute; density and proposal enter only through the ratio table
   [w j i] = P_j(i) / Q_j(i) (density.log_prob = log w, proposal.log_prob = log 1 = 0: the code only uses their
   difference); func through its table [f j i]; is_log = False.  Logarithms are exact (OpsC19: log-domain values).
   The loop-local names are bound to None before the first iteration so that the variable list has one shape; every block
   assigns them before reading them. *)
From Coq Require Import ZArith QArith List String Bool.
From PV Require Import MiniPy.Syntax MiniPy.Interp MiniTorch.Ops MiniTorch.Value MiniTorch.OpsC19 Gen.C19McSrc.
From PV Require Import C19.SrcRun.
From PV Require C19.Model.
Import ListNotations.
Local Open Scope string_scope.

Definition ltag : string := "$ltensor".
Definition enc_lv (x : lv) : val := match x with LFin w => VQ w | LNegInf => VInf false | LNaN => VNone end.
Definition enc_l (t : ltens) : val :=
  VTuple [VStr ltag; VList (map (fun n => VInt (Z.of_nat n)) (lshape t)); VList (map enc_lv (ldata t))].

Fixpoint dec_lvs (l : list val) : option (list lv) :=
  match l with
  | [] => Some []
  | VQ w :: r => option_map (cons (LFin w)) (dec_lvs r)
  | VInf false :: r => option_map (cons LNegInf) (dec_lvs r)
  | VNone :: r => option_map (cons LNaN) (dec_lvs r)
  | _ => None
  end.

Definition dec_l (v : val) : option ltens :=
  match v with
  | VTuple [VStr tag; VList sh; VList d] =>
      if String.eqb tag ltag then
        match dec_nats sh, dec_lvs d with Some s, Some x => Some (mkLT s x) | _, _ => None end
      else None
  | _ => None
  end.

Definition ret_l (why : string) (o : option ltens) (st : state) : outcome val :=
  match o with Some t => Ok (enc_l t) st | None => Stuck ("ext19mc: outside the modelled domain: " ++ why) end.

Definition nat_of_q' (q : Q) : nat := Z.to_nat (int_of_q q).

Section Ext.
  (* ratio and function tables (batch element, outcome), the proposals in call order (one outcome per batch element),
     the uniforms torch.rand returns (row n = step n) *)
  Variables (w f : nat -> nat -> Q) (props : list (list nat)) (us : list (list Q)).

  Definition per_elt (g : nat -> nat -> Q) (idx : list Q) : list Q :=
    map (fun ji => g (fst ji) (nat_of_q' (snd ji))) (combine (seq 0 (List.length idx)) idx).

  Definition ext19mc (fn : string) (args : list val) (kw : list (string * val)) (st : state) : outcome val :=
    if is fn "self.proposal.sample" then
      match args, kw with
      | [VList [VInt 1%Z]], [] =>
          let k := List.length (events st) in
          let d := nth k props [] in
          Ok (enc (mkTens [1%nat; List.length d] (map (fun i => inject_Z (Z.of_nat i)) d))) (emit ("proposal.sample", []) st)
      | _, _ => stuck "sample"
      end
    else if is fn "torch.rand" then
      match args with
      | [sz] => match dec_size sz with
                | Some [n; b] =>
                    if kw_ok kw && Nat.eqb (List.length us) n && forallb (fun r => Nat.eqb (List.length r) b) us
                    then Ok (enc (mkTens [n; b] (List.concat us))) st else stuck "rand"
                | _ => stuck "rand"
                end
      | _ => stuck "rand"
      end
    else if negb (match kw with [] => true | _ => false end) then stuck ("keyword arguments of " ++ fn)
    else if is fn "self.density.log_prob" then
      match args with
      | [s] => match dec s with
               | Some t => Ok (enc_l (mkLT (tshape t) (map lv_of_w (per_elt w (tdata t))))) st
               | None => stuck "log_prob"
               end
      | _ => stuck "log_prob"
      end
    else if is fn "self.proposal.log_prob" then
      match args with
      | [s] => match dec s with
               | Some t => Ok (enc_l (mkLT (tshape t) (map (fun _ => LFin 1) (tdata t)))) st
               | None => stuck "log_prob"
               end
      | _ => stuck "log_prob"
      end
    else if is fn "self.func" then
      match args with
      | [s] => match dec s with
               | Some t => Ok (enc (mkTens (tshape t) (per_elt f (tdata t)))) st
               | None => stuck "func"
               end
      | _ => stuck "func"
      end
    else if is fn "$method.log" then
      match args with [x] => match dec x with Some t => Ok (enc_l (log_t t)) st | None => stuck "log" end | _ => stuck "log" end
    else if is fn "$method.squeeze" then
      match args with
      | [x; VInt 0%Z] => match dec x with Some t => ret_tens "squeeze" (squeeze0 t) st | None => stuck "squeeze" end
      | _ => stuck "squeeze"
      end
    else if is fn "$invert" then
      match args with [x] => match dec x with Some t => Ok (enc (invert_t t)) st | None => stuck "invert" end | _ => stuck "invert" end
    else if is fn "torch.where" then
      match args with
      | [m; a; b] => match dec m, dec a, dec b with
                     | Some tm, Some ta, Some tb => ret_tens "where" (where_t tm ta tb) st
                     | _, _, _ => stuck "where"
                     end
      | _ => stuck "where"
      end
    else if is fn "$getitem" then
      match args with
      | [x; VInt n] => match dec_l x with Some t => ret_l "x[n]" (lrow t n) st | None => stuck "getitem" end
      | _ => stuck "getitem"
      end
    else if is fn "compare" then
      match args with
      | [VStr o; a; b] => match dec_l a, dec_l b with
                          | Some x, Some y => if is o "gt" then ret_tens "gt" (lgt_t x y) st else stuck "compare"
                          | _, _ => stuck "compare"
                          end
      | _ => stuck "compare"
      end
    else if is fn "operator" then
      match args with
      | [VStr o; a; b] =>
          match dec_l a, dec_l b, dec a, dec b with
          | Some x, Some y, _, _ =>
              if is o "sub" then ret_l "sub" (lsub_t x y) st
              else if is o "add" then ret_l "add" (ladd_t x y) st else stuck "operator"
          | None, Some y, Some m, _ => if is o "mul" then ret_l "mul" (bmul_t m y) st else stuck "operator"
          | None, None, Some x, None =>
              match scalar b with
              | Some c => if is o "truediv" then (if Qeq_bool c 0 then stuck "division by zero" else Ok (enc (op_s Qdiv x c)) st)
                          else stuck "operator"
              | None => ext_operator o a b st
              end
          | _, _, _, _ => ext_operator o a b st       (* tensor + tensor, size + size: as in ext19 *)
          end
      | _ => stuck "operator"
      end
    else if is fn "$attr.device" then
      match args with [x] => match dec x with Some _ => Ok device_token st | None => stuck "device" end | _ => stuck "device" end
    else stuck fn.
End Ext.

(* ---- the glue: `self`, the initial variables, the loop ------------------------------------------------------------- *)
Definition self_val (N burn : Z) (B : nat) : val :=
  VDict [(VStr "mc_samples", VInt N); (VStr "burn_in", VInt burn); (VStr "is_log", VBool false);
         (VStr "proposal", VDict [(VStr "batch_shape", enc_size [B])])].

Definition sample_val (s : list nat) : val := enc (mkTens [1%nat; List.length s] (map (fun i => inject_Z (Z.of_nat i)) s)).

Definition loop_locals : list (string * val) :=
  [("n", VNone); ("cur_sample", VNone); ("cur_ratio", VNone); ("accept", VNone); ("fb", VNone); ("$t1", VNone)].

Section Glue.
  Variable ext : string -> list val -> list (string * val) -> state -> outcome val.

  Definition exec_block (b : stmt) (st : state) : outcome state :=
    match exec ext b st with
    | Ok _ st' => Ok st' st'
    | Exc n st' => Exc n st'
    | Stuck s => Stuck s
    end.

  Fixpoint mh_loop (n : nat) (steps : nat) (st : state) : outcome state :=
    match steps with
    | O => Ok st st
    | S s =>
        bind (exec_block mh_accept (set_var "n" (VInt (Z.of_nat n)) st)) (fun st1 _ =>
          bind (exec_block mh_update st1) (fun st2 _ => mh_loop (S n) s st2))
    end.

  (* start = the initial sample (given, or found by the model's find_initial), N steps *)
  Definition mh_run (N burn : nat) (start : list nat) : outcome val :=
    let vars0 := [("self", self_val (Z.of_nat N) (Z.of_nat burn) (List.length start)); ("last_sample", sample_val start)] in
    match exec_block mh_init (mkState vars0 []) with
    | Ok st0 _ =>
        match mh_loop 0 N (mkState (vars st0 ++ loop_locals) (events st0)) with
        | Ok st1 _ => match exec ext mh_final st1 with
                      | Ok (CReturn v) st2 => Ok v st2
                      | Ok CNormal st2 => Ok VNone st2
                      | Exc n st2 => Exc n st2
                      | Stuck s => Stuck s
                      end
        | Exc n st1 => Exc n st1
        | Stuck s => Stuck s
        end
    | Exc n st0 => Exc n st0
    | Stuck s => Stuck s
    end.
End Glue.

(* same interface as Model.imh_check *)
Definition src_imh_check (tol : Q) (w f : list (list Q)) (given : option (list nat)) (draws : list (list nat))
  (tries : nat) (us : list (list Q)) (N burn : nat) (impl : option (list Q)) : bool :=
  let wt := fun j i => nth i (nth j w []) 0%Q in
  let ft := fun j i => nth i (nth j f []) 0%Q in
  let insupp := fun j i => negb (Qle_bool (wt j i) 0) in
  let start := match given with
               | Some s => Some (s, O)
               | None => Model.find_initial insupp draws tries
               end in
  match start, impl with
  | None, None => true
  | Some (s, used), Some vs =>
      match mh_run (ext19mc wt ft (firstn N (skipn used draws)) us) N burn s with
      | Ok v _ => match dec v with
                  | Some t => Nat.eqb (List.length (tdata t)) (List.length vs)
                              && forallb (fun xv => Model.close tol (fst xv) (snd xv)) (combine (tdata t) vs)
                  | None => false
                  end
      | _ => false
      end
  | _, _ => false
  end.
