(* C10 - slicing policies and slice-relative token chunks.

   Executable model of what the code does (no proofs in this file):
     src/pydrobert/torch/_feats.py::slice_spect_data              (policies fixed / ali / ref)
     src/pydrobert/torch/_feats.py::chunk_token_sequences_by_slices
     src/pydrobert/torch/command_line.py::_chunk_torch_spect_data_dir_do_work  (pure function on one utterance)

   The code is tensor code; the model keeps its structure: masks, nonzero(), Python slices x[:k] / x[k:]
   (a negative k wraps around), broadcasting comparisons, boolean-mask indexing, integer-index gathering,
   torch.stack, masked_select / masked_scatter_ on flat buffers.  Every such primitive that can raise in
   torch returns [None] here, so that "the call raises" is an outcome of the model.

   A [variant] selects, for each place where the code deviates from the documented behaviour, between the
   definition AS CODED (flag = true) and the REPAIRED one (flag = false); exactly one sub-expression changes
   per flag.  [as_coded] describes /repo today, [repaired] is what the property theorems are about.
     k1  chunk_token_sequences_by_slices:  chunked[..., 1:] += slices[..., 0]         (repaired: -=)
     d1  ali: sequence ends searched with  in_lens == arange(T)                         (repaired: arange(T + 1))
     d2  ref: default other_lens           ends[..., 1].gather(1, ...)  (always raises) (repaired: ends.gather(1, ...))
     d3  fixed, symmetric, not valid_only: TT = (T + half_shift) // shift               (repaired: number of mids < T)
     d4  ali, lobe > 0:                    x[: NN - offs] with NN - offs < 0 wraps      (repaired: x[: max(NN - offs, 0)])
     d5  directory driver with token-only (1-D) references: indexes an empty result     (repaired: empty chunk refs) *)
From Coq Require Import List ZArith Bool Arith.
Import ListNotations.
Local Open Scope Z_scope.

Inductive wtype := Symmetric | Causal | Future.

Record variant := mkV { k1 : bool; d1 : bool; d2 : bool; d3 : bool; d4 : bool; d5 : bool }.
Definition as_coded := mkV true true true true true true.
Definition repaired := mkV false false false false false false.

Notation token := (Z * Z * Z)%type (only parsing).          (* tok, start, end *)
Definition tk_tok (x : token) : Z := fst (fst x).
Definition tk_start (x : token) : Z := snd (fst x).
Definition tk_end (x : token) : Z := snd x.

Notation window := (Z * Z)%type (only parsing).             (* start (inclusive), end (exclusive) *)
(* result of the slicer: None = the call raises; Some [(slice_m, source_m)] in order *)
Definition sres := option (list (window * Z)).

(* ------------------------------------------------------------------------------------------ *)
(* tensor primitives                                                                          *)
(* ------------------------------------------------------------------------------------------ *)
Definition zlen {A} (l : list A) : Z := Z.of_nat (length l).
Definition b2z (b : bool) : Z := if b then 1 else 0.
Definition map2 {A B C} (f : A -> B -> C) (a : list A) (b : list B) : list C :=
  map (fun p => f (fst p) (snd p)) (combine a b).
Definition enumerate {A} (l : list A) : list (nat * A) := combine (seq 0 (length l)) l.

(* torch.arange(a, b, s) for s > 0 *)
Definition arange (a b s : Z) : list Z :=
  map (fun i => a + Z.of_nat i * s) (seq 0 (Z.to_nat ((b - a + s - 1) / s))).

(* mask.nonzero() of a 1-D / 2-D boolean tensor (row-major) *)
Fixpoint nonzero_from (i : Z) (l : list bool) : list Z :=
  match l with
  | [] => []
  | b :: t => if b then i :: nonzero_from (i + 1) t else nonzero_from (i + 1) t
  end.
Fixpoint nonzero2_from (n : Z) (m : list (list bool)) : list (Z * Z) :=
  match m with
  | [] => []
  | r :: m' => map (pair n) (nonzero_from 0 r) ++ nonzero2_from (n + 1) m'
  end.

(* x[k:] for k >= 0 and x[:k]; with [wrap] a negative k counts from the end, as in Python *)
Definition py_from {A} (k : Z) (l : list A) : list A := skipn (Z.to_nat k) l.
Definition py_upto {A} (wrap : bool) (k : Z) (l : list A) : list A :=
  if wrap && (k <? 0) then firstn (Z.to_nat (zlen l + k)) l else firstn (Z.to_nat k) l.

(* a == b with broadcasting of 1-D tensors *)
Definition bcast2 {A B C} (f : A -> B -> C) (a : list A) (b : list B) : option (list C) :=
  if Nat.eqb (length a) (length b) then Some (map2 f a b)
  else match a, b with
       | [x], _ => Some (map (f x) b)
       | _, [y] => Some (map (fun x => f x y) a)
       | _, _ => None
       end.
(* the right operand of an in-place operation on a 1-D tensor of size n *)
Definition bcast_to {A} (n : nat) (o : list A) : option (list A) :=
  if Nat.eqb (length o) n then Some o
  else match o with [x] => Some (repeat x n) | _ => None end.
(* x[mask] with a boolean mask: shapes must agree *)
Definition mask_index {A} (l : list A) (m : list bool) : option (list A) :=
  if Nat.eqb (length l) (length m) then Some (map fst (filter snd (combine l m))) else None.
(* x[idx] with a long tensor: bounds checked, negative indices wrap *)
Definition index1 (l : list Z) (i : Z) : option Z :=
  let n := zlen l in
  if (0 <=? i) && (i <? n) then Some (nth (Z.to_nat i) l 0)
  else if (- n <=? i) && (i <? 0) then Some (nth (Z.to_nat (n + i)) l 0)
  else None.
Fixpoint index_sel (l : list Z) (idx : list Z) : option (list Z) :=
  match idx with
  | [] => Some []
  | i :: t => match index1 l i, index_sel l t with
              | Some x, Some r => Some (x :: r)
              | _, _ => None
              end
  end.
(* torch.stack([starts, ends], 1) zipped with sources *)
Definition stack3 (starts ends sources : list Z) : sres :=
  if Nat.eqb (length starts) (length ends) && Nat.eqb (length starts) (length sources)
  then Some (combine (combine starts ends) sources) else None.

(* ------------------------------------------------------------------------------------------ *)
(* policy 'fixed'                                                                             *)
(* ------------------------------------------------------------------------------------------ *)
(* (start, end, mid) of the windows computed from T alone *)
Definition fixed_windows (v : variant) (T lobe : Z) (wt : wtype) (vo : bool) : list (Z * Z * Z) :=
  let shift := lobe + 1 in
  let ws := 2 * lobe + 1 in
  match wt, vo with
  | Symmetric, true =>
      map (fun s => (s, s + ws, s + ws - 1)) (arange 0 (Z.max (T - ws + 1) 0) shift)
  | Symmetric, false =>
      let half := shift / 2 in
      let TT := if d3 v then (T + half) / shift else (T - half + shift - 1) / shift in
      map (fun i => let mid := i * shift + half in (mid - ws / 2, mid - ws / 2 + ws, mid)) (arange 0 TT 1)
  | _, true =>
      map (fun s => (s, s + shift, s + shift - 1)) (arange 0 (Z.max (T - lobe) 0) shift)
  | Causal, false =>
      map (fun s => (s, s + shift, s + shift - 1)) (arange (- lobe) (T - lobe) shift)
  | Future, false =>
      map (fun s => (s, s + shift, s)) (arange 0 T shift)
  end.

Definition win_of (w : Z * Z * Z) : window := (fst (fst w), snd (fst w)).

Definition slice_fixed (v : variant) (N : nat) (T : Z) (in_lens : option (list Z))
           (wt : wtype) (vo : bool) (lobe : Z) : sres :=
  let ws := fixed_windows v T lobe wt vo in
  match in_lens with
  | None => Some (flat_map (fun n => map (fun w => (win_of w, Z.of_nat n)) ws) (seq 0 N))
  | Some ls =>
      if Nat.eqb (length ls) N then
        Some (flat_map (fun n => map (fun w => (win_of w, Z.of_nat n))
                                     (filter (fun w => nth n ls 0 >? snd w) ws)) (seq 0 N))
      else None
  end.

(* ------------------------------------------------------------------------------------------ *)
(* policy 'ali'                                                                               *)
(* ------------------------------------------------------------------------------------------ *)
(* per row: the mask whose nonzero() gives the segment starts, and the one that gives the ends *)
Definition ali_row_masks (v : variant) (T : nat) (row : list Z) (inl : option Z) : list bool * list bool :=
  let L := match inl with Some l => l | None => Z.of_nat T end in
  let chg := map (fun t => negb (nth (t - 1) row 0 =? nth t row 0)
                           && match inl with Some l => l >? Z.of_nat t | None => true end)
                 (seq 1 (T - 1)) in
  let nonempty := L >? 0 in
  let e0 := (false :: chg) ++ (if d1 v then [] else [false]) in
  (nonempty :: chg,
   map2 (fun t b => b || (nonempty && (L =? t))) (arange 0 (zlen e0) 1) e0).

Definition ali_masks (v : variant) (T : nat) (rows : list (list Z)) (in_lens : option (list Z))
  : list (list bool * list bool) :=
  map (fun nr => ali_row_masks v T (snd nr)
                   (match in_lens with None => None | Some ls => Some (nth (fst nr) ls 0) end))
      (enumerate rows).

(* start_idx[n:] -= offs   and   end_idx[:k] += offs *)
Definition sub_from (n : Z) (idx offs : list Z) : option (list Z) :=
  let tgt := py_from n idx in
  match bcast_to (length tgt) offs with
  | Some o => Some (firstn (Z.to_nat n) idx ++ map2 Z.sub tgt o)
  | None => None
  end.
Definition add_upto (wrap : bool) (k : Z) (idx offs : list Z) : option (list Z) :=
  let tgt := py_upto wrap k idx in
  match bcast_to (length tgt) offs with
  | Some o => Some (map2 Z.add tgt o ++ skipn (length tgt) idx)
  | None => None
  end.

(* for n in range(n0, n0 + fuel): ... *)
Fixpoint ali_loop (wrap : bool) (fuel : nat) (n : Z) (sources : list Z) (do_left do_right : bool)
         (sidx eidx : list Z) : option (list Z * list Z) :=
  match fuel with
  | O => Some (sidx, eidx)
  | S f =>
      let NN := zlen sources in
      match bcast2 (fun a b => b2z (a =? b)) (py_from n sources) (py_upto wrap (NN - n) sources) with
      | None => None
      | Some offs =>
          match (if do_left then sub_from n sidx offs else Some sidx) with
          | None => None
          | Some sidx' =>
              match (if do_right then add_upto wrap (NN - n) eidx offs else Some eidx) with
              | None => None
              | Some eidx' => ali_loop wrap f (n + 1) sources do_left do_right sidx' eidx'
              end
          end
      end
  end.

Definition do_left (wt : wtype) : bool := match wt with Future => false | _ => true end.
Definition do_right (wt : wtype) : bool := match wt with Causal => false | _ => true end.

(* the part of the 'ali' branch after starts / ends / sources are known *)
Definition ali_lobes (wrap : bool) (starts ends sources : list Z) (wt : wtype) (vo : bool) (lobe : Z) : sres :=
  if lobe =? 0 then stack3 starts ends sources
  else
    let NN := zlen starts in
    if vo then
      let offs := (b2z (do_left wt) + b2z (do_right wt)) * lobe in
      let A := py_upto wrap (NN - offs) sources in
      match bcast2 Z.eqb A (py_from offs sources) with
      | None => None
      | Some is_same =>
          match mask_index (py_upto wrap (NN - offs) starts) is_same,
                mask_index (py_from offs ends) is_same,
                mask_index A is_same with
          | Some s', Some e', Some src' => stack3 s' e' src'
          | _, _, _ => None
          end
      end
    else
      let idx := arange 0 NN 1 in
      match ali_loop wrap (Z.to_nat lobe) 1 sources (do_left wt) (do_right wt) idx idx with
      | None => None
      | Some (sidx, eidx) =>
          match index_sel starts sidx, index_sel ends eidx with
          | Some s', Some e' => stack3 s' e' sources
          | _, _ => None
          end
      end.

Definition slice_ali (v : variant) (T : nat) (rows : list (list Z)) (in_lens : option (list Z))
           (wt : wtype) (vo : bool) (lobe : Z) : sres :=
  if match in_lens with Some ls => negb (Nat.eqb (length ls) (length rows)) | None => false end then None
  else
    let masks := ali_masks v T rows in_lens in
    let st := nonzero2_from 0 (map fst masks) in
    let en := nonzero2_from 0 (map snd masks) in
    ali_lobes (d4 v) (map snd st) (map snd en) (map fst st) wt vo lobe.

(* ------------------------------------------------------------------------------------------ *)
(* policy 'ref'                                                                               *)
(* ------------------------------------------------------------------------------------------ *)
Definition ref_other_default (v : variant) (T : nat) (row : list token) (L : Z) : option Z :=
  if d2 v then None                                   (* ends[..., 1].gather(1, ...) raises *)
  else
    let i := Z.max (L - 1) 0 in
    if i <? Z.of_nat T then Some (if L =? 0 then 0 else tk_end (nth (Z.to_nat i) row (0, 0, 0)))
    else None.                                         (* gather index out of range *)

Definition ref_keep (wt : wtype) (vo : bool) (lobe L OL : Z) (t : nat) (x : token) : bool :=
  let s' := if do_left wt then tk_start x - lobe else tk_start x in
  let e' := if do_right wt then tk_end x + lobe else tk_end x in
  (L >? Z.of_nat t) && ((tk_start x >=? 0) && (tk_end x >=? 0))
  && (if vo then (s' >=? 0) && (e' <=? OL) else (e' >? 0) && (s' <? OL))
  && (s' <? e').

Definition ref_window (wt : wtype) (lobe : Z) (x : token) : window :=
  (if do_left wt then tk_start x - lobe else tk_start x,
   if do_right wt then tk_end x + lobe else tk_end x).

Definition ref_row (wt : wtype) (vo : bool) (lobe L OL : Z) (n : nat) (row : list token) : list (window * Z) :=
  map (fun tx => (ref_window wt lobe (snd tx), Z.of_nat n))
      (filter (fun tx => ref_keep wt vo lobe L OL (fst tx) (snd tx)) (enumerate row)).

Fixpoint ref_rows (v : variant) (T : nat) (wt : wtype) (vo : bool) (lobe : Z)
         (in_lens other_lens : option (list Z)) (n : nat) (rows : list (list token)) : sres :=
  match rows with
  | [] => Some []
  | row :: rest =>
      let L := match in_lens with Some ls => nth n ls 0 | None => Z.of_nat T end in
      match (match other_lens with Some os => Some (nth n os 0) | None => ref_other_default v T row L end),
            ref_rows v T wt vo lobe in_lens other_lens (S n) rest with
      | Some ol, Some r => Some (ref_row wt vo lobe L ol n row ++ r)
      | _, _ => None
      end
  end.

Definition slice_ref (v : variant) (T : nat) (rows : list (list token)) (in_lens other_lens : option (list Z))
           (wt : wtype) (vo : bool) (lobe : Z) : sres :=
  if match other_lens with Some os => negb (Nat.eqb (length os) (length rows)) | None => false end then None
  else if match other_lens, rows with None, [] => d2 v | _, _ => false end then None
  else ref_rows v T wt vo lobe in_lens other_lens 0 rows.

(* ------------------------------------------------------------------------------------------ *)
(* slice_spect_data                                                                           *)
(* ------------------------------------------------------------------------------------------ *)
(* the input tensor; its constructor is the policy.  T = input.size(1); rows all have length T *)
Inductive sinput :=
| InFixed (N : nat)
| InAli (rows : list (list Z))
| InRef (rows : list (list token)).

Definition slice_spect_data (v : variant) (T : nat) (inp : sinput) (in_lens other_lens : option (list Z))
           (wt : wtype) (vo : bool) (lobe : Z) : sres :=
  if Nat.eqb T 0 then Some []
  else if lobe <? 0 then None
  else match inp with
       | InFixed N => slice_fixed v N (Z.of_nat T) in_lens wt vo lobe
       | InAli rows => slice_ali v T rows in_lens wt vo lobe
       | InRef rows => slice_ref v T rows in_lens other_lens wt vo lobe
       end.

(* ------------------------------------------------------------------------------------------ *)
(* chunk_token_sequences_by_slices (3-dimensional refs)                                       *)
(* ------------------------------------------------------------------------------------------ *)
Definition tok_keep (partial : bool) (L : option Z) (sl : window) (r : nat) (x : token) : bool :=
  (match L with Some l => l >? Z.of_nat r | None => true end)
  && ((tk_start x >=? 0) && (tk_end x >=? 0)) && (tk_end x >=? tk_start x)
  && (if partial then (fst sl <? tk_end x) && (snd sl >? tk_start x)
      else (fst sl <=? tk_start x) && (snd sl >=? tk_end x)).

Definition tok_mask_row (partial : bool) (L : option Z) (sl : window) (row : list token) : list bool :=
  map (fun rx => tok_keep partial L sl (fst rx) (snd rx)) (enumerate row).

(* refs[mask]  (flat, row-major) *)
Definition masked_select {A} (rows : list (list A)) (mask : list (list bool)) : list A :=
  flat_map (fun rm => map fst (filter snd (combine (fst rm) (snd rm)))) (combine rows mask).

(* new_empty(...).masked_scatter_(mask, src): undefined entries are modelled by [dflt] *)
Fixpoint scatter_row {A} (dflt : A) (m : list bool) (src : list A) : list A * list A :=
  match m with
  | [] => ([], src)
  | false :: m' => let (r, rest) := scatter_row dflt m' src in (dflt :: r, rest)
  | true :: m' =>
      match src with
      | [] => let (r, rest) := scatter_row dflt m' [] in (dflt :: r, rest)
      | x :: s' => let (r, rest) := scatter_row dflt m' s' in (x :: r, rest)
      end
  end.
Fixpoint masked_scatter {A} (dflt : A) (mask : list (list bool)) (src : list A) : list (list A) :=
  match mask with
  | [] => []
  | m :: mask' => let (r, rest) := scatter_row dflt m src in r :: masked_scatter dflt mask' rest
  end.

Definition shift_tok (d : Z) (x : token) : token := (tk_tok x, tk_start x + d, tk_end x + d).

(* returns (chunked[n, :chunked_lens[n]] for every n, chunked_lens) *)
Definition chunk_tokens (v : variant) (refs : list (list token)) (slices : list window)
           (ref_lens : option (list Z)) (partial retain : bool) : list (list token) * list Z :=
  let R := match refs with [] => O | r :: _ => length r end in
  let mask := map (fun nrs => tok_mask_row partial
                                (match ref_lens with Some ls => Some (nth (fst nrs) ls 0) | None => None end)
                                (snd (snd nrs)) (fst (snd nrs)))
                  (enumerate (combine refs slices)) in
  let lens := map (fun m => zlen (filter (fun b => b) m)) mask in
  let flat := masked_select refs mask in
  let mask2 := map (fun l => map (fun r => l >? Z.of_nat r) (seq 0 R)) lens in
  let chunked := masked_scatter (0, 0, 0) mask2 flat in
  let shifted :=
      if retain then chunked
      else map2 (fun row sl => map (shift_tok (if k1 v then fst sl else - fst sl)) row) chunked slices in
  (map2 (fun row l => firstn (Z.to_nat l) row) shifted lens, lens).

(* ------------------------------------------------------------------------------------------ *)
(* chunk-torch-spect-data-dir: one utterance                                                  *)
(* ------------------------------------------------------------------------------------------ *)
Inductive policy := Fixed | Ali | Ref.
Inductive refdata := RefSeg (l : list token) | RefTok (l : list Z).
(* features: one integer per frame (the harness checks that the other columns move with it) *)
Record utt := mkUtt { u_feat : list Z; u_ali : option (list Z); u_ref : option refdata }.
Record chunk := mkChunk { c_win : window; c_feat : list Z; c_ali : option (list Z); c_ref : option (list token) }.

(* ChunkBySlices(mode='constant', value=c)(x.expand(M, ...), slices) followed by [n, :lens[n]]:
   modelled by its documented meaning (that function is property C09's subject) *)
Definition chunk_const (x : list Z) (c : Z) (sl : window) : list Z :=
  map (fun i => let t := fst sl + i in
                if (0 <=? t) && (t <? zlen x) then nth (Z.to_nat t) x c else c)
      (arange 0 (Z.max (snd sl - fst sl) 0) 1).

(* pad = None: --pad-mode not given (valid_only); Some c: --pad-mode constant --pad-constant c *)
Definition chunk_utt (v : variant) (p : policy) (wt : wtype) (pad : option Z) (lobe : Z)
           (partial retain : bool) (u : utt) : option (list chunk) :=
  let vo := match pad with None => true | Some _ => false end in
  let c := match pad with None => 0 | Some c => c end in
  let sl :=
      match p with
      | Fixed => slice_spect_data v (length (u_feat u)) (InFixed 1) None None wt vo lobe
      | Ali => match u_ali u with
               | Some a => slice_spect_data v (length a) (InAli [a]) None None wt vo lobe
               | None => None
               end
      | Ref => match u_ref u with
               | Some (RefSeg r) => slice_spect_data v (length r) (InRef [r]) None None wt vo lobe
               | Some (RefTok []) => Some []          (* T = 0 returns before the dimension check *)
               | _ => None
               end
      end in
  match sl with
  | None => None
  | Some sws =>
      let slices := map fst sws in
      let M := length slices in
      let refs : option (option (list (list token))) :=
          match u_ref u with
          | None => Some None
          | Some (RefSeg r) => Some (Some (fst (chunk_tokens v (repeat r M) slices None partial retain)))
          | Some (RefTok _) =>
              if d5 v then (if Nat.eqb M 0 then Some (Some []) else None)
              else Some (Some (repeat [] M))
          end in
      match refs with
      | None => None
      | Some rs =>
          Some (map (fun isl =>
                       mkChunk (snd isl) (chunk_const (u_feat u) c (snd isl))
                               (match u_ali u with Some a => Some (chunk_const a c (snd isl)) | None => None end)
                               (match rs with Some l => Some (nth (fst isl) l []) | None => None end))
                    (enumerate slices))
      end
  end.

(* ------------------------------------------------------------------------------------------ *)
(* correspondence entry points: compare an implementation outcome with the model              *)
(* ------------------------------------------------------------------------------------------ *)
Fixpoint list_eqb {A} (eqb : A -> A -> bool) (a b : list A) : bool :=
  match a, b with
  | [], [] => true
  | x :: a', y :: b' => eqb x y && list_eqb eqb a' b'
  | _, _ => false
  end.
Definition opt_eqb {A} (eqb : A -> A -> bool) (a b : option A) : bool :=
  match a, b with Some x, Some y => eqb x y | None, None => true | _, _ => false end.
Definition win_eqb (a b : window) : bool := (fst a =? fst b) && (snd a =? snd b).
Definition tok_eqb (a b : token) : bool :=
  (tk_tok a =? tk_tok b) && (tk_start a =? tk_start b) && (tk_end a =? tk_end b).
Definition sw_eqb (a b : window * Z) : bool := win_eqb (fst a) (fst b) && (snd a =? snd b).
Definition sres_eqb : sres -> sres -> bool := opt_eqb (list_eqb sw_eqb).
Definition toks_eqb (a b : list (list token) * list Z) : bool :=
  list_eqb (list_eqb tok_eqb) (fst a) (fst b) && list_eqb Z.eqb (snd a) (snd b).
Definition chunk_eqb (a b : chunk) : bool :=
  win_eqb (c_win a) (c_win b) && list_eqb Z.eqb (c_feat a) (c_feat b)
  && opt_eqb (list_eqb Z.eqb) (c_ali a) (c_ali b) && opt_eqb (list_eqb tok_eqb) (c_ref a) (c_ref b).
Definition dres_eqb : option (list chunk) -> option (list chunk) -> bool := opt_eqb (list_eqb chunk_eqb).

Definition check_slice v T inp in_lens other_lens wt vo lobe (impl : sres) : bool :=
  sres_eqb (slice_spect_data v T inp in_lens other_lens wt vo lobe) impl.
Definition check_tokens v refs slices ref_lens partial retain (impl : list (list token) * list Z) : bool :=
  toks_eqb (chunk_tokens v refs slices ref_lens partial retain) impl.
Definition check_utt v p wt pad lobe partial retain u (impl : option (list chunk)) : bool :=
  dres_eqb (chunk_utt v p wt pad lobe partial retain u) impl.

(* does the case depend on the choice between two variants? *)
Definition sens_slice v v' T inp in_lens other_lens wt vo lobe : bool :=
  negb (sres_eqb (slice_spect_data v T inp in_lens other_lens wt vo lobe)
                 (slice_spect_data v' T inp in_lens other_lens wt vo lobe)).
Definition sens_tokens v v' refs slices ref_lens partial retain : bool :=
  negb (toks_eqb (chunk_tokens v refs slices ref_lens partial retain)
                 (chunk_tokens v' refs slices ref_lens partial retain)).
Definition sens_utt v v' p wt pad lobe partial retain u : bool :=
  negb (dres_eqb (chunk_utt v p wt pad lobe partial retain u) (chunk_utt v' p wt pad lobe partial retain u)).
