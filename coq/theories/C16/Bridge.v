(* C16 — the executable run of the correspondence ([seg], [start], [run_schedule]) only visits
   disks of the relation [reach]; hence the boolean spec accepts the model's observations. *)
From Coq Require Import List Arith Bool ZArith Lia.
From PV Require Import C16.Model C16.Spec C16.Proofs C16.Hist C16.Safety.
Import ListNotations.

Definition cn_of (x : disk * nat * outcome * list logent) : nat := snd (fst (fst x)).
Definition oc_of (x : disk * nat * outcome * list logent) : outcome := snd (fst x).
Definition lg_of (x : disk * nat * outcome * list logent) : list logent := snd x.

Lemma wfh_attempt_eq P E d n cn tr va rest :
  wfh E d n -> skipn n (ms E) = (tr, va) :: rest ->
  attempt P E d cn = Some (update_ops P d (csv d) tr va cn (pv E cn) (ro E cn)).
Proof.
  intros Hw Es. destruct (wfh_cache E d n Hw) as [Hc Hl].
  unfold attempt. rewrite Hc, Hl, Es. reflexivity.
Qed.

Lemma seg_reach P E rest : forall d cn b n,
  reach P E d cn -> wfh E d n -> skipn n (ms E) = rest ->
  reach P E (disk_of (seg P E rest d (csv d) cn b)) (cn_of (seg P E rest d (csv d) cn b)).
Proof.
  induction rest as [|[tr va] rest IH]; intros d cn b n Hre Hw Es; [exact Hre|].
  pose proof (wfh_attempt_eq P E d n cn tr va rest Hw Es) as Ha.
  cbn [seg].
  destruct (update_ops P d (csv d) tr va cn (pv E cn) (ro E cn)) as [[ops r]|] eqn:U; [|exact Hre].
  destruct (match b with Some b0 => Nat.ltb b0 (length ops) | None => false end).
  - cbn. apply (reach_step P E d cn ops r _ Hre Ha).
  - pose proof (reach_step P E d cn ops r (length ops) Hre Ha) as Hre'. rewrite firstn_all in Hre'.
    pose proof (wfh_step P E d n cn ops r (length ops) Hw Ha) as Hws. cbv zeta in Hws.
    rewrite firstn_all in Hws.
    pose proof (update_ops_appends _ _ _ _ _ _ _ _ _ _ U) as [Hr Happ].
    assert (Hcsv : csv (apply_ops d ops) = csv d ++ [r]) by (rewrite apply_ops_csv, Happ; reflexivity).
    destruct Hws as [[Hc0 _]|[_ [Hw' He]]].
    { rewrite Hcsv in Hc0. apply (f_equal (@length _)) in Hc0. rewrite app_length in Hc0. cbn in Hc0. lia. }
    assert (Hcache : cache_set r (csv d) = csv (apply_ops d ops)).
    { rewrite Hcsv. apply cache_set_fresh. rewrite (wfh_epochs E d n Hw), He.
      intros Hin. apply in_seq in Hin. lia. }
    rewrite Hcache.
    specialize (IH (apply_ops d ops) (S cn)
                   (match b with Some b0 => Some (b0 - length ops) | None => None end) (S n)
                   Hre' Hw' (skipn_cons_S n (ms E) (tr, va) rest Es)).
    destruct (seg P E rest (apply_ops d ops) (csv (apply_ops d ops)) (S cn) _) as [[[d'' cn''] oc] lg].
    exact IH.
Qed.

Lemma start_reach P E d cn b :
  reach P E d cn -> reach P E (disk_of (start P E d cn b)) (cn_of (start P E d cn b)).
Proof.
  intros Hre. destruct (reach_wfh P E d cn Hre) as [n Hw].
  destruct (wfh_cache E d n Hw) as [Hc Hl].
  unfold start. rewrite Hc, Hl. apply (seg_reach P E _ d cn b n Hre Hw eq_refl).
Qed.

Lemma run_schedule_reach P E crashes : forall d cn,
  reach P E d cn -> forall o, In o (run_schedule P E d cn crashes) ->
  exists d' cn', reach P E d' cn' /\ o = observe P d' (o_outcome o) (o_log o).
Proof.
  induction crashes as [|b more IH]; intros d cn Hre o Hin; cbn [run_schedule] in Hin.
  - pose proof (start_reach P E d cn None Hre) as H.
    destruct (start P E d cn None) as [[[d' cn'] oc] lg]. cbn in H.
    destruct Hin as [<-|[]]. exists d', cn'. split; [exact H|reflexivity].
  - pose proof (start_reach P E d cn (Some b) Hre) as H.
    destruct (start P E d cn (Some b)) as [[[d' cn'] oc] lg]. cbn in H.
    destruct Hin as [<-|Hin]; [exists d', cn'; split; [exact H|reflexivity]|].
    destruct oc; try (destruct Hin). apply (IH d' cn' H o Hin).
Qed.

Lemma run_observes_reachable P E crashes o :
  In o (run_schedule P E empty_disk 0 crashes) ->
  exists d cn, reach P E d cn /\ o = observe P d (o_outcome o) (o_log o).
Proof. apply run_schedule_reach. apply reach_init. Qed.

(* ---------- the boolean spec on such observations ---------------------------- *)

Lemma hrow_eqb_refl x : hrow_eqb x x = true.
Proof. unfold hrow_eqb. rewrite Nat.eqb_refl, !Z.eqb_refl. reflexivity. Qed.

Lemma list_eqb_refl {A} (eqb : A -> A -> bool) (l : list A) :
  (forall x, eqb x x = true) -> list_eqb eqb l l = true.
Proof. intros H. induction l as [|x t IH]; cbn; [reflexivity|]. rewrite H, IH. reflexivity. Qed.

Lemma fold_max_seq n : forall a, fold_right Nat.max 0 (seq a n) = match n with 0 => 0 | _ => a + n - 1 end.
Proof.
  induction n as [|n IH]; intros a; [reflexivity|]. cbn [seq fold_right]. rewrite IH.
  destruct n; lia.
Qed.

Lemma find_row_nodup (l : list row) r e :
  NoDup (map r_epoch l) -> In r l -> r_epoch r = e ->
  find (fun x => Nat.eqb (r_epoch x) e) l = Some r.
Proof.
  induction l as [|x t IH]; intros Hnd Hin He; [destruct Hin|]. cbn [find map] in *.
  apply NoDup_cons_iff in Hnd as [Hx Hnd].
  destruct Hin as [->|Hin].
  - rewrite He, Nat.eqb_refl. reflexivity.
  - destruct (Nat.eqb (r_epoch x) e) eqn:E.
    + apply Nat.eqb_eq in E. exfalso. apply Hx. rewrite E, <- He. apply in_map; exact Hin.
    + apply IH; assumption.
Qed.

Lemma find_loads {B} (g : nat -> B) e : forall a len, a <= e < a + len ->
  find (fun x : nat * B => Nat.eqb (fst x) e) (map (fun i => (i, g i)) (seq a len)) = Some (e, g e).
Proof.
  intros a len; revert a; induction len as [|len IH]; intros a H; [lia|].
  cbn [seq map find fst]. destruct (Nat.eqb a e) eqn:E.
  - apply Nat.eqb_eq in E; subst; reflexivity.
  - apply Nat.eqb_neq in E. apply IH. lia.
Qed.

Lemma loads_ok_observe P E d n oc lg e :
  wfh E d n -> 1 <= e <= n -> stored P d e -> loads_ok (observe P d oc lg) e = true.
Proof.
  intros Hw He (r & Hin & Hre & Hf).
  destruct (wfh_cache E d n Hw) as [Hc Hl].
  unfold loads_ok, observe. cbn [o_hist o_loads]. rewrite Hc, Hl.
  rewrite (find_row_nodup (csv d) r e); [|rewrite (wfh_epochs E d n Hw); apply seq_NoDup|exact Hin|exact Hre].
  rewrite (find_loads (load P d) e 1 n) by lia.
  unfold load. rewrite !Hf, Z.eqb_refl. reflexivity.
Qed.

(* get_best_epoch's fold computes the declarative best epoch: the earliest recorded epoch
   whose metric no recorded epoch beats *)
Definition Best (b : bool) (c : cache) (be : nat) (bm : option Z) : Prop :=
  (c = [] /\ be = 0 /\ bm = None) \/
  (exists r, In r c /\ r_epoch r = be /\ bm = Some (met b r) /\
             (forall r', In r' c -> (met b r <= met b r')%Z) /\
             (forall r', In r' c -> r_epoch r' < be -> (met b r < met b r')%Z)).

Lemma best_state_snoc b c x : best_state b (c ++ [x]) = best_step b (best_state b c) x.
Proof. unfold best_state. rewrite fold_left_app. reflexivity. Qed.

Lemma best_state_spec b : forall n a c, map r_epoch c = seq a n ->
  Best b c (fst (best_state b c)) (snd (best_state b c)).
Proof.
  induction n as [|n IH]; intros a c Hc.
  - destruct c; [|discriminate]. left. repeat split.
  - rewrite seq_snoc in Hc.
    destruct (exists_last (l := c)) as [c' [x ->]].
    { intros ->. cbn in Hc. destruct (seq a n); discriminate. }
    rewrite map_app in Hc. cbn [map] in Hc. apply app_inj_tail in Hc as [Hc' Hx].
    assert (Hlt : forall r', In r' c' -> r_epoch r' < r_epoch x).
    { intros r' Hin. apply (in_map r_epoch) in Hin. rewrite Hc' in Hin. apply in_seq in Hin. lia. }
    specialize (IH a c' Hc'). rewrite best_state_snoc.
    destruct (best_state b c') as [be bm]. cbn [fst snd] in IH. unfold best_step. cbn [snd].
    right. destruct IH as [(-> & -> & ->)|(r & Hin & Hre & -> & Hle & Hlt')].
    + cbn [lt_inf fst snd]. exists x. repeat split; try (apply in_or_app; right; left; reflexivity).
      * intros r' [[]|[<-|[]]]%in_app_or. lia.
      * intros r' [[]|[<-|[]]]%in_app_or. lia.
    + cbn [lt_inf]. destruct (Z.ltb (met b x) (met b r)) eqn:E; cbn [fst snd].
      * apply Z.ltb_lt in E. exists x. repeat split; try (apply in_or_app; right; left; reflexivity).
        -- intros r' [Hr'|[<-|[]]]%in_app_or; [specialize (Hle r' Hr')|]; lia.
        -- intros r' [Hr'|[<-|[]]]%in_app_or Hlt2; [specialize (Hle r' Hr')|]; lia.
      * apply Z.ltb_ge in E. exists r. repeat split; try assumption; try (apply in_or_app; left; exact Hin).
        -- intros r' [Hr'|[<-|[]]]%in_app_or; [apply Hle; exact Hr'|lia].
        -- intros r' [Hr'|[<-|[]]]%in_app_or Hlt2; [apply Hlt'; assumption|].
           specialize (Hlt r Hin). lia.
Qed.

Lemma best_epoch_is_best b c n : map r_epoch c = seq 1 n -> is_best_b b c (best_epoch b c) = true.
Proof.
  intros Hc. pose proof (best_state_spec b n 1 c Hc) as H. unfold best_epoch. fold (best_state b c).
  destruct H as [(-> & _ & _)|(r & Hin & Hre & _ & Hle & Hlt)]; [reflexivity|].
  unfold is_best_b. destruct c as [|y t]; [destruct Hin|].
  apply existsb_exists. exists r. split; [exact Hin|].
  rewrite Hre, Nat.eqb_refl. cbn [andb]. apply andb_true_iff; split; apply forallb_forall; intros r' Hr'.
  - apply Z.leb_le, Hle, Hr'.
  - destruct (Nat.ltb (r_epoch r') (fst (best_state b (y :: t)))) eqn:E; [|reflexivity].
    apply Nat.ltb_lt in E. cbn [negb orb]. apply Z.ltb_lt, Hlt; assumption.
Qed.

Lemma spec_accepts_model_klb P E crashes o :
  epf P -> klb P = true ->
  In o (run_schedule P E empty_disk 0 crashes) ->
  p_last o = true /\ p_best P o = true /\ p_prefix (csv (final P E empty_disk 0)) o = true.
Proof.
  intros Hep Hk Hin.
  destruct (run_observes_reachable P E crashes o Hin) as (d & cn & Hre & ->).
  destruct (reach_wfh P E d cn Hre) as [n Hw].
  destruct (wfh_cache E d n Hw) as [Hc Hl].
  split; [|split].
  - unfold p_last. cbn [observe o_last o_hist]. rewrite Hc, Hl.
    unfold spec_last. rewrite (wfh_epochs E d n Hw), fold_max_seq.
    destruct n as [|n']; [reflexivity|].
    replace (1 + S n' - 1) with (S n') by lia. rewrite Nat.eqb_refl. cbn [andb orb Nat.eqb].
    apply (loads_ok_observe P E d (S n')); [exact Hw|lia|].
    apply (crash_last_and_best_loadable P E d cn Hep Hk Hre); [lia|].
    left. unfold seen_last. rewrite Hc, Hl. reflexivity.
  - unfold p_best. cbn [observe o_best o_hist]. rewrite Hc.
    rewrite (best_epoch_is_best (bt P) (csv d) n (wfh_epochs E d n Hw)). cbn [andb].
    destruct (Nat.eqb (best_epoch (bt P) (csv d)) 0) eqn:E0; [reflexivity|]. cbn [orb].
    apply Nat.eqb_neq in E0.
    pose proof (best_epoch_le (bt P) (csv d) n (wfh_epochs E d n Hw)) as Hle.
    apply (loads_ok_observe P E d n); [exact Hw|lia|].
    apply (crash_last_and_best_loadable P E d cn Hep Hk Hre); [lia|].
    right. unfold seen_best. rewrite Hc. reflexivity.
  - unfold p_prefix, prefix_b. cbn [observe o_hist].
    rewrite map_length. rewrite <- (crash_history_is_prefix P E d cn Hre).
    apply list_eqb_refl, hrow_eqb_refl.
Qed.
