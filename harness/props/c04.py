"""C04 — beam search: correspondence between /repo's BeamSearch / beam_search_advance and PV.C04.Model.

Two observation points (the property's observe_at):
  * pydrobert.torch.modules.BeamSearch.__call__ with a STATEFUL test language model whose state lives in
    `prev` and is re-ordered only by the library's call of extract_by_src (regime T: the rows of
    log_softmax'ed log-probabilities are computed by torch in float64 and handed to the model as exact
    integers on a binary grid; scores are compared with tolerance 1e-9; cases in which any top-k decision
    of the model is closer than 1e-6 are counted and skipped);
  * pydrobert.torch.functional.beam_search_advance on dyadic scores (regime E, exact comparison).
An extreme-magnitude stream (gen_extreme) uses logits scaled by 100..1000, shifted by +-100..1000 or dominated by
one entry, in float32 and float64 (tolerance/margin from the rounding bound of the sums, _tol_margin).
A composite-LM stream (gen_fused) hands BeamSearch the library's shallow-fusion wrappers over parts of different classes /
state layouts; the model sees the equivalent single state machine (product of the parts, Chinese remainders).
Every BeamSearch output is also judged by the Coq spec checker (PV.C04.Spec.spec_okb), which involves no
beam-search model, and by the batch-independence relation (each element searched alone).
"""
import itertools
import json
import math
from fractions import Fraction

import torch

from vlib import cb, cl, clz, cn, co, cp, cz, coq_eval_bools, coq_eval_print, exc_kind, shrink, load_corpus

IMPORTS = "From PV Require Import C04.Model C04.Spec.\n"
CAP = 9            # watchdog: the test LM refuses idx >= CAP (only reachable with max_iters=None)
NINF = -float("inf")
TOL = 1e-9
THEOREMS = ["c04_search_refines", "c04_beam_invariant", "c04_beam_shape", "c04_beam_scores_chain",
            "c04_beam_paths_distinct", "c04_beam_eos_first", "c04_beam_sorted_inf_last",
            "c04_beam_exhaustive_when_wide", "c04_beam_batch_independent"]


# ----------------------------------------------------------------------------------------------------
# the stateful test language model
# ----------------------------------------------------------------------------------------------------
_LM_CLS = None


def _lm_class():
    global _LM_CLS
    if _LM_CLS is None:
        from pydrobert.torch.modules import ExtractableSequentialLanguageModel

        class HashLM(ExtractableSequentialLanguageModel):
            """state s in 0..M-1 (kept twice: as 's' (N,) and inside 'aux' (N,2), both must be re-ordered);
            idx 0: s stays; idx t>0: s <- (a*s + b*hist[t-1] + c) mod M; logits = table[s]."""

            def __init__(self, V, M, a, b, c, table):
                super().__init__(V)
                self.M, self.a, self.b, self.c = M, a, b, c
                self.table = table
                self.max_idx = -1

            def calc_idx_log_probs(self, hist, prev, idx):
                t = int(idx)
                self.max_idx = max(self.max_idx, t)
                if t >= CAP:
                    raise _Watchdog()
                if t > hist.size(0):
                    # documented contract of calc_idx_log_probs: idx in [0, hist.size(0)]
                    raise _IdxContract(f"idx {t} > hist.size(0) {hist.size(0)}")
                s = prev["s"]
                assert torch.equal(prev["aux"][:, 1], s), "test LM: aux and s out of step"
                if t > 0:
                    tok = hist[t - 1]
                    assert ((tok >= 0) & (tok < self.vocab_size)).all(), "history outside the vocabulary"
                    s = (self.a * s + self.b * tok + self.c) % self.M
                return self.table[s], {"s": s, "aux": torch.stack([s * 0 + t, s], 1)}

            def extract_by_src(self, prev, src):
                return {"s": prev["s"].index_select(0, src), "aux": prev["aux"].index_select(0, src)}

            def update_input(self, prev, hist):
                # initial_state omitted / None / {} (variant "noinit"): every element starts in state 0
                if len(prev):
                    return prev
                s = torch.zeros(hist.size(1), dtype=torch.long)
                return {"s": s, "aux": torch.stack([s * 0, s], 1)}

        class ViewHashLM(HashLM):
            """the same function of (state, history); every tensor it hands to the library is a NON-CONTIGUOUS
            view: logits = every second column of a (M, 2V) buffer with junk in between, the state vector a
            stride-2 slice, aux a transposed (2, N) tensor."""

            def __init__(self, V, M, a, b, c, table):
                super().__init__(V, M, a, b, c, table)
                junk = torch.full_like(table, 12345.0)
                self.table2 = torch.stack([table, junk], 2).flatten(1)      # (M, 2V): t0 j t1 j ...

            def calc_idx_log_probs(self, hist, prev, idx):
                _, nxt = super().calc_idx_log_probs(hist, prev, idx)
                s, t = nxt["s"], int(idx)
                logits = self.table2[s][:, ::2]
                s_view = torch.stack([s, s * 0 - 7], 1)[:, 0]
                aux = torch.stack([s * 0 + t, s], 0).t()
                assert not aux.is_contiguous() or aux.numel() <= 2
                return logits, {"s": s_view, "aux": aux}

        class AliasHashLM(HashLM):
            """the same function of (state, history); what differs is the IDENTITY of what the callbacks hand back (all of it
            legal: the contract only says `next_` is "a dictionary of tensors representing the updated state"), flags `al`:
            ret  = "same": the new state is stored INTO the dictionary received and that very dictionary is returned
                   (prev["s"] = s; return log_probs, prev) | "copy": stored into the argument AND a shallow copy returned |
                   "fresh": a new dictionary;
            inplace: the state tensors are overwritten in place (own clones made by update_input, so the caller's tensors are never
                   touched): dictionary AND tensor identity both say "nothing changed";
            cache: the logits handed back ARE a state entry ("lp", the same tensor object); checked at the next call: the library
                   may re-order the state through extract_by_src only, never write into it;
            xid  : extract_by_src returns its argument itself when src is the identity;
            upd  = "same" | "copy" (a given initial state is returned as it is / in a new dictionary) | "mutate" (a missing
                   state is inserted into the dictionary received, which is returned)."""

            def __init__(self, V, M, a, b, c, table, al):
                super().__init__(V, M, a, b, c, table)
                self.al = al

            def update_input(self, prev, hist):
                al = self.al
                if "s" in prev:
                    if al.get("inplace"):
                        return prev if prev.get("own") is not None else dict({k: v.clone() for k, v in prev.items()}, own=torch.tensor(1))
                    return dict(prev) if al.get("upd") == "copy" else prev
                new = super().update_input({}, hist)
                if al.get("inplace"):
                    new["own"] = torch.tensor(1)
                if al.get("upd") == "mutate":
                    prev.update(new)
                    return prev
                return new

            def calc_idx_log_probs(self, hist, prev, idx):
                al = self.al
                if "lp" in prev:
                    assert torch.equal(prev["lp"], self.table[prev["s"]]), "test LM: a tensor of the state was written into between calls"
                logits, nxt = super().calc_idx_log_probs(hist, prev, idx)
                if al.get("inplace"):
                    assert prev.get("own") is not None, "test LM: state not initialised by update_input"
                    prev["s"].copy_(nxt["s"])
                    prev["aux"].copy_(nxt["aux"])
                    nxt = {"s": prev["s"], "aux": prev["aux"], "own": prev["own"]}
                if al.get("cache"):
                    if al.get("inplace") and "lp" in prev:
                        prev["lp"].copy_(logits)
                        logits = prev["lp"]
                    nxt["lp"] = logits
                if al.get("ret") == "fresh":
                    return logits, nxt
                prev.update(nxt)
                return logits, (prev if al.get("ret") == "same" else dict(prev))

            def extract_by_src(self, prev, src):
                if self.al.get("xid") and src.numel() == prev["s"].numel() and torch.equal(src, torch.arange(src.numel())):
                    return prev
                return {k: (v if v.dim() == 0 else v.index_select(0, src)) for k, v in prev.items()}

        _LM_CLS = HashLM
        _LM_CLS.View = ViewHashLM
        _LM_CLS.Alias = AliasHashLM
    return _LM_CLS


_SLM_CLS = None


def _slm_class():
    """TorchScript-compatible twin of HashLM (the library's own tests script BeamSearch with a scripted LM):
    same state machine, errors signalled by RuntimeError with a marker in the message."""
    global _SLM_CLS
    if _SLM_CLS is None:
        from typing import Dict, Tuple
        from pydrobert.torch.modules import ExtractableSequentialLanguageModel

        class SHashLM(ExtractableSequentialLanguageModel):
            def __init__(self, V: int, M: int, a: int, b: int, c: int, table: torch.Tensor, cap: int, same_dict: bool = False):
                super().__init__(V)
                self.M, self.a, self.b, self.c, self.cap = M, a, b, c, cap
                self.same_dict = same_dict      # store the new state into the dictionary received and return that dictionary
                self.register_buffer("table", table)

            @torch.jit.export
            def update_input(self, prev: Dict[str, torch.Tensor], hist: torch.Tensor) -> Dict[str, torch.Tensor]:
                if len(prev):
                    return prev
                s = torch.zeros(hist.size(1), dtype=torch.long)
                return {"s": s, "aux": torch.stack([s * 0, s], 1)}

            @torch.jit.export
            def calc_idx_log_probs(self, hist: torch.Tensor, prev: Dict[str, torch.Tensor],
                                   idx: torch.Tensor) -> Tuple[torch.Tensor, Dict[str, torch.Tensor]]:
                t = int(idx.item())
                if t >= self.cap:
                    raise RuntimeError("c04-watchdog")
                if t > hist.size(0):
                    raise RuntimeError("c04-idx-contract")
                s = prev["s"]
                if not torch.equal(prev["aux"][:, 1], s):
                    raise RuntimeError("c04-lm-assert: aux and s out of step")
                if t > 0:
                    tok = hist[t - 1]
                    if not bool(((tok >= 0) & (tok < self.vocab_size)).all()):
                        raise RuntimeError("c04-lm-assert: history outside the vocabulary")
                    s = (self.a * s + self.b * tok + self.c) % self.M
                if self.same_dict:
                    prev["s"] = s
                    prev["aux"] = torch.stack([s * 0 + t, s], 1)
                    return self.table[s], prev
                return self.table[s], {"s": s, "aux": torch.stack([s * 0 + t, s], 1)}

            @torch.jit.export
            def extract_by_src(self, prev: Dict[str, torch.Tensor], src: torch.Tensor) -> Dict[str, torch.Tensor]:
                return {"s": prev["s"].index_select(0, src), "aux": prev["aux"].index_select(0, src)}

        _SLM_CLS = SHashLM
    return _SLM_CLS


class _Watchdog(Exception):
    pass


class _IdxContract(Exception):
    pass


class _HarnessError(Exception):
    """an inconsistent case (generator / replay file), never a verdict on the implementation"""


# ----------------------------------------------------------------------------------------------------
# composite language models of the library (shallow fusion) over parts of different classes / state layouts
#
# Every part is a state machine over Z_Mi (s <- (ai*s + bi*token + ci) mod Mi, logits = table_i[s]) with pairwise coprime
# Mi, so (Chinese remainder theorem) the fused model IS a hash machine over Z_(M1*M2*..) with a, b, c = CRT of the parts'
# and table[s] = sum_i coef_i * table_i[s mod Mi] (coef = product of the dyadic betas on the way to the leaf: exact in
# float64).  The case carries that product machine in the usual fields (M, a, b, c, table, unit, inits): the Coq terms
# (check_search / spec_okb, which chain the log-probabilities AFRESH along each history) are the ones of a plain case;
# case["fuse"] only says how the implementation is reached: which library wrapper classes, prefixes, nesting, and for each
# part its class, state key names, state layout (batch dimension 0 / 1 / last / none), statefulness and strictness.
# ----------------------------------------------------------------------------------------------------
#          layout -> {key suffix: batch dimension of that tensor (None: no batch dimension)}
LAYOUTS = {"n": {"": 0},                 # (N,) long
           "n2": {"": 0},                # (N, 2) long: step counter, state
           "ln": {"": 1},                # (2, N) long: state, state + 1           (torch.nn.GRU-like: batch on dim 1)
           "nh": {"": 0},                # (N, M) float64 one-hot                  (GRUCell-like)
           "1nh": {"": 1},               # (1, N, M) float64 one-hot               (GRU-like: layers, batch, hidden)
           "hn": {"": 1},                # (M, N) long one-hot, non-contiguous     (batch on the last dim)
           "two": {"": 0, "_t": 0},      # two tensors (N,), (N,)
           "mixed": {"": 0, "_T": 1},    # two tensors with different batch dims: (N,), (2, N)
           "scalar": {"": 0, "_step": None}}   # (N,) and a 0-dim step counter that has no batch dimension
_PART_CLS = None


def _part_classes():
    global _PART_CLS
    if _PART_CLS is None:
        from pydrobert.torch.modules import MixableSequentialLanguageModel

        class PartLM(MixableSequentialLanguageModel):
            """hash machine over Z_M whose state lives in prev under `key` (+ suffixes) in one of LAYOUTS.
            strict: reads exactly its own keys (KeyError when one is missing), checks shapes, redundancy and the step
            counter.  lenient (the base class's recommendation): re-runs update_input defensively - a missing state is
            re-created as the initial one - and re-orders whatever tensors it is handed."""

            def __init__(self, V, M, a, b, c, table, layout, key, strict, alias=None):
                super().__init__(V)
                self.M, self.a, self.b, self.c, self.table = M, a, b, c, table
                self.layout, self.key, self.strict, self.dims = layout, key, strict, LAYOUTS[layout]
                # alias: "same" = the new state is stored into the dictionary received, which is returned; "copy" = stored
                # into it and a shallow copy returned; None = a new dictionary (stream lm-aliasing)
                self.alias = alias

            def enc(self, s, t):
                k, lay = self.key, self.layout
                if lay == "n":
                    return {k: s}
                if lay == "n2":
                    return {k: torch.stack([s * 0 + t, s], 1)}
                if lay == "ln":
                    return {k: torch.stack([s, s + 1], 0)}
                oh = torch.nn.functional.one_hot(s, self.M)
                if lay == "nh":
                    return {k: oh.double()}
                if lay == "1nh":
                    return {k: oh.double().unsqueeze(0)}
                if lay == "hn":
                    return {k: oh.t()}
                if lay == "two":
                    return {k: s, k + "_t": s * 0 + t}
                if lay == "mixed":
                    return {k: s, k + "_T": torch.stack([s * 0 + t, s], 0)}
                return {k: s, k + "_step": torch.tensor(t)}

            def dec(self, prev, N, t):
                k, lay, M = self.key, self.layout, self.M
                x = prev[k]
                step = None

                def need(cond, what):
                    assert cond, "test LM part %r (%s): %s" % (k, lay, what)
                if lay in ("n", "two", "mixed", "scalar"):
                    need(tuple(x.shape) == (N,), "state of shape %s for a batch of %d" % (tuple(x.shape), N))
                    s = x
                    if lay == "two":
                        y = prev[k + "_t"]
                        need(tuple(y.shape) == (N,), "step tensor of shape %s" % (tuple(y.shape),))
                        step = y
                    elif lay == "mixed":
                        y = prev[k + "_T"]
                        need(tuple(y.shape) == (2, N), "second tensor of shape %s" % (tuple(y.shape),))
                        need(torch.equal(y[1], s), "the two state tensors are out of step")
                        step = y[0]
                    elif lay == "scalar":
                        y = prev[k + "_step"]
                        need(y.dim() == 0, "step counter of shape %s" % (tuple(y.shape),))
                        step = y.expand(N)
                elif lay == "n2":
                    need(tuple(x.shape) == (N, 2), "state of shape %s for a batch of %d" % (tuple(x.shape), N))
                    s, step = x[:, 1], x[:, 0]
                elif lay == "ln":
                    need(tuple(x.shape) == (2, N), "state of shape %s for a batch of %d" % (tuple(x.shape), N))
                    s = x[0]
                    need(torch.equal(x[1], s + 1), "the two rows of the state are out of step")
                else:
                    shp = {"nh": (N, M), "1nh": (1, N, M), "hn": (M, N)}[lay]
                    need(tuple(x.shape) == shp, "state of shape %s, expected %s" % (tuple(x.shape), shp))
                    oh = x[0] if lay == "1nh" else x.t() if lay == "hn" else x
                    need(bool(((oh == 0) | (oh == 1)).all()) and bool((oh.sum(1) == 1).all()), "state is not one-hot")
                    s = oh.argmax(1)
                need(bool(((s >= 0) & (s < M)).all()), "state outside 0..M-1")
                if self.strict and step is not None:
                    need(bool((step == max(t - 1, 0)).all()), "step counter %s at idx %d" % (step.tolist(), t))
                return s.long()

            def update_input(self, prev, hist):
                have = [self.key + sfx in prev for sfx in self.dims]
                if all(have):
                    return prev
                if any(have) and self.strict:
                    raise KeyError("test LM part %r: only some of its state tensors are present" % self.key)
                return self.enc(torch.zeros(hist.size(1), dtype=torch.long), 0)

            def calc_idx_log_probs(self, hist, prev, idx):
                t = int(idx)
                if t >= CAP:
                    raise _Watchdog()
                if t > hist.size(0):
                    raise _IdxContract(f"idx {t} > hist.size(0) {hist.size(0)}")
                if not self.strict:
                    prev = self.update_input(prev, hist)
                s = self.dec(prev, hist.size(1), t)
                if t > 0:
                    tok = hist[t - 1]
                    assert ((tok >= 0) & (tok < self.vocab_size)).all(), "history outside the vocabulary"
                    s = (self.a * s + self.b * tok + self.c) % self.M
                if self.alias:
                    prev.update(self.enc(s, t))
                    return self.table[s], (prev if self.alias == "same" else dict(prev))
                return self.table[s], self.enc(s, t)

            def extract_by_src(self, prev, src):
                if self.strict:
                    items = [(self.key + sfx, prev[self.key + sfx], d) for sfx, d in self.dims.items()]
                else:
                    items = [(k, v, self.dims.get(k[len(self.key):], self.dims[""]) if v.dim() else None) for k, v in prev.items()]
                return {k: (v if d is None else v.index_select(d, src)) for k, v, d in items}

            def mix_by_mask(self, prev_true, prev_false, mask):
                out = {}
                for sfx, d in self.dims.items():
                    vt, vf = prev_true[self.key + sfx], prev_false[self.key + sfx]
                    if d is None:
                        out[self.key + sfx] = vt
                    else:
                        shp = [1] * vt.dim()
                        shp[d] = -1
                        out[self.key + sfx] = torch.where(mask.view(shp), vt, vf)
                return out

        class CtxLM(MixableSequentialLanguageModel):
            """stateless: logits = table[hist[idx-1] + 1] (row 0 at idx 0), read off the history itself; no state at all
            (extract_by_src returns {} like the library's lookup model) or, with step_key, a 0-dim step counter"""

            def __init__(self, V, table, step_key):
                super().__init__(V)
                self.table, self.step_key = table, step_key

            def update_input(self, prev, hist):
                if self.step_key is None or self.step_key in prev:
                    return prev
                return {self.step_key: torch.tensor(0)}

            def calc_idx_log_probs(self, hist, prev, idx):
                t = int(idx)
                if t >= CAP:
                    raise _Watchdog()
                if t > hist.size(0):
                    raise _IdxContract(f"idx {t} > hist.size(0) {hist.size(0)}")
                if self.step_key is not None:
                    assert int(prev[self.step_key]) == max(t - 1, 0), "test LM (ctx): step counter out of step"
                    prev = {self.step_key: torch.tensor(t)}
                if t == 0:
                    return self.table[:1].expand(hist.size(1), -1), prev
                return self.table[hist[t - 1] + 1], prev

            def extract_by_src(self, prev, src):
                return {} if self.step_key is None else {self.step_key: prev[self.step_key]}

            def mix_by_mask(self, prev_true, prev_false, mask):
                return {} if self.step_key is None else {self.step_key: prev_true[self.step_key]}

        _PART_CLS = (PartLM, CtxLM)
    return _PART_CLS


def _crt(residues, moduli):
    """x mod prod(moduli) with x = residues[i] mod moduli[i] (pairwise coprime moduli)"""
    x, m = 0, 1
    for r, mi in zip(residues, moduli):
        if mi == 1:
            continue
        assert math.gcd(m, mi) == 1, "moduli are not coprime"
        x += m * (((r - x) * pow(m, -1, mi)) % mi)
        m *= mi
    return x % m


def _lookup_geometry(V, order, sos):
    """the library's LookupLanguageModel with DENSE n-gram tables as a hash machine: codes 0..B-1 for the context tokens
    (sos outside the vocabulary gets code 0, token w code w + 1), state = the last order-1 codes in base B"""
    inv = 0 <= sos < V
    B = V if inv else V + 1
    M = B ** (order - 1)
    code_sos = sos if inv else 0
    init = sum(code_sos * B ** k for k in range(order - 1)) % M
    return dict(B=B, M=M, a=(B % M if M > 1 else 0), b=(1 % M), c=((0 if inv else 1) % M), init=init, inv=inv)


def _lookup_ctx(V, order, sos, s):
    """context tokens (oldest first) of state s"""
    g = _lookup_geometry(V, order, sos)
    codes = [(s // g["B"] ** k) % g["B"] for k in range(order - 2, -1, -1)]
    return tuple(cd if g["inv"] else (sos if cd == 0 else cd - 1) for cd in codes)


def _make_lookup(V, p):
    """LookupLanguageModel whose highest-order table holds p["table"] (every n-gram present, so no backoff is ever taken);
    lower orders and the entries for w = sos are filled with other values (never to be read)"""
    import random
    from pydrobert.torch.modules import LookupLanguageModel
    order, sos = p["order"], p["sos"]
    g = _lookup_geometry(V, order, sos)
    r = random.Random(p.get("lseed", 0))
    toks = list(range(V)) + ([] if g["inv"] else [sos])
    state_of = {_lookup_ctx(V, order, sos, s): s for s in range(g["M"])}
    dicts = []
    for n in range(1, order + 1):
        d = {}
        for ctx in itertools.product(toks, repeat=n - 1):
            for w in toks:
                if n == order and (g["inv"] or w != sos):
                    val = p["table"][state_of[ctx]][w] / UNIT
                else:
                    val = r.randint(-3 * UNIT, 3 * UNIT) / UNIT
                key = (ctx + (w,)) if n > 1 else w
                d[key] = val if n == order else (val, r.randint(-UNIT, UNIT) / UNIT)
        dicts.append(d)
    lm = LookupLanguageModel(V, sos, prob_dicts=dicts)
    return lm.double() if p.get("double") else lm


def _fuse_leaves(node, coef=Fraction(1), prefix=""):
    """[(part index, coefficient of its logits in the fused logits, prefix of its state keys)] of a fusion tree"""
    if isinstance(node, int):
        return [(node, coef, prefix)]
    p1, p2 = node.get("pre") or ["first.", "second."]
    return (_fuse_leaves(node["f"][0], coef, prefix + p1)
            + _fuse_leaves(node["f"][1], coef * Fraction(*node["beta"]), prefix + p2))


def _fuse_product(V, fuse):
    """the product machine of a fusion: (M, a, b, c, table (integers), unit, per-part moduli in part order)"""
    parts = fuse["parts"]
    leaves = sorted(_fuse_leaves(fuse["tree"]))
    assert [i for i, _, _ in leaves] == list(range(len(parts))), "every part must be used exactly once"
    mods = [p["M"] for p in parts]
    M = 1
    for m in mods:
        M *= m
    Q = 1
    for _, cf, _ in leaves:
        Q = max(Q, cf.denominator)
    assert Q & (Q - 1) == 0 and all((Q * cf).denominator == 1 for _, cf, _ in leaves), "betas must be dyadic"
    a, b, c = (_crt([p[k] for p in parts], mods) for k in "abc")
    table = [[sum(int(Q * cf) * parts[i]["table"][s % mods[i]][v] for i, cf, _ in leaves) for v in range(V)] for s in range(M)]
    return M, a, b, c, table, UNIT * Q, mods


def _part_float32(p):
    return p["kind"] == "lookup" and not p.get("double")


def _build_fused(case):
    """the library's composite over the parts of case["fuse"]"""
    from pydrobert.torch.modules import ExtractableShallowFusionLanguageModel, MixableShallowFusionLanguageModel
    PartLM, CtxLM = _part_classes()
    V, fuse = case["V"], case["fuse"]
    lms = []
    for p in fuse["parts"]:
        tab = torch.tensor(p["table"], dtype=torch.float64) / UNIT
        if p["kind"] == "lookup":
            lms.append(_make_lookup(V, p))
        elif p["kind"] == "ctx":
            lms.append(CtxLM(V, tab, p.get("step_key")))
        elif p["kind"] == "hash" and p.get("al"):
            lms.append(_lm_class().Alias(V, p["M"], p["a"], p["b"], p["c"], tab, p["al"]))
        elif p["kind"] == "hash":
            lms.append(_lm_class()(V, p["M"], p["a"], p["b"], p["c"], tab))
        else:
            lms.append(PartLM(V, p["M"], p["a"], p["b"], p["c"], tab, p["layout"], p["key"], p["strict"], p.get("alias")))

    def build(node):
        if isinstance(node, int):
            return lms[node]
        cls = MixableShallowFusionLanguageModel if node.get("cls") == "M" else ExtractableShallowFusionLanguageModel
        first, second = build(node["f"][0]), build(node["f"][1])
        beta = node["beta"][0] / node["beta"][1]
        form = node.get("form", 0)
        if node.get("pre"):
            if form % 2:
                return cls(first, second, beta, *node["pre"])
            return cls(first, second, first_prefix=node["pre"][0], second_prefix=node["pre"][1], beta=beta)
        if beta == 0 and form % 2:
            return cls(first, second)            # beta left at its default
        if form % 4 >= 2:
            return cls(first=first, second=second, beta=beta)
        return cls(first, second, int(beta) if form % 3 == 0 and beta == int(beta) else beta)
    return build(fuse["tree"]), lms


def _fused_init(case, inits, lms):
    """the initial_state dictionary: for each part whose "given" flag is set, its state for the residues of `inits`
    under the prefixes of the tree; the other parts are left to their update_input (state 0 / nothing)"""
    fuse = case["fuse"]
    init = {}
    for i, _, prefix in _fuse_leaves(fuse["tree"]):
        p = fuse["parts"][i]
        s = torch.tensor([x % p["M"] for x in inits], dtype=torch.long)
        if p["kind"] in ("lookup", "ctx") or not p.get("given", True):
            if not all(int(x) == p.get("init", 0) for x in s):
                raise _HarnessError("initial state of a part that cannot be given one")
            if p["kind"] == "ctx" and p.get("step_key") and p.get("given"):
                init[prefix + p["step_key"]] = torch.tensor(0)
            continue
        if p["kind"] == "hash":
            st = {"s": s, "aux": torch.stack([s * 0, s], 1)}
        else:
            st = lms[i].enc(s, 0)
        init.update((prefix + k, v) for k, v in st.items())
    return init


def _f32(case):
    return case.get("dtype") == "float32"


def _table_tensor(case):
    u = float(case.get("unit", 4))   # logits = integer / unit (a power of two: exact in float64)
    t = torch.tensor([[NINF if x is None else x / u for x in row] for row in case["table"]], dtype=torch.float64)
    # float32 cases (extreme-magnitude stream): the generator keeps |integer| < 2^24, so the cast is exact
    return t.to(torch.float32) if _f32(case) else t


VIAS = ("script", "kw", "reuse", "views", "noinit")


def _init_state(inits, via):
    s0 = torch.tensor(inits, dtype=torch.long)
    if via == "views":
        # the same values as non-contiguous views: a stride-3 slice with storage offset / an expanded scalar
        if len(inits) > 1 and len(set(inits)) == 1:
            s0 = torch.tensor([-5, inits[0]], dtype=torch.long)[1:].expand(len(inits))
        else:
            buf = torch.full((3 * len(inits) + 2,), -9, dtype=torch.long)
            buf[2::3] = s0
            s0 = buf[2::3]
        return {"s": s0, "aux": torch.stack([s0, s0 * 0], 0).flip(0).t()}
    return {"s": s0, "aux": torch.stack([s0 * 0, s0], 1)}


def _valid_equal(y1, l1, y2, l2):
    """same lengths and same tokens within the lengths (cells beyond are documented as invalid)"""
    if y1.shape != y2.shape or l1.shape != l2.shape or not torch.equal(l1, l2):
        return False
    S = y1.size(0)
    m = torch.arange(S).view([S] + [1] * (y1.dim() - 1)) < l1
    return torch.equal(y1.masked_fill(~m, 0), y2.masked_fill(~m, 0))


def _call(bs, case, init, N, mi):
    """the call forms of BeamSearch.__call__ (all documented as equivalent)"""
    via = case.get("via")
    if via == "fused":
        form = case.get("form", 0)
        if not init:
            # no part is given a state: None / {} / omitted
            if form % 3 == 0:
                return bs(None, N, mi)
            if form % 3 == 1 and N is not None and mi is not None:
                return bs(batch_size=N, max_iters=mi)
            return bs({}, N, mi)
        if form % 2:
            return bs(init, max_iters=mi, batch_size=N)
        return bs(init, N, mi)
    if via == "noinit":
        form = case.get("form", 0) % 3
        if form == 0:
            return bs(None, N, mi)
        if form == 1:
            return bs({}, batch_size=N, max_iters=mi)
        kw = {}
        if N is not None:
            kw["batch_size"] = N
        if mi is not None:
            kw["max_iters"] = mi
        return bs(**kw)
    if via == "kw":
        kw = {}
        if N is not None or case.get("form", 0) % 2:
            kw["batch_size"] = N
        if mi is not None or case.get("form", 0) % 4 >= 2:
            kw["max_iters"] = mi
        return bs(init, **dict(reversed(list(kw.items()))))
    return bs(init, N, mi)


def _search_once(case, inits, N):
    """returns dict: out (per element list of None | [path, len, score]), S; or exc / watchdog.
    case["via"] selects the entry point / layout / call history (the logical input, and therefore the model
    term, is the same): None = eager module, positional; "script" = torch.jit.script(BeamSearch) over a scripted
    LM; "kw" = keyword arguments; "noinit" = initial_state omitted / None / {} (all initial states 0, made by
    the LM's update_input); "views" = the LM and the caller hand over non-contiguous tensors; "reuse" = one
    module object is first used for a different search (other batch size, step limit, initial states), then for
    the case twice - both answers must be bit-identical."""
    from pydrobert.torch.modules import BeamSearch

    via = case.get("via")
    tab = _table_tensor(case)
    args = (case["V"], case["M"], case["a"], case["b"], case["c"], tab)
    parts = None
    if via == "fused":
        # harness consistency (not a verdict on the implementation): the case's machine is the product of its parts
        M, a, b, c, table, unit, _ = _fuse_product(case["V"], case["fuse"])
        if (M, a, b, c, table, unit) != (case["M"], case["a"], case["b"], case["c"], case["table"], case["unit"]):
            raise _HarnessError("fused case does not carry the product machine of its parts")
        if _f32(case) != all(_part_float32(p) for p in case["fuse"]["parts"]):
            raise _HarnessError("fused case carries the wrong dtype")
        lm = None
    elif via == "script":
        lm = _slm_class()(*args, CAP, (case.get("alias") or {}).get("ret") == "same")
    elif via == "views":
        lm = _lm_class().View(*args)
    elif case.get("alias"):
        # stream lm-aliasing: the same function, other IDENTITY of the dictionaries / tensors the callbacks hand back
        lm = _lm_class().Alias(*args, case["alias"])
    else:
        lm = _lm_class()(*args)
    aliasing = bool(case.get("alias")) or (via == "fused" and any(p.get("alias") or p.get("al") for p in case["fuse"]["parts"]))
    saved = []
    try:
        if via == "fused":
            lm, parts = _build_fused(case)
        bs = BeamSearch(lm, case["width"], eos=case["eos"], finish_all_paths=case["fin_all"], pad_value=case["pad"])
        if via == "script":
            bs = torch.jit.script(bs)
        init = _fused_init(case, inits, parts) if via == "fused" else _init_state(inits, via)
        if via == "reuse":
            oN = (N or 1) + 1 + case.get("form", 0) % 2
            omi = 1 + (case.get("form", 0) // 2 + (case["max_iters"] or 2)) % 4
            try:
                bs(_init_state([(x + 1) % case["M"] for x in (list(inits) * oN)[:oN]], None), oN, omi)
            except Exception:  # noqa: BLE001
                pass
            # (an aliasing LM may store its state into the dictionary it is given: every call gets its own dictionary)
            first = bs(dict(init) if aliasing else init, N, case["max_iters"])
        saved = [(k, v, v.clone()) for k, v in init.items()]
        y, lens, lp = _call(bs, case, dict(init) if aliasing else init, N, case["max_iters"])
        if via == "reuse":
            if not (_valid_equal(first[0], first[1], y, lens) and torch.equal(first[2], lp)):
                return {"exc": "HistoryDependent", "msg": "two calls of one module object with the same arguments differ"}
        for k, v, v0 in saved:
            # no test LM writes into the tensors the caller handed in (the in-place one works on its own clones)
            if v.shape != v0.shape or not torch.equal(v, v0):
                return {"exc": "InitialStateModified", "msg": "the caller's initial_state tensor %r was overwritten" % k}
    except _HarnessError:
        raise
    except _Watchdog:
        return {"watchdog": True}
    except _IdxContract as e:
        return {"exc": "LMContract", "msg": str(e)[:200]}
    except Exception as e:  # noqa: BLE001
        if "c04-watchdog" in str(e):
            return {"watchdog": True}
        if "c04-idx-contract" in str(e):
            return {"exc": "LMContract", "msg": "idx > hist.size(0) (scripted LM)"}
        return {"exc": exc_kind(e), "msg": str(e)[:200]}
    if N is None:
        y, lens, lp = y.unsqueeze(1), lens.unsqueeze(0), lp.unsqueeze(0)
    S, NN, W = y.shape
    out = []
    for n in range(NN):
        row = []
        for k in range(W):
            v = float(lp[n, k])
            if v == NINF:
                row.append(None)
            elif math.isnan(v) or math.isinf(v):
                row.append(["nonfinite", 0, repr(v)])
            else:
                L = int(lens[n, k])
                if not 0 <= L <= S:
                    row.append(["nonfinite", 0, "length %d outside 0..%d" % (L, S)])
                else:
                    row.append([[int(x) for x in y[:L, n, k]], L, v])
        out.append(row)
    return {"out": out, "S": int(S), "shape_ok": list(lens.shape) == [NN, W] and list(lp.shape) == [NN, W]}


def run_impl(case):
    inits = case["inits"]
    return _search_once(case, inits, case["N"])


# ----------------------------------------------------------------------------------------------------
# Coq terms
# ----------------------------------------------------------------------------------------------------
GRID = 2 ** 40


def _scale(case):
    """torch's float64 log_softmax of the logits table, rounded to the 2^-40 grid (error < 5e-13 per
    entry, three orders of magnitude below the comparison tolerance) -> integers."""
    lp = _table_tensor(case).log_softmax(-1)     # in the table's own dtype (float32 values are exact doubles)
    return GRID, [[None if float(x) == NINF else round(Fraction(float(x)) * GRID) for x in row] for row in lp]


def _tol_margin(case, den, tab, S=None):
    """(tolerance, near-tie margin) as integers on the grid.  The implementation adds at most `steps` rounded
    terms; a partial sum is at most steps*maxabs in magnitude, so the accumulated rounding error is below
    u*maxabs*steps*(steps+1) with u = 2^-51 (float64) or 2^-22 (float32) -- a factor 4 above the half-ulp bound,
    which also absorbs a last-place difference between two evaluations of torch's log_softmax.  For O(1)..O(10)
    float64 logits this is far below the fixed 1e-9 / 1e-6, which stay the floor; only the extreme-magnitude and
    float32 cases widen it.  Every discrete decision of the model is kept at >= 2*tolerance (else: skipped as tie;
    a decision of the implementation can differ only if the exact scores are closer than tolerance/2).
    steps = y.size(0) of the implementation's answer when there is one (one addition per step), else the fuel."""
    maxabs = max([abs(x) for row in tab for x in row if x is not None] + [0])
    steps = max(1, _fuel(case) if S is None else min(S, _fuel(case)))
    u = Fraction(1, 2 ** 22) if _f32(case) else Fraction(1, 2 ** 51)
    err = math.ceil(u * maxabs * steps * (steps + 1))
    tol = max(den // 10 ** 9, err)
    return tol, max(den // 10 ** 6, 2 * tol)


def _tol_float(case):
    den, tab = _scale(case)
    return _tol_margin(case, den, tab)[0] / den


def cscore(x):
    return "None" if x is None else f"(Some {cz(x)})"


def _lm_term(case, tab):
    t = cl([cl([cscore(x) for x in row]) for row in tab])
    return f"(hash_calc {cz(case['a'])} {cz(case['b'])} {cz(case['c'])} {cz(case['M'])} {cn(case['V'])} {t})"


def _oslot(o, den):
    if o is None:
        return "None"
    if o[0] == "nonfinite":
        return None
    z = math.floor(Fraction(o[2]) * den)
    return f"(Some ({clz(o[0])}, {cn(o[1])}, {cz(z)}))"


def _out_term(out, den):
    rows = []
    for row in out:
        items = [_oslot(o, den) for o in row]
        if any(i is None for i in items):
            return None
        rows.append(cl(items))
    return cl(rows)


def _eos(case):
    return co(cz(case["eos"])) if case["eos"] is not None else "None"


def _fuel(case):
    # max_iters=None: steps 0..CAP-1 may call the LM, step CAP may only break (else the watchdog fires)
    return CAP + 1 if case["max_iters"] is None else case["max_iters"]


def _all_finite(case):
    return all(x is not None for row in case["table"] for x in row)


def model_terms(case, res):
    """(tied?, agrees with the model?, accepted by the spec checker?) as three Coq bools sharing `lm`."""
    den, tab = _scale(case)
    lmdef = _lm_term(case, tab)
    lm = "lm"
    V, W = cn(case["V"]), cn(case["width"])
    inits = clz(case["inits"])
    tolz, marginz = _tol_margin(case, den, tab, res.get("S"))
    margin, tol = cz(marginz), cz(tolz)
    head = f"{lm} {V} {W} {_eos(case)} {cb(case['fin_all'])} {cz(case['pad'])} {cn(_fuel(case))}"
    tied = f"tied_search {head} {inits} {margin}"
    if res.get("watchdog"):
        # the implementation asked the LM for idx = CAP: the model must still be looping after CAP steps
        return lmdef, None, tied, f"negb (snd (run_search {head} {inits}))", "true"
    if "exc" in res or not res.get("shape_ok", False):
        return lmdef, None, tied, "false", "false"
    ot = _out_term(res["out"], den)
    if ot is None:
        return lmdef, None, tied, "false", "false"
    cmpS = cb(_all_finite(case))   # with zero-probability tokens the number of steps depends on -inf tie-breaks
    chk = (f"check_search {head} {cb(case['max_iters'] is None)} {inits} {tol} {cmpS} (out, {cn(res['S'])})")
    T = co(cn(case["max_iters"])) if case["max_iters"] is not None else "None"
    spec = (f"spec_okb {lm} {V} {W} (norm_eos {V} {_eos(case)}) {cb(case['fin_all'])} {T} {tol} {inits} out")
    return lmdef, ot, tied, chk, spec


def row_term(case, res):
    lmdef, ot, tied, chk, spec = model_terms(case, res)
    o = "" if ot is None else f"let out := {ot} in "
    return f"(let lm := {lmdef} in {o}[{tied}; {chk}; {spec}])"


_ROWS_HEADER = """From Coq Require Import List ZArith Bool.
Import ListNotations.
Local Open Scope Z_scope.
Definition vcode (l : list bool) : nat :=
  fold_right (fun (b : bool) (n : nat) => ((if b then 1 else 0) + 2 * n)%nat) 0%nat l.
"""


def eval_rows(workdir, rows, tag, shard=60, timeout=1200):
    """rows: Coq terms of type [list bool]; returns for each the list of its (three) values."""
    import re
    import subprocess
    from concurrent.futures import ThreadPoolExecutor
    from pathlib import Path
    from vlib import COQ, CoqError
    if not rows:
        return []
    shards = [rows[i:i + shard] for i in range(0, len(rows), shard)]

    def one(arg, to=timeout):
        k, sh = arg
        f = Path(workdir) / f"{tag}_{k}.v"
        f.write_text(_ROWS_HEADER + IMPORTS + "Definition vrows : list (list bool) := [\n  " + ";\n  ".join(sh)
                     + "\n].\nDefinition vres := Eval vm_compute in map vcode vrows.\nPrint vres.\n")
        p = subprocess.run(["timeout", str(to), "coqc", "-Q", str(COQ / "theories"), "PV", "-w", "-all", str(f)],
                           cwd=f.parent, capture_output=True, text=True)
        if p.returncode != 0:
            raise CoqError(f"coqc failed on {f}:\n{p.stdout[-1500:]}\n{p.stderr[-3000:]}")
        m = re.search(r"vres\s*=\s*(.*?)\s*:\s*list nat", p.stdout, flags=re.S)
        if not m:
            raise CoqError(f"cannot parse coqc output for {f}: {p.stdout[-500:]}")
        codes = [int(x) for x in re.findall(r"\d+", m.group(1))]
        if len(codes) != len(sh):
            raise CoqError(f"{f}: {len(codes)} results for {len(sh)} rows")
        return codes

    def safe(arg):
        """a row Coq cannot evaluate (e.g. junk the implementation returned makes the term blow up) counts as
        (not tied, disagrees, rejected) instead of aborting the run"""
        try:
            return one(arg)
        except CoqError:
            k, sh = arg
            res = []
            for j, r in enumerate(sh):
                try:
                    res.extend(one((f"{k}x{j}", [r]), to=120))
                except CoqError:
                    res.append(0)
            return res

    with ThreadPoolExecutor(max_workers=int(__import__("os").environ.get("VERIF_JOBS", "16"))) as ex:
        parts = list(ex.map(safe, enumerate(shards)))
    return [[bool(c & 1), bool(c & 2), bool(c & 4)] for part in parts for c in part]


def model_show(case):
    den, tab = _scale(case)
    head = (f"{_lm_term(case, tab)} {cn(case['V'])} {cn(case['width'])} {_eos(case)} {cb(case['fin_all'])} "
            f"{cz(case['pad'])} {cn(_fuel(case))}")
    return f"let r := run_search {head} {clz(case['inits'])} in (map (map canon) (fst (fst r)), snd (fst r), snd r)"


# ----------------------------------------------------------------------------------------------------
# beam_search_advance (regime E)
# ----------------------------------------------------------------------------------------------------
def run_impl_adv(case):
    from pydrobert.torch.functional import beam_search_advance

    f = lambda rows: torch.tensor([[NINF if x is None else float(x) for x in r] for r in rows], dtype=torch.float64)  # noqa: E731
    N, Kp, V, S = case["N"], case["Kp"], case["V"], case["S"]
    lpt = torch.tensor([[[NINF if x is None else float(x) for x in r] for r in e] for e in case["logp"]],
                       dtype=torch.float64).reshape(N, Kp, V)
    lpp = f(case["prev"]).reshape(N, Kp)
    y = torch.tensor(case["y"], dtype=torch.long).reshape(N, Kp, S).permute(2, 0, 1).contiguous()
    lens = None if case["lens"] is None else torch.tensor(case["lens"], dtype=torch.long).reshape(N, Kp)
    if case.get("f32"):
        lpt, lpp = lpt.float(), lpp.float()     # the generator keeps |score| < 2^24: exact
    layout = case.get("layout", 0)
    if layout == 1:
        # transposed / storage-offset views of larger buffers
        y = y.permute(0, 2, 1).contiguous().permute(0, 2, 1)      # stored (S, Kp, N): dims N, Kp cannot be merged
        buf = lpt.new_full((N, Kp + 1, V + 2), 7.0)
        buf[:, 1:, 1:-1] = lpt
        lpt = buf[:, 1:, 1:-1]
        lpp = lpp.t().contiguous().t()
        if lens is not None:
            lens = lens.t().contiguous().t()
    elif layout == 2:
        # step-sliced views
        buf = lpt.new_full((N, Kp, 2 * V), -3.0)
        buf[..., ::2] = lpt
        lpt = buf[..., ::2]
        buf = lpp.new_full((N, 2 * Kp + 1), 0.0)
        buf[:, 1::2] = lpp
        lpp = buf[:, 1::2]
        buf = y.new_full((S + 1, N, Kp), 1)
        buf[1:] = y
        y = buf[1:]
        if lens is not None:
            buf = lens.new_full((2 * N, Kp), 0)
            buf[::2] = lens
            lens = buf[::2]
    saved = [lpt.clone(), lpp.clone(), y.clone(), None if lens is None else lens.clone()]
    try:
        call = case.get("call", "pos")
        if call == "kw":
            kw = dict(y_prev=y, log_probs_prev=lpp, width=case["width"], log_probs_t=lpt)
            if lens is not None or case.get("layout", 0) == 1:
                kw["y_prev_lens"] = lens
            yn, ln, lpn, src = beam_search_advance(**kw)
        elif lens is None and call == "short":
            yn, ln, lpn, src = beam_search_advance(lpt, case["width"], lpp, y)
        else:
            yn, ln, lpn, src = beam_search_advance(lpt, case["width"], lpp, y, lens)
    except RuntimeError:
        return None
    except Exception as e:  # noqa: BLE001
        return {"exc": exc_kind(e)}
    now = [lpt, lpp, y, lens]
    if any((a is None) != (b is None) or (a is not None and not torch.equal(a, b)) for a, b in zip(saved, now)):
        return {"exc": "InputModified"}
    if case.get("f32") and lpn.dtype != torch.float32:
        return {"exc": "dtype"}
    W = case["width"]
    if list(ln.shape) != [N, W] or list(lpn.shape) != [N, W] or list(src.shape) != [N, W] or list(yn.shape[1:]) != [N, W]:
        return {"exc": "shape"}
    rows = []
    for n in range(N):
        row = []
        for k in range(W):
            v = float(lpn[n, k])
            if v == NINF:
                row.append(None)
            elif v != int(v):
                return {"exc": "inexact"}
            else:
                L = int(ln[n, k])
                if not (0 <= L <= yn.shape[0] and 0 <= int(src[n, k]) < 4000):
                    return {"exc": "badlen"}
                row.append([[int(x) for x in yn[:L, n, k]], L, int(v), int(src[n, k])])
        rows.append(row)
    return {"rows": rows, "S": int(yn.shape[0])}


def _slot_term(col, ln, s):
    return f"(mkSlot {clz(col)} {cn(ln)} {cscore(s)})"


def adv_term(case, res):
    N, Kp, S = case["N"], case["Kp"], case["S"]
    beams = cl([cl([_slot_term(case["y"][n][k], S if case["lens"] is None else case["lens"][n][k], case["prev"][n][k])
                    for k in range(Kp)]) for n in range(N)])
    logp = cl([cl([cl([cscore(x) for x in r]) for r in e]) for e in case["logp"]])
    if res is None:
        impl = "None"
    elif "exc" in res:
        return "false"
    else:
        rows = cl([cl(["None" if o is None else f"(Some ({clz(o[0])}, {cn(o[1])}, {cz(o[2])}, {cn(o[3])}))" for o in r])
                   for r in res["rows"]])
        impl = f"(Some ({rows}, {cn(res['S'])}))"
    return (f"check_advance {cn(case['V'])} {cn(case['width'])} {cn(S)} {cb(case['lens'] is not None)} {beams} {logp} {impl}")


def gen_adv(rng):
    while True:
        N, Kp, V = rng.choice([1, 1, 2, 3]), rng.randint(1, 4), rng.randint(1, 4)
        S = rng.choice([0, 0, 1, 2, 3, 4])
        width = rng.choice([0, 1, 1, 2, 3, Kp, Kp * V, Kp * V + rng.randint(1, 3), rng.randint(1, Kp * V + 2)])
        has_lens = rng.random() < 0.75
        pinf = rng.choice([0.0, 0.0, 0.15, 0.4])
        # scores: integers with pairwise distinct finite sums in every row
        prev = [[None if rng.random() < pinf else -rng.randint(0, 40) * 64 for _ in range(Kp)] for _ in range(N)]
        logp = [[[None if rng.random() < pinf else -rng.randint(0, 63) for _ in range(V)] for _ in range(Kp)] for _ in range(N)]
        ok = True
        for n in range(N):
            sums = [prev[n][k] + logp[n][k][v] for k in range(Kp) for v in range(V)
                    if prev[n][k] is not None and logp[n][k][v] is not None]
            ok = ok and len(set(sums)) == len(sums)
        if not ok:
            continue
        # extreme magnitude: the same scores times 2^10..2^30 (sums stay exact integers below 2^53, still distinct)
        big = rng.choice([0, 0, 0, 0, 10, 20, 30])
        if big:
            prev = [[None if x is None else x * 2 ** big for x in r] for r in prev]
            logp = [[[None if x is None else x * 2 ** big for x in r] for r in e] for e in logp]
        y = [[[rng.randint(0, max(V - 1, 0)) for _ in range(S)] for _ in range(Kp)] for _ in range(N)]
        lens = None
        if has_lens:
            mode = rng.choice(["full", "ragged", "short", "bad0"])
            if S == 0:
                lens = [[(1 if (mode == "bad0" and rng.random() < 0.5) else 0) for _ in range(Kp)] for _ in range(N)]
            elif mode == "full":
                lens = [[S for _ in range(Kp)] for _ in range(N)]
            elif mode == "short":
                lens = [[rng.randint(0, S - 1) for _ in range(Kp)] for _ in range(N)]
            else:
                lens = [[rng.randint(0, S) for _ in range(Kp)] for _ in range(N)]
        case = dict(kind="advance", N=N, Kp=Kp, V=V, S=S, width=width, prev=prev, logp=logp, y=y, lens=lens)
        # robustness dimensions: memory layout, float dtype, call form (same logical input, same model term)
        if rng.random() < 0.5:
            case["layout"] = rng.choice([1, 2])
        if not big and rng.random() < 0.3:
            case["f32"] = True
        if rng.random() < 0.4:
            case["call"] = rng.choice(["kw", "short"])
        return case


# ----------------------------------------------------------------------------------------------------
# generators for BeamSearch
# ----------------------------------------------------------------------------------------------------
def n_complete(V, eos, T):
    if eos is None:
        return V ** T
    return sum((V - 1) ** (l - 1) for l in range(1, T + 1)) + (V - 1) ** T


UNIT = 2 ** 16


def gen_table(rng, M, V, eos, pinf):
    boost = rng.choice([0, 0, 6, 12]) if eos is not None else 0
    tab = []
    for _ in range(M):
        row = [rng.randint(-3 * UNIT, 3 * UNIT) for _ in range(V)]
        if eos is not None:
            row[eos % V] += (boost if rng.random() < 0.7 else -boost) * UNIT // 4
        if pinf:
            # a row with a single finite entry has log-probability exactly 0 there: exact ties between paths
            # are then common, so (for V >= 3) two entries are always kept
            keep = set(rng.sample(range(V), 2 if V >= 3 else 1))
            row = [x if (i in keep or rng.random() > pinf) else None for i, x in enumerate(row)]
        tab.append(row)
    return tab


def gen_search(rng):
    V = rng.choice([1, 2, 2, 2, 3, 3, 3, 4])
    # few states + many paths = different paths through the same multiset of (state, token) steps: exact ties
    M = rng.choice([2, 3, 4, 5, 5, 6, 7, 7, 8, 9]) if V <= 2 else rng.choice([5, 7, 9, 11, 13])
    eos = None if rng.random() < 0.22 else rng.randrange(V)
    mi = rng.choice([0, 1, 2, 2, 3, 3, 4, 4, 5, None, None]) if eos is not None else rng.choice([0, 1, 2, 3, 3, 4, 4, 5])
    T = 4 if mi is None else mi
    big = n_complete(V, eos, min(T, 3 if V >= 3 else 4))
    width = rng.choice([1, 2, 2, 3, 4, 5, V, V + 1, V * V, V * V + 1, min(big, 40), min(big + rng.randint(1, 3), 45),
                        rng.randint(1, max(2, min(2 * big + 3, 30)))])
    if mi is not None and V ** mi > 300:
        width = min(width, 8)
    pinf = rng.choice([0, 0, 0, 0, 0.3]) if V > 1 else 0
    N = rng.choice([None, None, 1, 2, 2, 3, 3, 4, 0 if rng.random() < 0.2 else 2])
    if N == 0 and eos is None and mi > 1:
        N = 2    # an EMPTY batch without eos raises in y_prev_lens.max() at the second step: outside the property
    inits = [rng.randrange(M) for _ in range(1 if N is None else N)]
    eos_arg = eos
    if eos is not None and rng.random() < 0.15:
        eos_arg = eos - V
    fin_all = rng.random() < 0.5
    if pinf and fin_all and mi is None:
        mi = rng.randint(1, 5)   # with zero-probability tokens the loop need not end by itself
    return dict(kind="search", V=V, M=M, a=rng.randint(1, M - 1), b=rng.randint(1, M - 1), c=rng.randrange(M),
                unit=UNIT, table=gen_table(rng, M, V, eos, pinf), width=max(1, width), eos=eos_arg, fin_all=fin_all,
                pad=rng.choice([-100, -100, -1, 0, 1, V + 3, eos if eos is not None else 2]), max_iters=mi, N=N, inits=inits)


def gen_zero_prob(rng):
    """finish_all_paths, zero-probability tokens, beam wider than the vocabulary: unusable -inf slots stay
    in the beam next to finished paths."""
    while True:
        c = gen_search(rng)
        if c["eos"] is None or c["V"] < 2:
            continue
        V = c["V"]
        c["table"] = gen_table(rng, c["M"], V, c["eos"] % V, 0.5)
        c["fin_all"] = True
        if c["max_iters"] is None:
            c["max_iters"] = rng.randint(2, 6)
        c["N"] = rng.choice([None, 1, 2, 3])
        c["inits"] = [rng.randrange(c["M"]) for _ in range(c["N"] or 1)]
        c["width"] = rng.choice([V + 1, V + 2, 2 * V + 1, 3 * V])
        return c


XUNIT = 16   # extreme-magnitude logits = integer / 16 with |integer| < 2^24: exact in float32 and float64


def _xrow(rng, V):
    """one row of extreme-magnitude logits: O(1) values scaled by 100..1000, and/or one logit dominating by
    100..1500 nats (softmax of the others underflows to exactly 0 beyond ~104 nats in float32 / ~745 in
    float64, while their log-probability stays finite), and/or a common offset of +-100..1000 (exp overflows
    beyond 88.7 / 709.8, underflows to 0 below -104 / -745)."""
    mode = rng.choice(["scaled", "offset", "dominant", "dominant+offset", "scaled+offset", "scaled+dominant"])
    if "scaled" in mode:
        s = rng.randint(100, 1000)
        row = [rng.randint(-3 * XUNIT * s, 3 * XUNIT * s) for _ in range(V)]
    else:
        row = [rng.randint(-3 * XUNIT, 3 * XUNIT) for _ in range(V)]
    if "dominant" in mode:
        j = rng.randrange(V)
        row[j] += rng.randint(100 * XUNIT, 1500 * XUNIT)
        if V >= 3 and rng.random() < 0.6:
            # two logits share the top: no log-probability is exactly 0, which keeps exact ties between
            # paths ("x then the dominant token" = "the dominant token then x") rare
            row[(j + rng.randint(1, V - 1)) % V] = row[j] + rng.randint(-3 * XUNIT, 3 * XUNIT)
    if "offset" in mode:
        off = rng.choice([-1, 1]) * rng.randint(100 * XUNIT, 1000 * XUNIT)
        row = [x + off for x in row]
    return row


def gen_extreme(rng):
    """extreme-magnitude regime: every row of the LM's logits table is huge, shifted or dominated (see _xrow),
    in float32 or float64.  All logits are finite, so every path has a finite chained log-probability: a
    numerically naive normalisation (softmax().log(), log(sum(exp)) without the max shift) turns them into
    -inf / +inf / NaN.  Half of the cases have a beam wide enough for every complete sequence and run to
    completion (the spec's exhaustive clause then needs every sequence with its finite score)."""
    while True:
        c = gen_search(rng)
        V = c["V"]
        if V < 2:
            continue
        c["dtype"] = rng.choice(["float32", "float64"])
        c["unit"] = XUNIT
        c["table"] = [_xrow(rng, V) for _ in range(c["M"])]
        if rng.random() < 0.5:
            eos = None if c["eos"] is None else c["eos"] % V
            mi = rng.randint(1, 3)
            nc = n_complete(V, eos, mi)
            if nc <= 40:
                c["max_iters"], c["width"] = mi, nc + rng.randint(0, 2)
                if eos is not None:
                    c["fin_all"] = True
        if c["N"] == 0 and c["eos"] is None and (c["max_iters"] or 0) > 1:
            c["N"] = 2
            c["inits"] = [rng.randrange(c["M"]) for _ in range(2)]
        return c


def gen_variant(rng):
    """robustness dimensions of the entry point: the logical input of gen_search run through another public entry
    point / call form / memory layout / call history (see _search_once); judged by the same model term."""
    c = gen_search(rng)
    c["via"] = rng.choice(VIAS)
    c["form"] = rng.randrange(12)
    if c["via"] == "noinit":
        c["inits"] = [0] * len(c["inits"])
    return c


FUSE_KEYS = ("s", "h", "state", "second.s", "first.h", "x_y", "hidden.0")
FUSE_PREFIXES = (None, None, None, ["a.", "b."], ["lm/", "am/"], ["x", "y"], ["second.", "first."], ["first.", "2nd:"])
FUSE_BETAS = ([0, 1], [1, 4], [1, 2], [1, 1], [1, 1], [3, 2], [2, 1], [-1, 2])
FUSE_MODULI = (2, 3, 4, 5, 5, 7, 7, 8, 9, 11, 13)
FUSE_MAX_STATES = 130


def _gen_part(rng, V, eos, kind, used, like=None):
    """one part of a fusion; its modulus is coprime with the moduli in `used`; None when that is not possible"""
    def coprime(m):
        return all(math.gcd(m, u) == 1 for u in used)
    if kind == "lookup":
        order = rng.choice([1, 2, 2, 2, 3])
        sos = rng.choice([rng.randrange(V), -1, -1, V, V + 5, -100])
        g = _lookup_geometry(V, order, sos)
        p = dict(kind=kind, order=order, sos=sos, double=rng.random() < 0.4, lseed=rng.randrange(10 ** 6),
                 M=g["M"], a=g["a"], b=g["b"], c=g["c"], init=g["init"])
    elif kind == "ctx":
        p = dict(kind=kind, step_key=rng.choice([None, None, "step", "n"]), given=rng.random() < 0.5,
                 M=V + 1, a=0, b=1, c=1, init=0)
    else:
        ms = [m for m in FUSE_MODULI if coprime(m)]
        if not ms:
            return None
        M = rng.choice(ms)
        p = dict(kind=kind, M=M, a=rng.randint(0 if kind == "rec" and rng.random() < 0.1 else 1, M - 1), b=rng.randint(1, M - 1),
                 c=rng.randrange(M), given=rng.random() < 0.75)
        if kind == "rec":
            p.update(layout=rng.choice(sorted(LAYOUTS)), key=rng.choice(FUSE_KEYS), strict=rng.random() < 0.6)
            if like is not None and like["kind"] == "rec":
                p.update(layout=like["layout"], key=like["key"], strict=like["strict"])     # same class, same key names
    if not coprime(p["M"]):
        return None
    p["table"] = gen_table(rng, p["M"], V, eos, 0)
    return p


def gen_fused(rng):
    """composite language model: the library's Extractable/MixableShallowFusionLanguageModel (also nested, custom
    prefixes, any dyadic beta incl. the default 0) over two or three parts that differ - or not - in class (the library's
    n-gram LookupLanguageModel of order 1..3 with sos inside/outside the vocabulary, float32 or .double(); the stateful
    hash LM of the other streams; the PartLM / CtxLM test doubles), state key names, state layout (batch dimension 0, 1,
    last, none; one or two tensors; long or one-hot float), statefulness and strictness; each part's initial state is
    either given in initial_state or left to its update_input.  The logical input is the product machine."""
    while True:
        c = gen_search(rng)
        V = c["V"]
        if V < 2 or c["N"] == 0:
            continue
        eos = None if c["eos"] is None else c["eos"] % V
        shape = rng.choice(["AB"] * 5 + ["(AB)C", "(AB)C", "A(BC)", "A(BC)"])
        n = 2 if shape == "AB" else 3
        kinds = [rng.choice(["rec"] * 6 + ["lookup"] * 3 + ["ctx", "hash"]) for _ in range(n)]
        if all(k in ("lookup", "ctx") for k in kinds) and rng.random() < 0.7:
            kinds[rng.randrange(n)] = "rec"          # mostly at least one part with threaded state
        same = rng.random() < 0.15
        if same:
            kinds[1] = kinds[0]
        parts, used = [], []
        # stateless parts first: their moduli are dictated by V
        for j in sorted(range(n), key=lambda j: kinds[j] not in ("lookup", "ctx")):
            p = _gen_part(rng, V, eos, kinds[j], used, like=parts[0][1] if same and j == 1 and parts and parts[0][0] == 0 else None)
            if p is None:
                break
            parts.append((j, p))
            used.append(p["M"])
        if len(parts) < n:
            continue
        parts = [p for _, p in sorted(parts, key=lambda jp: jp[0])]
        M = 1
        for p in parts:
            M *= p["M"]
        if M > FUSE_MAX_STATES or M < 2:
            continue

        def node(l, r):
            return {"f": [l, r], "beta": list(rng.choice(FUSE_BETAS)), "pre": rng.choice(FUSE_PREFIXES),
                    "cls": "M" if rng.random() < 0.4 else "E", "form": rng.randrange(12)}
        tree = node(0, 1) if n == 2 else node(node(0, 1), 2) if shape == "(AB)C" else node(0, node(1, 2))
        has_hash = any(p["kind"] == "hash" for p in parts)

        def fix(nd):
            if isinstance(nd, int):
                return
            if has_hash:
                nd["cls"] = "E"      # the hash LM of the other streams is extractable only
            fix(nd["f"][0])
            fix(nd["f"][1])
        fix(tree)
        fuse = {"parts": parts, "tree": tree}
        leaves = _fuse_leaves(tree)
        if all(cf == 0 for i, cf, _ in leaves if parts[i]["kind"] not in ("lookup", "ctx")) and \
                all(parts[i]["M"] <= V + 1 for i, cf, _ in leaves if cf != 0):
            continue     # the scores would depend on the last token at most: exact ties between permuted paths
        if all(p["kind"] == "lookup" for p in parts):
            if c["max_iters"] is None:
                c["max_iters"] = rng.randint(1, 6)      # no part carries the watchdog
            if all(_part_float32(p) for p in parts) and (n > 2 or rng.random() < 0.5):
                parts[rng.randrange(n)]["double"] = True
        c["M"], c["a"], c["b"], c["c"], c["table"], c["unit"], mods = _fuse_product(V, fuse)
        if all(_part_float32(p) for p in parts):
            if max(abs(x) for row in c["table"] for x in row) >= 2 ** 24:
                continue
            c["dtype"] = "float32"
        inits = []
        for _ in range(1 if c["N"] is None else c["N"]):
            res = [p["init"] if p["kind"] in ("lookup", "ctx") else rng.randrange(p["M"]) if p["given"] else 0 for p in parts]
            inits.append(_crt(res, mods))
        c["inits"] = inits
        c["via"], c["form"], c["fuse"] = "fused", rng.randrange(12), fuse
        return c


def fused_counts(chk, c):
    f = c["fuse"]

    def tag(p):
        return p["kind"] + (str(p["order"]) if p["kind"] == "lookup" else ":" + p["layout"] if p["kind"] == "rec" else "")
    tree, parts = f["tree"], f["parts"]
    chk.count("fused:shape=%s" % ("AB" if len(parts) == 2 else "(AB)C" if not isinstance(tree["f"][0], int) else "A(BC)"))
    lv = _fuse_leaves(tree)
    chk.count("fused:first=%s" % tag(parts[lv[0][0]]))
    chk.count("fused:last=%s" % tag(parts[lv[-1][0]]))
    a, b = parts[lv[0][0]], parts[lv[1][0]]
    chk.count("fused:parts=" + ("same class, layout and keys" if (a["kind"], a.get("layout"), a.get("key")) == (b["kind"], b.get("layout"), b.get("key"))
                                else "same class" if a["kind"] == b["kind"] else "different classes"))
    chk.count("fused:first_part_stateless=%s" % (a["kind"] in ("lookup", "ctx")))
    chk.count("fused:wrapper=%s" % tree.get("cls"))
    chk.count("fused:prefixes=%s" % ("default" if not tree.get("pre") else "custom"))
    chk.count("fused:beta=%s" % Fraction(*tree["beta"]))
    st = [p for p in parts if p["kind"] in ("rec", "hash")]
    chk.count("fused:initial_state=%s" % ("all given" if all(p["given"] for p in st) else "none given" if not any(p["given"] for p in st) else "partly given"))
    for p in parts:
        if p["kind"] == "rec":
            chk.count("fused:rec_strict=%s" % p["strict"])


def gen_staggered(rng):
    """batch interaction: elements of one batch finish at different steps.  States are split into eos-eager and
    eos-averse ones and the batch starts from both kinds, so one element is frozen (and padded) strictly before
    another; eos is mostly NOT token 0 and pad_value mostly the default, so the padding clamps to a token other
    than eos; finish_all_paths on half of the cases (the worst slot of a beam then often finishes first)."""
    V = rng.choice([2, 3, 3, 4])
    eos = rng.randrange(1, V) if rng.random() < 0.8 else 0
    M = rng.choice([5, 7, 9, 11])
    N = rng.choice([2, 2, 3, 4])
    eager = set(rng.sample(range(M), rng.randint(1, M - 1)))
    gap = rng.choice([2, 3, 4, 6])                       # +-1..3 nats on the eos logit
    tab = []
    for m in range(M):
        row = [rng.randint(-2 * UNIT, 2 * UNIT) for _ in range(V)]
        row[eos] += (gap if m in eager else -gap) * UNIT // 2
        tab.append(row)
    inits = [rng.choice(sorted(eager)), rng.choice(sorted(set(range(M)) - eager))]
    inits += [rng.randrange(M) for _ in range(N - 2)]
    rng.shuffle(inits)
    via = rng.choice([None, None, None, None] + list(VIAS))
    if via == "noinit":
        via = None
    c = dict(kind="search", V=V, M=M, a=rng.randint(1, M - 1), b=rng.randint(1, M - 1), c=rng.randrange(M), unit=UNIT,
             table=tab, width=rng.choice([1, 2, 2, 3, 3, 4, 5, V + 1]), eos=eos if rng.random() < 0.85 else eos - V,
             fin_all=rng.random() < 0.5,
             pad=rng.choice([-100] * 6 + [-1, 0, V + 3, 2 ** 40, -2 ** 40, eos]),
             max_iters=rng.choice([None, None, 3, 4, 5, 6, 8]), N=N, inits=inits)
    if via is not None:
        c["via"], c["form"] = via, rng.randrange(12)
    return c


ALIAS_VIAS = (None, None, None, None, "kw", "reuse", "noinit", "script")


def _gen_al(rng):
    al = {"ret": rng.choice(["same", "same", "same", "copy", "fresh"]), "upd": rng.choice(["same", "copy", "mutate"])}
    for k, p in (("inplace", 0.3), ("cache", 0.3), ("xid", 0.3)):
        if rng.random() < p:
            al[k] = True
    return al


def gen_alias(rng):
    """callback result / argument aliasing: the language model computes the SAME function of (state, history) as in the other
    streams - same logical input, same model term - but the dictionaries / tensors its callbacks hand back to BeamSearch are
    the very objects they received: the new state stored into the `prev` dictionary that was passed in and that dictionary
    returned (or a shallow copy of it), state tensors overwritten in place, the logits also kept as a state entry,
    extract_by_src returning its argument for an identity src, update_input filling the dictionary it was given.  Plain hash
    LM (eager module, keyword call, module object used before, initial_state omitted, torch.jit.script over the scripted
    twin) and the library's shallow-fusion wrappers over such parts; batches whose elements finish at different steps."""
    if rng.random() < 0.4:
        for _ in range(200):
            c = gen_fused(rng)
            st = [p for p in c["fuse"]["parts"] if p["kind"] in ("rec", "hash")]
            if st:
                break
        else:
            raise _HarnessError("gen_alias: no fusion with a stateful part")
        for j, p in enumerate(st):
            on = j == 0 or rng.random() < 0.6
            if p["kind"] == "rec":
                p["alias"] = rng.choice(["same", "same", "copy"]) if on else None
            elif on:
                p["al"] = _gen_al(rng)
        if rng.random() < 0.5:
            c["width"] = max(c["width"], 2)
        return c
    stag = rng.random() < 0.3
    c = gen_staggered(rng) if stag else gen_search(rng)
    c.pop("form", None)
    c.pop("via", None)
    via = rng.choice(ALIAS_VIAS)
    if rng.random() < 0.5:
        # room for the state to matter: several slots, several steps
        c["width"] = max(c["width"], rng.choice([2, 2, 3]))
        if c["max_iters"] is not None and c["max_iters"] < 3:
            c["max_iters"] = rng.choice([3, 4, 4, 5])
            if c["V"] ** c["max_iters"] > 300:
                c["width"] = min(c["width"], 8)
            if c["N"] == 0 and c["eos"] is None:
                c["N"], c["inits"] = 2, [rng.randrange(c["M"]) for _ in range(2)]
    if via == "noinit" and not stag:
        c["inits"] = [0] * len(c["inits"])
    elif via == "noinit":
        via = None
    c["alias"] = _gen_al(rng)
    if via == "script":
        c["alias"] = {"ret": c["alias"]["ret"] if c["alias"]["ret"] != "copy" else "same"}
    if via is not None:
        c["via"], c["form"] = via, rng.randrange(12)
    return c


def alias_counts(chk, c, r):
    als = [c["alias"]] if c.get("alias") else []
    if c.get("via") == "fused":
        als += [p["al"] for p in c["fuse"]["parts"] if p.get("al")]
        als += [{"ret": p["alias"]} for p in c["fuse"]["parts"] if p.get("alias")]
    if not als:
        return
    chk.count("alias:lm=%s" % ("fusion" if c.get("via") == "fused" else "scripted" if c.get("via") == "script" else "plain"))
    for al in als:
        chk.count("alias:ret=%s" % al.get("ret"))
        for k in ("inplace", "cache", "xid"):
            if al.get(k):
                chk.count("alias:%s" % k)
        if "upd" in al:
            chk.count("alias:upd=%s" % al["upd"])
    if "out" in r and r["S"] >= 3 and c["width"] > 1:
        chk.count("alias:width>1,steps>=3" + (",batched" if (c["N"] or 0) > 1 else ""))


def situation_counts(chk, c, r):
    """histogram of the situations the independent reviews singled out, read off the implementation's answer"""
    if "out" not in r or c["eos"] is None:
        return
    S, V = r["S"], c["V"]
    eos = c["eos"] % V
    mx = [max([o[1] for o in row if o is not None and o[0] != "nonfinite"] + [0]) for row in r["out"]]
    if c["N"] is not None and c["N"] >= 2 and mx and min(mx) < max(mx) and max(mx) == S:
        chk.count("situation:element_frozen_before_another")
        if min(max(c["pad"], 0), V - 1) != eos:
            chk.count("situation:element_frozen_before_another,pad_clamps_to_non_eos")
            if eos != 0 and c["pad"] == -100:
                chk.count("situation:element_frozen_before_another,default_pad,eos!=0")
    if c["fin_all"]:
        for row in r["out"]:
            fin = [o for o in row if o is not None and o[0] != "nonfinite"]
            if len(fin) >= 2 and fin[-1][1] < max(o[1] for o in fin) and fin[-1][0][-1:] == [eos]:
                chk.count("situation:finish_all_paths,last_slot_finished_before_others")
                break


def expected_finite(case, S):
    """number of finite-score slots every element must have after S steps, when it can be told without a
    search: eos unset and all logits finite (every candidate then has a finite log-probability, so a -inf slot
    is legitimate only while there are fewer candidates than slots).  None otherwise."""
    if case["eos"] is not None or not _all_finite(case):
        return None
    cnt = 1
    for _ in range(S):
        cnt = min(case["width"], cnt * case["V"])
    return cnt


def finite_slots_ok(case, res):
    """the property's '-inf only for unusable slots', checked directly on the implementation's output"""
    if "out" not in res:
        return True
    want = expected_finite(case, res["S"])
    if want is None:
        return True
    return all(sum(o is not None for o in row) >= want for row in res["out"])


FIXED_TABLES = [  # (M, a, b, c, table) for V=2 ; logits in units of 1/64
    (5, 2, 1, 1, [[48, -33], [-81, 64], [3, 17], [-20, 29], [70, -5]]),
    (7, 3, 2, 1, [[-113, 32], [97, 15], [16, -49], [-32, -67], [5, 6], [-90, 41], [12, 100]]),
]
FIXED_TABLES3 = [
    (7, 2, 3, 1, [[48, -33, 17], [-81, 64, 1], [3, 17, -99], [32, 31, 83], [-47, 113, -15], [9, -60, 55], [71, 70, -28]]),
]


def _fine(table):
    """irregular low bits (unit 1/4096): sums over different paths do not coincide by accident"""
    return [[v * 64 + ((v * v * 31 + 7 * v + 13 * i + 5 * j) % 59) for j, v in enumerate(row)] for i, row in enumerate(table)]


def gen_exhaustive(tier):
    cases = []
    specs = [(2, FIXED_TABLES, 3)]
    if tier == "thorough":
        specs = [(2, FIXED_TABLES, 4), (3, FIXED_TABLES3, 3)]
    for V, tables, Tmax in specs:
        for (M, a, b, c, table) in tables:
            for eos in [None] + list(range(V)):
                for mi in list(range(0, Tmax + 1)) + ([None] if eos is not None else []):
                    T = 3 if mi is None else mi
                    wmax = min(2 * V ** T + 3, 2 * n_complete(V, eos, T) + 3, 40)
                    for width in range(1, wmax + 1):
                        for fin_all in ([False, True] if eos is not None else [False]):
                            for N, inits in ((None, [1]), (3, [0, 1, M - 1])):
                                cases.append(dict(kind="search", V=V, M=M, a=a, b=b, c=c, unit=4096, table=_fine(table), width=width, eos=eos,
                                                  fin_all=fin_all, pad=-100, max_iters=mi, N=N, inits=inits,
                                                  stream="exhaustive"))
    return cases


# ----------------------------------------------------------------------------------------------------
# judging
# ----------------------------------------------------------------------------------------------------
def _same_elem(a, b, tol=TOL):
    """two canonical beams of one element: same finite slots (scores within tol), same -inf slots."""
    if len(a) != len(b):
        return False
    for x, y in zip(a, b):
        if (x is None) != (y is None):
            return False
        if x is not None and (x[0] != y[0] or x[1] != y[1] or not (abs(x[2] - y[2]) <= tol)):
            return False
    return True


def no_growth_class(case):
    """inputs on which forward() can stop growing y while the loop goes on: an element whose finite-score
    paths have all finished is kept alive (finish_all_paths) by unusable -inf slots shorter than S; needs
    zero-probability tokens (with all-finite rows every unfinished element has a full-length path)."""
    return case["eos"] is not None and case["fin_all"] and not _all_finite(case)


def is_no_growth_exc(res):
    return res.get("exc") == "LMContract" or (res.get("exc") == "RuntimeError" and "must match the size of tensor" in res.get("msg", ""))


def sig_no_growth(entry, record):
    """known-findings signature: {"kind": "no_growth_raise"} matches a record whose case is in the
    no-growth class and whose failure is exactly one of the two raises this causes (LM asked for
    idx > hist.size(0); shape mismatch in the freeze torch.where), in the batch or in an element alone."""
    sg = entry.get("signature", {})
    if sg.get("kind") != "no_growth_raise":
        return False
    if not no_growth_class(record["case"]):
        return False
    outs = [record.get("impl")] + [d for d in [(record.get("detail") or {}).get("alone")] if isinstance(d, dict)]
    return any(isinstance(o, dict) and is_no_growth_exc(o) for o in outs)


def batch_independent(case, res):
    """the property's own relation: element n of the batch = that element searched alone (batch of one and
    unbatched).  Returns (ok, detail, staggered)."""
    if case["N"] is None or case["N"] < 1 or "out" not in res:
        return True, None, False
    Ss = []
    tol = _tol_float(case)
    for n, s0 in enumerate(case["inits"]):
        for NN in (1, None):
            solo = _search_once(case, [s0], NN)
            if "out" not in solo:
                return False, {"element": n, "alone": solo, "batch_size": NN}, False
            if not _same_elem(solo["out"][0], res["out"][n], tol):
                return False, {"element": n, "alone": solo["out"][0], "in_batch": res["out"][n], "batch_size": NN}, False
        Ss.append(solo["S"])
    return True, None, len(set(Ss)) > 1


def nontrivial(case, res):
    if "out" not in res or res["S"] < 2:
        return False
    V = case["V"]
    eos = None if case["eos"] is None else case["eos"] % V
    return case["width"] < n_complete(V, eos, res["S"])     # something was pruned


def _eval3(chk, cases, results, tag):
    """(tied, agrees with the model, accepted by the spec) per case; 'accepted' = Spec.spec_okb and the directly
    checked clause finite_slots_ok"""
    vals = eval_rows(chk.workdir, [row_term(c, r) for c, r in zip(cases, results)], tag)
    return [(t, ok, spec and finite_slots_ok(c, r)) for (t, ok, spec), c, r in zip(vals, cases, results)]


def _search_fails(chk, case):
    res = run_impl(case)
    tied, ok, spec = _eval3(chk, [case], [res], "shr")[0]
    return (not tied) and not (ok and spec)


def _search_cands(case):
    N = case["N"]
    if N is not None and N > 1:
        for n in range(N):
            c = dict(case, N=N - 1, inits=case["inits"][:n] + case["inits"][n + 1:])
            yield c
    if N == 1:
        yield dict(case, N=None)
    if case["width"] > 1:
        yield dict(case, width=case["width"] - 1)
        yield dict(case, width=max(1, case["width"] // 2))
    if case["max_iters"] is not None and case["max_iters"] > 0:
        yield dict(case, max_iters=case["max_iters"] - 1)
    if case["max_iters"] is None:
        yield dict(case, max_iters=CAP - 1)
    if case["fin_all"]:
        yield dict(case, fin_all=False)
    if case["pad"] != -100:
        yield dict(case, pad=-100)
    if case.get("via") is not None and case.get("via") != "noinit":
        yield {k: v for k, v in case.items() if k not in ("via", "form")}
    if case["eos"] is not None and case["eos"] < 0:
        yield dict(case, eos=case["eos"] + case["V"])
    if any(x is None for row in case["table"] for x in row):
        yield dict(case, table=[[0 if x is None else x for x in row] for row in case["table"]])


def _record(chk, case, res, tied, ok, spec, extra=None):
    rec = {"case": case, "impl": res, "model": coq_eval_print(chk.workdir, IMPORTS, model_show(case)),
           "agrees_with_model": ok, "spec_accepts_impl": spec,
           "correspondence": "corr:C04:BeamSearch.__call__", "theorems_at_stake": THEOREMS}
    if extra:
        rec.update(extra)
    if not finite_slots_ok(case, res):
        rec["what"] = ("BeamSearch output violates the property: -inf in a slot that is not unusable (all logits are finite and "
                       "eos is unset, so after %d steps every element has %d candidates of finite log-probability, yet fewer "
                       "finite-score slots are returned)" % (res["S"], expected_finite(case, res["S"])))
    elif not spec:
        rec["what"] = ("BeamSearch output violates the property: a finite-score path is duplicated / not cut at its first "
                       "eos / scored differently from the language model's own chained log-probability / out of order / "
                       "missing from an exhaustive beam")
    else:
        rec["what"] = "BeamSearch output differs from the model but satisfies the property's boolean reading"
    return rec


def run_search_cases(chk, cases, meta_budget):
    results, strm = [], []
    for c in cases:
        strm.append(c.pop("stream", None))
        results.append(run_impl(c))
    verdicts = _eval3(chk, cases, results, "srch")
    bad, spec_bad, exc_bad = [], [], []
    for i, (c, r, (tied, ok, spec)) in enumerate(zip(cases, results, verdicts)):
        chk.count("search:V=%d" % c["V"])
        chk.count("search:eos=" + ("unset" if c["eos"] is None else "set"))
        chk.count("search:fin_all=%s" % c["fin_all"])
        chk.count("search:N=" + str(c["N"]))
        chk.count("search:max_iters=" + ("None" if c["max_iters"] is None else "0" if c["max_iters"] == 0 else "n"))
        chk.count("search:width=" + ("1" if c["width"] == 1 else "<=V" if c["width"] <= c["V"] else ">V"))
        chk.count("search:zero_prob_tokens=%s" % (not _all_finite(c)))
        chk.count("search:dtype=%s" % c.get("dtype", "float64"))
        chk.count("search:via=%s" % c.get("via", "module"))
        situation_counts(chk, c, r)
        alias_counts(chk, c, r)
        if c.get("via") == "fused":
            fused_counts(chk, c)
            chk.count("fused:outcome=" + ("skipped_near_tie" if tied and "exc" not in r else "compared"))
        if r.get("watchdog"):
            chk.count("search:outcome=still_running_at_cap")
        elif "exc" in r:
            chk.count("search:outcome=exception:" + r["exc"])
        else:
            chk.count("search:outcome=ok")
            chk.count("search:steps=%d" % r["S"])
            if any(o is None for row in r["out"] for o in row):
                chk.count("search:has_unusable_slots")
        if "exc" in r:
            exc_bad.append(i)
            chk.count("search:failing:stream=%s" % strm[i])
            continue
        if tied:
            chk.count("search:skipped_near_tie")
            if strm[i] == "extreme-magnitude":
                chk.count("search:extreme:skipped_near_tie")
            continue
        if strm[i] == "extreme-magnitude":
            chk.count("search:extreme:compared")
            if any(o is None for row in r.get("out", []) for o in row):
                chk.count("search:extreme:compared_with_unusable_slots")
        if not spec:
            spec_bad.append(i)
        elif not ok:
            bad.append(i)
        if not (spec and ok):
            chk.count("search:failing:stream=%s" % strm[i])     # absent on a tree the check accepts
    chk.extra["search_model_disagreements"] = chk.extra.get("search_model_disagreements", 0) + len(bad) + len(spec_bad)

    def fails(kind):
        def f(c):
            tied, ok, spec = _eval3(chk, [c], [run_impl(c)], "shr")[0]
            return (not tied) and not (spec if kind == "spec" else ok)
        return f

    nrep = 0
    for i in exc_bad:
        # forward() raised on a valid input: nothing is returned where the property promises a beam
        c, r = cases[i], results[i]
        alone = None
        if c["N"] is not None and c["N"] >= 1:
            alone = [_search_once(c, [s0], 1) for s0 in c["inits"]]
        rec = {"case": c, "impl": r, "alone_raises": None if alone is None else ["exc" in a for a in alone],
               "what": "BeamSearch raised %s (%s) on a valid input%s" % (
                   r["exc"], r.get("msg", "")[:90],
                   "; every element searched alone returns a beam" if alone and not any("exc" in a for a in alone) else ""),
               "correspondence": "corr:C04:BeamSearch.__call__", "theorems_at_stake": THEOREMS}
        if chk.known_match(sig_no_growth, rec) is not None:
            chk.report(rec, sig_no_growth)
            continue
        if nrep >= 2:
            continue
        nrep += 1
        small = shrink(c, lambda x: "exc" in run_impl(x), _search_cands, budget=25)
        rs = run_impl(small)
        rec = dict(rec, case=small, impl=rs, alone_raises=None)
        if small["N"] is not None and small["N"] >= 1:
            al = [_search_once(small, [s0], 1) for s0 in small["inits"]]
            rec["alone_raises"] = ["exc" in a for a in al]
        rec["what"] = "BeamSearch raised %s (%s) on a valid input%s" % (
            rs.get("exc"), rs.get("msg", "")[:90],
            "; every element searched alone returns a beam" if rec["alone_raises"] and not any(rec["alone_raises"]) else "")
        chk.report(rec, sig_no_growth)
    for i in spec_bad[:3]:
        # concrete failing inputs: the implementation's own output is rejected by the spec checker
        case = shrink(cases[i], fails("spec"), _search_cands, budget=20)
        res = run_impl(case)
        tied, ok, spec = _eval3(chk, [case], [res], "jdg")[0]
        if tied or spec:
            case, res, (tied, ok, spec) = cases[i], results[i], verdicts[i]
        chk.report(_record(chk, case, res, tied, ok, spec))
    if bad and not spec_bad:
        # the model no longer describes the code, yet every explored output satisfies the spec checker
        case = shrink(cases[bad[0]], fails("model"), _search_cands, budget=20)
        res = run_impl(case)
        tied, ok, spec = _eval3(chk, [case], [res], "jdg")[0]
        if tied or ok:
            case, res, (tied, ok, spec) = cases[bad[0]], results[bad[0]], verdicts[bad[0]]
        chk.report(_record(chk, case, res, tied, ok, spec), no_failing_input=spec)
    # metamorphic: batch element independence on the implementation
    done = nrep = 0
    elig = [i for i, (c, r) in enumerate(zip(cases, results)) if c["N"] is not None and c["N"] >= 2 and "out" in r]
    if len(elig) > meta_budget > 0:
        # spread the budget evenly over the case list (every stream gets its share), not the first ones only
        elig = [elig[(j * len(elig)) // meta_budget] for j in range(meta_budget)]
    for i in elig:
        c, r = cases[i], results[i]
        if done >= meta_budget or nrep >= 2:
            break
        done += 1
        chk.count("meta:batch_vs_alone:stream=%s" % strm[i])
        ok, detail, staggered = batch_independent(c, r)
        chk.count("meta:batch_vs_alone")
        if staggered:
            chk.count("meta:elements_finish_at_different_steps")
        if not ok and chk.known_match(sig_no_growth, {"case": c, "impl": r, "detail": detail}) is not None:
            chk.report({"case": c, "impl": r, "detail": detail}, sig_no_growth)
            continue
        if not ok:
            nrep += 1
            small = shrink(c, lambda x: not batch_independent(x, run_impl(x))[0], _search_cands, budget=20)
            r2 = run_impl(small)
            ok2, detail2, _ = batch_independent(small, r2)
            if ok2:
                small, r2, detail2 = c, r, detail
            chk.report({"case": small, "impl": r2, "detail": detail2,
                        "what": "a batch element's beam differs from the beam of that element searched alone",
                        "theorems_at_stake": ["c04_beam_batch_independent"]}, sig_no_growth)
    return results


def run_adv_cases(chk, cases):
    results = [run_impl_adv(c) for c in cases]
    terms = [adv_term(c, r) for c, r in zip(cases, results)]
    vals = coq_eval_bools(chk.workdir, IMPORTS, terms, shard=300, tag="adv")
    bad = [i for i, v in enumerate(vals) if not v]
    for c, r in zip(cases, results):
        chk.count("advance:" + ("error" if r is None else "exc" if "exc" in r else "ok"))
        chk.count("advance:lens=" + ("None" if c["lens"] is None else "given"))
        chk.count("advance:S=" + ("0" if c["S"] == 0 else ">0"))
        chk.count("advance:width" + ("=0" if c["width"] == 0 else "<=KpV" if c["width"] <= c["Kp"] * c["V"] else ">KpV"))
    chk.extra["advance_model_disagreements"] = len(bad)
    source_tie(chk, cases, results, terms)
    for i in bad:
        chk.count("advance:failing:layout=%d,f32=%s,call=%s" % (cases[i].get("layout", 0), bool(cases[i].get("f32")), cases[i].get("call", "pos")))
    for i in bad[:2]:
        c = cases[i]

        def fails(x):
            return not coq_eval_bools(chk.workdir, IMPORTS, [adv_term(x, run_impl_adv(x))], tag="ashr")[0]

        def cands(x):
            if x["N"] > 1:
                for n in range(x["N"]):
                    y = dict(x, N=x["N"] - 1)
                    for key in ("prev", "logp", "y") + (("lens",) if x["lens"] is not None else ()):
                        y[key] = x[key][:n] + x[key][n + 1:]
                    yield y
            if x["width"] > 1:
                yield dict(x, width=x["width"] - 1)
        small = shrink(c, fails, cands, budget=15)
        rs = run_impl_adv(small)
        chk.report({"case": small, "impl": rs,
                    "model": coq_eval_print(chk.workdir, IMPORTS, adv_show(small)),
                    "what": "beam_search_advance overwrote one of its argument tensors in place"
                            if isinstance(rs, dict) and rs.get("exc") == "InputModified" else
                            "beam_search_advance differs from the model on finite-score slots (top-k over joint scores, "
                            "prefix gathered by source index, token written at the prefix length, length + 1, -inf filler)",
                    "correspondence": "corr:C04:beam_search_advance", "theorems_at_stake": THEOREMS})


# ----------------------------------------------------------------------------------------------------
# source tie: the Python text of beam_search_advance, translated to MiniPy (harness/py2coq) and interpreted in Coq
# (PV.C04.SrcRun.src_advance_check; torch calls = PV.MiniTorch.OpsC04, torch.topk = the model's stable top-k),
# against the implementation's output on the advance cases of this run
# ----------------------------------------------------------------------------------------------------
IMPORTS_SRC = IMPORTS + "From PV Require C04.SrcRun.\n"
SRC_THEOREMS = ["c04_source_advance_is_model", "c04_source_advance_refines_model", "c04_source_advance_check_is_check",
                "c04_source_advance_is_tensor_program", "c04_source_advance_raises_not_3d", "c04_source_advance_sorted"]


def _adv_wf(c):
    """Tie.wf_adv of the case (the hypothesis of the c04_source_advance_* theorems)"""
    return c["N"] >= 1 and c["Kp"] >= 1 and c["V"] >= 1 and (
        c["lens"] is None or c["S"] == 0 or all(0 <= x <= c["S"] for r in c["lens"] for x in r))


def source_tie(chk, cases, results, terms):
    """run the translated source inside Coq (vm_compute) on the advance cases of this run, same literal as the model term:
    validates translator + MiniPy.Interp + ext04 + MiniTorch.OpsC04 (incl. the topk oracle) against torch; independent of
    whether the tie lemmas still compile"""
    import time
    from vlib import CoqError
    idx = [i for i, (r, t) in enumerate(zip(results, terms)) if t != "false" and not (isinstance(r, dict) and "exc" in r)]
    if not idx:
        chk.extra["source_tie_run"] = {"cases": 0, "disagreements": 0}
        return
    sterms = ["SrcRun." + terms[i].replace("check_advance", "src_advance_check", 1) for i in idx]
    t0 = time.time()
    try:
        res = coq_eval_bools(chk.workdir, IMPORTS_SRC, sterms, shard=60, tag="srcadv")
    except CoqError as e:
        chk.extra["source_tie_run"] = "not evaluated: " + str(e)[-400:]
        return
    bad = [idx[j] for j, ok in enumerate(res) if not ok]
    chk.extra["source_tie_run"] = {
        "cases": len(idx), "disagreements": len(bad), "wall_s": round(time.time() - t0, 1),
        "well_formed": sum(1 for i in idx if _adv_wf(cases[i])),
        "runtime_error": sum(1 for i in idx if results[i] is None),
        "with_lens": sum(1 for i in idx if cases[i]["lens"] is not None),
        "t0": sum(1 for i in idx if cases[i]["S"] == 0),
        "padded": sum(1 for i in idx if cases[i]["width"] > cases[i]["Kp"] * cases[i]["V"]),
        "pruned": sum(1 for i in idx if 0 < cases[i]["width"] < cases[i]["Kp"] * cases[i]["V"])}
    chk.count("source_tie_cases", len(idx))
    if bad:
        i = bad[0]
        chk.report({"case": cases[i], "impl": results[i],
                    "what": "the Python source of beam_search_advance as translated to MiniPy and interpreted in Coq "
                            "(PV.C04.SrcRun.src_advance, torch calls = PV.MiniTorch.OpsC04, topk = the model's stable top-k) does "
                            "not reproduce the implementation's output: translator / interpreter / ext04 / MiniTorch / the topk "
                            "oracle no longer describe the code",
                    "disagreeing_cases": len(bad),
                    "correspondence": "tie:C04:py2coq+MiniPy.Interp+MiniTorch:beam_search_advance",
                    "theorems_at_stake": SRC_THEOREMS}, no_failing_input=True)


def adv_show(case):
    t = adv_term(case, None)
    return t.replace("check_advance", "advance_fn topk_stable", 1).rsplit(" None", 1)[0]


def arg_checks(chk):
    """documented argument errors of forward()."""
    from pydrobert.torch.modules import BeamSearch

    case = dict(V=2, M=5, a=2, b=1, c=1, unit=64, table=FIXED_TABLES[0][4], width=2, eos=None, fin_all=False, pad=-100)
    lm = _lm_class()(2, 5, 2, 1, 1, _table_tensor(case))
    s0 = torch.tensor([0])
    init = {"s": s0, "aux": torch.stack([s0 * 0, s0], 1)}
    for eos, mi in ((None, None), (0, -1)):
        chk.count("argcheck")
        try:
            BeamSearch(lm, 2, eos=eos)(init, None, mi)
            chk.report({"case": {"kind": "argcheck", "eos": eos, "max_iters": mi},
                        "what": "forward() accepted eos unset with max_iters unset / a negative max_iters"})
        except RuntimeError:
            pass


# ----------------------------------------------------------------------------------------------------
def run(chk, cases=None):
    chk.rule = ("search case = (vocabulary V, stateful hash LM (M states, a, b, c, logits table), width, eos, finish_all_paths, "
                "pad_value, max_iters, batch_size, initial states); BeamSearch.__call__ is run on it; finite-score slots "
                "(valid prefix, length, score) and the positions of -inf slots are compared with PV.C04.Model.search under "
                "the stable topk, tolerance 1e-9, near-tie cases (any decision closer than 1e-6) skipped and counted; the "
                "same output goes to PV.C04.Spec.spec_okb and to the batch-vs-alone relation. advance case = one call of "
                "beam_search_advance on integer scores with distinct sums, compared exactly. non-trivial = at least two "
                "steps and width below the number of complete sequences of that depth (pruning happened). extreme-magnitude "
                "stream: logits scaled by 100..1000, rows shifted by +-100..1000, one logit dominating by 100..1500 nats, in "
                "float32 and float64 (tolerance and tie margin widened to the rounding bound of the sums, see _tol_margin); "
                "with eos unset and all logits finite the number of finite-score slots is also checked directly. "
                "entry-layout-history stream: the same logical inputs through torch.jit.script(BeamSearch) over a scripted LM, keyword "
                "arguments, initial_state None/{}/omitted, an LM and caller handing over non-contiguous tensors, and a module object used "
                "before (two identical calls must agree bit for bit) - same model term. staggered-batch stream: eos-eager and eos-averse "
                "initial states in one batch (an element is frozen and padded strictly before another), eos mostly != 0, default pad. "
                "About half of the advance cases pass non-contiguous views / float32 / keyword arguments; arguments must stay unchanged. "
                "fused-lm stream: the language model is the library's Extractable/MixableShallowFusionLanguageModel (nested, custom "
                "prefixes, dyadic beta) over 2-3 parts of different or equal classes (library LookupLanguageModel order 1..3, the hash "
                "LM, test doubles with state under other key names, batch dimension 0 / 1 / last / none, one or two tensors, stateless, "
                "strict or re-initialising), initial state of each part given or left to update_input; every part is a state machine "
                "over Z_Mi with pairwise coprime Mi, so the logical input handed to the model is the product machine over Z_(prod Mi) "
                "(Chinese remainders) with table = sum of coef_i * table_i - same model term, log-probabilities chained afresh. "
                "lm-aliasing stream: the same logical language models, but the callbacks hand back the very objects they received: "
                "the new state stored into the `prev` dictionary passed in and that dictionary (or a shallow copy) returned, state "
                "tensors overwritten in place, the logits also kept as a state entry, extract_by_src returning its argument for an "
                "identity src, update_input filling the dictionary it was given; plain hash LM (eager, keyword call, module used "
                "before, initial_state omitted, scripted twin) and shallow fusions over such parts - same model term; the caller's "
                "initial_state tensors must be left as they were")
    chk.assumptions += [
        "the test LM's rows of log-probabilities are torch's float64 log_softmax of its logits, handed to the model exactly; "
        "sums are compared with tolerance 1e-9 (regime T), decisions kept at margin 1e-6",
        "extreme-magnitude / float32 cases: the oracle is torch's log_softmax in the table's own dtype (numerically stable: "
        "finite for all finite logits); tolerance = max(1e-9, u*max|logp|*steps*(steps+1)), u = 2^-51 (float64) or 2^-22 "
        "(float32), steps = y.size(0), margin = max(1e-6, 2*tolerance)",
        "slots with score -inf are compared only by position (torch.topk's tie-break among -inf candidates is unspecified)",
        "cells of y beyond y_lens are not compared (documented as invalid)",
        "the test LM acts row-wise on the batch and reads only hist[idx-1] and its own state; it refuses idx > hist.size(0) "
        "(the documented contract of calc_idx_log_probs) and idx >= %d (watchdog for max_iters=None)" % CAP,
        "an exception raised by forward() on a valid input is a failing input (nothing is returned); the model does not "
        "describe exceptions",
        "fused-lm stream: betas are dyadic and the parts' logits multiples of 2^-16, so the fused logits "
        "(first + beta * second, in float64, or float32 when every part is a float32 lookup model) are exact and equal to the "
        "product machine's table; the library's LookupLanguageModel is given dense n-gram tables (no backoff is taken); prefix "
        "pairs are prefix-free (with one prefix a prefix of the other split_dicts is ambiguous: corpus/C04/"
        "fused_overlapping_prefixes.json.pending)",
    ]
    chk.extra["trusted_base"] = ["float64 rounding of sums in the implementation is bounded by the 1e-9 tolerance, not modelled"]
    torch.set_num_threads(1)
    if cases is not None:
        s = [c for c in cases if c.get("kind") == "search"]
        a = [c for c in cases if c.get("kind") == "advance"]
        for c in s:
            chk.note_case(c, True, "replay")
        for c in a:
            chk.note_case(c, True, "replay")
        if s:
            run_search_cases(chk, s, meta_budget=len(s))
        if a:
            run_adv_cases(chk, a)
        return
    thorough = chk.tier == "thorough"
    arg_checks(chk)
    ex = gen_exhaustive(chk.tier)
    chk.extra["exhaustive"] = True
    chk.extra["exhaustive_scope"] = (
        ("V=2 (two LMs), max_iters 0..4 and unset; V=3 (one LM), max_iters 0..3 and unset" if thorough
         else "V=2 (two LMs), max_iters 0..3 and unset")
        + "; eos in {unset, every token}; both finish_all_paths; every width 1..min(2*#complete+3, 2*V^T+3, 40); "
          "unbatched and a batch of three initial states")
    corpus = [c for c in load_corpus("C04") if isinstance(c, dict)]
    corpus = [dict(c.get("case", c), stream="corpus") for c in corpus]
    rnd = [dict(gen_search(chk.rng), stream="random") for _ in range(12000 if thorough else 500)]
    rnd += [dict(gen_zero_prob(chk.rng), stream="zero-prob") for _ in range(1500 if thorough else 80)]
    rnd += [dict(gen_extreme(chk.rng), stream="extreme-magnitude") for _ in range(3000 if thorough else 160)]
    rnd += [dict(gen_variant(chk.rng), stream="entry-layout-history") for _ in range(3000 if thorough else 200)]
    rnd += [dict(gen_staggered(chk.rng), stream="staggered-batch") for _ in range(2500 if thorough else 150)]
    rnd += [dict(gen_fused(chk.rng), stream="fused-lm") for _ in range(3000 if thorough else 240)]
    rnd += [dict(gen_alias(chk.rng), stream="lm-aliasing") for _ in range(3000 if thorough else 220)]
    allc = ex + [c for c in corpus if c.get("kind") == "search"] + rnd
    streams = [c.get("stream", "random") for c in allc]
    results = run_search_cases(chk, allc, meta_budget=(3000 if thorough else 150))
    for c, r, s in zip(allc, results, streams):
        chk.note_case(c, nontrivial(c, r), s)
    adv = [gen_adv(chk.rng) for _ in range(12000 if thorough else 700)]
    adv = [dict(c) for c in corpus if c.get("kind") == "advance"] + adv
    for c in adv:
        c.pop("stream", None)
        chk.note_case(c, c["width"] < c["Kp"] * c["V"] and c["S"] > 0, "advance")
    run_adv_cases(chk, adv)
    from props.c04_tie import source_tieB      # second source tie (BeamSearch.forward blocks), see props/c04_tie.py
    source_tieB(chk, allc, results)


def replay(chk, path):
    rec = json.loads(open(path).read())
    case = rec["case"]
    case.pop("stream", None)
    if case.get("kind") == "argcheck":
        arg_checks(chk)
        return
    run(chk, [dict(case)])
