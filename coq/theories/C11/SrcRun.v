(* C11 - the translated source of read_ctm / write_ctm (their open-file branches), transcript_to_token and
   token_to_transcript as executables (DEFINITIONS ONLY; the lemmas are in Tie*.v).  PV.Gen.C11Src.* is
   regenerated from /repo/src/pydrobert/torch/_parsing.py on every run by harness/py2coq/translate.py.

   ENCODINGS (trusted; exercised on every run by the harness-side source run against CPython / torch)
   * a Python str is the LIST of its characters, a character being the tagged value ("$chr", code point):
     MiniPy's own [VStr] holds bytes, the model's strings are sequences of arbitrary code points.  len, ==,
     use as a dict key, truthiness and indexing of a str then are MiniPy's own list operations; the ordering
     of str (and of tuples) is given by [val_cmp] below, reached through ext "$sorted".
     (The only Python LISTS among the inputs are the transcripts and the file; no value that stands for a str
     is ever in a position where the code could tell it from a list except through `isinstance(x, str)`,
     which [ext11] answers with "is a VList".)
   * a ctm file is the list of its lines; a line is ("$line", [fields], has-comment): THE TEXT LAYER IS NOT
     MODELLED BELOW FIELD LEVEL (as in C11.Model: "the ctm text layer (fields joined by one space /
     str.split())" is an oracle).  Assumed: `line.split(";;")[0]` is the line without its comment (no field
     contains ";;"), `.strip()` of a line without fields is "" and leaves any other line alone, `.split()`
     gives the fields, `"{} {} {} {} {}\n".format(a, b, c, d, e)` is the line with these five fields.
   * a field holding a number is ("$numtext", q): `float(field)` is q, `"{}".format(x)` of a float is the
     field that float() reads back as x ("float printing / float(s) is the identity on values", C11.Model);
     `float` of any other field raises ValueError.  Times are in grid units (C11.Model: "times on a grid, as
     Z"): only +, -, < and == of times are used, which commute with the scaling by the grid step.
   * a Python float is an exact rational [VQ]; a long tensor is the nested tuple of its rows, a 0-dimensional
     one its integer (MiniTorch.OpsC11).  torch.long / np: `torch` is bound to an object with the attribute
     `long` (a dtype token that [ext11] ignores). *)
From Coq Require Import ZArith QArith Qround List String Ascii Bool.
From PV Require Import C11.Model MiniPy.Syntax MiniPy.Interp MiniTorch.OpsC11 Gen.C11Src.
Import ListNotations.
Local Open Scope string_scope.

(* ---- strings, numbers, lines ------------------------------------------------------------------ *)
Definition enc_chr (c : Z) : val := VTuple [VStr "$chr"; VInt c].
Definition enc_str (s : str) : val := VList (map enc_chr s).
Definition num_text (q : Q) : val := VTuple [VStr "$numtext"; VQ q].
Definition enc_num (z : Z) : val := num_text (inject_Z z).
Definition mk_line (fields : list val) (comment : bool) : val :=
  VTuple [VStr "$line"; VList fields; VBool comment].
Definition enc_seg_line (l : seg) : val :=
  let '(w, c, s, d, t) := l in mk_line [enc_str w; enc_str c; enc_num s; enc_num d; enc_str t] false.

Definition qz (z : Z) : val := VQ (inject_Z z).

Definition enc_timed (x : timed) : val :=
  let '(t, s, e) := x in VTuple [enc_str t; qz s; qz e].

Definition enc_utt (ut : str * list timed) : val := VTuple [enc_str (fst ut); VList (map enc_timed (snd ut))].

Definition enc_wc2utt (m : option (list ((str * str) * str))) : val :=
  match m with
  | None => VNone
  | Some l => VDict (map (fun kv => (VTuple [enc_str (fst (fst kv)); enc_str (snd (fst kv))], enc_str (snd kv))) l)
  end.

(* write_ctm's arguments *)
Definition enc_wtok (x : str * option (Z * Z)) : val :=
  match snd x with
  | None => enc_str (fst x)
  | Some (s, e) => VTuple [enc_str (fst x); qz s; qz e]
  end.
Definition enc_wutt (ut : str * list (str * option (Z * Z))) : val :=
  VTuple [enc_str (fst ut); VList (map enc_wtok (snd ut))].
Definition enc_utt2wc (m : utt2wc_t) : val :=
  match m with
  | inl d => VDict (map (fun kv => (enc_str (fst kv), VTuple [enc_str (fst (snd kv)); enc_str (snd (snd kv))])) d)
  | inr ch => enc_str ch
  end.
Definition str_type : val := VStr "$type:str".

(* ---- tokens, tensors -------------------------------------------------------------------------- *)
Definition enc_tk (t : tk) : val := match t with TInt z => VInt z | TStr s => enc_str s end.
Definition enc_item (it : Model.item) : val :=
  match it with Plain t => enc_tk t | Timed t s e => VTuple [enc_tk t; VQ s; VQ e] end.
Definition enc_t2i (m : option (list (tk * Z))) : val :=
  match m with None => VNone | Some l => VDict (map (fun kv => (enc_tk (fst kv), VInt (snd kv))) l) end.
Definition enc_i2t (m : option (list (Z * tk))) : val :=
  match m with None => VNone | Some l => VDict (map (fun kv => (VInt (fst kv), enc_tk (snd kv))) l) end.
Definition enc_fs (fs : option Q) : val := match fs with None => VNone | Some d => VQ d end.
Definition enc_unk (u : option tk) : val := match u with None => VNone | Some t => enc_tk t end.
Definition torch_obj : val := VDict [(VStr "long", VStr "$dtype:long")].

Definition enc_cell (c : cell) : val := match c with Some z => VInt z | None => VNone end.
Definition enc_lt (t : ltens) : val :=
  match t with
  | T0 c => enc_cell c
  | T1 l => VTuple (map enc_cell l)
  | T2 rows => VTuple (map (fun r => VTuple (map enc_cell r)) rows)
  end.

Fixpoint all_some {A} (l : list (option A)) : option (list A) :=
  match l with
  | [] => Some []
  | Some x :: r => option_map (cons x) (all_some r)
  | None :: _ => None
  end.

Definition dec_cell (v : val) : option cell :=
  match v with VInt z => Some (Some z) | VNone => Some None | _ => None end.
Definition dec_row (v : val) : option (list cell) :=
  match v with VTuple l => all_some (map dec_cell l) | _ => None end.
(* a tuple of cells is a 1-dimensional tensor (the empty tuple too), a tuple of such tuples a 2-dimensional one *)
Definition dec_lt (v : val) : option ltens :=
  match v with
  | VInt z => Some (T0 (Some z))
  | VNone => Some (T0 None)
  | VTuple l =>
      match all_some (map dec_cell l) with
      | Some cells => Some (T1 cells)
      | None => option_map T2 (all_some (map dec_row l))
      end
  | _ => None
  end.

(* the tensor token_to_transcript is given: shape (R, 3) [cols = 3], (R, 1) [cols = 1] or (R,) [cols = 0] *)
Definition enc_ref (cols : nat) (rows : list (Z * Z * Z)) : val :=
  match cols with
  | O => VTuple (map (fun r => VInt (fst (fst r))) rows)
  | S O => VTuple (map (fun r => VTuple [VInt (fst (fst r))]) rows)
  | _ => VTuple (map (fun r => VTuple [VInt (fst (fst r)); VInt (snd (fst r)); VInt (snd r)]) rows)
  end.

(* ---- Python's ordering of numbers, str (code points), tuples / lists (first difference decides) ------- *)
Fixpoint string_cmp (a b : string) : comparison :=
  match a, b with
  | EmptyString, EmptyString => Datatypes.Eq
  | EmptyString, String _ _ => Datatypes.Lt
  | String _ _, EmptyString => Datatypes.Gt
  | String x a', String y b' =>
      match N.compare (N_of_ascii x) (N_of_ascii y) with Datatypes.Eq => string_cmp a' b' | c => c end
  end.

Fixpoint val_cmp (a b : val) {struct a} : option comparison :=
  let fix lcmp (x y : list val) {struct x} : option comparison :=
    match x, y with
    | [], [] => Some Datatypes.Eq
    | [], _ :: _ => Some Datatypes.Lt
    | _ :: _, [] => Some Datatypes.Gt
    | u :: x', w :: y' =>
        match val_cmp u w with
        | Some Datatypes.Eq => lcmp x' y'
        | o => o
        end
    end in
  match a, b with
  | VStr s, VStr t => Some (string_cmp s t)
  | VList x, VList y => lcmp x y
  | VTuple x, VTuple y => lcmp x y
  | VInt x, VInt y => Some (Z.compare x y)
  | VInt x, VQ q => Some (Qcompare (inject_Z x) q)
  | VQ p, VInt y => Some (Qcompare p (inject_Z y))
  | VQ p, VQ q => Some (Qcompare p q)
  | _, _ => None
  end.

(* sorted(): stable; insertion after the last element that is <=  (the formulation of C11.Model.insert_by) *)
Fixpoint insert_kv (e : val * val) (l : list (val * val)) : option (list (val * val)) :=
  match l with
  | [] => Some [e]
  | y :: t =>
      match val_cmp (fst y) (fst e) with
      | Some Datatypes.Gt => Some (e :: l)
      | Some _ => option_map (cons y) (insert_kv e t)
      | None => None
      end
  end.

Definition sort_kv (l : list (val * val)) : option (list (val * val)) :=
  fold_left (fun acc e => match acc with Some a => insert_kv e a | None => None end) l (Some []).

(* ---- numbers ---------------------------------------------------------------------------------- *)
Definition is_real (v : val) : bool := match v with VInt _ | VQ _ | VBool _ => true | _ => false end.
Definition num_q (v : val) : option Q := match v with VInt z => Some (inject_Z z) | VQ q => Some q | _ => None end.

(* the integer stored when a Python number is assigned into a long tensor / int(x): truncation toward zero *)
Definition to_long (v : val) : option Z :=
  match v with VInt z => Some z | VQ q => Some (qtrunc q) | VBool b => Some (if b then 1 else 0)%Z | _ => None end.

Fixpoint enum_from (i : Z) (l : list val) : list val :=
  match l with [] => [] | x :: r => VTuple [VInt i; x] :: enum_from (i + 1) r end.

Definition is_line (v : val) : option (list val * bool) :=
  match v with
  | VTuple [VStr tag; VList fs; VBool c] => if String.eqb tag "$line" then Some (fs, c) else None
  | _ => None
  end.

Definition ctm_format : string := "{} {} {} {} {}?".     (* the translator prints the line break as "?" *)

Definition as_field (v : val) : val :=
  match v with VQ q => num_text q | VInt z => num_text (inject_Z z) | _ => v end.

(* ---- the calls the four functions make outside MiniPy's subset ------------------------------------ *)
Definition ext11 (f : string) (args : list val) (kw : list (string * val)) (st : state) : outcome val :=
  if is f "OrderedDict" then
    match args with [] => Ok (VDict []) st | _ => Stuck "C11: OrderedDict(...)" end
  else if is f "enumerate" then
    match args with [VList l] => Ok (VList (enum_from 0 l)) st | _ => Stuck "C11: enumerate" end
  else if is f "$method.split" then
    match args with
    | [l; VStr sep] =>
        match is_line l with
        | Some (fs, c) =>
            if String.eqb sep ";;" then Ok (VList (mk_line fs false :: if c then [VStr "comment"] else [])) st
            else Stuck "C11: split(sep)"
        | None => Stuck "C11: split of a non-line"
        end
    | [l] =>
        match is_line l with
        | Some (fs, false) => Ok (VList fs) st
        | _ => Stuck "C11: split of a non-line"
        end
    | _ => Stuck "C11: split"
    end
  else if is f "$method.strip" then
    match args with
    | [l] =>
        match is_line l with
        | Some ([], false) => Ok (VStr "") st
        | Some (_ :: _, false) => Ok l st
        | _ => Stuck "C11: strip of a non-line"
        end
    | _ => Stuck "C11: strip"
    end
  else if is f "$getitem" then
    match args with
    | [VList l; VTuple [VStr tag; VNone; VInt n; VNone]] =>
        if (String.eqb tag "$slice" && Z.leb 0 n)%bool then Ok (VList (firstn (Z.to_nat n) l)) st
        else Stuck "C11: slice"
    | _ => Stuck "C11: getitem"
    end
  else if is f "float" then
    match args with
    | [VTuple [VStr tag; VQ q]] => if String.eqb tag "$numtext" then Ok (VQ q) st else Exc "ValueError" st
    | [VList _] => Exc "ValueError" st      (* a field that is not the text of a number *)
    | _ => Stuck "C11: float"
    end
  else if is f "$sorted" then
    match args with
    | [VList ks; VList items] =>
        match sort_kv (combine ks items) with
        | Some s => Ok (VList (map snd s)) st
        | None => Stuck "C11: sorted: keys without an order"
        end
    | _ => Stuck "C11: sorted"
    end
  else if is f "isinstance" then
    match args with
    | [v; VStr ty] =>
        if String.eqb ty "$type:str" then Ok (VBool (match v with VList _ => true | _ => false end)) st
        else Stuck "C11: isinstance"
    | _ => Stuck "C11: isinstance"
    end
  else if is f "$method.format" then
    match args with
    | [VStr fmt; a; b; c; d; e] =>
        if String.eqb fmt ctm_format then Ok (mk_line [a; b; as_field c; as_field d; e] false) st
        else Stuck "C11: format string"
    | _ => Stuck "C11: format"
    end
  else if is f "$method!.write" then
    match args with [VList lines; l] => Ok (VList (lines ++ [l])) st | _ => Stuck "C11: write" end
  else if is f "len" then
    match args with
    | [VInt _] | [VQ _] | [VBool _] | [VNone] => Exc "TypeError" st     (* object of type 'int' has no len() *)
    | _ => Stuck "C11: len"
    end
  else if is f "np.isreal" then
    match args with [v] => Ok (VBool (is_real v)) st | _ => Stuck "C11: isreal" end
  else if is f "int" then
    match args with
    | [v] => match v, to_long v with
             | VBool _, _ | _, None => Stuck "C11: int"
             | _, Some z => Ok (VInt z) st
             end
    | _ => Stuck "C11: int"
    end
  else if is f "operator" then
    match args with
    | [VStr op; VTuple a; VTuple b] =>
        if (String.eqb op "add" && negb (foreign (VTuple a)) && negb (foreign (VTuple b)))%bool
        then Ok (VTuple (a ++ b)) st else Stuck "C11: operator on tuples"
    | [VStr op; a; b] =>
        (* float // float: "floor division ... the result is that of mathematical division with the `floor` function
           applied to the result" (Python reference 6.7); a float *)
        if String.eqb op "floordiv" then
          match num_q a, num_q b with
          | Some p, Some q =>
              if Qeq_bool q 0 then Exc "ZeroDivisionError" st else Ok (VQ (inject_Z (floordiv p q))) st
          | _, _ => Stuck "C11: floordiv"
          end
        else Stuck "C11: operator"
    | _ => Stuck "C11: operator"
    end
  else if is f "torch.empty" then
    match args with
    | [VTuple [VInt n]] => match tempty [n] with Some t => Ok (enc_lt t) st | None => Stuck "C11: empty" end
    | [VTuple [VInt m; VInt k]] => match tempty [m; k] with Some t => Ok (enc_lt t) st | None => Stuck "C11: empty" end
    | _ => Stuck "C11: torch.empty"
    end
  else if is f "$setitem" then
    match args with
    | [t; k; v] =>
        match dec_lt t, to_long v with
        | None, _ => Stuck "C11: setitem on a non-tensor"
        | Some _, None => Exc "TypeError" st       (* can't assign a str / tuple / None to a torch.LongTensor *)
        | Some t0, Some z =>
            match k with
            | VInt i => match set1 t0 i z with Some t' => Ok (enc_lt t') st | None => Stuck "C11: tok[i] = v" end
            | VTuple [VInt i; VInt j] =>
                match set2 t0 i j z with Some t' => Ok (enc_lt t') st | None => Stuck "C11: tok[i, j] = v" end
            | _ => Stuck "C11: setitem index"
            end
        end
    | _ => Stuck "C11: setitem"
    end
  else if is f "$attr.ndim" then
    match args with
    | [t] => match dec_lt t with Some t0 => Ok (VInt (tndim t0)) st | None => Stuck "C11: ndim" end
    | _ => Stuck "C11: ndim"
    end
  else if is f "$method.numel" then
    match args with
    | [t] => match dec_lt t with Some t0 => Ok (VInt (tnumel t0)) st | None => Stuck "C11: numel" end
    | _ => Stuck "C11: numel"
    end
  else if is f "$method.item" then
    match args with
    | [t] => match dec_lt t with
             | Some t0 => match titem t0 with Some z => Ok (VInt z) st | None => Stuck "C11: item" end
             | None => Stuck "C11: item"
             end
    | _ => Stuck "C11: item"
    end
  else Stuck ("C11: no meaning given to " ++ f).

(* ---- running the four functions ------------------------------------------------------------------- *)
Definition run_read_ctm (lines : list val) (wc2utt : val) : outcome val :=
  Interp.run ext11 src_read_ctm [("ctm", VList lines); ("wc2utt", wc2utt)].

Definition run_write_ctm (ts utt2wc : val) : outcome val :=
  Interp.run ext11 src_write_ctm [("transcripts", ts); ("ctm", VList []); ("utt2wc", utt2wc); ("str", str_type)].

Definition run_to_token (tr t2i fs unk : val) (skip : bool) : outcome val :=
  Interp.run ext11 src_to_token
    [("transcript", tr); ("token2id", t2i); ("frame_shift_ms", fs); ("unk", unk);
     ("skip_frame_times", VBool skip); ("torch", torch_obj)].

Definition run_to_transcript (ref i2t fs : val) : outcome val :=
  Interp.run ext11 src_to_transcript [("ref", ref); ("id2token", i2t); ("frame_shift_ms", fs)].

(* ---- decoding results (for the executable checks) -------------------------------------------------- *)
Definition dec_chr (v : val) : option Z :=
  match v with VTuple [VStr tag; VInt c] => if String.eqb tag "$chr" then Some c else None | _ => None end.
Definition dec_str (v : val) : option str :=
  match v with VList l => all_some (map dec_chr l) | _ => None end.
Definition dec_zq (v : val) : option Z :=
  match v with
  | VInt z => Some z
  | VQ q => let r := Qred q in if Pos.eqb (Qden r) 1 then Some (Qnum r) else None
  | _ => None
  end.
Definition dec_timed (v : val) : option timed :=
  match v with
  | VTuple [t; s; e] =>
      match dec_str t, dec_zq s, dec_zq e with Some t', Some s', Some e' => Some (t', s', e') | _, _, _ => None end
  | _ => None
  end.
Definition dec_utt (v : val) : option (str * list timed) :=
  match v with
  | VTuple [u; VList tr] =>
      match dec_str u, all_some (map dec_timed tr) with Some u', Some tr' => Some (u', tr') | _, _ => None end
  | _ => None
  end.
Definition dec_seg (v : val) : option seg :=
  match is_line v with
  | Some ([w; c; VTuple [VStr t1; s]; VTuple [VStr t2; d]; t], false) =>
      if (String.eqb t1 "$numtext" && String.eqb t2 "$numtext")%bool then
        match dec_str w, dec_str c, dec_zq s, dec_zq d, dec_str t with
        | Some w', Some c', Some s', Some d', Some t' => Some (w', c', s', d', t')
        | _, _, _, _, _ => None
        end
      else None
  | _ => None
  end.

Definition exn_of (n : string) : option exn :=
  if String.eqb n "ValueError" then Some ValueError
  else if String.eqb n "KeyError" then Some KeyError
  else if String.eqb n "TypeError" then Some TypeError
  else if String.eqb n "IndexError" then Some IndexError
  else if String.eqb n "IOError" then Some IOError
  else None.

Definition exn_name (e : exn) : string :=
  match e with
  | ValueError => "ValueError" | KeyError => "KeyError" | TypeError => "TypeError"
  | IndexError => "IndexError" | IOError => "IOError"
  end.

(* outer None: the interpreter got stuck / the result is not of the expected form *)
Definition res_of {A} (dec : val -> option A) (o : outcome val) : option (res A) :=
  match o with
  | Ok v _ => option_map (@Model.Ok A) (dec v)
  | Exc n _ => option_map (@Model.Raise A) (exn_of n)
  | Stuck _ => None
  end.

Definition dec_list {A} (dec : val -> option A) (v : val) : option (list A) :=
  match v with VList l => all_some (map dec l) | _ => None end.

(* a line as the harness gives it: fields (text or number), trailing ";;" comment *)
Definition enc_field (x : str + Z) : val := match x with inl s => enc_str s | inr z => enc_num z end.
Definition enc_tline (l : list (str + Z) * bool) : val := mk_line (map enc_field (fst l)) (snd l).

Definition src_read_ctm_lines (lines : list (list (str + Z) * bool)) wc2utt : option (res (list (str * list timed))) :=
  res_of (dec_list dec_utt) (run_read_ctm (map enc_tline lines) (enc_wc2utt wc2utt)).

Definition src_read_ctm_file (ls : list seg) wc2utt : option (res (list (str * list timed))) :=
  res_of (dec_list dec_utt) (run_read_ctm (map enc_seg_line ls) (enc_wc2utt wc2utt)).

Definition utts_eqb (a b : list (str * list timed)) : bool :=
  list_eqb (fun a b => str_eqb (fst a) (fst b) && list_eqb timed_eqb (snd a) (snd b))%bool a b.

Definition src_check_read_ctm ls wc2utt (impl : res (list (str * list timed))) : bool :=
  match src_read_ctm_file ls wc2utt with Some r => res_eqb utts_eqb r impl | None => false end.

Definition src_check_read_ctm_lines lines wc2utt (impl : res (list (str * list timed))) : bool :=
  match src_read_ctm_lines lines wc2utt with Some r => res_eqb utts_eqb r impl | None => false end.

(* write_ctm: the lines written are the final value of the file variable `ctm` *)
Definition written (o : outcome val) : outcome val :=
  match o with
  | Ok _ st => match lookup "ctm" (vars st) with Some v => Ok v st | None => Stuck "C11: no file" end
  | o => o
  end.

Definition src_write_ctm_file ts (m : utt2wc_t) : option (res (list seg)) :=
  res_of (dec_list dec_seg) (written (run_write_ctm (VList (map enc_wutt ts)) (enc_utt2wc m))).

Definition src_check_write_ctm ts m (impl : res (list seg)) : bool :=
  match src_write_ctm_file ts m with Some r => res_eqb (list_eqb seg_eqb) r impl | None => false end.

(* transcript_to_token: the tensor as rows (id, start, end); a (R,) tensor [skip_frame_times] has -1, -1 *)
Definition dec_rows (skip : bool) (v : val) : option (list (Z * Z * Z)) :=
  match dec_lt v, skip with
  | Some (T1 cells), true => option_map (map (fun z => (z, -1, -1)%Z)) (all_some cells)
  | Some (T1 []), false => Some []
  | Some (T2 rows), false =>
      all_some (map (fun r => match r with
                              | [Some a; Some b; Some c] => Some (a, b, c)
                              | _ => None
                              end) rows)
  | _, _ => None
  end.

Definition src_to_token_rows tr t2i fs unk skip : option (res (list (Z * Z * Z))) :=
  res_of (dec_rows skip) (run_to_token (VList (map enc_item tr)) (enc_t2i t2i) (enc_fs fs) (enc_unk unk) skip).

Definition src_check_to_token tr t2i fs unk skip (impl : res (list (Z * Z * Z))) : bool :=
  match src_to_token_rows tr t2i fs unk skip with Some r => res_eqb (list_eqb row_eqb) r impl | None => false end.

Definition dec_tk (v : val) : option tk :=
  match v with VInt z => Some (TInt z) | _ => option_map TStr (dec_str v) end.
Definition dec_item (v : val) : option Model.item :=
  match v with
  | VTuple [t; s; e] =>
      match dec_tk t, num_q s, num_q e with Some t', Some s', Some e' => Some (Timed t' s' e') | _, _, _ => None end
  | _ => option_map Plain (dec_tk v)
  end.

Definition src_to_transcript_items (cols : nat) ref i2t fs : option (list Model.item) :=
  match run_to_transcript (enc_ref cols ref) (enc_i2t i2t) (enc_fs fs) with
  | Ok v _ => dec_list dec_item v
  | _ => None
  end.

(* [cols]: 3 = (R, 3), 1 = (R, 1), 0 = (R,); the rows of the two narrow forms carry -1, -1 in the model *)
Definition src_check_to_transcript (cols : nat) ref i2t fs (impl : list Model.item) : bool :=
  match src_to_transcript_items cols ref i2t fs with Some r => list_eqb item_eqb r impl | None => false end.
