(* C08, second tie - the theorems about the interpreted `spec_augment_apply_parameters` (unit C08BSrc) that
   Properties.v states.  See TieBApply.v (whole body without a warp) and TieBMask.v (the masking blocks).

   [apply_nowarp_tie]: for EVERY arithmetic, EVERY oracle pair and EVERY [nested] (no kernel and no translated
   function is called on this path), every feature tensor (N, T, F) of arbitrary cells, lengths omitted or N values in
   (0, T], warp parameters None or without element, each mask group OFF (a parameter None or without element) or ON
   (two long tensors of one shape (N, M) with an element): interpreting the source returns a tensor of the input's
   shape whose batch element n is Model.apply_masks (VQ 0) on the (start, width) pairs of row n.
   [apply_nowarp_cells]: composed with ProofsMask.apply_masks_cell - purely about the interpreted source. *)
From Coq Require Import ZArith QArith Qround List String Bool Arith Lia.
From PV Require Import MiniPy.Syntax MiniPy.Interp MiniTorch.Ops MiniTorch.OpsC08 MiniTorch.LemmasC08.
From PV Require Import MiniTorch.OpsC08B MiniTorch.LemmasC08B.
From PV Require Import Gen.C08BSrc C08.SrcRun C08.SrcRunB C08.TieBLib C08.TieBMask C08.TieBApply.
From PV Require C08.Model C08.Spec C08.ProofsMask MiniTorch.Lemmas.
Import ListNotations.
Local Open Scope string_scope.
Local Open Scope list_scope.

Theorem apply_nowarp_tie : forall a spl gso nested eps N T F cells pw0 pw pv0 pv tm fm order lens,
  lens_okB N T lens ->
  (par_on pw0 && par_on pw)%bool = false -> (par_on pv0 && par_on pv)%bool = false ->
  mspec_ok N tm -> mspec_ok N fm ->
  exists st out,
    Interp.run (ext_core a spl gso nested) apply_body
      (apply_vars eps (T3 N T F cells) (enc_pars (pars_nowarp N pw0 pw pv0 pv tm fm)) order lens)
    = Ok (enc_c eps (mkTn [N; T; F] out)) st
    /\ events st = []
    /\ forall n, (n < N)%nat ->
         img_of VNone T F out n
         = Model.apply_masks (VQ 0) (mspec_bands tm n) (mspec_bands fm n) (img_of VNone T F (tabl3 N T F cells) n).
Proof.
  intros a spl gso nested eps N T F cells pw0 pw pv0 pv tm fm order lens Hl Hw Hv Htm Hfm.
  destruct (apply_nowarp_run a spl gso nested eps N T F cells pw0 pw pv0 pv tm fm order lens [] Hl Hw Hv Htm Hfm) as [vs' E].
  exists (mkState vs' []), (tabl3 N T F (filled (mspec_t tm) (mspec_f fm) cells)).
  split; [|split].
  - unfold Interp.run. rewrite E. reflexivity.
  - reflexivity.
  - intros n Hn. now apply filled_is_apply_masks.
Qed.

Lemma img_of_cell {X} (d : X) T F l n t f : (t < T)%nat -> (f < F)%nat ->
  nth f (nth t (img_of d T F l n) []) d = get3 d T F l n t f.
Proof.
  intros Ht Hf. unfold img_of.
  rewrite (nth_indep _ [] (map (fun f0 => get3 d T F l n 0 f0) (seq 0 F))) by now rewrite map_length, seq_length.
  rewrite (MiniTorch.Lemmas.nth_map_seq (fun t0 => map (fun f0 => get3 d T F l n t0 f0) (seq 0 F))) by exact Ht.
  now rewrite (MiniTorch.Lemmas.nth_map_seq (fun f0 => get3 d T F l n t f0)) by exact Hf.
Qed.

Lemma img_of_shape {X} (d : X) T F l n : List.length (img_of d T F l n) = T
  /\ forall t, (t < T)%nat -> List.length (nth t (img_of d T F l n) []) = F.
Proof.
  unfold img_of. split; [now rewrite map_length, seq_length|]. intros t Ht.
  rewrite (nth_indep _ [] (map (fun f0 => get3 d T F l n 0 f0) (seq 0 F))) by now rewrite map_length, seq_length.
  rewrite (MiniTorch.Lemmas.nth_map_seq (fun t0 => map (fun f0 => get3 d T F l n t0 f0) (seq 0 F))) by exact Ht.
  now rewrite map_length, seq_length.
Qed.

(* purely about the interpreted source: every cell inside a time band or a frequency band of its batch element is
   the float 0.0, every other cell is the input's cell *)
Theorem apply_nowarp_cells : forall a spl gso nested eps N T F cells pw0 pw pv0 pv tm fm order lens,
  lens_okB N T lens ->
  (par_on pw0 && par_on pw)%bool = false -> (par_on pv0 && par_on pv)%bool = false ->
  mspec_ok N tm -> mspec_ok N fm ->
  exists st out,
    Interp.run (ext_core a spl gso nested) apply_body
      (apply_vars eps (T3 N T F cells) (enc_pars (pars_nowarp N pw0 pw pv0 pv tm fm)) order lens)
    = Ok (enc_c eps (mkTn [N; T; F] out)) st
    /\ forall n t f, (n < N)%nat -> (t < T)%nat -> (f < F)%nat ->
         (Spec.masked_cell (mspec_bands tm n) (mspec_bands fm n) (Z.of_nat t) (Z.of_nat f) -> get3 VNone T F out n t f = VQ 0)
         /\ (~ Spec.masked_cell (mspec_bands tm n) (mspec_bands fm n) (Z.of_nat t) (Z.of_nat f) -> get3 VNone T F out n t f = cells n t f).
Proof.
  intros a spl gso nested eps N T F cells pw0 pw pv0 pv tm fm order lens Hl Hw Hv Htm Hfm.
  destruct (apply_nowarp_tie a spl gso nested eps N T F cells pw0 pw pv0 pv tm fm order lens Hl Hw Hv Htm Hfm)
    as [st [out [E [_ Himg]]]].
  exists st, out. split; [exact E|]. intros n t f Hn Ht Hf.
  rewrite <- (img_of_cell VNone T F out n t f Ht Hf), (Himg n Hn).
  destruct (img_of_shape VNone T F (tabl3 N T F cells) n) as [HT HF].
  assert (Ht' : (t < List.length (img_of VNone T F (tabl3 N T F cells) n))%nat) by now rewrite HT.
  assert (Hf' : (f < List.length (nth t (img_of VNone T F (tabl3 N T F cells) n) []))%nat) by now rewrite (HF t Ht).
  destruct (ProofsMask.apply_masks_cell (VQ 0) (mspec_bands tm n) (mspec_bands fm n) _ t f VNone Ht' Hf') as [A B].
  split; [exact A|]. intros Hm. rewrite (B Hm). rewrite (img_of_cell VNone T F _ n t f Ht Hf).
  now apply get3_tabl3.
Qed.

(* the time-mask block in the model's vocabulary *)
Theorem tmask_block : forall a spl gso nested vs ev N M T f0 f,
  lookup "t_0" vs = Some (enc_l (T2 N M f0)) -> lookup "t" vs = Some (enc_l (T2 N M f)) ->
  Nat.eqb (numel [N; M]) 0 = false ->
  lookup "T" vs = Some (VInt (Z.of_nat T)) -> lookup "device" vs = Some device_token ->
  exists vs', exec (ext_core a spl gso nested) apply_tmask (mkState vs ev) = Ok CNormal (mkState vs' ev)
    /\ lookup "tmask" vs' = Some (enc_b (T3 N T 1 (fun n t _ => Model.masked (map (fun h => (f0 n h, f n h)) (seq 0 M)) (Z.of_nat t))))
    /\ forall x, String.eqb x "tmask" = false -> String.eqb x "t_1" = false -> lookup x vs' = lookup x vs.
Proof.
  intros a spl gso nested vs ev N M T f0 f H0 H1 Hn HT Hd.
  destruct (tmask_on_run a spl gso nested vs ev N M T f0 f H0 H1 Hn HT Hd) as [vs' [E [L K]]].
  exists vs'. split; [exact E|]. split; [|exact K]. rewrite L. do 2 f_equal.
  apply T3_ext. intros n t h _ _ _. apply s_any_masked.
Qed.
