(* C20 — declarative reading (placeholder, filled below) *)
From Coq Require Import List QArith.
From PV Require Import C20.Model.
