(* MiniTorch, unit C04 — the algebra of OpsC04.v needed by the C04 tie (no new definitions of meaning):
   tabulated tensors, and each operation on tabulated arguments. *)
From Coq Require Import List ZArith QArith Bool Arith Lia.
From PV Require Import MiniPy.Syntax MiniTorch.Ops MiniTorch.Lemmas MiniTorch.OpsC04.
Import ListNotations.
Local Open Scope nat_scope.

(* ---- lists ------------------------------------------------------------------------------------ *)
Lemma map_nth_seq : forall {A} (l : list A) d, map (fun k => nth k l d) (seq 0 (length l)) = l.
Proof.
  intros A l d. apply nth_ext with (d := d) (d' := d); [now rewrite map_length, seq_length|].
  intros i Hi. rewrite map_length, seq_length in Hi. now rewrite Lemmas.nth_map_seq.
Qed.

Lemma tl2_length : forall {A} n m (f : nat -> nat -> A), length (tl2 n m f) = n * m.
Proof.
  intros. unfold tl2. rewrite (length_flat_map_const _ _ m), seq_length; [reflexivity|].
  intros a _. now rewrite map_length, seq_length.
Qed.

Lemma tl3_unfold : forall {A} a b c (f : nat -> nat -> nat -> A),
  tl3 a b c f = flat_map (fun i => tl2 b c (f i)) (seq 0 a).
Proof. reflexivity. Qed.

Lemma tl3_length : forall {A} a b c (f : nat -> nat -> nat -> A), length (tl3 a b c f) = a * (b * c).
Proof.
  intros. rewrite tl3_unfold, (length_flat_map_const _ _ (b * c)), seq_length; [reflexivity|].
  intros i _. apply tl2_length.
Qed.

Lemma nth_tl2 : forall {A} n m (f : nat -> nat -> A) i j d, i < n -> j < m -> nth (i * m + j) (tl2 n m f) d = f i j.
Proof.
  intros A n m f i j d Hi Hj. unfold tl2.
  rewrite (nth_flat_map_const _ _ m i j 0 d).
  - rewrite seq_nth by assumption. cbn [Nat.add]. now apply Lemmas.nth_map_seq.
  - intros a _. now rewrite map_length, seq_length.
  - now rewrite seq_length.
  - assumption.
Qed.

Lemma nth_tl3 : forall {A} a b c (f : nat -> nat -> nat -> A) i j k d, i < a -> j < b -> k < c ->
  nth ((i * b + j) * c + k) (tl3 a b c f) d = f i j k.
Proof.
  intros A a b c f i j k d Hi Hj Hk. rewrite tl3_unfold.
  replace ((i * b + j) * c + k) with (i * (b * c) + (j * c + k)) by lia.
  rewrite (nth_flat_map_const _ _ (b * c) i (j * c + k) 0 d).
  - rewrite seq_nth by assumption. cbn [Nat.add]. now apply nth_tl2.
  - intros x _. apply tl2_length.
  - now rewrite seq_length.
  - nia.
Qed.

Lemma tl2_ext : forall {A} n m (f g : nat -> nat -> A),
  (forall i j, i < n -> j < m -> f i j = g i j) -> tl2 n m f = tl2 n m g.
Proof.
  intros A n m f g H. unfold tl2. apply flat_map_ext_in. intros i Hi. apply in_seq in Hi.
  apply map_ext_in. intros j Hj. apply in_seq in Hj. apply H; lia.
Qed.

Lemma tl3_ext : forall {A} a b c (f g : nat -> nat -> nat -> A),
  (forall i j k, i < a -> j < b -> k < c -> f i j k = g i j k) -> tl3 a b c f = tl3 a b c g.
Proof.
  intros A a b c f g H. rewrite !tl3_unfold. apply flat_map_ext_in. intros i Hi. apply in_seq in Hi.
  apply tl2_ext. intros j k Hj Hk. apply H; lia.
Qed.

Lemma map_tl2 : forall {A B} (h : A -> B) n m f, map h (tl2 n m f) = tl2 n m (fun i j => h (f i j)).
Proof.
  intros. unfold tl2. rewrite map_flat_map. apply flat_map_ext_in. intros i _. now rewrite map_map.
Qed.

Lemma map_tl3 : forall {A B} (h : A -> B) a b c f, map h (tl3 a b c f) = tl3 a b c (fun i j k => h (f i j k)).
Proof.
  intros. rewrite !tl3_unfold, map_flat_map. apply flat_map_ext_in. intros i _. apply map_tl2.
Qed.

Lemma in_tl2 : forall {A} n m (f : nat -> nat -> A) x, List.In x (tl2 n m f) -> exists i j, i < n /\ j < m /\ x = f i j.
Proof.
  intros A n m f x H. unfold tl2 in H. apply in_flat_map in H. destruct H as [i [Hi H]].
  apply in_map_iff in H. destruct H as [j [E Hj]]. apply in_seq in Hi. apply in_seq in Hj.
  exists i, j. repeat split; [lia|lia|now symmetry].
Qed.

Lemma in_tl3 : forall {A} a b c (f : nat -> nat -> nat -> A) x, List.In x (tl3 a b c f) ->
  exists i j k, i < a /\ j < b /\ k < c /\ x = f i j k.
Proof.
  intros A a b c f x H. rewrite tl3_unfold in H. apply in_flat_map in H. destruct H as [i [Hi H]].
  apply in_seq in Hi. apply in_tl2 in H. destruct H as [j [k [Hj [Hk E]]]].
  exists i, j, k. repeat split; try lia. exact E.
Qed.

Lemma map_opt_ext_in : forall {A B} (h : A -> option B) (g : A -> B) l,
  (forall x, List.In x l -> h x = Some (g x)) -> map_opt h l = Some (map g l).
Proof.
  induction l as [|x l IH]; intros H; [reflexivity|]. cbn [map_opt map].
  rewrite (H x) by now left. rewrite IH by (intros; apply H; now right). reflexivity.
Qed.

Lemma map_opt_tl2 : forall {A B} (h : A -> option B) n m f g,
  (forall i j, i < n -> j < m -> h (f i j) = Some (g i j)) -> map_opt h (tl2 n m f) = Some (tl2 n m g).
Proof.
  intros A B h n m f g H.
  assert (E : tl2 n m g = map (fun x => match h x with Some y => y | None => g 0 0 end) (tl2 n m f)).
  { rewrite map_tl2. apply tl2_ext. intros i j Hi Hj. now rewrite H. }
  rewrite E. apply map_opt_ext_in. intros x Hx. apply in_tl2 in Hx. destruct Hx as [i [j [Hi [Hj ->]]]].
  now rewrite H.
Qed.

Lemma map_opt_tl3 : forall {A B} (h : A -> option B) a b c f g,
  (forall i j k, i < a -> j < b -> k < c -> h (f i j k) = Some (g i j k)) ->
  map_opt h (tl3 a b c f) = Some (tl3 a b c g).
Proof.
  intros A B h a b c f g H.
  assert (E : tl3 a b c g = map (fun x => match h x with Some y => y | None => g 0 0 0 end) (tl3 a b c f)).
  { rewrite map_tl3. apply tl3_ext. intros i j k Hi Hj Hk. now rewrite H. }
  rewrite E. apply map_opt_ext_in. intros x Hx. apply in_tl3 in Hx.
  destruct Hx as [i [j [k [Hi [Hj [Hk ->]]]]]]. now rewrite H.
Qed.

Lemma sequence_tl2 : forall {A} n m (f : nat -> nat -> option A) g,
  (forall i j, i < n -> j < m -> f i j = Some (g i j)) -> sequence (tl2 n m f) = Some (tl2 n m g).
Proof. intros. unfold sequence. now apply map_opt_tl2. Qed.

Lemma sequence_tl3 : forall {A} a b c (f : nat -> nat -> nat -> option A) g,
  (forall i j k, i < a -> j < b -> k < c -> f i j k = Some (g i j k)) -> sequence (tl3 a b c f) = Some (tl3 a b c g).
Proof. intros. unfold sequence. now apply map_opt_tl3. Qed.

Lemma forallb_tl2 : forall {A} (p : A -> bool) n m f,
  (forall i j, i < n -> j < m -> p (f i j) = true) -> forallb p (tl2 n m f) = true.
Proof.
  intros. apply forallb_forall. intros x Hx. apply in_tl2 in Hx. destruct Hx as [i [j [Hi [Hj ->]]]]. auto.
Qed.

Lemma forallb_tl3 : forall {A} (p : A -> bool) a b c f,
  (forall i j k, i < a -> j < b -> k < c -> p (f i j k) = true) -> forallb p (tl3 a b c f) = true.
Proof.
  intros. apply forallb_forall. intros x Hx. apply in_tl3 in Hx.
  destruct Hx as [i [j [k [Hi [Hj [Hk ->]]]]]]. auto.
Qed.

(* rows of equal length, concatenated *)
Lemma concat_regular : forall {A} (rows : list (list A)) m d,
  Forall (fun r => length r = m) rows ->
  concat rows = tl2 (length rows) m (fun i j => nth j (nth i rows []) d).
Proof.
  intros A rows m d H. unfold tl2.
  rewrite <- (map_nth_seq rows []) at 1. rewrite <- flat_map_concat_map.
  apply flat_map_ext_in. intros i Hi. apply in_seq in Hi.
  assert (Hl : length (nth i rows []) = m).
  { eapply Forall_forall in H; [exact H|]. apply nth_In. lia. }
  rewrite <- Hl. symmetry. apply map_nth_seq.
Qed.

Lemma concat_flat_map : forall {A B} (g : A -> list (list B)) l,
  concat (flat_map g l) = flat_map (fun x => concat (g x)) l.
Proof. induction l as [|x l IH]; cbn; [reflexivity|]. now rewrite concat_app, IH. Qed.

Lemma concat_tl2 : forall {A} n m c (g : nat -> nat -> list A) d,
  (forall i j, i < n -> j < m -> length (g i j) = c) ->
  concat (tl2 n m g) = tl3 n m c (fun i j k => nth k (g i j) d).
Proof.
  intros A n m c g d H. unfold tl2, tl3. rewrite concat_flat_map.
  apply flat_map_ext_in. intros i Hi. apply in_seq in Hi.
  rewrite <- flat_map_concat_map.
  apply flat_map_ext_in. intros j Hj. apply in_seq in Hj.
  rewrite <- (H i j) by lia. symmetry. apply map_nth_seq.
Qed.

(* ---- getters on tabulated tensors ---------------------------------------------------------------- *)
Lemma g2_tab2 : forall n m f i j, i < n -> j < m -> g2 m (tabv2 n m f) i j = f i j.
Proof. intros. unfold g2, tabv2. cbn [vdata]. now apply nth_tl2. Qed.

Lemma g3_tab3 : forall a b c f i j k, i < a -> j < b -> k < c -> g3 b c (tabv3 a b c f) i j k = f i j k.
Proof. intros. unfold g3, tabv3. cbn [vdata]. now apply nth_tl3. Qed.

Lemma tabv2_ext : forall n m f g, (forall i j, i < n -> j < m -> f i j = g i j) -> tabv2 n m f = tabv2 n m g.
Proof. intros. unfold tabv2. f_equal. now apply tl2_ext. Qed.

Lemma tabv3_ext : forall a b c f g,
  (forall i j k, i < a -> j < b -> k < c -> f i j k = g i j k) -> tabv3 a b c f = tabv3 a b c g.
Proof. intros. unfold tabv3. f_equal. now apply tl3_ext. Qed.

Lemma bidx_same : forall n i, i < n -> bidx n i = i.
Proof. intros n i H. unfold bidx. destruct (Nat.eqb_spec n 1); lia. Qed.

Lemma bidx_1 : forall i, bidx 1 i = 0. Proof. reflexivity. Qed.

Lemma bdim_same : forall n, bdim n n = Some n.
Proof. intros n. unfold bdim. now rewrite Nat.eqb_refl. Qed.

Lemma bdim_1_l : forall n, bdim 1 n = Some n.
Proof. intros n. unfold bdim. destruct (Nat.eqb_spec 1 n); [now subst|reflexivity]. Qed.

Lemma nat_of_vnat : forall n, nat_of (vnat n) = Some n.
Proof.
  intros n. unfold nat_of, vnat. replace (0 <=? Z.of_nat n)%Z with true by (symmetry; apply Z.leb_le; lia).
  now rewrite Nat2Z.id.
Qed.

Lemma nat_of_int : forall n, nat_of (VInt (Z.of_nat n)) = Some n.
Proof. exact nat_of_vnat. Qed.

(* ---- element-wise maps ---------------------------------------------------------------------------------- *)
Lemma tmap_opt_tab2 : forall h n m f g,
  (forall i j, i < n -> j < m -> h (f i j) = Some (g i j)) -> tmap_opt h (tabv2 n m f) = Some (tabv2 n m g).
Proof. intros. unfold tmap_opt, tabv2. cbn [vdata vshape]. now rewrite (map_opt_tl2 h n m f g). Qed.

Lemma tmap_opt_tab3 : forall h a b c f g,
  (forall i j k, i < a -> j < b -> k < c -> h (f i j k) = Some (g i j k)) ->
  tmap_opt h (tabv3 a b c f) = Some (tabv3 a b c g).
Proof. intros. unfold tmap_opt, tabv3. cbn [vdata vshape]. now rewrite (map_opt_tl3 h a b c f g). Qed.

Lemma trunc_div_tab2 : forall n m a V, 0 < V ->
  trunc_div (tabv2 n m (fun i j => vnat (a i j))) (Z.of_nat V) = Some (tabv2 n m (fun i j => vnat (a i j / V))).
Proof.
  intros n m a V HV. unfold trunc_div. replace (Z.of_nat V =? 0)%Z with false by lia.
  apply tmap_opt_tab2. intros i j _ _. unfold vnat. do 2 f_equal.
  rewrite Z.quot_div_nonneg by lia. symmetry. apply Nat2Z.inj_div.
Qed.

Lemma remainder_tab2 : forall n m a V, 0 < V ->
  remainder (tabv2 n m (fun i j => vnat (a i j))) (Z.of_nat V) = Some (tabv2 n m (fun i j => vnat (a i j mod V))).
Proof.
  intros n m a V HV. unfold remainder. replace (Z.of_nat V =? 0)%Z with false by lia.
  apply tmap_opt_tab2. intros i j _ _. unfold vnat. do 2 f_equal. symmetry. apply Nat2Z.inj_mod.
Qed.

Lemma add_scalar_tab2 : forall n m f c g,
  (forall i j, i < n -> j < m -> el_add (f i j) c = Some (g i j)) ->
  add_scalar (tabv2 n m f) c = Some (tabv2 n m g).
Proof. intros. unfold add_scalar. now apply tmap_opt_tab2. Qed.

(* ---- shapes ------------------------------------------------------------------------------------------------ *)
Lemma unsqueeze_tab2_2 : forall n m f, unsqueeze (tabv2 n m f) 2 = Some (tabv3 n m 1 (fun i j _ => f i j)).
Proof.
  intros n m f. unfold unsqueeze, tabv2, tabv3, dim. cbn [vshape vdata length].
  change (wrap_dim 3 2) with (Some 2). cbn [firstn skipn app]. do 2 f_equal.
  all: try (unfold tl2, tl3; apply flat_map_ext_in; intros i _; cbn [seq map];
            now rewrite (flat_map_singleton (f i))).
Qed.

Lemma unsqueeze_tab2_0 : forall n m f, unsqueeze (tabv2 n m f) 0 = Some (tabv3 1 n m (fun _ i j => f i j)).
Proof.
  intros n m f. unfold unsqueeze, tabv2, tabv3, dim. cbn [vshape vdata length].
  change (wrap_dim 3 0) with (Some 0). cbn [firstn skipn app]. do 2 f_equal.
  all: try (rewrite tl3_unfold; cbn [seq flat_map]; now rewrite app_nil_r).
Qed.

Lemma tl2_as_map : forall {A} b c (f : nat -> nat -> A), 0 < c ->
  tl2 b c f = map (fun r => f (r / c) (r mod c)) (seq 0 (b * c)).
Proof.
  intros A b c f Hc. destruct b as [|b']; [reflexivity|]. set (b := S b') in *.
  apply nth_ext with (d := f 0 0) (d' := f 0 0); [now rewrite tl2_length, map_length, seq_length|].
  intros r Hr. rewrite tl2_length in Hr.
  rewrite Lemmas.nth_map_seq by assumption.
  rewrite (Nat.div_mod r c) at 1 by lia. rewrite (Nat.mul_comm c).
  apply nth_tl2; [apply Nat.div_lt_upper_bound; lia|apply Nat.mod_upper_bound; lia].
Qed.

Lemma flatten_tab3 : forall a b c f, 0 < c ->
  flatten (tabv3 a b c f) 1 = Some (tabv2 a (b * c) (fun i r => f i (r / c) (r mod c))).
Proof.
  intros a b c f Hc. unfold flatten, tabv3, tabv2, dim. cbn [vshape vdata length].
  change (wrap_dim 3 1) with (Some 1). cbn [firstn skipn app prodn fold_right]. rewrite Nat.mul_1_r. do 2 f_equal.
  rewrite tl3_unfold. unfold tl2 at 2. apply flat_map_ext_in. intros i _. now apply tl2_as_map.
Qed.

Lemma expand_tab3_0 : forall s n k f,
  expand (tabv3 1 n k f) [Z.of_nat s; Z.of_nat n; Z.of_nat k] = Some (tabv3 s n k (fun _ i j => f 0 i j)).
Proof.
  intros s n k f. unfold expand. cbn [tabv3 vshape map]. rewrite !nat_of_int.
  rewrite !Nat.eqb_refl. cbn [orb andb]. rewrite orb_true_r. cbn [andb]. f_equal.
  apply tabv3_ext. intros t i j Ht Hi Hj. fold (tabv3 1 n k f).
  rewrite bidx_1, !bidx_same by assumption. apply g3_tab3; lia.
Qed.

(* ---- addition with broadcasting: (n, k, 1) + (n, k, v) ------------------------------------------------ *)
Lemma add_tab3_last : forall n k v f g h,
  (forall i j l, i < n -> j < k -> l < v -> el_add (f i j 0) (g i j l) = Some (h i j l)) ->
  add (tabv3 n k 1 f) (tabv3 n k v g) = Some (tabv3 n k v h).
Proof.
  intros n k v f g h H. unfold add, zip3. cbn [tabv3 vshape as3]. rewrite !bdim_same, bdim_1_l.
  fold (tabv3 n k 1 f). fold (tabv3 n k v g).
  rewrite (sequence_tl3 n k v _ h).
  - reflexivity.
  - intros i j l Hi Hj Hl. rewrite bidx_1, !bidx_same by assumption.
    rewrite !g3_tab3 by lia. now apply H.
Qed.

(* ---- constructors -------------------------------------------------------------------------------------------- *)
Lemma full_2 : forall n m v, full [Z.of_nat n; Z.of_nat m] v = Some (tabv2 n m (fun _ _ => v)).
Proof. intros. unfold full. cbn [map]. now rewrite !nat_of_int. Qed.

Lemma full_3 : forall a b c v, full [Z.of_nat a; Z.of_nat b; Z.of_nat c] v = Some (tabv3 a b c (fun _ _ _ => v)).
Proof. intros. unfold full. cbn [map]. now rewrite !nat_of_int. Qed.

Lemma all_int_tab2 : forall n m f, (forall i j, i < n -> j < m -> is_int (f i j) = true) -> all_int (tabv2 n m f) = true.
Proof. intros. unfold all_int, tabv2. cbn [vdata]. now apply forallb_tl2. Qed.

Lemma all_int_tab3 : forall a b c f,
  (forall i j k, i < a -> j < b -> k < c -> is_int (f i j k) = true) -> all_int (tabv3 a b c f) = true.
Proof. intros. unfold all_int, tabv3. cbn [vdata]. now apply forallb_tl3. Qed.

Lemma kind_ok_int : forall x z, all_int x = true -> kind_ok x (VInt z) = true.
Proof. intros x z H. unfold kind_ok. unfold all_int in H. rewrite H. reflexivity. Qed.

(* ---- gather / scatter / cat ------------------------------------------------------------------------------ *)
Lemma gather_tab3 : forall a b c f a' b' c' ix,
  a' <= a -> b' <= b -> (forall i j k, i < a' -> j < b' -> k < c' -> ix i j k < c) ->
  gather (tabv3 a b c f) 2 (tabv3 a' b' c' (fun i j k => vnat (ix i j k)))
  = Some (tabv3 a' b' c' (fun i j k => f i j (ix i j k))).
Proof.
  intros a b c f a' b' c' ix Ha Hb Hix. unfold gather. cbn [tabv3 vshape].
  change (wrap_dim 3 2) with (Some 2).
  replace (a' <=? a) with true by (symmetry; apply Nat.leb_le; lia).
  replace (b' <=? b) with true by (symmetry; apply Nat.leb_le; lia). cbn [andb].
  fold (tabv3 a b c f). fold (tabv3 a' b' c' (fun i j k => vnat (ix i j k))).
  rewrite (sequence_tl3 a' b' c' _ (fun i j k => f i j (ix i j k))); [reflexivity|].
  intros i j k Hi Hj Hk. rewrite g3_tab3, nat_of_vnat by assumption.
  pose proof (Hix i j k Hi Hj Hk) as Hl.
  replace (ix i j k <? c) with true by (symmetry; apply Nat.ltb_lt; lia).
  rewrite g3_tab3 by lia. reflexivity.
Qed.

Lemma gather_tab2 : forall n m f n' m' ix,
  n' <= n -> (forall i j, i < n' -> j < m' -> ix i j < m) ->
  gather (tabv2 n m f) 1 (tabv2 n' m' (fun i j => vnat (ix i j))) = Some (tabv2 n' m' (fun i j => f i (ix i j))).
Proof.
  intros n m f n' m' ix Hn Hix. unfold gather. cbn [tabv2 vshape].
  change (wrap_dim 2 1) with (Some 1).
  replace (n' <=? n) with true by (symmetry; apply Nat.leb_le; lia).
  fold (tabv2 n m f). fold (tabv2 n' m' (fun i j => vnat (ix i j))).
  rewrite (sequence_tl2 n' m' _ (fun i j => f i (ix i j))); [reflexivity|].
  intros i j Hi Hj. rewrite g2_tab2, nat_of_vnat by assumption.
  pose proof (Hix i j Hi Hj) as Hl.
  replace (ix i j <? m) with true by (symmetry; apply Nat.ltb_lt; lia).
  rewrite g2_tab2 by lia. reflexivity.
Qed.

Lemma scatter_tab3 : forall h n k f ix s,
  (forall i j, i < n -> j < k -> ix i j < h) ->
  scatter (tabv3 h n k f) 0 (tabv3 1 n k (fun _ i j => vnat (ix i j))) (tabv3 1 n k s)
  = Some (tabv3 h n k (fun t i j => if t =? ix i j then s 0 i j else f t i j)).
Proof.
  intros h n k f ix s Hix. unfold scatter. cbn [tabv3 vshape vdata].
  change (wrap_dim 3 0) with (Some 0). rewrite !Nat.eqb_refl. cbn [andb].
  rewrite (map_opt_tl3 _ 1 n k _ (fun _ i j => ix i j)).
  - f_equal. apply tabv3_ext. intros t i j Ht Hi Hj.
    fold (tabv3 1 n k (fun _ i j => vnat (ix i j))). fold (tabv3 1 n k s). fold (tabv3 h n k f).
    rewrite !g3_tab3 by lia. rewrite nat_of_vnat. reflexivity.
  - intros t i j Ht Hi Hj. rewrite nat_of_vnat. pose proof (Hix i j Hi Hj).
    replace (ix i j <? h) with true by (symmetry; apply Nat.ltb_lt; lia). reflexivity.
Qed.

Lemma cat_tab3_0 : forall a1 a2 b c f g,
  cat (tabv3 a1 b c f) (tabv3 a2 b c g) 0
  = COk (tabv3 (a1 + a2) b c (fun i j k => if i <? a1 then f i j k else g (i - a1) j k)).
Proof.
  intros. unfold cat. cbn [tabv3 vshape]. change (wrap_dim 3 0) with (Some 0). unfold cat3.
  rewrite !Nat.eqb_refl. cbn [andb]. fold (tabv3 a1 b c f). fold (tabv3 a2 b c g).
  unfold tabv3 at 3. do 2 f_equal. apply tl3_ext. intros i j k Hi Hj Hk.
  destruct (Nat.ltb_spec i a1); rewrite g3_tab3 by lia; reflexivity.
Qed.

Lemma cat_tab3_2 : forall a b c1 c2 f g,
  cat (tabv3 a b c1 f) (tabv3 a b c2 g) 2
  = COk (tabv3 a b (c1 + c2) (fun i j k => if k <? c1 then f i j k else g i j (k - c1))).
Proof.
  intros. unfold cat. cbn [tabv3 vshape]. change (wrap_dim 3 2) with (Some 2). unfold cat3.
  rewrite !Nat.eqb_refl. cbn [andb]. fold (tabv3 a b c1 f). fold (tabv3 a b c2 g).
  unfold tabv3 at 3. do 2 f_equal. apply tl3_ext. intros i j k Hi Hj Hk.
  destruct (Nat.ltb_spec k c1); rewrite g3_tab3 by lia; reflexivity.
Qed.

Lemma cat_tab3_2_raise : forall a1 a2 b c1 c2 f g, a1 <> a2 ->
  cat (tabv3 a1 b c1 f) (tabv3 a2 b c2 g) 2 = CRaise.
Proof.
  intros. unfold cat. cbn [tabv3 vshape]. change (wrap_dim 3 2) with (Some 2). unfold cat3.
  replace (a1 =? a2) with false by (symmetry; apply Nat.eqb_neq; lia). reflexivity.
Qed.

Lemma cat_tab2_1 : forall n m1 m2 f g,
  cat (tabv2 n m1 f) (tabv2 n m2 g) 1
  = COk (tabv2 n (m1 + m2) (fun i j => if j <? m1 then f i j else g i (j - m1))).
Proof.
  intros. unfold cat. cbn [tabv2 vshape]. change (wrap_dim 2 1) with (Some 1). unfold cat3.
  rewrite !Nat.eqb_refl. cbn [andb]. fold (tabv2 n m1 f). fold (tabv2 n m2 g).
  unfold tabv2 at 3. do 2 f_equal. rewrite tl3_unfold. cbn [seq flat_map]. rewrite app_nil_r.
  apply tl2_ext. intros i j Hi Hj. unfold g3. cbn [Nat.mul Nat.add].
  change (nth (i * m1 + j) (vdata (tabv2 n m1 f)) VNone) with (g2 m1 (tabv2 n m1 f) i j).
  change (nth (i * m2 + (j - m1)) (vdata (tabv2 n m2 g)) VNone) with (g2 m2 (tabv2 n m2 g) i (j - m1)).
  destruct (Nat.ltb_spec j m1); rewrite g2_tab2 by lia; reflexivity.
Qed.

(* ---- topk ---------------------------------------------------------------------------------------------------- *)
Lemma topk_tab2 : forall n m f (s : nat -> nat -> C04.Model.score) k,
  (forall i j, i < n -> j < m -> score_of (f i j) = Some (s i j)) -> k <= m ->
  (forall i j, i < n -> j < k -> nth j (C04.Model.topk_stable k (map (s i) (seq 0 m))) 0 < m) ->
  topk (tabv2 n m f) (Z.of_nat k) 1 =
  Some (tabv2 n k (fun i j => f i (nth j (C04.Model.topk_stable k (map (s i) (seq 0 m))) 0)),
        tabv2 n k (fun i j => vnat (nth j (C04.Model.topk_stable k (map (s i) (seq 0 m))) 0))).
Proof.
  intros n m f s k Hs Hk Hsel. unfold topk. cbn [tabv2 vshape vdata]. change (wrap_dim 2 1) with (Some 1).
  replace ((0 <=? Z.of_nat k)%Z && (Z.of_nat k <=? Z.of_nat m)%Z)%bool with true
    by (symmetry; apply andb_true_iff; split; apply Z.leb_le; lia).
  rewrite (map_opt_tl2 score_of n m f s Hs). rewrite Nat2Z.id. fold (tabv2 n m f).
  assert (Hrow : forall i, i < n ->
            map (fun j => match score_of (g2 m (tabv2 n m f) i j) with Some x => x | None => None end) (seq 0 m)
            = map (s i) (seq 0 m)).
  { intros i Hi. apply map_ext_in. intros j Hj. apply in_seq in Hj. rewrite g2_tab2, Hs by lia. reflexivity. }
  f_equal. f_equal.
  - apply tabv2_ext. intros i j Hi Hj. rewrite Hrow by assumption. apply g2_tab2; [assumption|]. now apply Hsel.
  - apply tabv2_ext. intros i j Hi Hj. now rewrite Hrow.
Qed.

(* ---- reductions over a list of lengths ------------------------------------------------------------------------ *)
Lemma map_opt_z_of_vnat : forall l, map_opt z_of (map vnat l) = Some (map Z.of_nat l).
Proof. induction l as [|x l IH]; [reflexivity|]. cbn [map map_opt]. rewrite IH. reflexivity. Qed.

Lemma fold_max_ge : forall (l : list nat) (z0 S : Z),
  (S <=? fold_left Z.max (map Z.of_nat l) z0)%Z = ((S <=? z0)%Z || existsb (fun x => (S <=? Z.of_nat x)%Z) l)%bool.
Proof.
  induction l as [|x l IH]; intros z0 S; cbn [map fold_left existsb]; [now rewrite orb_false_r|].
  rewrite IH. destruct (Z.leb_spec S (Z.max z0 (Z.of_nat x))), (Z.leb_spec S z0), (Z.leb_spec S (Z.of_nat x));
    cbn [orb]; try reflexivity; lia.
Qed.

Lemma existsb_ext_all : forall {A} (p q : A -> bool) l, (forall x, p x = q x) -> existsb p l = existsb q l.
Proof. induction l as [|x l IH]; intros H; [reflexivity|]. cbn [existsb]. now rewrite H, IH. Qed.

Lemma tmax_lens : forall sh (l : list nat), l <> [] ->
  exists z, tmax (mkVT sh (map vnat l)) = Some (mkVT [] [VInt z]) /\
            forall S, (Z.of_nat S <=? z)%Z = existsb (fun x => S <=? x) l.
Proof.
  intros sh [|x l] H; [congruence|]. unfold tmax. cbn [vdata]. rewrite map_opt_z_of_vnat. cbn [map].
  eexists. split; [reflexivity|]. intros S. rewrite fold_max_ge. cbn [existsb]. f_equal.
  - destruct (Z.leb_spec (Z.of_nat S) (Z.of_nat x)), (Nat.leb_spec S x); try reflexivity; lia.
  - apply existsb_ext_all. intros y.
    destruct (Z.leb_spec (Z.of_nat S) (Z.of_nat y)), (Nat.leb_spec S y); try reflexivity; lia.
Qed.

Lemma item_scalar : forall v, item (mkVT [] [v]) = Some v. Proof. reflexivity. Qed.

Lemma any_ne0_lens : forall sh (l : list nat),
  exists x, ne_scalar (mkVT sh (map vnat l)) 0 = Some x /\ any x = Some (existsb (fun n => negb (n =? 0)) l).
Proof.
  intros sh l. unfold ne_scalar, tmap_opt. cbn [vdata vshape].
  rewrite (map_opt_ext_in _ (fun v => match v with VInt z => VBool (negb (z =? 0)%Z) | _ => VNone end)).
  - eexists. split; [reflexivity|]. unfold any. cbn [vdata]. rewrite !map_map.
    rewrite (map_opt_ext_in _ (fun v => match v with VBool b => b | _ => false end)).
    + cbn [option_map]. f_equal. rewrite map_map.
      induction l as [|y l IH]; [reflexivity|]. cbn [map existsb]. rewrite IH. f_equal.
      unfold vnat. destruct (Z.eqb_spec (Z.of_nat y) 0), (Nat.eqb_spec y 0); try reflexivity; lia.
    + intros v Hv. apply in_map_iff in Hv. destruct Hv as [y [<- _]]. reflexivity.
  - intros v Hv. apply in_map_iff in Hv. destruct Hv as [y [<- _]]. reflexivity.
Qed.
