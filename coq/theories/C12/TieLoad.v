(* C12 — tie (part 1: `_load_ref`) between the Python text of `_load_ref` / `_write_hyp` (src/pydrobert/torch/_datasets.py) and
   PV.C12.Model.load_ref / write_hyp, checked by the kernel.  PV.Gen.C12Src.load_ref_body / write_hyp_body are the
   MiniPy terms harness/py2coq/translate.py regenerates from /repo on every run; PV.MiniPy.Interp is their
   semantics; the torch calls mean what PV.MiniTorch.OpsC12 says (through SrcRun.ext12).  If the source is edited
   so that the statements below stop being true, this file stops compiling and the C12 check reports the broken
   obligation. *)
From Coq Require Import ZArith List String Bool Arith Lia ZifyBool.
From PV Require Import MiniPy.Syntax MiniPy.Interp MiniTorch.OpsC12 MiniTorch.LemmasC12 Gen.C12Src.
From PV Require Import C12.SrcRun C12.TieLib.
From PV Require C12.Model.
Import ListNotations.
Local Open Scope string_scope.

#[local] Arguments enc12 : simpl never.
#[local] Arguments dec12 !v /.
#[local] Arguments T1 : simpl never.
#[local] Arguments T2 : simpl never.
#[local] Arguments NZ : simpl never.
#[local] Arguments new_full : simpl never.
#[local] Arguments cat : simpl never.
#[local] Arguments ndim : simpl never.
#[local] Arguments size : simpl never.
#[local] Arguments numel : simpl never.
#[local] Arguments select_col : simpl never.
#[local] Arguments set_item : simpl never.
#[local] Arguments get_item : simpl never.
#[local] Arguments item : simpl never.
#[local] Arguments unsqueeze : simpl never.
#[local] Arguments slice0 : simpl never.
#[local] Arguments nonzero : simpl never.
#[local] Arguments eq_scalar : simpl never.
#[local] Arguments cpu : simpl never.
#[local] Arguments long : simpl never.
#[local] Arguments then_ : simpl never.
#[local] Arguments Z.of_nat : simpl never.
#[local] Arguments torch_module : simpl never.
#[local] Arguments store : simpl never.
#[local] Arguments ext12 env f !args kw st /.
#[local] Arguments bind {A B} !o f /.

Lemma t_cuda_T1 : forall cu dt l, t_cuda (T1 cu dt l) = cu. Proof. reflexivity. Qed.
Lemma t_dtype_T1 : forall cu dt l, t_dtype (T1 cu dt l) = dt. Proof. reflexivity. Qed.
Lemma t_cuda_T2 : forall cu dt w r, t_cuda (T2 cu dt w r) = cu. Proof. reflexivity. Qed.
Lemma t_dtype_T2 : forall cu dt w r, t_dtype (T2 cu dt w r) = dt. Proof. reflexivity. Qed.
Lemma leb_0_of_nat : forall n, (0 <=? Z.of_nat n)%Z = true. Proof. intros. lia. Qed.

Ltac tstep :=
  cbn;
  change (Z.of_nat 3) with 3%Z; change (Z.of_nat 2) with 2%Z; change (Z.of_nat 1) with 1%Z; change (Z.of_nat 0) with 0%Z;
  change (Pos.to_nat 1) with 1%nat; change (Pos.to_nat 2) with 2%nat; change (Pos.to_nat 3) with 3%nat;
  rewrite ?method_enc12, ?attribute_enc12, ?foreign_enc12, ?subscript_enc12_int, ?subscript_enc12_tuple, ?isnot_none_enc12,
    ?is_none_enc12, ?dec12_enc12, ?on1_enc, ?ndim_T1, ?ndim_T2, ?size_T2_1, ?cat0_T1, ?cat0_T2,
    ?t_cuda_T1, ?t_dtype_T1, ?t_cuda_T2, ?t_dtype_T2, ?leb_0_of_nat, ?Nat2Z.id, ?select_col_T2_w0, ?set_item_T1_nil,
    ?cpu_T1, ?cpu_T2, ?long_T1, ?long_T2, ?eq_scalar_T1, ?nonzero_T1, ?numel_NZ, ?item_T1_1,
    ?get_item_NZ_first, ?get_item_NZ_last, ?of_nat_S_eqb_0, ?store_name.

Ltac open_seq := rewrite exec_seq'; match goal with |- context [then_ _ ?b] => let r := fresh "rest" in remember b as r end.
Ltac norm_state := unfold set_var; cbn [update vars events String.eqb Ascii.eqb Bool.eqb].
Ltac close_stmt := norm_state; rewrite then_normal; match goal with H : ?r = _ |- context [exec _ ?r _] => subst r end.
Ltac stmt := open_seq; repeat (progress tstep).

(* ================================================ _load_ref ===================================================== *)
Definition sym_ok (dt : Model.dtype) (o : option Z) : Prop :=
  match o with Some s => in_range dt s = true | None => True end.

Definition ocons {A} (o : option A) (l : list A) : list A := match o with Some x => x :: l | None => l end.
Definition osnoc {A} (l : list A) (o : option A) : list A := match o with Some x => l ++ [x] | None => l end.

Ltac fill_side := first [ apply cast_fill_in_range; assumption | eapply in_range_numeric; eassumption ].

Ltac new_full_step := erewrite new_full_T1 by (rewrite ?t_dtype_T1, ?t_dtype_T2; fill_side); repeat (progress tstep).
Ltac setitem_step := erewrite store_sub_enc12 by (cbn; reflexivity); repeat (progress tstep).
Ltac start_run lem :=
  unfold run_load_ref; eexists; apply lem;
  unfold load_ref_body, load_vars; cbn [Model.c_sos Model.c_eos Model.c_tokens_only oz].

(* 1-D references *)
Lemma load_T1 : forall cu dt l tk sa sos eos, sym_ok dt sos -> sym_ok dt eos ->
  exists st, run_load_ref (Model.mkCfg sos eos tk sa) (T1 cu dt l) = Ok (enc12 (T1 cu dt (osnoc (ocons sos l) eos))) st.
Proof.
  intros cu dt l tk sa sos eos Hs He.
  destruct tk, sos as [s|], eos as [e|]; cbn [sym_ok oz ocons osnoc] in *;
  start_run run_of_exec_return;
  (stmt; close_stmt); (stmt; close_stmt); (stmt; close_stmt);
  (stmt; try new_full_step; close_stmt); (stmt; try new_full_step; close_stmt);
  repeat (progress tstep); reflexivity.
Qed.

(* 2-D references under tokens_only: the first column, then as a 1-D reference *)
Lemma load_T2_tk : forall cu dt w rows sa sos eos, Forall (fun r => List.length r = S w) rows ->
  sym_ok dt sos -> sym_ok dt eos ->
  exists st, run_load_ref (Model.mkCfg sos eos true sa) (T2 cu dt (S w) rows)
             = Ok (enc12 (T1 cu dt (osnoc (ocons sos (map (fun r => hd 0%Z r) rows)) eos))) st.
Proof.
  intros cu dt w rows sa sos eos HF Hs He.
  destruct sos as [s|], eos as [e|]; cbn [sym_ok oz ocons osnoc] in *;
  start_run run_of_exec_return;
  (stmt; close_stmt); (stmt; close_stmt);
  (stmt; rewrite (select_col_T2_0 cu dt w rows HF); repeat (progress tstep); close_stmt);
  (stmt; try new_full_step; close_stmt); (stmt; try new_full_step; close_stmt);
  repeat (progress tstep); reflexivity.
Qed.

Lemma load_T2_tk_w0 : forall cu dt rows sa sos eos,
  exists st, run_load_ref (Model.mkCfg sos eos true sa) (T2 cu dt 0 rows) = Exc "IndexError" st.
Proof.
  intros cu dt rows sa sos eos. start_run run_of_exec_exc.
  (stmt; close_stmt); (stmt; close_stmt). stmt. reflexivity.
Qed.

(* 2-D references with their segments: a row (sym, -1, ..., -1) in front / at the end *)
Definition wrap_rows (dt : Model.dtype) (w : nat) (sos eos : option Z) (rows : list (list Z)) : list (list Z) :=
  osnoc (ocons (option_map (Model.sym_row dt w) sos) rows) (option_map (Model.sym_row dt w) eos).

Ltac sym_row_steps :=
  new_full_step; setitem_step;
  erewrite set_item_T1_0 by fill_side; repeat (progress tstep);
  erewrite unsqueeze_T1_0 by (cbn [List.length]; rewrite repeat_length; reflexivity); repeat (progress tstep).

Lemma load_T2 : forall cu dt w rows sa sos eos, sym_ok dt sos -> sym_ok dt eos ->
  exists st, run_load_ref (Model.mkCfg sos eos false sa) (T2 cu dt (S w) rows)
             = Ok (enc12 (T2 cu dt (S w) (wrap_rows dt (S w) sos eos rows))) st.
Proof.
  intros cu dt w rows sa sos eos Hs He. unfold wrap_rows.
  destruct sos as [s|], eos as [e|]; cbn [sym_ok oz ocons osnoc option_map Model.sym_row] in *;
  start_run run_of_exec_return;
  (stmt; close_stmt); (stmt; close_stmt); (stmt; close_stmt);
  (stmt; try sym_row_steps; close_stmt); (stmt; try sym_row_steps; close_stmt);
  repeat (progress tstep); reflexivity.
Qed.

Lemma load_T2_plain : forall cu dt w rows sa,
  exists st, run_load_ref (Model.mkCfg None None false sa) (T2 cu dt w rows) = Ok (enc12 (T2 cu dt w rows)) st.
Proof.
  intros. start_run run_of_exec_return.
  (stmt; close_stmt); (stmt; close_stmt); (stmt; close_stmt); (stmt; close_stmt); (stmt; close_stmt).
  repeat (progress tstep); reflexivity.
Qed.

(* a zero-width 2-D reference: `sos_sym[0] = sos` raises IndexError *)
Lemma load_T2_w0 : forall cu dt rows sa sos eos, sym_ok dt sos -> sym_ok dt eos -> (sos <> None \/ eos <> None) ->
  exists st, run_load_ref (Model.mkCfg sos eos false sa) (T2 cu dt 0 rows) = Exc "IndexError" st.
Proof.
  intros cu dt rows sa sos eos Hs He Hn.
  destruct sos as [s|]; [|destruct eos as [e|]; [|exfalso; destruct Hn as [Hn|Hn]; now apply Hn]];
  cbn [sym_ok oz] in *; start_run run_of_exec_exc;
  (stmt; close_stmt); (stmt; close_stmt); (stmt; close_stmt).
  - stmt. new_full_step. setitem_step. reflexivity.
  - stmt. close_stmt. stmt. new_full_step. setitem_step. reflexivity.
Qed.

(* references that are neither 1-D nor 2-D: torch.cat with the one-element symbol tensor raises RuntimeError *)
Lemma ndim_mk : forall t, Z.of_nat (ndim t) = Z.of_nat (List.length (t_shape t)).
Proof. reflexivity. Qed.

Lemma cat0_T1_other : forall cu dt x l t, ndim t <> 1%nat -> t_dtype t = dt -> t_cuda t = cu ->
  cat (T1 cu dt (x :: l)) t 0 = Raise "RuntimeError".
Proof.
  intros cu dt x l [cu' dt' sh d] Hn Hd Hc. cbn in Hd, Hc. subst. unfold cat, T1, ndim in *.
  cbn [t_cuda t_dtype t_shape t_data] in *. rewrite dtype_beq_refl, eqb_reflx. cbn [andb negb].
  destruct sh as [|n [|m sh]]; [reflexivity|now contradiction Hn|]. cbn. now destruct n.
Qed.

Lemma cat0_other_T1 : forall cu dt x l t, ndim t <> 1%nat -> t_dtype t = dt -> t_cuda t = cu ->
  cat t (T1 cu dt (x :: l)) 0 = Raise "RuntimeError".
Proof.
  intros cu dt x l [cu' dt' sh d] Hn Hd Hc. cbn in Hd, Hc. subst. unfold cat, T1, ndim in *.
  cbn [t_cuda t_dtype t_shape t_data] in *. rewrite dtype_beq_refl, eqb_reflx. cbn [andb negb].
  destruct sh as [|n [|m sh]]; [reflexivity|now contradiction Hn|]. cbn. now destruct n.
Qed.

Lemma load_other_plain : forall t tk sa, ndim t <> 2%nat ->
  exists st, run_load_ref (Model.mkCfg None None tk sa) t = Ok (enc12 t) st.
Proof.
  intros t tk sa H2. assert (E : (Z.of_nat (ndim t) =? 2)%Z = false) by lia.
  destruct tk; start_run run_of_exec_return;
  (stmt; close_stmt); (stmt; close_stmt); (stmt; rewrite ?E; repeat (progress tstep); close_stmt);
  (stmt; close_stmt); (stmt; close_stmt); repeat (progress tstep); reflexivity.
Qed.

Lemma load_other_sym : forall t tk sa sos eos, ndim t <> 1%nat -> ndim t <> 2%nat ->
  sym_ok (t_dtype t) sos -> sym_ok (t_dtype t) eos -> (sos <> None \/ eos <> None) ->
  exists st, run_load_ref (Model.mkCfg sos eos tk sa) t = Exc "RuntimeError" st.
Proof.
  intros t tk sa sos eos H1 H2 Hs He Hn. assert (E : (Z.of_nat (ndim t) =? 2)%Z = false) by lia.
  destruct sos as [s|]; [|destruct eos as [e|]; [|exfalso; destruct Hn as [Hn|Hn]; now apply Hn]];
  cbn [sym_ok oz] in *; destruct tk; start_run run_of_exec_exc;
  (stmt; close_stmt); (stmt; close_stmt); (stmt; rewrite ?E; repeat (progress tstep); close_stmt).
  1,2: stmt; rewrite ?E; repeat (progress tstep); erewrite new_full_T1 by fill_side; repeat (progress tstep);
       rewrite cat0_T1_other by (assumption || reflexivity); reflexivity.
  1,2: stmt; close_stmt; stmt; rewrite ?E; repeat (progress tstep); erewrite new_full_T1 by fill_side; repeat (progress tstep);
       rewrite cat0_other_T1 by (assumption || reflexivity); reflexivity.
Qed.

(* ---- the whole function against the model -------------------------------------------------------------------- *)
(* what a stored reference must be to be a tensor at all: rows of a 2-D reference have its width; the model's
   "any other number of dimensions" is not 1 or 2 *)
Definition ref_shape_ok (r : Model.ref) : Prop :=
  match Model.r_data r with
  | Model.R2w w rows => Forall (fun x => List.length x = w) rows
  | Model.RN nd => nd <> 1%nat /\ nd <> 2%nat
  | _ => True
  end.

Definition load_outcome (o : Model.exn + Model.ref) (out : outcome val) : Prop :=
  match o with
  | inl e => exists st, out = Exc (name_of_exn e) st
  | inr r' => exists st, out = Ok (enc12 (tens_of_ref r')) st
  end.

Lemma Forall_row3 : forall rows, Forall (fun r => List.length r = 3%nat) (map row3 rows).
Proof. induction rows as [|[[a b] c] rows IH]; constructor; [reflexivity|exact IH]. Qed.

Lemma hd_row3 : forall rows, map (fun r => hd 0%Z r) (map row3 rows) = map Model.tok_of rows.
Proof. intros. rewrite map_map. apply map_ext. now intros [[a b] c]. Qed.

Theorem load_ref_run : forall c r, ref_shape_ok r ->
  sym_ok (Model.r_dtype r) (Model.c_sos c) -> sym_ok (Model.r_dtype r) (Model.c_eos c) ->
  load_outcome (Model.load_ref c r) (run_load_ref c (tens_of_ref r)).
Proof.
  intros [sos eos tk sa] [cu dt d] Hok Hs He. unfold ref_shape_ok in Hok. cbn [Model.r_data Model.r_dtype Model.c_sos Model.c_eos] in *.
  unfold Model.load_ref, Model.load_rdata, tens_of_ref. cbn [Model.r_data Model.r_dtype Model.r_cuda Model.c_sos Model.c_eos Model.c_tokens_only].
  destruct d as [t|rows|w rows|nd]; cbn [tens_of_rdata].
  - (* 1-D *)
    replace (if tk then Model.drop_segments (Model.R1 t) else inr (Model.R1 t)) with (@inr Model.exn _ (Model.R1 t)) by now destruct tk.
    destruct (load_T1 cu dt t tk sa sos eos Hs He) as [st E]. rewrite E.
    destruct sos, eos; cbn; eexists; reflexivity.
  - (* (R, 3) *)
    destruct tk; cbn [Model.drop_segments].
    + destruct (load_T2_tk cu dt 2 (map row3 rows) sa sos eos (Forall_row3 rows) Hs He) as [st E]. rewrite E, hd_row3.
      destruct sos, eos; cbn; eexists; reflexivity.
    + destruct (load_T2 cu dt 2 (map row3 rows) sa sos eos Hs He) as [st E]. rewrite E. unfold wrap_rows.
      destruct sos, eos; cbn; rewrite ?map_app; cbn; eexists; reflexivity.
  - (* (R, w) *)
    destruct w as [|w].
    + destruct tk; cbn [Model.drop_segments].
      * destruct (load_T2_tk_w0 cu dt rows sa sos eos) as [st E]. rewrite E. cbn. eexists; reflexivity.
      * destruct sos as [s|]; [|destruct eos as [e|]].
        -- destruct (load_T2_w0 cu dt rows sa (Some s) eos Hs He) as [st E]; [left; discriminate|]. rewrite E. cbn. eexists; reflexivity.
        -- destruct (load_T2_w0 cu dt rows sa None (Some e) Hs He) as [st E]; [right; discriminate|]. rewrite E. cbn. eexists; reflexivity.
        -- destruct (load_T2_plain cu dt 0 rows sa) as [st E]. rewrite E. cbn. eexists; reflexivity.
    + destruct tk; cbn [Model.drop_segments].
      * destruct (load_T2_tk cu dt w rows sa sos eos Hok Hs He) as [st E]. rewrite E.
        destruct sos, eos; cbn; eexists; reflexivity.
      * destruct (load_T2 cu dt w rows sa sos eos Hs He) as [st E]. rewrite E. unfold wrap_rows.
        destruct sos, eos; cbn; eexists; reflexivity.
  - (* neither *)
    destruct Hok as [H1 H2].
    set (t := mkT cu dt (repeat 1%nat nd) [0%Z]).
    assert (Hn : ndim t = nd) by (unfold ndim, t; cbn; apply repeat_length).
    replace (if tk then Model.drop_segments (Model.RN nd) else inr (Model.RN nd)) with (@inr Model.exn _ (Model.RN nd)) by now destruct tk.
    destruct sos as [s|]; [|destruct eos as [e|]].
    + destruct (load_other_sym t tk sa (Some s) eos) as [st E]; try (rewrite Hn; assumption); try assumption; [left; discriminate|].
      rewrite E. cbn. eexists; reflexivity.
    + destruct (load_other_sym t tk sa None (Some e)) as [st E]; try (rewrite Hn; assumption); try assumption; [right; discriminate|].
      rewrite E. cbn. eexists; reflexivity.
    + destruct (load_other_plain t tk sa) as [st E]; [rewrite Hn; assumption|]. rewrite E. cbn. eexists; reflexivity.
Qed.

Lemma exn_name_roundtrip : forall e, exn_of_name (name_of_exn e) = e.
Proof. now destruct e. Qed.

(* the executable form the harness evaluates *)
Theorem src_load_ref_tie : forall c r, ref_shape_ok r ->
  sym_ok (Model.r_dtype r) (Model.c_sos c) -> sym_ok (Model.r_dtype r) (Model.c_eos c) ->
  src_load_ref c (tens_of_ref r)
  = Some (match Model.load_ref c r with inl e => inl e | inr r' => inr (tens_of_ref r') end).
Proof.
  intros c r Hok Hs He. pose proof (load_ref_run c r Hok Hs He) as H. unfold src_load_ref, load_outcome in *.
  destruct (Model.load_ref c r) as [e|r']; destruct H as [st ->].
  - now rewrite exn_name_roundtrip.
  - now rewrite dec12_enc12.
Qed.
