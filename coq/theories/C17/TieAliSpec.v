(* C17 - source tie, tokens -> ali: the worker's guards and result as the operations of OpsC17 deliver them on
   the rows of a (R, 3) tensor ([spec_tok2ali]), and the proof that they are the model's (lists only; the symbolic
   execution of the source is in TieAli.v). *)
From Coq Require Import ZArith QArith List String Bool Arith Lia ZifyBool ZifyNat.
From PV Require Import C11.Model C17.Model C17.ProofsSel.
From PV Require Import MiniPy.Syntax MiniPy.Interp MiniTorch.OpsC17 MiniTorch.ValueC17 MiniTorch.LemmasC17 C17.SrcRun.
Import ListNotations.
Local Open Scope string_scope.

(* the guards and the result, as the operations of OpsC17 deliver them on the rows of a (R, 3) tensor *)
Definition g_neg (rows : list (list Z)) : bool :=
  existsb (existsb (fun b : bool => b))
    (map (map (fun e : Z => (e <? 0)%Z)) (map (slice_list (Some 1%Z) None) (slice_list None None rows))).
Definition g_gap (rows : list (list Z)) : bool :=
  existsb (fun b : bool => b)
    (map2 (zcmp KNe) (map (fun r => nth 2 r 0%Z) (slice_list None (Some (-1)%Z) rows))
                     (map (fun r => nth 1 r 0%Z) (slice_list (Some 1%Z) None rows))).
Definition col (k : nat) (rows : list (list Z)) : list Z := map (fun r => nth k r 0%Z) (slice_list None None rows).
Definition reps (rows : list (list Z)) : list Z := map2 Z.sub (col 2 rows) (col 1 rows).

(* T: None = no --feat-dir; Some None = the feature file is missing; Some (Some n) = it has n frames *)
Definition spec_tok2ali (T : option (option Z)) (rows : list (list Z)) : out tensor :=
  if g_neg rows then Fail EValue
  else if negb (nth 1 (nth 0 rows []) 0 =? 0)%Z then Fail EValue
  else if g_gap rows then Fail EValue
  else match T with
       | Some None => Fail EOS
       | _ =>
           if match T with Some (Some n) => negb (nth 2 (nth (pred (List.length rows)) rows []) 0 =? n)%Z | _ => false end
           then Fail EValue
           else if existsb (fun n => (n <? 0)%Z) (reps rows) then Fail ERuntime
           else Done (Vec (List.concat (map2 (fun v n => repeat v (Z.to_nat n)) (col 0 rows) (reps rows))))
       end.

Definition feat_len (fl : option (option tensor)) : option (option Z) := option_map (option_map tlen) fl.

(* ---- the guards and the result are the model's ---- *)
Definition rows3 (rows : list (list Z)) : Prop := Forall (fun r => List.length r = 3%nat) rows.

Lemma g_neg_model : forall rows, rows3 rows ->
  g_neg rows = existsb (fun r => (row_start r <? 0)%Z || (row_end r <? 0)%Z) rows.
Proof.
  intros rows W. unfold g_neg. rewrite slice_all. induction W as [|r rows Hr _ IH]; [reflexivity|].
  destruct r as [|a [|s [|e [|x t]]]]; try discriminate Hr.
  cbn [map existsb]. rewrite IH. rewrite slice_from1. cbn [map existsb]. unfold row_start, row_end. cbn [nth].
  now rewrite orb_false_r.
Qed.

Lemma g_gap_model : forall rows, g_gap rows = negb (contiguous_rows rows).
Proof.
  intros rows. unfold g_gap. rewrite slice_butlast, slice_from1_tl.
  induction rows as [|a [|b rest] IH]; [reflexivity|reflexivity|].
  change (removelast (a :: b :: rest)) with (a :: removelast (b :: rest)).
  change (contiguous_rows (a :: b :: rest)) with ((row_end a =? row_start b)%Z && contiguous_rows (b :: rest)).
  cbn [tl map map2 existsb] in *. rewrite IH, negb_andb. reflexivity.
Qed.

Lemma nth_pred_last : forall A (l : list A) d, nth (pred (List.length l)) l d = last l d.
Proof.
  induction l as [|x [|y l] IH]; intros d; [reflexivity|reflexivity|].
  change (last (x :: y :: l) d) with (last (y :: l) d). rewrite <- IH. reflexivity.
Qed.

Lemma reps_neg_model : forall rows,
  existsb (fun n => (n <? 0)%Z) (reps rows) = existsb (fun r => (row_end r <? row_start r)%Z) rows.
Proof.
  intros rows. unfold reps, col. rewrite slice_all. induction rows as [|r rows IH]; [reflexivity|].
  cbn [map map2 existsb]. rewrite IH. f_equal. unfold row_end, row_start. lia.
Qed.

Lemma expand_model : forall rows,
  List.concat (map2 (fun v n => repeat v (Z.to_nat n)) (col 0 rows) (reps rows)) = expand_rows rows.
Proof.
  intros rows. unfold reps, col, expand_rows. rewrite slice_all. induction rows as [|r rows IH]; [reflexivity|].
  cbn [map map2 List.concat flat_map]. rewrite IH. reflexivity.
Qed.

Lemma spec_tok2ali_model : forall fl r rows, rows3 (r :: rows) ->
  spec_tok2ali (feat_len fl) (r :: rows) = ali_of_ref_fl fl (Mat 3 (r :: rows)).
Proof.
  intros fl r rows W. unfold spec_tok2ali.
  rewrite (g_neg_model _ W), g_gap_model, reps_neg_model, expand_model, nth_pred_last.
  change (nth 1 (nth 0 (r :: rows) []) 0%Z) with (row_start (hd [] (r :: rows))).
  change (nth 2 (last (r :: rows) []) 0%Z) with (row_end (last (r :: rows) [])).
  unfold ali_of_ref_fl, ali_of_ref. cbn [Nat.eqb negb orb].
  set (R := r :: rows).
  destruct (existsb (fun r0 => (row_start r0 <? 0)%Z || (row_end r0 <? 0)%Z) R); [destruct fl as [[f|]|]; reflexivity|].
  destruct (negb (row_start (hd [] R) =? 0)%Z); [destruct fl as [[f|]|]; reflexivity|].
  destruct (negb (contiguous_rows R)); [destruct fl as [[f|]|]; reflexivity|].
  destruct fl as [[f|]|]; cbn [feat_len option_map].
  - destruct (existsb (fun r0 => (row_end r0 <? row_start r0)%Z) R); reflexivity.
  - destruct (existsb (fun r0 => (row_end r0 <? row_start r0)%Z) R); reflexivity.
  - reflexivity.
Qed.

Lemma ali_of_ref_fl_model : forall n fl t,
  ali_of_ref_fl fl t = ali_of_ref_feat (feats_of n fl) n t.
Proof.
  intros n fl t. unfold ali_of_ref_fl, ali_of_ref_feat, feats_of. destruct fl as [[f|]|]; try reflexivity.
  unfold dir_get. cbn [assoc]. rewrite C17.ProofsSel.str_eqb_refl. reflexivity.
Qed.

