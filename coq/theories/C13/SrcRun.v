(* C13 — the translated source as an executable: environment [ext13], object encoding, whole runs.
   (definitions only; the lemmas are in Tie.v)

   C13 — tie between the Python source and PV.C13.Model, checked by the kernel.

   PV.Gen.C13Src holds the MiniPy terms that harness/py2coq/translate.py regenerates from
   /repo/src/pydrobert/torch/_dataloaders.py on every run.  The lemmas below say that
   interpreting those terms (PV.MiniPy.Interp) computes exactly what Model.v's [init],
   [len], [samples], [next] and [seq_order] compute - for every data-set size, world size,
   rank, mode and epoch.  If the source is edited so that this stops being true, this file
   stops compiling and the C13 check reports the broken obligation.

   [ext13] gives meaning to the calls that leave the translated subset:
     argcheck.is_int / argcheck.is_in / get_args   - validation helpers (identity on legal input)
     torch.distributed.*                           - read the (patched) process-group description
     self.get_samples_for_epoch_ignoring_distributed - the epoch order oracle (NumPy permutation / range)
     self.get_samples_for_epoch                    - the translated method itself, run recursively *)
From Coq Require Import ZArith QArith List String Bool Arith Lia ZifyBool ZifyNat ZifyComparison.
From PV Require Import MiniPy.Syntax MiniPy.Interp Gen.C13Src C13.Model.
Import ListNotations.
Local Open Scope string_scope.

Definition mode_str (m : uneven) : string :=
  match m with Raise => "raise" | Drop => "drop" | Uneven => "uneven" | Ignore => "ignore" end.

Definition modes : val := VTuple [VStr "raise"; VStr "drop"; VStr "uneven"; VStr "ignore"].

(* process group as the harness patches it: None = torch.distributed not initialised *)
Definition dist_vars (dist : option (nat * nat)) : list (string * val) :=
  match dist with
  | None => [("$dist", VNone)]
  | Some (r, w) => [("$dist", VTuple [VInt (Z.of_nat r); VInt (Z.of_nat w)])]
  end.

Definition vnats (l : list nat) : val := VList (map (fun i => VInt (Z.of_nat i)) l).

Definition ext_base (order : nat -> list nat) (f : string) (args : list val) (kw : list (string * val))
  (st : state) : outcome val :=
  if is f "argcheck.is_int" then
    match args with [VInt z] => Ok (VInt z) st | [_] => Exc "TypeError" st | _ => Stuck "is_int" end
  else if is f "argcheck.is_in" then
    match args with
    | [v; VTuple c; _] => if mem v c then Ok v st else Exc "ValueError" st
    | _ => Stuck "is_in"
    end
  else if is f "get_args" then match args with [v] => Ok v st | _ => Stuck "get_args" end
  else if is f "torch.distributed.is_available" then
    Ok (VBool true) st
  else if is f "torch.distributed.is_initialized" then
    match lookup "$dist" (vars st) with
    | Some VNone => Ok (VBool false) st
    | Some _ => Ok (VBool true) st
    | None => Stuck "$dist"
    end
  else if is f "torch.distributed.get_rank" then
    match lookup "$dist" (vars st) with
    | Some (VTuple [r; _]) => Ok r st
    | _ => Stuck "get_rank"
    end
  else if is f "torch.distributed.get_world_size" then
    match lookup "$dist" (vars st) with
    | Some (VTuple [_; w]) => Ok w st
    | _ => Stuck "get_world_size"
    end
  else if is f "self.get_samples_for_epoch_ignoring_distributed" then
    match args with
    | [VInt e] => Ok (vnats (order (Z.to_nat e))) st
    | _ => Stuck "order"
    end
  else Stuck ("ext13: " ++ f).

(* method calls on self that are themselves translated: run the callee on the caller's self *)
Definition ext13 (order : nat -> list nat) (f : string) (args : list val) (kw : list (string * val))
  (st : state) : outcome val :=
  if is f "self.get_samples_for_epoch" then
    match args, lookup "self" (vars st) with
    | [e], Some self =>
        match Interp.run (ext_base order) aes_get_samples_for_epoch [("self", self); ("epoch", e)] with
        | Ok v _ => Ok v st          (* the callee does not assign to self (checked by samples_tie) *)
        | Exc n _ => Exc n st
        | Stuck w => Stuck w
        end
    | _, _ => Stuck "get_samples_for_epoch"
    end
  else ext_base order f args kw st.

(* the object a constructed sampler is: its five attributes *)
Definition zn (n : nat) : val := VInt (Z.of_nat n).

Definition self_of (s : sampler) : val :=
  VDict [(VStr "effective_total", zn (eff s)); (VStr "total", zn (total s)); (VStr "epoch", zn (epoch s));
         (VStr "_rank", zn (rank s)); (VStr "_world_size", zn (world s))].

Definition init_vars (n : nat) (dist : option (nat * nat)) (m : uneven) (e0 : nat) : list (string * val) :=
  [("self", VDict []); ("data_source", VList (repeat VNone n)); ("init_epoch", zn e0);
   ("on_uneven_distributed", VStr (mode_str m)); ("OnUnevenDistributed", modes)] ++ dist_vars dist.

(* what running __init__ must produce, read off the model *)
Definition init_expected (n : nat) (dist : option (nat * nat)) (m : uneven) (e0 : nat) (o : outcome val) : Prop :=
  match init n dist m e0, o with
  | None, Exc name _ => name = "ValueError"
  | Some s, Ok VNone st => lookup "self" (vars st) = Some (self_of s)
  | _, _ => False
  end.

(* executable version for the correspondence (run the translated code inside Coq) *)
Definition self_fields (v : val) : option sampler :=
  match v with
  | VDict d =>
      match dict_get d (VStr "total"), dict_get d (VStr "effective_total"), dict_get d (VStr "_rank"),
            dict_get d (VStr "_world_size"), dict_get d (VStr "epoch") with
      | Some (VInt t), Some (VInt e), Some (VInt r), Some (VInt w), Some (VInt ep) =>
          if (Z.leb 0 t && Z.leb 0 e && Z.leb 0 r && Z.leb 0 w && Z.leb 0 ep)%bool
          then Some (mkSampler (Z.to_nat t) (Z.to_nat e) (Z.to_nat r) (Z.to_nat w) (Z.to_nat ep))
          else None
      | _, _, _, _, _ => None
      end
  | _ => None
  end.

Definition self_vars (s : sampler) : list (string * val) := [("self", self_of s)].
Definition self_in (st : state) : option val := lookup "self" (vars st).

Definition st_of (s : sampler) (more : list (string * val)) : state :=
  mkState (("self", self_of s) :: more) [].


(* ---- the translated source, run inside Coq (correspondence entry point) ---------------
   Same interface as Model.check, but every step is the interpretation of the regenerated
   source terms: this validates MiniPy's semantics and [ext13] against CPython on the cases of
   each run, and is what the search uses when a tie lemma no longer compiles. *)
Fixpoint nats_of (l : list val) : option (list nat) :=
  match l with
  | [] => Some []
  | VInt z :: r => if Z.leb 0 z then option_map (cons (Z.to_nat z)) (nats_of r) else None
  | _ => None
  end.

Fixpoint src_iterate (order : nat -> list nat) (k : nat) (self : val) : option (list (list nat)) :=
  match k with
  | O => Some []
  | S k' =>
      match Interp.run (ext13 order) aes_iter [("self", self)] with
      | Ok (VList ys) st =>
          match nats_of ys, lookup "self" (vars st) with
          | Some y, Some self' => option_map (cons y) (src_iterate order k' self')
          | _, _ => None
          end
      | _ => None
      end
  end.

(* outer None: the interpreter got stuck or produced something that is not a sampler outcome *)
Definition src_run (n : nat) (dist : option (nat * nat)) (m : uneven) (e0 : nat)
  (orders : list (list nat)) : option (option (nat * list (list nat))) :=
  let order := fun e => nth (e - e0) orders [] in
  match Interp.run (ext13 order) aes_init (init_vars n dist m e0) with
  | Exc name _ => if String.eqb name "ValueError" then Some None else None
  | Ok VNone st =>
      match lookup "self" (vars st) with
      | Some self =>
          match Interp.run (ext13 order) aes_len [("self", self)] with
          | Ok (VInt l) _ =>
              if Z.leb 0 l then
                option_map (fun ys => Some (Z.to_nat l, ys)) (src_iterate order (List.length orders) self)
              else None
          | _ => None
          end
      | None => None
      end
  | _ => None
  end.

Definition src_check n dist m e0 orders (impl : option (nat * list (list nat))) : bool :=
  match src_run n dist m e0 orders with
  | Some o => out_eqb o impl
  | None => false
  end.

Definition src_seq_order_check (n : nat) : bool :=
  match Interp.run (ext13 (fun _ => [])) ess_order
          [("self", VDict [(VStr "total", zn n)]); ("epoch", VInt 0)] with
  | Ok (VList l) _ => match nats_of l with Some l' => list_eqb l' (seq 0 n) | None => false end
  | _ => false
  end.

(* ---- EpochRandomSampler.get_samples_for_epoch_ignoring_distributed ------------------------------------
   `rs = np.random.RandomState((self.base_seed, epoch)); shuffled = rs.permutation(self.total); return iter(shuffled)`.
   NumPy is an oracle [perm seed epoch n] = np.random.RandomState((seed, epoch)).permutation(n) (as a list); the
   generator object is the tagged value ($rs, seed, epoch).  What the tie fixes: WHICH permutation is asked for - the one
   of (base_seed, epoch) over exactly self.total items, whatever effective_total, rank and world size are. *)
Definition ext_rs (perm : Z -> Z -> nat -> list nat) (f : string) (args : list val) (kw : list (string * val))
  (st : state) : outcome val :=
  if is f "np.random.RandomState" then
    match args with
    | [VTuple [VInt s; VInt e]] => Ok (VTuple [VStr "$rs"; VInt s; VInt e]) st
    | _ => Stuck "RandomState"
    end
  else if is f "$method.permutation" then
    match args with
    | [VTuple [VStr "$rs"; VInt s; VInt e]; VInt n] =>
        if Z.leb 0 n then Ok (vnats (perm s e (Z.to_nat n))) st else Exc "ValueError" st
    | _ => Stuck "permutation"
    end
  else Stuck ("ext_rs: " ++ f).

Definition rand_self (seed : Z) (s : sampler) : val :=
  VDict [(VStr "effective_total", zn (eff s)); (VStr "total", zn (total s)); (VStr "epoch", zn (epoch s));
         (VStr "_rank", zn (rank s)); (VStr "_world_size", zn (world s)); (VStr "base_seed", VInt seed)].

(* executable: the interpreted method on the sampler the model constructs, NumPy's answer for [total] items supplied
   (any other request is answered with the empty list), compared with what the implementation returned *)
Definition src_rand_order_check (n : nat) (dist : option (nat * nat)) (m : uneven) (e0 : nat) (seed : Z) (e : nat)
  (order observed : list nat) : bool :=
  match init n dist m e0 with
  | None => true
  | Some s =>
      match Interp.run (ext_rs (fun _ _ k => if Nat.eqb k n then order else [])) ers_order
              [("self", rand_self seed s); ("epoch", zn e)] with
      | Ok (VList l) _ => match nats_of l with Some l' => list_eqb l' observed | None => false end
      | _ => false
      end
  end.

(* names used by the statements in Properties.v (which opens no string scope) *)
Definition k_self : string := "self".
Definition k_epoch : string := "epoch".
Definition k_rs : string := "rs".
Definition k_shuffled : string := "shuffled".
Definition rs_tag : val := VStr "$rs".

