(* MiniTorch, unit C17Src - the tensors of OpsC17 (long / bool, rank 1 / 2) as MiniPy values.  DEFINITIONS ONLY.

       L1 v       VTuple [VStr "$long"; VInt 1; VList [VInt v_0; ...]]
       L2 w rows  VTuple [VStr "$long"; VInt 2; VInt w; VList [VList [VInt ..; ...]; ...]]
       B1 / B2    the same with the tag "$bool" and VBool elements

   The tag starts with "$" and there are at least two components after it: MiniPy.Interp.foreign / foreign_item
   recognise the value as a library object, so `t == u`, `t < 0` reach the unit's [ext] as "compare", `t.m(..)` as
   "$method.m", `t.a` as "$attr.a", `t - u` / `t & u` as "operator", `t[k]` as "$getitem".  Rank-0 tensors are
   Python scalars (VInt / VBool), see OpsC17. *)
From Coq Require Import List ZArith Bool String.
From PV Require Import MiniPy.Syntax MiniPy.Interp MiniTorch.OpsC17.
Import ListNotations.
Local Open Scope string_scope.

Definition long_tag : string := "$long".
Definition bool_tag : string := "$bool".

Definition enc_ints (l : list Z) : val := VList (map VInt l).
Definition enc_bools (l : list bool) : val := VList (map VBool l).

Definition enc17 (t : lten) : val :=
  match t with
  | L1 v => VTuple [VStr long_tag; VInt 1; enc_ints v]
  | L2 w rows => VTuple [VStr long_tag; VInt 2; VInt (Z.of_nat w); VList (map enc_ints rows)]
  | B1 v => VTuple [VStr bool_tag; VInt 1; enc_bools v]
  | B2 w rows => VTuple [VStr bool_tag; VInt 2; VInt (Z.of_nat w); VList (map enc_bools rows)]
  end.

Fixpoint dec_ints (l : list val) : option (list Z) :=
  match l with
  | [] => Some []
  | VInt z :: r => option_map (cons z) (dec_ints r)
  | _ => None
  end.

Fixpoint dec_bools (l : list val) : option (list bool) :=
  match l with
  | [] => Some []
  | VBool b :: r => option_map (cons b) (dec_bools r)
  | _ => None
  end.

Fixpoint dec_rows {A} (f : list val -> option (list A)) (l : list val) : option (list (list A)) :=
  match l with
  | [] => Some []
  | VList r :: t => match f r, dec_rows f t with
                    | Some x, Some y => Some (x :: y)
                    | _, _ => None
                    end
  | _ => None
  end.

Definition dec17 (v : val) : option lten :=
  match v with
  | VTuple [VStr tag; VInt 1%Z; VList d] =>
      if String.eqb tag long_tag then option_map L1 (dec_ints d)
      else if String.eqb tag bool_tag then option_map B1 (dec_bools d) else None
  | VTuple [VStr tag; VInt 2%Z; VInt w; VList d] =>
      if (w <? 0)%Z then None
      else if String.eqb tag long_tag then option_map (L2 (Z.to_nat w)) (dec_rows dec_ints d)
      else if String.eqb tag bool_tag then option_map (B2 (Z.to_nat w)) (dec_rows dec_bools d) else None
  | _ => None
  end.

(* an operand of a comparison: a tensor or a Python int *)
Definition operand (v : val) : option opd :=
  match v with VInt z => Some (OZ z) | _ => option_map OT (dec17 v) end.

Definition ret17 (why : string) (o : option lten) (st : state) : outcome val :=
  match o with
  | Some t => Ok (enc17 t) st
  | None => Stuck ("MiniTorch(C17): outside the modelled domain: " ++ why)
  end.

Definition on1 (why : string) (v : val) (k : lten -> option lten) (st : state) : outcome val :=
  match dec17 v with Some t => ret17 why (k t) st | None => Stuck ("MiniTorch(C17): not a tensor: " ++ why) end.

Definition on2 (why : string) (v w : val) (k : lten -> lten -> option lten) (st : state) : outcome val :=
  match dec17 v, dec17 w with
  | Some t, Some u => ret17 why (k t u) st
  | _, _ => Stuck ("MiniTorch(C17): not a tensor: " ++ why)
  end.

(* a reduction to a Python scalar *)
Definition on1v (why : string) (v : val) (k : lten -> option val) (st : state) : outcome val :=
  match dec17 v with
  | Some t => match k t with Some r => Ok r st | None => Stuck ("MiniTorch(C17): outside the modelled domain: " ++ why) end
  | None => Stuck ("MiniTorch(C17): not a tensor: " ++ why)
  end.

(* ---- subscript keys: a:b is VTuple [VStr "$slice"; a; b; None] (Interp.builtin "slice"), no step ---- *)
Definition dec_bound (v : val) : option (option Z) :=
  match v with VNone => Some None | VInt z => Some (Some z) | _ => None end.

Definition dec_ix (k : val) : option ix :=
  match k with
  | VInt z => Some (IInt z)
  | VTuple [VStr s; a; b; VNone] =>
      if String.eqb s "$slice" then
        match dec_bound a, dec_bound b with
        | Some x, Some y => Some (ISlice x y)
        | _, _ => None
        end
      else None
  | _ => None
  end.

(* x[k]: k a slice (rank 1), a bool mask (rank 1), or a pair of int / slice (rank 2) *)
Definition getitem (t : lten) (k : val) : option val :=
  match dec_ix k with
  | Some (ISlice a b) => option_map enc17 (get_slice1 t a b)
  | Some (IInt _) => None
  | None =>
      match k with
      | VTuple [k1; k2] =>
          match dec_ix k1, dec_ix k2 with
          | Some (ISlice a b), Some (ISlice c d) => option_map enc17 (get_block t a b c d)
          | Some (ISlice a b), Some (IInt j) => option_map enc17 (get_col t a b j)
          | Some (IInt i), Some (IInt j) => option_map VInt (get_cell t i j)
          | _, _ => None
          end
      | _ => match dec17 k with Some m => option_map enc17 (masked t m) | None => None end
      end
  end.
