#!/bin/sh
# Full .vo build of the Coq development (never -vos). Regenerates _CoqProject from the tree.
# usage: build.sh [targets...]   (no target = everything).  Serialised with flock.
set -e
cd "$(dirname "$0")"
# fast path for a targeted build: nothing to do (make -q) -> do not queue for the lock
if [ $# -gt 0 ] && [ -f Makefile.coq ] && [ -d theories/Gen ]; then
  if make -q -f Makefile.coq "$@" > /dev/null 2>&1; then exit 0; fi
fi
exec 9> .build.lock
flock 9
# regenerate the MiniPy terms of the translated source units from the working tree (theories/Gen/*.v)
# (only for a full build: a check regenerates its own property's units itself, see vlib.regen_sources; a targeted build
#  must not rewrite other properties' units while their checks may be running against another tree)
if [ $# -eq 0 ] || [ ! -d theories/Gen ]; then
  /venv/bin/python ../harness/py2coq/translate.py --out theories/Gen > .gen.log 2>&1 || { cat .gen.log; exit 3; }
fi
{
  echo "-Q theories PV"
  echo "-arg -w -arg -notation-overridden,-deprecated-hint-without-locality,-deprecated-instance-without-locality,-deprecated-syntactic-definition"
  find theories -name '*.v' | LC_ALL=C sort
} > _CoqProject.new
if ! cmp -s _CoqProject.new _CoqProject 2>/dev/null; then
  mv _CoqProject.new _CoqProject
  coq_makefile -f _CoqProject -o Makefile.coq > /dev/null
else
  rm -f _CoqProject.new
  [ -f Makefile.coq ] || coq_makefile -f _CoqProject -o Makefile.coq > /dev/null
fi
timeout ${VERIF_BUILD_TIMEOUT:-3000} make -k -f Makefile.coq -j${VERIF_JOBS:-16} "$@"
