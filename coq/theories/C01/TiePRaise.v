(* C01, prefix tie - the RAISE paths of the call made by prefix_edit_distances (PV.Gen.C01Src.sm_body, return_prf_dsts = True,
   environment SrcRunP.ext01p g): the dimension check (RuntimeError) and `exclude_last=True` with a hypothesis tensor without
   time steps - `prefix_ers = torch.empty((0, N))`, then `prefix_ers[0] = ...` raises IndexError (shown without an eos; with
   one `_lens_from_eos` raises first).  The second is the boundary of the hypothesis `c_excl c = true -> H <> 0` of
   TieP.prefix_is_model: there Model.prefix_edit_distances returns an empty table, the source raises. *)
From Coq Require Import ZArith QArith List String Bool Arith Lia ZifyBool ZifyNat.
From PV Require Import MiniPy.Syntax MiniPy.Interp MiniPy.Lemmas MiniTorch.Ops MiniTorch.Lemmas MiniTorch.OpsC07 MiniTorch.LemmasC07
  MiniTorch.OpsC01 MiniTorch.LemmasC01 MiniTorch.OpsC01P MiniTorch.LemmasC01P.
From PV Require Import Gen.C01Src C01.SrcRun C01.SrcRunP C01.TieLib C01.TieMath C01.TieLoop C01.TieBlocks C01.TieWhole C01.TieLens
  C01.TiePre C01.TieBody C01.Tie C01.TiePLib C01.TiePMath C01.TiePLoop C01.TiePBlocks C01.TieP.
From PV Require C01.Model C01.Proofs.
Import ListNotations.
Local Open Scope string_scope.

#[local] Arguments dec01 : simpl never.
#[local] Arguments enc_b : simpl never.
#[local] Arguments enc_i : simpl never.
#[local] Arguments enc_x : simpl never.
#[local] Arguments tab2 : simpl never.
#[local] Arguments tab3 : simpl never.
#[local] Arguments qz : simpl never.
#[local] Arguments Z.add : simpl never.
#[local] Arguments Z.sub : simpl never.
#[local] Arguments Z.of_nat : simpl nomatch.
#[local] Arguments select0 : simpl never.
#[local] Arguments slice0 : simpl never.
#[local] Arguments set_slice0 : simpl never.
#[local] Arguments broadcast : simpl never.
#[local] Arguments where_f : simpl never.
#[local] Arguments min_dim : simpl never.
#[local] Arguments gather0 : simpl never.
#[local] Arguments unsqueeze : simpl never.
#[local] Arguments squeeze_dim : simpl never.
#[local] Arguments expand2 : simpl never.
#[local] Arguments triu_f : simpl never.
#[local] Arguments transpose2 : simpl never.
#[local] Arguments arange_f : simpl never.
#[local] Arguments full : simpl never.
#[local] Arguments fadd : simpl never.
#[local] Arguments fsub : simpl never.
#[local] Arguments fmul : simpl never.
#[local] Arguments fdiv : simpl never.
#[local] Arguments fmin : simpl never.
#[local] Arguments b2f : simpl never.
#[local] Arguments z2f : simpl never.
#[local] Arguments empty2 : simpl never.
#[local] Arguments set_select0 : simpl never.
#[local] Arguments size_dim : simpl never.
#[local] Arguments expand_as2 : simpl never.
#[local] Arguments arange : simpl never.
#[local] Arguments ge_t : simpl never.
#[local] Arguments masked_fill : simpl never.
#[local] Arguments long_mul_float : simpl never.

#[local] Arguments ext01 : simpl never.
#[local] Arguments ext01p : simpl never.
#[local] Arguments ext01p_new : simpl never.
#[local] Arguments zf : simpl never.
#[local] Arguments ofx : simpl never.
#[local] Arguments seq : simpl never.
#[local] Arguments Qeq_bool : simpl never.
#[local] Arguments Qcompare : simpl never.
#[local] Arguments Z.eqb : simpl nomatch.
#[local] Arguments any_b : simpl never.
#[local] Arguments tsize : simpl never.


Definition praises (g : nat -> fx) (n : string) (body : stmt) (st : state) : Prop := exists st', exec (ext01p g) body st = Exc n st'.

Lemma praises_seq_l : forall g n a b st, praises g n a st -> praises g n (SSeq a b) st.
Proof. intros g n a b st [st1 He]. unfold praises. cbn [exec]. rewrite He. eexists. reflexivity. Qed.

Lemma praises_seq : forall g (P : state -> Prop) n a b st,
  runs_to P (exec (ext01p g) a st) -> (forall st1, P st1 -> praises g n b st1) -> praises g n (SSeq a b) st.
Proof. intros g P n a b st [st1 [He P1]] Hb. unfold praises. cbn [exec]. rewrite He. cbn [bind]. now apply Hb. Qed.

Lemma prun_raises : forall g n body vars0, praises g n body (mkState vars0 []) ->
  exists st', Interp.run (ext01p g) body vars0 = Exc n st'.
Proof. intros g n body vars0 [st' He]. unfold Interp.run. rewrite He. eexists. reflexivity. Qed.

Lemma gexec_setitem_exc : forall E x ke e st v kv t n,
  eval E e st = Ok v st -> lookup x (vars st) = Some (enc_x t) -> eval E ke st = Ok kv st ->
  E "$setitem" [enc_x t; kv; v] [] st = Exc n st ->
  exec E (SAssign [TSub (EName x) ke] e) st = Exc n st.
Proof.
  intros E x ke e st v kv t n He Hx Hk Hs. cbn [exec]. rewrite He. cbn [bind assign_all place_of store eval]. rewrite Hx. cbn [bind].
  rewrite Hk. cbn [bind]. unfold enc_x at 1. fold (enc_x t). rewrite Hs. reflexivity.
Qed.

(* ---- the dimension check ---------------------------------------------------------------------------------------- *)
Lemma pre_raises_dim_p : forall g st (x y : tn Z) excl,
  lookup "return_mask" (vars st) = Some (VBool false) -> lookup "return_prf_dsts" (vars st) = Some (VBool true) ->
  lookup "exclude_last" (vars st) = Some (VBool excl) ->
  lookup "ref" (vars st) = Some (enc_i x) -> lookup "hyp" (vars st) = Some (enc_i y) ->
  (List.length (shp x) <> 2 \/ List.length (shp y) <> 2)%nat ->
  praises g runtime_error sm_pre st.
Proof.
  intros g st x y excl Lm Lp Le Lx Ly Hd. unfold praises, sm_pre.
  passertstep. pseqnorm.
  match goal with
  | |- context [exec ?E0 (SSeq (SAssert ?e) ?b) ?st0] =>
      assert (Hev : eval E0 e st0 = Ok (VBool true) st0) by (destruct excl; pevn; reflexivity);
      rewrite (gexec_seq_assert E0 e b st0 _ Hev eq_refl); clear Hev
  end.
  destruct (Z.of_nat (List.length (shp x)) =? 2)%Z eqn:E1; destruct (Z.of_nat (List.length (shp y)) =? 2)%Z eqn:E2;
    try (exfalso; lia);
    (pifstep_t ltac:(repeat (progress (pevn; rewrite ?E1, ?E2)); reflexivity); cbn [negb]; cbn [exec]; eexists; reflexivity).
Qed.

Theorem prefix_raises_dim :
  forall (g : nat -> fx) (x y : tn Z) (eos : option Z) (incl bf : bool) (qi qd qs : Q) (w nm : bool) (pad : Z) (excl : bool),
  (List.length (shp x) <> 2 \/ List.length (shp y) <> 2)%nat ->
  exists st', Interp.run (ext01p g) sm_body (smp_vars x y eos incl bf qi qd qs w nm pad excl) = Exc runtime_error st'.
Proof.
  intros. apply prun_raises. unfold praises. rewrite sm_body_split_p. apply praises_seq_l.
  apply (pre_raises_dim_p g _ x y excl); try reflexivity. assumption.
Qed.

(* ---- exclude_last on a hypothesis tensor without time steps ------------------------------------------------------ *)
Section EmptyTable.
  Variable g : nat -> fx.
  Variables (s : positive) (ci cd cs : Z) (mult : Q) (R N : nat) (rf hf : nat -> nat -> Z) (rl hl : nat -> nat).
  Variables (nm w bf : bool) (pad : Z).
  Notation E := (ext01p g).

  Lemma flags_raises_p : forall st,
    known st (stageA' s ci cd cs mult R N 0 rf hf rl hl nm w bf true pad ++ stageB s cd R N) ->
    praises g index_error main_flags st.
  Proof.
    intros st K. unfold stageA', stageB in K. open_known K. unfold praises, main_flags, sm_main. cbv iota.
    pifstep. pifstep.
    passign_v (enc_x (mkTn [0%nat; N] (tab2 0 N (fun i j => g (i * N + j)%nat))))
      ltac:(pevn; change (0 + 0)%Z with (Z.of_nat 0); rewrite empty2_nat; reflexivity).
    unfold lens_tensor in *.
    match goal with
    | |- context [exec ?E0 (SAssign [TSub (EName ?x) ?ke] ?e) ?st0] =>
        eassert (H1 : eval E0 e st0 = Ok _ st0) by (pevn; reflexivity);
        eassert (H2 : lookup x (vars st0) = Some (enc_x _)) by (look; reflexivity);
        eassert (H3 : eval E0 ke st0 = Ok _ st0) by (pev; reflexivity);
        match type of H1 with _ = Ok ?v _ =>
        match type of H2 with _ = Some (enc_x ?t) =>
        match type of H3 with _ = Ok ?kv _ =>
          assert (H4 : E0 "$setitem" [enc_x t; kv; v] [] st0 = Exc index_error st0)
            by (rewrite extp_setitem_row; cbn [tab2]; rewrite set_select0_empty; reflexivity);
          rewrite (gexec_setitem_exc E0 x ke e st0 v kv t _ H1 H2 H3 H4)
        end end end
    end.
    eexists. reflexivity.
  Qed.
End EmptyTable.

Theorem prefix_raises_empty_hyp :
  forall (g : nat -> fx) (s : positive) (c : C01.Model.cfg) (N R : nat) (ref hyp : list (list Z)) (w : bool),
  (0 < N)%nat -> wf_src (C01.Model.c_bf c) N R ref -> wf_src (C01.Model.c_bf c) N 0 hyp ->
  C01.Model.c_eos c = None -> C01.Model.c_excl c = true ->
  exists st', run_prefix g s c N ref hyp w = Exc index_error st'.
Proof.
  intros g s c N R ref hyp w HN Hr Hh Heos Hex.
  unfold run_prefix, run_prefix_prog. apply prun_raises. unfold praises. rewrite sm_body_split_p.
  rewrite (mat_tensor_in _ N R ref HN Hr), (mat_tensor_in _ N 0 hyp HN Hh).
  set (rf := at_src (C01.Model.c_bf c) ref). set (hf := at_src (C01.Model.c_bf c) hyp).
  match goal with |- context [exec _ _ ?st0] => set (st0' := st0) end.
  assert (K : known st0' (params_p s c R N 0 rf hf w)).
  { unfold st0', params_p, smp_vars, globals01, torch_module. cbn [known app]. repeat split; reflexivity. }
  eapply praises_seq; [apply pre_run_p; [rewrite Heos; intros HH; now elim HH|exact K]|]. intros st1 K1.
  unfold stageAp in K1. rewrite Hex in K1.
  assert (Hrl : forall n, (n < N)%nat -> (ref_len c R rf n <= R)%nat).
  { intros n Hn. unfold ref_len. rewrite <- (colf_length R rf n) at 2. apply C01.Proofs.eff_len_le. }
  eapply praises_seq;
    [exact (row0_run_p g (eff_scale s c) (eff_ci c) (eff_cd c) (eff_cs c) (eff_mult s c) R N 0 rf hf (ref_len c R rf)
              (hyp_len c 0 hf) (C01.Model.c_norm c) w (C01.Model.c_bf c) true (C01.Model.c_pad c) Hrl st1 K1)|].
  intros st2 K2. apply praises_seq_l. apply praises_seq_l.
  eapply flags_raises_p. exact K2.
Qed.
