(* C13 — boolean reading of the property on *implementation outputs* alone (no model, no
   order oracle).  Used by the harness to judge an implementation output when it differs
   from the model: a harmless change of the shuffling passes this checker, a lost or
   duplicated index does not. *)
From Coq Require Import List Arith Bool.
From PV Require Import C13.Model.
Import ListNotations.

Fixpoint nodupb (l : list nat) : bool :=
  match l with [] => true | x :: t => negb (existsb (Nat.eqb x) t) && nodupb t end.

Definition all_lt (n : nat) (l : list nat) : bool := forallb (fun x => Nat.ltb x n) l.

(* rank_out: None = ValueError, Some (len, yields per successive epoch) *)
Definition rank_out := option (nat * list (list nat)).

Definition epoch_yields (j : nat) (outs : list (nat * list (list nat))) : list (list nat) :=
  map (fun o => nth j (snd o) []) outs.

Definition all_some (l : list rank_out) : option (list (nat * list (list nat))) :=
  fold_right (fun o acc => match o, acc with Some x, Some a => Some (x :: a) | _, _ => None end)
             (Some []) l.

Definition spec_okb (n w : nat) (m : uneven) (epochs : nat) (ranks : list rank_out) : bool :=
  let indivisible := negb (Nat.eqb (n mod w) 0) in
  match m with
  | Raise => if indivisible then forallb (fun o => match o with None => true | _ => false end) ranks
             else match all_some ranks with
                  | None => false
                  | Some outs =>
                      forallb (fun j =>
                        let ys := epoch_yields j outs in
                        nodupb (concat ys) && all_lt n (concat ys) &&
                        Nat.eqb (length (concat ys)) n &&
                        forallb (fun o => Nat.eqb (fst o) (length (nth j (snd o) []))) outs)
                        (seq 0 epochs)
                  end
  | Ignore => match all_some ranks with
              | None => false
              | Some outs =>
                  forallb (fun o => forallb (fun y => nodupb y && all_lt n y &&
                                                       Nat.eqb (length y) n && Nat.eqb (fst o) n)
                                            (snd o)) outs
              end
  | _ => match all_some ranks with
         | None => false
         | Some outs =>
             let eff := match m with Drop => n - n mod w | _ => n end in
             forallb (fun j =>
               let ys := epoch_yields j outs in
               nodupb (concat ys) && all_lt n (concat ys) &&
               Nat.eqb (length (concat ys)) eff &&
               forallb (fun o => Nat.eqb (fst o) (length (nth j (snd o) []))) outs &&
               match m with
               | Drop => forallb (fun y => Nat.eqb (length y) (n / w)) ys
               | _ => true
               end) (seq 0 epochs)
         end
  end.
