(* C20 — attention (src/pydrobert/torch/_attn.py: GlobalSoftAttention.forward/check_input,
   DotProductSoftAttention.score, GeneralizedDotProductSoftAttention.score,
   _concat_soft_attention, MultiHeadedAttention.forward).

   Executable model of what the code does.  No proofs in this file.

   Conventions
   * Numbers are exact rationals [Q].  The two transcendental kernels are *data*: [expf]
     (the exp inside torch's softmax; exp(-inf) = 0 is modelled by [None] scores) and
     [tanhf] (ConcatSoftAttention).  The theorems hold for every [expf] that is positive
     and every [tanhf]; the correspondence instantiates them with tables of torch's float64
     results ([lookup]).
   * A tensor is a shape together with an index function (torch's documented indexing
     semantics; views such as unsqueeze / unflatten / flatten / expand are index maps).
   * Shapes and indices are written INNERMOST AXIS FIRST ("r-coordinates"): the tensor
     torch prints with shape (B, T, C, K) has [tshape = [K; C; T; B]], and the element
     x[b, t, c, k] is [tat x [k; c; t; b]].  Right-aligned broadcasting is then alignment
     at the head of the lists, and "the last dimension" is the head.
   * The sequence axis is given by its r-position [p] in key/value ([p >= 1]); [axis_pos]
     computes it from the module's [dim] the way the code resolves it. *)
From Coq Require Import List Arith Bool ZArith QArith Qabs.
Import ListNotations.
Local Open Scope nat_scope.

(* ---------------------------------------------------------------------------------- *)
(* tensors                                                                              *)
(* ---------------------------------------------------------------------------------- *)
Definition shape := list nat.
Definition index := list nat.

Record tensor (A : Type) := mkT { tshape : shape; tat : index -> A }.
Arguments mkT {A}.
Arguments tshape {A}.
Arguments tat {A}.

(* broadcast read: an axis of size 1 is read at 0; an index with more axes than the tensor
   is truncated (right alignment) *)
Fixpoint clamp (s : shape) (i : index) : index :=
  match s, i with
  | n :: s', x :: i' => (if Nat.eqb n 1 then 0%nat else x) :: clamp s' i'
  | _, _ => []
  end.

Definition bget {A} (t : tensor A) (i : index) : A := tat t (clamp (tshape t) i).

(* torch.broadcast_shapes; None = RuntimeError *)
Fixpoint bshape (a b : shape) : option shape :=
  match a, b with
  | [], _ => Some b
  | _, [] => Some a
  | x :: a', y :: b' =>
      match bshape a' b' with
      | None => None
      | Some r =>
          if Nat.eqb x y then Some (x :: r)
          else if Nat.eqb x 1 then Some (y :: r)
          else if Nat.eqb y 1 then Some (x :: r)
          else None
      end
  end.

(* [into s' s]: a tensor of shape s' can be expanded to shape s *)
Fixpoint intob (s' s : shape) : bool :=
  match s', s with
  | [], _ => true
  | _ :: _, [] => false
  | x :: a, y :: b => (Nat.eqb x y || Nat.eqb x 1) && intob a b
  end.

(* row-major flat storage <-> index function *)
Fixpoint rfi (s : shape) (i : index) : nat :=
  match s, i with
  | n :: s', x :: i' => rfi s' i' * n + x
  | _, _ => 0
  end.

Definition of_flat {A} (s : shape) (data : list A) (d : A) : tensor A :=
  mkT s (fun i => nth (rfi s i) data d).

(* all indices of a shape, in row-major order of the torch (outermost-first) layout *)
Fixpoint renum (s : shape) : list index :=
  match s with
  | [] => [[]]
  | n :: s' => flat_map (fun r => map (fun x => x :: r) (seq 0 n)) (renum s')
  end.

Definition to_flat {A} (t : tensor A) : list A := map (tat t) (renum (tshape t)).

(* materialise a tensor (what torch does at every step): same shape, same elements at every
   in-range index, but each element is computed once *)
Definition memo {A} (d : A) (t : tensor A) : tensor A := of_flat (tshape t) (to_flat t) d.

(* x.unsqueeze at r-position p *)
Definition unsq {A} (p : nat) (t : tensor A) : tensor A :=
  mkT (firstn p (tshape t) ++ 1 :: skipn p (tshape t))
      (fun i => tat t (firstn p i ++ skipn (S p) i)).

(* x.expand(s) *)
Definition expand {A} (t : tensor A) (s : shape) : tensor A := mkT s (fun i => bget t i).

(* ---------------------------------------------------------------------------------- *)
(* vectors                                                                              *)
(* ---------------------------------------------------------------------------------- *)
(* sums cancel common factors of two as they go (all data are dyadic): same rational value,
   smaller representation *)
Fixpoint strip2 (n d : positive) : positive * positive :=
  match n, d with
  | xO n', xO d' => strip2 n' d'
  | _, _ => (n, d)
  end.
Definition qnorm (x : Q) : Q :=
  match Qnum x with
  | Z0 => 0%Q
  | Zpos n => let nd := strip2 n (Qden x) in Qmake (Zpos (fst nd)) (snd nd)
  | Zneg n => let nd := strip2 n (Qden x) in Qmake (Zneg (fst nd)) (snd nd)
  end.
Definition qsum (l : list Q) : Q := fold_right (fun x acc => qnorm (x + acc)%Q) 0%Q l.
Definition vmul (a b : list Q) : list Q := map (fun ab => (fst ab * snd ab)%Q) (combine a b).
Definition vadd (a b : list Q) : list Q := map (fun ab => (fst ab + snd ab)%Q) (combine a b).
Definition dotq (a b : list Q) : Q := qsum (vmul a b).

(* torch.nn.functional.linear on one row: x W^T + b *)
Definition linear_row (W : list (list Q)) (b : option (list Q)) (x : list Q) : list Q :=
  let y := map (fun w => dotq x w) W in
  match b with None => y | Some bl => vadd y bl end.

(* the vector along the last axis at (broadcast) index i of the remaining axes *)
Definition brow (t : tensor Q) (i : index) : list Q :=
  map (fun c => bget t (c :: i)) (seq 0 (hd 0%nat (tshape t))).

(* ---------------------------------------------------------------------------------- *)
(* score functions                                                                      *)
(* ---------------------------------------------------------------------------------- *)
Inductive flavour :=
| Dot (scale : Q)
| General (W : list (list Q)) (b : option (list Q))
| Concat (W : list (list Q)) (b : option (list Q)) (v : list Q).

Definition score (tanhf : Q -> Q) (fl : flavour) (q k : list Q) : Q :=
  match fl with
  | Dot sc => (dotq q k * sc)%Q                                   (* (query * key).sum(-1) * scale *)
  | General W b => dotq q (linear_row W b k)                  (* (query * linear(key)).sum(-1) *)
  | Concat W b v => dotq (map tanhf (linear_row W b (q ++ k))) v
  end.

(* sizes the module was constructed with: (query_size, key_size) *)
Definition fl_sizes (fl : flavour) (qs ks : nat) : bool :=
  match fl with
  | Dot _ => Nat.eqb qs ks
  | General W b =>
      Nat.eqb (length W) qs && forallb (fun w => Nat.eqb (length w) ks) W
      && match b with None => true | Some bl => Nat.eqb (length bl) qs end
  | Concat W b v =>
      forallb (fun w => Nat.eqb (length w) (qs + ks)) W && Nat.eqb (length v) (length W)
      && match b with None => true | Some bl => Nat.eqb (length bl) (length W) end
  end.

(* ---------------------------------------------------------------------------------- *)
(* GlobalSoftAttention.forward                                                          *)
(* ---------------------------------------------------------------------------------- *)
Definition setp (p t : nat) (i : index) : index := firstn p i ++ t :: skipn (S p) i.
Definition ins (p t : nat) (i : index) : index := firstn p i ++ t :: skipn p i.
Definition del (p : nat) (s : list nat) : list nat := firstn p s ++ skipn (S p) s.

Section Attend.
  Variable expf : Q -> Q.
  Variable sc : list Q -> list Q -> Q.          (* self.score on one (query row, key row) *)
  Variables q k v : tensor Q.
  Variable m : option (tensor bool).
  Variable p : nat.                             (* r-position of the sequence axis in key *)

  Definition qu : tensor Q := unsq p q.                                 (* query.unsqueeze(dim) *)
  Definition e_at (i : index) : Q := sc (brow qu i) (brow k i).        (* e = score(query, key) *)
  Definition kept_at (i : index) : bool :=
    match m with None => true | Some mt => bget mt i end.
  Definition em_at (i : index) : option Q :=                            (* masked_fill(~mask, -inf) *)
    if kept_at i then Some (e_at i) else None.
  (* et = the masked score tensor, materialised; exp(.), exp(-inf) = 0 *)
  Definition w_at (et : tensor (option Q)) (i : index) : Q :=
    match tat et i with Some s => expf s | None => 0%Q end.

  (* a = softmax(e, dim) on a tensor of shape es; p - 1 = r-position of the axis in e *)
  Definition den_at (et : tensor (option Q)) (es : shape) (i : index) : Q :=
    qsum (map (fun t => w_at et (setp (p - 1) t i)) (seq 0 (nth (p - 1) es 0%nat))).
  Definition a_at (et : tensor (option Q)) (es : shape) (i : index) : Q :=
    (w_at et i / den_at et es i)%Q.

  (* a.unsqueeze(-1) * value, read under broadcasting; a = the materialised softmax *)
  Definition prod_at (a : tensor Q) (ci : index) : Q :=
    match ci with
    | c :: i => (bget a i * bget v (c :: i))%Q
    | [] => 0%Q
    end.

  (* (...).sum(dim) on the product tensor of shape ps *)
  Definition out_at (a : tensor Q) (ps : shape) (cj : index) : Q :=
    qsum (map (fun t => prod_at a (ins p t cj)) (seq 0 (nth p ps 0%nat))).

  (* check_input (+ what masked_fill itself requires of the mask); qs ks = query_size, key_size *)
  Definition legalb (qs ks : nat) : bool :=
    Nat.eqb (S (length (tshape q))) (length (tshape k))
    && Nat.eqb (length (tshape v)) (length (tshape k))
    && Nat.eqb (hd 0%nat (tshape q)) qs && Nat.eqb (hd 0%nat (tshape k)) ks
    && Nat.leb 1 p && Nat.ltb p (length (tshape k)).

  Definition attend (qs ks : nat) : option (tensor Q) :=
    if legalb qs ks then
      match bshape (tl (tshape qu)) (tl (tshape k)) with
      | None => None
      | Some es =>
          if match m with None => true | Some mt => intob (tshape mt) es end then
            match bshape (1%nat :: es) (tshape v) with
            | None => None
            | Some ps =>
                let et := memo None (mkT es em_at) in
                let a := memo 0%Q (mkT es (a_at et es)) in
                Some (memo 0%Q (mkT (del p ps) (out_at a ps)))
            end
          else None
      end
    else None.

  (* an output cell is defined (not NaN) when some position of its row is kept *)
  Definition defined_at (es : shape) (cj : index) : bool :=
    existsb (fun t => kept_at (ins (p - 1) t (tl cj))) (seq 0 (nth (p - 1) es 0%nat)).
End Attend.

(* how [dim] is resolved against a key of rank [kr]: negative = from the end; legal range
   [-kr+1, kr-2] and not -1 (check_input).  Result: r-position of the sequence axis
   (0 would be the feature axis). *)
Definition axis_pos (dim : Z) (kr : nat) : option nat :=
  let ax := if (dim <? 0)%Z then (dim + Z.of_nat kr)%Z else dim in
  if ((1 - Z.of_nat kr <=? dim) && (0 <=? ax) && (ax <? Z.of_nat kr - 1))%Z
  then Some (kr - 1 - Z.to_nat ax)%nat else None.

(* ---------------------------------------------------------------------------------- *)
(* MultiHeadedAttention.forward                                                         *)
(* ---------------------------------------------------------------------------------- *)
(* torch.nn.Linear on the last axis: y[..., c] = sum_j x[..., j] W[c][j] (+ b[c]) *)
Definition linear (W : list (list Q)) (b : option (list Q)) (t : tensor Q) : tensor Q :=
  mkT (length W :: tl (tshape t))
      (fun ci => match ci with
                 | c :: i =>
                     let y := dotq (map (fun j => tat t (j :: i)) (seq 0 (hd 0%nat (tshape t)))) (nth c W []) in
                     match b with None => y | Some bl => (y + nth c bl 0%Q)%Q end
                 | [] => 0%Q
                 end).

(* unflatten(x, -1, [H, d]) *)
Definition unflatten_last (H d : nat) (t : tensor Q) : tensor Q :=
  mkT (d :: H :: tl (tshape t))
      (fun i => match i with
                | j :: h :: r => tat t ((h * d + j)%nat :: r)
                | _ => 0%Q
                end).

(* x.flatten(-2) *)
Definition flatten_last2 (t : tensor Q) : tensor Q :=
  let d := hd 0%nat (tshape t) in
  let H := hd 0%nat (tl (tshape t)) in
  mkT ((H * d)%nat :: tl (tl (tshape t)))
      (fun i => match i with
                | c :: r => tat t ((c mod d)%nat :: (c / d)%nat :: r)
                | [] => 0%Q
                end).

Record mha_params := mkMHA
  { num_heads : nat; d_q : nat; d_k : nat; d_v : nat;
    WQ : list (list Q); bQ : option (list Q);
    WK : list (list Q); bK : option (list Q);
    WV : list (list Q); bV : option (list Q);
    WC : list (list Q); bC : option (list Q) }.

Section MHA.
  Variable expf : Q -> Q.
  Variable sc : list Q -> list Q -> Q.          (* single_head_attention.score *)
  Variable P : mha_params.
  Variables q k v : tensor Q.
  Variable m : option (tensor bool).
  Variable p : nat.
  (* r-position at which the mask is unsqueezed before it is handed to the wrapped
     attention: 0 = mask.unsqueeze(-1) (heads are the last axis of the per-head scores) *)
  Variable mpos : nat.

  Definition q_heads := unflatten_last (num_heads P) (d_q P) (memo 0%Q (linear (WQ P) (bQ P) q)).
  Definition k_heads := unflatten_last (num_heads P) (d_k P) (memo 0%Q (linear (WK P) (bK P) k)).
  Definition v_heads := unflatten_last (num_heads P) (d_v P) (memo 0%Q (linear (WV P) (bV P) v)).
  Definition mask_heads := match m with None => None | Some mt => Some (unsq mpos mt) end.

  Definition mha_legalb (qs ks vs : nat) : bool :=
    Nat.eqb (S (length (tshape q))) (length (tshape k))
    && Nat.eqb (length (tshape v)) (length (tshape k))
    && Nat.eqb (hd 0%nat (tshape q)) qs && Nat.eqb (hd 0%nat (tshape k)) ks
    && Nat.eqb (hd 0%nat (tshape v)) vs
    && Nat.leb 1 p && Nat.ltb p (length (tshape k))
    && match bshape (tl (tshape (unsq p q))) (tl (tshape k)) with
       | None => false
       | Some es =>
           match m with None => true | Some mt => match bshape es (tshape mt) with Some _ => true | None => false end end
           && match bshape (1%nat :: es) (tshape v) with Some _ => true | None => false end
       end.

  Definition mha (qs ks vs : nat) : option (tensor Q) :=
    if mha_legalb qs ks vs then
      match attend expf sc q_heads k_heads v_heads mask_heads (S p) (d_q P) (d_k P) with
      | None => None
      | Some cat => Some (linear (WC P) (bC P) (flatten_last2 cat))
      end
    else None.
End MHA.

(* ---------------------------------------------------------------------------------- *)
(* correspondence entry points                                                          *)
(* ---------------------------------------------------------------------------------- *)
(* oracle tables: torch's float64 exp / tanh of the float64 argument, as exact rationals.
   Keys are matched up to [eps]; a miss returns 1 (so that the function stays positive)
   and is reported by [covered]. *)
Definition oeps : Q := (1 # 1000000000)%Q.
Definition near (x y : Q) : bool := Qle_bool (Qabs (x - y)%Q) oeps.
Definition lookup (tbl : list (Q * Q)) (x : Q) : Q :=
  let x' := Qred x in
  match find (fun kv => near x' (fst kv)) tbl with Some kv => snd kv | None => 1%Q end.
Definition covered (tbl : list (Q * Q)) (x : Q) : bool :=
  let x' := Qred x in existsb (fun kv => near x' (fst kv)) tbl.

Definition close (tol : Q) (a b : Q) : bool := Qle_bool (Qabs (a - b)%Q) tol.

Fixpoint forallb2 {A B} (f : A -> B -> bool) (l1 : list A) (l2 : list B) : bool :=
  match l1, l2 with
  | [], [] => true
  | x :: t1, y :: t2 => f x y && forallb2 f t1 t2
  | _, _ => false
  end.

Definition qt (s : shape) (data : list Q) : tensor Q := of_flat s data 0%Q.
Definition bt (s : shape) (data : list bool) : tensor bool := of_flat s data false.

(* compare a model tensor with the implementation's flat output on the cells that are
   defined; the shape must agree everywhere *)
Definition cmp_out (tol : Q) (out : tensor Q) (defd : index -> bool)
           (ishape : shape) (impl : list Q) : bool :=
  (if list_eq_dec Nat.eq_dec (tshape out) ishape then true else false)
  && forallb2 (fun i y => if defd i then close tol (tat out i) y else true)
              (renum (tshape out)) impl.

(* every score (and, for concat, every tanh argument) that is looked up is in the tables *)
Definition tanh_args (fl : flavour) (qr kr : list Q) : list Q :=
  match fl with Concat W b _ => linear_row W b (qr ++ kr) | _ => [] end.

Definition tables_cover (etbl ttbl : list (Q * Q)) (fl : flavour) (q k : tensor Q)
           (m : option (tensor bool)) (p : nat) (es : shape) : bool :=
  forallb (fun i =>
             forallb (covered ttbl) (tanh_args fl (brow (unsq p q) i) (brow k i))
             && (if kept_at m i then covered etbl (e_at (score (lookup ttbl) fl) q k p i) else true))
          (renum es).

(* single-head check.  dim = the module's dim; shapes in r-coordinates; impl = None when the
   implementation raised *)
Definition check_single (etbl ttbl : list (Q * Q)) (fl : flavour) (qs ks : nat) (dim : Z)
           (q k v : tensor Q) (m : option (tensor bool))
           (impl : option (shape * list Q)) (tol : Q) : bool :=
  match axis_pos dim (length (tshape k)) with
  | None => match impl with None => true | Some _ => false end
  | Some p =>
      let sc := score (lookup ttbl) fl in
      match attend (lookup etbl) sc q k v m p qs ks, impl with
      | None, None => true
      | Some out, Some (ishape, idata) =>
          match bshape (tl (tshape (unsq p q))) (tl (tshape k)) with
          | None => false
          | Some es =>
              fl_sizes fl qs ks && tables_cover etbl ttbl fl q k m p es
              && cmp_out tol out (defined_at m p es) ishape idata
          end
      | _, _ => false
      end
  end.

(* multi-headed check *)
Definition check_mha (etbl ttbl : list (Q * Q)) (fl : flavour) (P : mha_params)
           (qs ks vs : nat) (dim : Z) (mpos : nat)
           (q k v : tensor Q) (m : option (tensor bool))
           (impl : option (shape * list Q)) (tol : Q) : bool :=
  match axis_pos dim (length (tshape k)) with
  | None => match impl with None => true | Some _ => false end
  | Some p =>
      let sc := score (lookup ttbl) fl in
      match mha (lookup etbl) sc P q k v m p mpos qs ks vs, impl with
      | None, None => true
      | Some out, Some (ishape, idata) =>
          let qh := q_heads P q in let kh := k_heads P k in let mh := mask_heads m mpos in
          match bshape (tl (tshape (unsq (S p) qh))) (tl (tshape kh)) with
          | None => false
          | Some es =>
              fl_sizes fl (d_q P) (d_k P) && tables_cover etbl ttbl fl qh kh mh (S p) es
              && cmp_out tol out
                   (fun ci => forallb (fun h => defined_at mh (S p) es (0%nat :: h :: tl ci))
                                      (seq 0 (num_heads P)))
                   ishape idata
          end
      | _, _ => false
      end
  end.
