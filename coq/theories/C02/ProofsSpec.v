(* C02 — facts about the specification alone: optimal scripts, the checker [optdp] /
   [er_okb] is sound and complete for [er_spec], the extremal counts, equal costs. *)
From Coq Require Import List ZArith QArith Bool Arith Lia.
From PV Require Import C01.Obs C01.Spec C01.LevFacts C02.Spec.
Import ListNotations.
Local Open Scope Z_scope.

(* ---- edits ------------------------------------------------------------------------- *)
Lemma edits_app s1 s2 : edits (s1 ++ s2) = edits s1 + edits s2.
Proof. induction s1 as [|o s1 IH]; cbn [app edits]; lia. Qed.

Lemma edits_nonneg s : 0 <= edits s.
Proof. induction s as [|o s IH]; cbn [edits]; [lia|]. destruct o; cbn [is_edit]; lia. Qed.

Lemma edits_all_del r : edits (map Del r) = Z.of_nat (length r).
Proof. induction r as [|a r IH]; [reflexivity|]. cbn [map edits is_edit length]. lia. Qed.

Lemma edits_all_ins h : edits (map Ins h) = Z.of_nat (length h).
Proof. induction h as [|a h IH]; [reflexivity|]. cbn [map edits is_edit length]. lia. Qed.

(* with an empty reference (hypothesis) there is only one script *)
Lemma transforms_nil_l s h : transforms s [] h -> s = map Ins h.
Proof.
  revert s; induction h as [|b h IH]; intros s T; inversion T; subst; [reflexivity|].
  cbn [map]. f_equal. apply IH. assumption.
Qed.

Lemma transforms_nil_r s r : transforms s r [] -> s = map Del r.
Proof.
  revert s; induction r as [|a r IH]; intros s T; inversion T; subst; [reflexivity|].
  cbn [map]. f_equal. apply IH. assumption.
Qed.

Section Facts.
  Variables ci cd cs : Z.
  Notation lev := (lev ci cd cs).
  Notation cost := (cost ci cd cs).
  Notation optimal_script := (optimal_script ci cd cs).
  Notation er_spec := (er_spec ci cd cs).
  Notation optdp := (optdp ci cd cs).
  Notation opt_counts := (opt_counts ci cd cs).

  (* ---- optimal scripts are those whose cost is lev ------------------------------------- *)
  Lemma optimal_iff_lev r h s :
    optimal_script r h s <-> transforms s r h /\ cost s = lev r h.
  Proof.
    split.
    - intros [T Hmin]. split; [exact T|].
      destruct (lev_attained ci cd cs r h) as [s0 [T0 C0]].
      pose proof (Hmin s0 T0). pose proof (lev_lower_bound ci cd cs s r h T). lia.
    - intros [T C]. split; [exact T|]. intros s' T'. rewrite C.
      apply lev_lower_bound. exact T'.
  Qed.

  Lemma optimal_exists r h : exists s, optimal_script r h s.
  Proof.
    destruct (lev_attained ci cd cs r h) as [s [T C]]. exists s.
    apply optimal_iff_lev. split; assumption.
  Qed.

  (* ---- one-step decomposition of optimal scripts ---------------------------------------- *)
  Definition scost (a b : Z) : Z := if a =? b then 0 else cs.
  Definition sedit (a b : Z) : Z := if a =? b then 0 else 1.

  Lemma lev_cons' a r b h :
    lev (a :: r) (b :: h) =
    Z.min (Z.min (lev r (b :: h) + cd) (lev (a :: r) h + ci)) (lev r h + scost a b).
  Proof. apply lev_cons. Qed.

  (* the count m belongs to an optimal script of (a::r, b::h) iff it comes from an optimal
     script of one of the three sub-problems through a step that attains the minimum *)
  Lemma er_spec_cons a r b h m :
    er_spec (a :: r) (b :: h) m <->
    (lev r (b :: h) + cd = lev (a :: r) (b :: h) /\ er_spec r (b :: h) (m - 1)) \/
    (lev (a :: r) h + ci = lev (a :: r) (b :: h) /\ er_spec (a :: r) h (m - 1)) \/
    (lev r h + scost a b = lev (a :: r) (b :: h) /\ er_spec r h (m - sedit a b)).
  Proof.
    pose proof (lev_cons' a r b h) as HL.
    split.
    - intros [s [Hopt He]]. apply optimal_iff_lev in Hopt as [T C].
      inversion T as [|s' r0 h0 b0 T'|s' r0 h0 a0 T'|s' r0 h0 a0 b0 Hab T'|s' r0 h0 a0 T']; subst.
      + (* Ins b *)
        right; left. cbn [Spec.cost op_cost edits is_edit] in *.
        pose proof (lev_lower_bound ci cd cs s' _ _ T').
        assert (cost s' = lev (a :: r) h) by lia.
        split; [lia|]. exists s'. split; [apply optimal_iff_lev; split; assumption|lia].
      + (* Del a *)
        left. cbn [Spec.cost op_cost edits is_edit] in *.
        pose proof (lev_lower_bound ci cd cs s' _ _ T').
        assert (cost s' = lev r (b :: h)) by lia.
        split; [lia|]. exists s'. split; [apply optimal_iff_lev; split; assumption|lia].
      + (* Sub a b *)
        right; right. cbn [Spec.cost op_cost edits is_edit] in *.
        unfold scost, sedit in *. destruct (a =? b) eqn:E; [apply Z.eqb_eq in E; contradiction|].
        pose proof (lev_lower_bound ci cd cs s' _ _ T').
        assert (cost s' = lev r h) by lia.
        split; [lia|]. exists s'. split; [apply optimal_iff_lev; split; assumption|lia].
      + (* Keep a *)
        right; right. cbn [Spec.cost op_cost edits is_edit] in *.
        unfold scost, sedit in *. rewrite Z.eqb_refl in *.
        pose proof (lev_lower_bound ci cd cs s' _ _ T').
        assert (cost s' = lev r h) by lia.
        split; [lia|]. exists s'. split; [apply optimal_iff_lev; split; assumption|lia].
    - intros [[E [s [Hopt He]]]|[[E [s [Hopt He]]]|[E [s [Hopt He]]]]];
        apply optimal_iff_lev in Hopt as [T C].
      + exists (Del a :: s). split; [apply optimal_iff_lev; split; [constructor; exact T|]|];
          cbn [Spec.cost op_cost edits is_edit]; lia.
      + exists (Ins b :: s). split; [apply optimal_iff_lev; split; [constructor; exact T|]|];
          cbn [Spec.cost op_cost edits is_edit]; lia.
      + unfold scost, sedit in *. destruct (a =? b) eqn:Eab.
        * apply Z.eqb_eq in Eab. subst b.
          exists (Keep a :: s). split; [apply optimal_iff_lev; split; [constructor; exact T|]|];
            cbn [Spec.cost op_cost edits is_edit]; lia.
        * apply Z.eqb_neq in Eab.
          exists (Sub a b :: s).
          split; [apply optimal_iff_lev; split; [constructor; assumption|]|];
            cbn [Spec.cost op_cost edits is_edit]; lia.
  Qed.

  Lemma er_spec_nil_l h m : er_spec [] h m <-> m = Z.of_nat (length h).
  Proof.
    split.
    - intros [s [[T _] He]]. apply transforms_nil_l in T. subst s. rewrite edits_all_ins in He. lia.
    - intros ->. exists (map Ins h). split; [|apply edits_all_ins].
      apply optimal_iff_lev. split; [apply transforms_all_ins|].
      rewrite lev_nil_l. apply cost_all_ins.
  Qed.

  Lemma er_spec_nil_r r m : er_spec r [] m <-> m = Z.of_nat (length r).
  Proof.
    split.
    - intros [s [[T _] He]]. apply transforms_nil_r in T. subst s. rewrite edits_all_del in He. lia.
    - intros ->. exists (map Del r). split; [|apply edits_all_del].
      apply optimal_iff_lev. split; [apply transforms_all_del|].
      rewrite lev_nil_r. apply cost_all_del.
  Qed.

  (* ---- the checker ------------------------------------------------------------------- *)
  Lemma optdp_nil_l h : optdp [] h = (Z.of_nat (length h) * ci, [Z.of_nat (length h)]).
  Proof. reflexivity. Qed.

  Lemma optdp_nil_r r : optdp r [] = (Z.of_nat (length r) * cd, [Z.of_nat (length r)]).
  Proof. destruct r; reflexivity. Qed.

  Lemma optdp_cons a r b h :
    optdp (a :: r) (b :: h) =
    merge3 (shift cd 1 (optdp r (b :: h))) (shift ci 1 (optdp (a :: r) h))
           (shift (scost a b) (sedit a b) (optdp r h)).
  Proof. reflexivity. Qed.

  Lemma optdp_fst r : forall h, fst (optdp r h) = lev r h.
  Proof.
    induction r as [|a r IHr]; intros h; [reflexivity|].
    induction h as [|b h IHh].
    - rewrite optdp_nil_r, lev_nil_r. reflexivity.
    - rewrite optdp_cons, lev_cons'. unfold merge3, shift. cbn [fst].
      rewrite IHr, IHh, IHr. reflexivity.
  Qed.

  Lemma in_keep_if v p m : In m (keep_if v p) <-> fst p = v /\ In m (snd p).
  Proof.
    unfold keep_if. destruct (fst p =? v) eqn:E.
    - apply Z.eqb_eq in E. tauto.
    - apply Z.eqb_neq in E. cbn [In]. tauto.
  Qed.

  Lemma in_shift dc de p m : In m (snd (shift dc de p)) <-> In (m - de) (snd p).
  Proof.
    unfold shift. cbn [snd]. rewrite in_map_iff. split.
    - intros [x [E Hin]]. replace (m - de) with x by lia. exact Hin.
    - intros Hin. exists (m - de). split; [lia|exact Hin].
  Qed.

  Lemma fst_shift dc de (p : Z * list Z) : fst (shift dc de p) = fst p + dc.
  Proof. reflexivity. Qed.

  Theorem optdp_counts r : forall h m, In m (snd (optdp r h)) <-> er_spec r h m.
  Proof.
    induction r as [|a r IHr]; intros h m.
    - rewrite optdp_nil_l, er_spec_nil_l. cbn [snd In]. intuition.
    - induction h as [|b h IHh] in m |- *.
      + rewrite optdp_nil_r, er_spec_nil_r. cbn [snd In]. intuition.
      + rewrite optdp_cons, er_spec_cons. unfold merge3. cbn [snd].
        rewrite nodup_In, !in_app_iff, !in_keep_if, !in_shift.
        rewrite !fst_shift, !optdp_fst, IHr, IHh, IHr, <- lev_cons'. reflexivity.
  Qed.

  Theorem er_okb_iff r h m : er_okb ci cd cs r h m = true <-> er_spec r h m.
  Proof.
    unfold er_okb. rewrite existsb_exists. unfold Spec.opt_counts. split.
    - intros [x [Hin E]]. apply Z.eqb_eq in E. subst x. apply optdp_counts. exact Hin.
    - intros H. exists m. split; [apply optdp_counts; exact H|apply Z.eqb_refl].
  Qed.

  Theorem er_okb_iff_scripts r h m :
    er_okb ci cd cs r h m = true <->
    exists s, transforms s r h /\ (forall s', transforms s' r h -> cost s <= cost s') /\ edits s = m.
  Proof.
    rewrite er_okb_iff. split.
    - intros [s [[T Hm] E]]. exists s. auto.
    - intros [s [T [Hm E]]]. exists s. split; [split|]; assumption.
  Qed.

  Lemma opt_counts_iff r h m : In m (opt_counts r h) <-> er_spec r h m.
  Proof. apply optdp_counts. Qed.

  Lemma opt_counts_nonempty r h : opt_counts r h <> [].
  Proof.
    destruct (optimal_exists r h) as [s Hs].
    assert (Hin : In (edits s) (opt_counts r h)) by (apply opt_counts_iff; exists s; auto).
    intros E. rewrite E in Hin. exact Hin.
  Qed.

  (* ---- fewest / most ----------------------------------------------------------------- *)
  Lemma fold_min_spec (l : list Z) d : In d l ->
    In (fold_right Z.min d l) l /\ forall x, In x l -> fold_right Z.min d l <= x.
  Proof.
    intros Hd. assert (G : forall l', (In (fold_right Z.min d l') l' \/ fold_right Z.min d l' = d)
                            /\ forall x, In x l' -> fold_right Z.min d l' <= x).
    { induction l' as [|y l' [IH1 IH2]]; cbn [fold_right In].
      - split; [right; reflexivity|intros x []].
      - split.
        + destruct (Z.min_spec y (fold_right Z.min d l')) as [[_ E]|[_ E]]; rewrite E.
          * left; left; reflexivity.
          * destruct IH1 as [IH1|IH1]; [left; right; exact IH1|right; exact IH1].
        + intros x [<-|Hx]; [lia|]. specialize (IH2 x Hx). lia. }
    destruct (G l) as [[G1|G1] G2]; split; try assumption. rewrite G1. exact Hd.
  Qed.

  Lemma fold_max_spec (l : list Z) d : In d l ->
    In (fold_right Z.max d l) l /\ forall x, In x l -> x <= fold_right Z.max d l.
  Proof.
    intros Hd. assert (G : forall l', (In (fold_right Z.max d l') l' \/ fold_right Z.max d l' = d)
                            /\ forall x, In x l' -> x <= fold_right Z.max d l').
    { induction l' as [|y l' [IH1 IH2]]; cbn [fold_right In].
      - split; [right; reflexivity|intros x []].
      - split.
        + destruct (Z.max_spec y (fold_right Z.max d l')) as [[_ E]|[_ E]]; rewrite E.
          * destruct IH1 as [IH1|IH1]; [left; right; exact IH1|right; exact IH1].
          * left; left; reflexivity.
        + intros x [<-|Hx]; [lia|]. specialize (IH2 x Hx). lia. }
    destruct (G l) as [[G1|G1] G2]; split; try assumption. rewrite G1. exact Hd.
  Qed.

  Lemma hd_in_opt_counts r h : In (hd 0 (opt_counts r h)) (opt_counts r h).
  Proof.
    pose proof (opt_counts_nonempty r h). destruct (opt_counts r h); [contradiction|left; reflexivity].
  Qed.

  Theorem min_opt_edits_fewest r h : fewest_edits ci cd cs r h (min_opt_edits ci cd cs r h).
  Proof.
    unfold fewest_edits, min_opt_edits.
    destruct (fold_min_spec (opt_counts r h) _ (hd_in_opt_counts r h)) as [H1 H2].
    split; [apply opt_counts_iff; exact H1|].
    intros s Hs. apply H2. apply opt_counts_iff. exists s. auto.
  Qed.

  Theorem max_opt_edits_most r h : most_edits ci cd cs r h (max_opt_edits ci cd cs r h).
  Proof.
    unfold most_edits, max_opt_edits.
    destruct (fold_max_spec (opt_counts r h) _ (hd_in_opt_counts r h)) as [H1 H2].
    split; [apply opt_counts_iff; exact H1|].
    intros s Hs. apply H2. apply opt_counts_iff. exists s. auto.
  Qed.

  (* "it never falls below the fewest nor exceeds the most edits found among minimum-cost
     alignments" *)
  Theorem er_spec_within r h m lo hi :
    er_spec r h m -> fewest_edits ci cd cs r h lo -> most_edits ci cd cs r h hi -> lo <= m <= hi.
  Proof.
    intros [s [Hs <-]] [_ Hlo] [_ Hhi]. split; [apply Hlo|apply Hhi]; exact Hs.
  Qed.

  Corollary er_spec_within_computed r h m :
    er_spec r h m -> min_opt_edits ci cd cs r h <= m <= max_opt_edits ci cd cs r h.
  Proof.
    intros H. apply (er_spec_within r h m); [exact H|apply min_opt_edits_fewest|apply max_opt_edits_most].
  Qed.
End Facts.

(* ---- equal costs: every minimum-cost alignment has exactly lev 1 1 1 edits ----------------- *)
Lemma cost_uniform c s : cost c c c s = c * edits s.
Proof.
  induction s as [|o s IH]; cbn [cost edits]; [lia|]. rewrite IH.
  destruct o; cbn [op_cost is_edit]; lia.
Qed.

Theorem uniform_optimal_edits c r h s : 0 < c ->
  optimal_script c c c r h s -> edits s = lev 1 1 1 r h.
Proof.
  intros Hc Hs. apply optimal_iff_lev in Hs as [T C].
  rewrite cost_uniform, (lev_scale c) in C by lia. nia.
Qed.

Theorem uniform_er_spec c r h : 0 < c -> er_spec c c c r h (lev 1 1 1 r h).
Proof.
  intros Hc. destruct (optimal_exists c c c r h) as [s Hs]. exists s. split; [exact Hs|].
  apply (uniform_optimal_edits c); assumption.
Qed.

Theorem uniform_er_spec_iff c r h m : 0 < c -> er_spec c c c r h m <-> m = lev 1 1 1 r h.
Proof.
  intros Hc. split.
  - intros [s [Hs <-]]. apply (uniform_optimal_edits c); assumption.
  - intros ->. apply uniform_er_spec. exact Hc.
Qed.

(* ---- the judgement of an observed loss (used by the harness only on a disagreement) -------- *)
Lemma choices_iff {A} (l : list (list A)) (x : list A) :
  In x (choices l) <-> Forall2 (fun a xs => In a xs) x l.
Proof.
  revert x; induction l as [|xs l IH]; intros x; cbn [choices].
  - split; [intros [<-|[]]; constructor|intros H; inversion H; left; reflexivity].
  - rewrite in_flat_map. split.
    + intros [a [Ha Hx]]. apply in_map_iff in Hx as [t [<- Ht]]. constructor; [exact Ha|].
      apply IH. exact Ht.
    + intros H. inversion H as [|a xs' t l' Ha Ht]; subst. exists a. split; [exact Ha|].
      apply in_map_iff. exists t. split; [reflexivity|]. apply IH. exact Ht.
Qed.

Lemma adm_vals_iff eos incl norm ci cd cs rh q :
  In q (adm_vals eos incl norm ci cd cs rh) <->
  let r := denote eos incl (fst rh) in
  let h := denote eos incl (snd rh) in
  if norm then
    match length r with
    | O => q = (if (0 <? length h)%nat then 1%Q else 0%Q)
    | S _ => exists m, er_spec ci cd cs r h m /\ q = ((m # 1) / (Z.of_nat (length r) # 1))%Q
    end
  else exists m, er_spec ci cd cs r h m /\ q = (m # 1).
Proof.
  unfold adm_vals. cbv zeta. destruct norm.
  - destruct (length (denote eos incl (fst rh))) eqn:EL.
    + cbn [In]. split; [intros [<-|[]]; reflexivity|intros ->; left; reflexivity].
    + rewrite in_map_iff. split.
      * intros [m [<- Hm]]. exists m. split; [apply opt_counts_iff; exact Hm|reflexivity].
      * intros [m [Hm ->]]. exists m. split; [reflexivity|apply opt_counts_iff; exact Hm].
  - rewrite in_map_iff. split.
    + intros [m [<- Hm]]. exists m. split; [apply opt_counts_iff; exact Hm|reflexivity].
    + intros [m [Hm ->]]. exists m. split; [reflexivity|apply opt_counts_iff; exact Hm].
Qed.

(* E is a matrix of error rates the property admits for the given (reference, hypothesis) pairs *)
Definition allowed_rates eos incl norm ci cd cs
  (pairs : list (list (list Z * list Z))) (E : list (list Q)) : Prop :=
  Forall2 (Forall2 (fun q rh => In q (adm_vals eos incl norm ci cd cs rh))) E pairs.

Definition loss_close (red : sreduction) (K : nat) (L : list (list Q)) (tol : Q) (obs : sobs) : bool :=
  match red, obs with
  | SNone, SMat rows => forall2b (forall2b (sclose tol)) L rows
  | SSum, SScalar q => sclose tol (qsum_s (map qsum_s L)) q
  | SMean, SScalar q => sclose tol (qsum_s (map qsum_s L) / (Z.of_nat K # 1)) q
  | _, _ => false
  end.

Lemma Forall2_map_r {A B C} (P : A -> C -> Prop) (g : B -> C) (l : list B) :
  forall x, Forall2 P x (map g l) <-> Forall2 (fun a b => P a (g b)) x l.
Proof.
  induction l as [|b l IH]; intros x; cbn [map].
  - split; intros H; inversion H; constructor.
  - split; intros H; inversion H; subst; constructor; try assumption; apply IH; assumption.
Qed.

Lemma Forall2_iff {A B} (P Q : A -> B -> Prop) : (forall a b, P a b <-> Q a b) ->
  forall x l, Forall2 P x l <-> Forall2 Q x l.
Proof.
  intros HPQ x l. split; intros H; induction H; constructor; try assumption; apply HPQ; assumption.
Qed.

Lemma choices_rows_iff {A B} (f : B -> list A) (ps : list (list B)) (E : list (list A)) :
  In E (choices (map (fun row => choices (map f row)) ps)) <->
  Forall2 (Forall2 (fun q b => In q (f b))) E ps.
Proof.
  rewrite choices_iff, Forall2_map_r. apply Forall2_iff. intros e row.
  rewrite choices_iff, Forall2_map_r. reflexivity.
Qed.

Theorem spec_mer_core_iff eos incl norm ci cd cs sub_avg red M pairs W tol obs : (2 <= M)%nat ->
  spec_mer_core eos incl norm ci cd cs sub_avg red M pairs W tol obs = true <->
  exists E, allowed_rates eos incl norm ci cd cs pairs E
            /\ loss_close red (length pairs * M) (spec_loss sub_avg M E W) tol obs = true.
Proof.
  intros HM. unfold spec_mer_core.
  replace (M <? 2)%nat with false by (symmetry; apply Nat.ltb_ge; exact HM).
  rewrite existsb_exists. unfold allowed_rates, loss_close.
  split; intros [E [H1 H2]]; exists E; (split; [|exact H2]); apply choices_rows_iff; exact H1.
Qed.
