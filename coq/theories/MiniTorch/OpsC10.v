(* MiniTorch, unit C10Src — the meaning given to the torch operations that occur in
   `chunk_token_sequences_by_slices` (src/pydrobert/torch/_feats.py).  DEFINITIONS ONLY; the algebra
   is in LemmasC10.v, the encoding of these tensors as MiniPy values in ValueC10.v.

   Tensors here are INTEGER / BOOLEAN tensors: (shape, row-major flat data over [cell]).
     CInt z    an element of an integer tensor; integers are UNBOUNDED (int64 wrap-around is not
               modelled: the tie assumes no intermediate value leaves the int64 range)
     CBool b   an element of a torch.bool tensor
     CUndef    an element that was never written: `new_empty` "returns a Tensor ... filled with
               uninitialized data".  Every operation below that would have to LOOK at such an element
               (comparison, all, sum, boolean indexing, a mask) is outside the modelled domain
               ([None]); copying it around and adding to it leaves it undefined.  So a run that ends
               [Ok] never depended on uninitialised memory.
   dtypes and devices are otherwise not modelled (a tensor without elements has no recognisable dtype;
   `new_zeros` is given an integer receiver in the code tied here).  Strides / contiguity are not
   modelled: a tensor is its logical row-major content, `view` = reshape of that content.

   Operations are defined on the dimensionalities stated with each of them (broadcasting and expand:
   at most 3 dimensions) and return [None] outside that domain; the unit's [ext] turns [None] into
   [Stuck], so a tie lemma about a run that leaves the domain cannot be proved (fail-closed).

   Each definition quotes the sentence of the torch documentation (2.x) it models.  This file is
   TRUSTED by the C10 source tie; it is exercised on every run by the harness-side
   `src_chunk_tokens_check` (CPython/torch vs the interpreted source on the same inputs). *)
From Coq Require Import List ZArith Bool Arith.
From PV Require Import MiniTorch.Ops.        (* wrap_dim, bdim, bidx *)
Import ListNotations.

Inductive cell := CInt (z : Z) | CBool (b : bool) | CUndef.

Record itens := mkIT { ishape : list nat; idata : list cell }.

Definition numel (s : list nat) : nat := fold_right Nat.mul 1%nat s.

(* a tensor of the given shape with every element equal to c *)
Definition full (s : list nat) (c : cell) : itens := mkIT s (repeat c (numel s)).

(* ---- tabulated row-major data: (f 0 .. f (k-1)), the m x k block, the n x m x k block ---------- *)
Definition D1 {A} (k : nat) (f : nat -> A) : list A := map f (seq 0 k).
Definition D2 {A} (m k : nat) (f : nat -> nat -> A) : list A := flat_map (fun j => D1 k (f j)) (seq 0 m).
Definition D3 {A} (n m k : nat) (f : nat -> nat -> nat -> A) : list A := flat_map (fun i => D2 m k (f i)) (seq 0 n).

(* row-major access to an (.., m, k) buffer; a position outside the buffer reads an undefined element *)
Definition get3 (m k : nat) (d : list cell) (i j l : nat) : cell := nth ((i * m + j) * k + l) d CUndef.

Fixpoint all_some {A} (l : list (option A)) : option (list A) :=
  match l with
  | [] => Some []
  | Some x :: r => option_map (cons x) (all_some r)
  | None :: _ => None
  end.

(* the data cut into [cnt] consecutive rows of length [k] *)
Fixpoint chunks {A} (cnt k : nat) (d : list A) : list (list A) :=
  match cnt with O => [] | S c => firstn k d :: chunks c k (skipn k d) end.

Fixpoint shape_eqb (a b : list nat) : bool :=
  match a, b with
  | [], [] => true
  | x :: a', y :: b' => (x =? y)%nat && shape_eqb a' b'
  | _, _ => false
  end.

(* Tensor.ndim / Tensor.dim(): "Returns the number of dimensions of self tensor." *)
Definition ndim (x : itens) : nat := length (ishape x).

(* Tensor.size(dim): "If dim is specified, returns an int holding the size of that dimension."
   None: dimension out of range (torch: IndexError).  Tensor.shape is [ishape] itself. *)
Definition size (x : itens) (d : Z) : option nat :=
  option_map (fun k => nth k (ishape x) 0%nat) (wrap_dim (ndim x) d).

(* Tensor.new_empty(size): "Returns a Tensor of size size filled with uninitialized data." *)
Definition new_empty (s : list nat) : itens := full s CUndef.

(* Tensor.new_zeros(size): "Returns a Tensor of size size filled with 0.  By default, the returned
   Tensor has the same torch.dtype and torch.device as this tensor."  (integer receiver: the 0 is an int) *)
Definition new_zeros (s : list nat) : itens := full s (CInt 0).

(* torch.ones(size, dtype=torch.bool): "Returns a tensor filled with the scalar value 1, with the shape
   defined by the variable argument size" - in dtype bool the value 1 is True *)
Definition ones_bool (s : list nat) : itens := full s (CBool true).

(* torch.arange(end) with an integer end >= 0 and no dtype: "Returns a 1-D tensor of size
   ceil((end - start) / step) with values from the interval [start, end) taken with common difference
   step beginning from start" (start = 0, step = 1), of integer dtype.  None: negative end (torch raises). *)
Definition arange (n : Z) : option itens :=
  if (n <? 0)%Z then None else Some (mkIT [Z.to_nat n] (D1 (Z.to_nat n) (fun i => CInt (Z.of_nat i)))).

(* Tensor.unsqueeze(dim): "Returns a new tensor with a dimension of size one inserted at the specified
   position. ... A dim value within the range [-input.dim() - 1, input.dim() + 1) can be used."
   The row-major data are unchanged. *)
Definition unsqueeze (x : itens) (d : Z) : option itens :=
  match wrap_dim (S (ndim x)) d with
  | Some k => Some (mkIT (firstn k (ishape x) ++ 1%nat :: skipn k (ishape x)) (idata x))
  | None => None
  end.

(* Tensor.view( *shape ): "Returns a new tensor with the same data as the self tensor but of a different
   shape. ... must have the same number of elements".  -1 is not modelled; torch's extra condition that
   the new shape be compatible with the STRIDES of self is not modelled (strides are not): here view
   succeeds whenever the element counts agree. *)
Definition view (x : itens) (s : list nat) : option itens :=
  if (numel (ishape x) =? numel s)%nat then Some (mkIT s (idata x)) else None.

(* Broadcasting semantics ("Two tensors are broadcastable if ... when iterating over the dimension
   sizes, starting at the trailing dimension, the dimension sizes must either be equal, one of them is
   1, or one of them does not exist"; along a dimension of size 1 the single element is repeated; the
   result has the dimensionality of the longer operand), for operands of AT MOST THREE dimensions.
   A missing leading dimension counts as size 1.  [f] is the element-wise operation; an element pair on
   which it is undefined puts the whole operation outside the domain. *)
Definition norm3 (s : list nat) : option (nat * nat * nat) :=
  match s with
  | [] => Some (1, 1, 1)%nat
  | [k] => Some (1, 1, k)%nat
  | [m; k] => Some (1, m, k)%nat
  | [n; m; k] => Some (n, m, k)
  | _ => None
  end.

Definition bcast (f : cell -> cell -> option cell) (a b : itens) : option itens :=
  match norm3 (ishape a), norm3 (ishape b) with
  | Some (na, ma, ka), Some (nb, mb, kb) =>
      match bdim na nb, bdim ma mb, bdim ka kb with
      | Some n, Some m, Some k =>
          match all_some (D3 n m k (fun i j l =>
                    f (get3 ma ka (idata a) (bidx na i) (bidx ma j) (bidx ka l))
                      (get3 mb kb (idata b) (bidx nb i) (bidx mb j) (bidx kb l)))) with
          | Some d => Some (mkIT (skipn (3 - Nat.max (ndim a) (ndim b)) [n; m; k]) d)
          | None => None
          end
      | _, _, _ => None
      end
  | _, _ => None
  end.

(* a Python int where torch takes a tensor operand: a 0-dimensional tensor *)
Definition scalar_int (z : Z) : itens := mkIT [] [CInt z].

(* torch.lt / le / gt / ge (`a < b` ...): "Computes input < other element-wise. ... The second argument
   can be a number or a tensor whose shape is broadcastable with the first argument.  Returns a boolean
   tensor that is True where input is less than other and False elsewhere".  Integer elements only. *)
Inductive cmpk := KLt | KLe | KGt | KGe.

Definition zcmp (o : cmpk) (x y : Z) : bool :=
  match o with KLt => (x <? y)%Z | KLe => (x <=? y)%Z | KGt => (x >? y)%Z | KGe => (x >=? y)%Z end.

Definition cmp_cell (o : cmpk) (a b : cell) : option cell :=
  match a, b with CInt x, CInt y => Some (CBool (zcmp o x y)) | _, _ => None end.

Definition compare (o : cmpk) (a b : itens) : option itens := bcast (cmp_cell o) a b.

(* `a & b` on boolean tensors = torch.bitwise_and / logical and: "Computes the bitwise AND of input and
   other.  The input tensor must be of integral or Boolean types.  For bool tensors, it computes the
   logical AND."  Boolean elements only. *)
Definition and_cell (a b : cell) : option cell :=
  match a, b with CBool x, CBool y => Some (CBool (x && y)) | _, _ => None end.

Definition logical_and (a b : itens) : option itens := bcast and_cell a b.

(* `a + b` = torch.add(a, b): "Adds other ... to input", element-wise with broadcasting.  Integer
   elements; an uninitialised element plus anything stays uninitialised. *)
Definition add_cell (a b : cell) : option cell :=
  match a, b with
  | CInt x, CInt y => Some (CInt (x + y))
  | CUndef, CInt _ | CInt _, CUndef | CUndef, CUndef => Some CUndef
  | _, _ => None
  end.

Definition add (a b : itens) : option itens := bcast add_cell a b.

(* `a - b` = torch.sub(a, b): "Subtracts other ... from input", element-wise with broadcasting; same
   conventions as [add].  (Not used by the code as it is today: `chunked[..., 1:] += ...` is an addition -
   known finding K1; present so that the interpreted source keeps running if that line becomes `-=`.) *)
Definition sub_cell (a b : cell) : option cell :=
  match a, b with
  | CInt x, CInt y => Some (CInt (x - y))
  | CUndef, CInt _ | CInt _, CUndef | CUndef, CUndef => Some CUndef
  | _, _ => None
  end.

Definition sub (a b : itens) : option itens := bcast sub_cell a b.

(* Tensor.long(): "self.long() is equivalent to self.to(torch.int64)": False -> 0, True -> 1 *)
Definition long_cell (c : cell) : cell :=
  match c with CBool b => CInt (if b then 1 else 0) | c => c end.

Definition long (x : itens) : itens := mkIT (ishape x) (map long_cell (idata x)).

(* ---- reductions and indexing along the LAST dimension ------------------------------------------ *)
(* (pre, k): the shape without its last dimension, and that dimension's size; None for 0 dimensions *)
Definition split_last (s : list nat) : option (list nat * nat) :=
  match s with [] => None | _ => Some (removelast s, last s 0%nat) end.

Definition is_last_dim (x : itens) (d : Z) : bool :=
  match wrap_dim (ndim x) d with Some k => (S k =? ndim x)%nat | None => false end.

Definition as_bool (c : cell) : option bool := match c with CBool b => Some b | _ => None end.
Definition as_int (c : cell) : option Z := match c with CInt z => Some z | _ => None end.

(* the rows along the last dimension *)
Definition rows_last (x : itens) : option (list nat * nat * list (list cell)) :=
  match split_last (ishape x) with
  | Some (pre, k) => Some (pre, k, chunks (numel pre) k (idata x))
  | None => None
  end.

(* Tensor.all(dim): "For each row of input in the given dimension dim, returns True if all elements in
   the row evaluate to True and False otherwise" (the output has that dimension removed; an empty row
   gives True).  Modelled for dim = the last dimension of a boolean tensor. *)
Definition all_row (r : list cell) : option cell :=
  option_map (fun bs => CBool (forallb (fun b => b) bs)) (all_some (map as_bool r)).

Definition all_last (x : itens) (d : Z) : option itens :=
  if is_last_dim x d then
    match rows_last x with
    | Some (pre, _, rows) => option_map (mkIT pre) (all_some (map all_row rows))
    | None => None
    end
  else None.

(* Tensor.sum(dim): "Returns the sum of each row of the input tensor in the given dimension dim"
   (that dimension removed; an empty row sums to 0).  Modelled for dim = the last dimension of an
   integer tensor. *)
Definition zsum (l : list Z) : Z := fold_right Z.add 0%Z l.

Definition sum_row (r : list cell) : option cell :=
  option_map (fun zs => CInt (zsum zs)) (all_some (map as_int r)).

Definition sum_last (x : itens) (d : Z) : option itens :=
  if is_last_dim x d then
    match rows_last x with
    | Some (pre, _, rows) => option_map (mkIT pre) (all_some (map sum_row rows))
    | None => None
    end
  else None.

(* Indexing x[..., c] with an integer c ("the ellipsis ... expands to the number of : objects needed for
   the selection tuple to index all dimensions"; an integer selects that index and removes the
   dimension; "negative indices are interpreted as counting from the end").  None: index out of range
   (torch: IndexError). *)
Definition select_last (x : itens) (c : Z) : option itens :=
  match rows_last x with
  | Some (pre, k, rows) =>
      match wrap_dim k c with
      | Some p => Some (mkIT pre (map (fun r => nth p r CUndef) rows))
      | None => None
      end
  | None => None
  end.

(* a bound of the Python slice a:b over a dimension of size k ("slice indices are clipped": a negative
   bound counts from the end, everything is clamped to [0, k]); step is not modelled *)
Definition slice_bound (k : nat) (dflt : nat) (b : option Z) : nat :=
  match b with
  | None => dflt
  | Some z => if (z <? 0)%Z then Z.to_nat (Z.max 0 (z + Z.of_nat k)) else Nat.min (Z.to_nat z) k
  end.

(* Indexing x[..., a:b] (basic slicing of the last dimension; the other dimensions are kept whole) *)
Definition slice_last (x : itens) (a b : option Z) : option itens :=
  match rows_last x with
  | Some (pre, k, rows) =>
      let lo := slice_bound k 0 a in
      let len := (slice_bound k k b - lo)%nat in
      Some (mkIT (pre ++ [len]) (concat (map (fun r => firstn len (skipn lo r)) rows)))
  | None => None
  end.

(* Index assignment x[..., a:b] = v: "the values of the selected region are replaced by those of v".
   Modelled when v has exactly the shape of the region (no broadcasting of v). *)
Definition set_slice_last (x : itens) (a b : option Z) (v : itens) : option itens :=
  match rows_last x with
  | Some (pre, k, rows) =>
      let lo := slice_bound k 0 a in
      let len := (slice_bound k k b - lo)%nat in
      if shape_eqb (ishape v) (pre ++ [len]) then
        Some (mkIT (ishape x)
                (concat (map (fun rv => firstn lo (fst rv) ++ snd rv ++ skipn (lo + len) (fst rv))
                             (combine rows (chunks (numel pre) len (idata v))))))
      else None
  | None => None
  end.

(* Tensor.expand( *sizes ): "Returns a new view of the self tensor with singleton dimensions expanded to
   a larger size. ... Any dimension of size 1 can be expanded to an arbitrary value".  Modelled for the
   same number of dimensions (<= 3) on both sides, no -1.  Tensor.expand_as(other) "is equivalent to
   self.expand(other.size())". *)
Fixpoint expandable (s t : list nat) : bool :=
  match s, t with
  | [], [] => true
  | a :: s', b :: t' => ((a =? b)%nat || (a =? 1)%nat) && expandable s' t'
  | _, _ => false
  end.

Definition expand (x : itens) (s : list nat) : option itens :=
  if expandable (ishape x) s then
    match norm3 (ishape x), norm3 s with
    | Some (n, m, k), Some (n', m', k') =>
        Some (mkIT s (D3 n' m' k' (fun i j l => get3 m k (idata x) (bidx n i) (bidx m j) (bidx k l))))
    | _, _ => None
    end
  else None.

(* Boolean-mask indexing x[mask] with a mask of x's shape = torch.masked_select(x, mask): "Returns a new
   1-D tensor which indexes the input tensor according to the boolean mask mask which is a BoolTensor"
   (the selected elements in row-major order).  None: shapes differ (not modelled), non-boolean mask. *)
Fixpoint select (d m : list cell) : option (list cell) :=
  match d, m with
  | [], [] => Some []
  | x :: d', CBool b :: m' => option_map (fun r => if b then x :: r else r) (select d' m')
  | _, _ => None
  end.

Definition masked_select (x mask : itens) : option itens :=
  if shape_eqb (ishape x) (ishape mask) then
    option_map (fun r => mkIT [length r] r) (select (idata x) (idata mask))
  else None.

(* Tensor.masked_scatter_(mask, source): "Copies elements from source into self tensor at positions
   where the mask is True.  Elements from source are copied into self starting at position 0 of source
   and continuing in order one-by-one for each occurrence of mask being True. ... The source should have
   at least as many elements as the number of ones in mask."  Returns self.  Modelled for a mask of
   self's shape (torch also broadcasts it).  None: source too short (torch raises), non-boolean mask. *)
Fixpoint scatter (d m src : list cell) : option (list cell) :=
  match d, m with
  | [], [] => Some []
  | x :: d', CBool false :: m' => option_map (cons x) (scatter d' m' src)
  | _ :: d', CBool true :: m' =>
      match src with
      | s :: src' => option_map (cons s) (scatter d' m' src')
      | [] => None
      end
  | _, _ => None
  end.

Definition masked_scatter (x mask src : itens) : option itens :=
  if shape_eqb (ishape x) (ishape mask) then
    option_map (mkIT (ishape x)) (scatter (idata x) (idata mask) (idata src))
  else None.
