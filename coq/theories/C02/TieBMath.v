(* C02, second source tie - arithmetic (no interpreter here): the float elements [fx] the interpreted
   `minimum_error_rate_loss` computes with are the rationals of Model.mer_loss in lowest terms ([qfx]); the tensor
   TieBTail.loss_t built from what the interpreted `error_rate` returns IS the tensor of Model.mer_loss, for both
   layouts, 2-D / 3-D references, sub_avg and the three reductions (through ProofsMer.er_view / mer_loss_formula). *)
From Coq Require Import ZArith QArith Qreduction List Bool Arith Lia.
From PV Require Import MiniTorch.Ops MiniTorch.OpsC07 MiniTorch.LemmasC07 MiniTorch.OpsC01 MiniTorch.LemmasC01 MiniTorch.OpsC02B
  MiniTorch.LemmasC02B.
From PV Require Import C01.Obs C01.Model C01.Proofs C01.TieMath C02.Model C02.ProofsModel C02.ProofsMer C02.TieWhole C02.SrcRunB C02.TieBTail.
Import ListNotations.

#[local] Arguments tab2 : simpl never.

(* ---- floats that are rationals in lowest terms ------------------------------------------------------------- *)
Lemma qfx_eq : forall a b, a == b -> qfx a = qfx b.
Proof. intros a b H. unfold qfx. f_equal. now apply Qred_complete. Qed.

Lemma fadd_qfx : forall a b, fadd (qfx a) (qfx b) = qfx (a + b).
Proof. intros. unfold fadd, qfx. f_equal. apply Qred_complete. now rewrite !Qred_correct. Qed.

Lemma fsub_qfx : forall a b, fsub (qfx a) (qfx b) = qfx (a - b).
Proof. intros. unfold fsub, qfx. f_equal. apply Qred_complete. now rewrite !Qred_correct. Qed.

Lemma fmul_qfx : forall a b, fmul (qfx a) (qfx b) = qfx (a * b).
Proof. intros. unfold fmul, qfx. f_equal. apply Qred_complete. now rewrite !Qred_correct. Qed.

Lemma fdiv_qfx_nat : forall a n, n <> 0%nat -> fdiv (qfx a) (z2f (Z.of_nat n)) = qfx (a / (Z.of_nat n # 1)).
Proof.
  intros a n Hn. unfold fdiv, qfx, z2f, inject_Z.
  replace (Qeq_bool (Z.of_nat n # 1) 0) with false.
  - f_equal. apply Qred_complete. now rewrite Qred_correct.
  - symmetry. apply not_true_is_false. intros E. apply Qeq_bool_eq in E. unfold Qeq in E. cbn [Qnum Qden] in E. lia.
Qed.

Lemma fsum_qfx : forall l, fsum (map qfx l) = qfx (qsum l).
Proof.
  induction l as [|a l IH]; [reflexivity|].
  cbn [map]. unfold fsum in *. cbn [fold_right]. rewrite IH, fadd_qfx. reflexivity.
Qed.

Lemma qsum_app : forall l1 l2, qsum (l1 ++ l2) == qsum l1 + qsum l2.
Proof.
  induction l1 as [|a l1 IH]; intros l2; cbn [app qsum fold_right].
  - now rewrite Qplus_0_l.
  - fold (qsum (l1 ++ l2)). fold (qsum l1). rewrite IH. now rewrite Qplus_assoc.
Qed.

Lemma qsum_concat : forall ll, qsum (concat ll) == qsum (map qsum ll).
Proof.
  induction ll as [|l ll IH]; [reflexivity|].
  cbn [concat map]. rewrite qsum_app. cbn [qsum fold_right]. fold (qsum (map qsum ll)). now rewrite IH.
Qed.

Lemma val_fx_qfx : forall v, val_fx 1 v = qfx (val_q v).
Proof.
  intros [m|m d|z]; cbn [val_fx val_q]; unfold zf, qfx.
  - reflexivity.
  - f_equal. apply Qred_complete. unfold qz. now rewrite Qred_correct.
  - unfold z2f. f_equal. rewrite <- (qz_1 z). reflexivity.
Qed.

(* Model.chunks is OpsC02B.split_rows *)
Lemma chunks_split_rows : forall {A} M N (l : list A), chunks M N l = split_rows M N l.
Proof. intros A M N. induction N as [|N IH]; intros l; [reflexivity|]. cbn [chunks split_rows]. now rewrite IH. Qed.

Lemma concat_rows_tab2 : forall {X} N M (f : nat -> nat -> X),
  concat (map (fun n => map (f n) (seq 0 M)) (seq 0 N)) = tab2 N M f.
Proof. intros. unfold tab2. now rewrite flat_map_concat_map. Qed.

(* ---- the tensor of the model's result ------------------------------------------------------------------------ *)
Definition mres_tensor (N M : nat) (r : mres) : tn fx :=
  match r with
  | MMat rows => mkTn [N; M] (map qfx (concat rows))
  | MScalar q => mkTn [] [qfx q]
  | MErr => mkTn [] []
  end.

Section Mer.
  Variable c : cfg.
  Variable sub_avg : bool.
  Variables N M : nat.
  Variable w : list (list Q).
  Variable ref : list (list Z) + list (list (list Z)).
  Variable hyp : list (list (list Z)).
  Notation bf := (c_bf c).
  Hypothesis HN : (0 < N)%nat.
  Hypothesis HM : (2 <= M)%nat.
  Hypothesis Hhyp : wf3 bf N M hyp.
  Hypothesis Href : wf_ref bf N M ref.
  Hypothesis Hw : wf_w N M w.

  (* what the interpreted error_rate returns, entry n*M + m = the error rate of sample m of batch element n *)
  Definition e_src (n m : nat) : fx := qfx (er_nm c ref hyp n m).

  Lemma er_flat :
    map (val_fx 1) (error_rate c (N * M) (flatten3 bf (ref3_of bf M ref)) (flatten3 bf hyp)) = tab2 N M e_src.
  Proof.
    rewrite (map_ext (val_fx 1) (fun v => qfx (val_q v))) by apply val_fx_qfx.
    rewrite <- map_map.
    rewrite <- (concat_split_rows M N (map val_q _)) by (now rewrite map_length, error_rate_length).
    rewrite <- chunks_split_rows, (er_view c N M ref hyp HM Hhyp Href).
    rewrite concat_rows_tab2, map_tab2. reflexivity.
  Qed.

  Lemma e_sub_model : forall n m,
    e_sub M sub_avg e_src n m = qfx (if sub_avg then er_nm c ref hyp n m - mu_n c M ref hyp n else er_nm c ref hyp n m).
  Proof.
    intros n m. unfold e_sub, e_src. destruct sub_avg; [|reflexivity].
    rewrite <- (map_map (er_nm c ref hyp n) qfx), fsum_qfx, fdiv_qfx_nat by lia. rewrite fsub_qfx. reflexivity.
  Qed.

  Lemma l_w_model : forall n m, l_w w (e_sub M sub_avg e_src) n m = qfx (loss_nm c sub_avg M w ref hyp n m).
  Proof. intros n m. unfold l_w. rewrite e_sub_model, fmul_qfx. reflexivity. Qed.

  Lemma loss_data : tab2 N M (l_w w (e_sub M sub_avg e_src)) = map qfx (concat (loss_mat c sub_avg N M w ref hyp)).
  Proof.
    unfold loss_mat. rewrite concat_rows_tab2, map_tab2. apply tab2_ext. intros n m _ _. apply l_w_model.
  Qed.

  Theorem loss_t_is_model : forall red,
    loss_t w N M sub_avg red e_src = mres_tensor N M (mer_loss c sub_avg red N M w ref hyp).
  Proof.
    intros red. rewrite (mer_loss_formula c sub_avg N M w ref hyp HM Hhyp Href Hw red).
    unfold loss_t. rewrite loss_data. destruct red; cbn [mres_tensor].
    - unfold mean_all. cbn [shp dat]. rewrite fsum_qfx, numel_2, fdiv_qfx_nat by nia. do 2 f_equal.
      apply qfx_eq. now rewrite qsum_concat.
    - unfold sum_all. cbn [dat]. rewrite fsum_qfx. do 2 f_equal. apply qfx_eq. apply qsum_concat.
    - reflexivity.
  Qed.
End Mer.
