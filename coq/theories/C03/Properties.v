(* C03 — Optimal-completion targets are exactly the distance-preserving next tokens.
   Property theorems only: each is closed by [exact <lemma>] and followed by
   [Print Assumptions].  The harness re-checks this file on every run.

   Reading guide.  [cfg] (from C01) holds eos / include_eos / norm (unused) / batch_first / the
   three costs / padding (ignore_index for the loss) / exclude_last.  [seq_of bf n m] is
   sequence n of tensor m in the given layout, padding and post-eos garbage included;
   [denote eos incl] cuts it at the first eos (keeping that eos when counted and present).
   Spec: [reachable r p v] = some completion p ++ s is at edit distance v from r (minimum cost
   over edit scripts, C01); [best_reachable r p m] = m is the smallest such v; [preserving r p t]
   = p and p ++ [t] have the same best.  [entry3 bf k n out] is row (prefix length k, pair n)
   of the returned (H', N, C) tensor ((N, H', C) when batch_first); [oc_width] is C.
   Costs are positive where stated (the quantifier's cost triples; c03_positive_costs_needed
   shows the statement is false for a zero insertion cost). *)
From Coq Require Import List ZArith QArith Bool Arith Sorted.
From PV Require Import C01.Obs C01.Spec C01.Model C01.LevFacts C01.Proofs.
From PV Require Import C03.Spec C03.Model C03.ProofsSpec C03.ProofsMask C03.ProofsSelect
  C03.ProofsTop C03.ProofsMain C03.ProofsLoss C03.ProofsExamples.
Import ListNotations.
Local Open Scope Z_scope.

(* "the smallest edit distance any completion of it can still reach": it exists and is the
   minimum of the prefix's row of the distance table (non-negative costs) *)
Theorem c03_best_completion_is_row_min : forall ci cd cs, 0 <= ci -> 0 <= cd -> 0 <= cs ->
  forall r p, best_reachable ci cd cs r p (row_min ci cd cs r p).
Proof. exact best_reachable_row_min. Qed.
Print Assumptions c03_best_completion_is_row_min.

(* the diagonal argument of the OCD paper, for all positive cost triples: the tokens that can be
   appended without raising the best reachable distance are exactly the reference tokens that
   sit right after a minimum of the row *)
Theorem c03_preserving_iff_after_row_minimum : forall ci cd cs, 0 < ci -> 0 < cd -> 0 < cs ->
  forall r p t,
  preserving ci cd cs r p t <->
  exists i, (i < length r)%nat /\ nth i r 0 = t /\
            lev ci cd cs (firstn i r) p = row_min ci cd cs r p.
Proof. exact preserving_iff_argmin. Qed.
Print Assumptions c03_preserving_iff_after_row_minimum.

(* mechanism 1 (_string_matching, return_mask branch, one column): mask row k marks position i
   iff i is inside the reference, the prefix is still live, and i is a minimum of the table row
   of prefix k restricted to 0..ref_len ([tab k i] = lev (firstn i r) (firstn k h)) *)
Theorem c03_mask_marks_row_minima : forall ci cd cs r h rlen hlen excl,
  (rlen <= length r)%nat -> (hlen <= length h)%nat ->
  forall steps k i, 0 < cd -> (k <= steps)%nat -> (i < length r)%nat ->
  nth i (nth k (pair_masks ci cd cs r h rlen hlen excl steps) []) false = true <->
  (i < rlen)%nat /\ (k = 0%nat \/ not_done_at hlen excl k = true) /\
  (forall i', (i' <= rlen)%nat -> tab ci cd cs r h k i <= tab ci cd cs r h k i').
Proof. exact pair_masks_spec. Qed.
Print Assumptions c03_mask_marks_row_minima.

(* mechanism 2 (optimal_completion: duplicate propagation, sort, neighbour de-duplication,
   masked_select): for every multiset of reference tokens and every mask, the selected list is
   strictly increasing and holds exactly the tokens found at a marked position *)
Theorem c03_dedup_lists_marked_tokens_once : forall r m, length m = length r ->
  StronglySorted Z.lt (pair_targets r m) /\
  forall t, In t (pair_targets r m) <->
            exists i, (i < length r)%nat /\ nth i m false = true /\ nth i r 0 = t.
Proof. exact pair_targets_spec. Qed.
Print Assumptions c03_dedup_lists_marked_tokens_once.

(* mechanism 2, the scatter: if no cell selects more than C tokens the flat masked_scatter_ puts
   each cell's tokens at the start of its own row of padding *)
Theorem c03_scatter_is_rowwise_placement : forall pad C rows,
  (forall L, In L rows -> (length L <= C)%nat) ->
  masked_scatter (repeat pad (length rows * C))
    (concat (map (fun L => map (fun k => (k <? length L)%nat) (seq 0 C)) rows)) (concat rows)
  = concat (map (fun L => L ++ repeat pad (C - length L)) rows).
Proof. exact scatter_rows. Qed.
Print Assumptions c03_scatter_is_rowwise_placement.

(* THE PROPERTY, first sentence: for every batch, pair n and prefix length k of the (cut)
   hypothesis - k <= |hyp|, or k < |hyp| with exclude_last - the output row lists, strictly
   increasing hence once each, and followed only by padding, exactly the distance-preserving
   tokens.  (The case k = 0 is included unconditionally: it also describes what row 0 holds in
   the excluded case "empty hypothesis with exclude_last".) *)
Theorem c03_oc_row_correct : forall c N ref hyp n,
  (n < N)%nat -> wf_tensor (c_bf c) N ref -> wf_tensor (c_bf c) N hyp ->
  forall k, 0 < c_ins c -> 0 < c_del c -> 0 < c_sub c ->
  (k = 0 \/ k < length (denote (c_eos c) (c_incl c) (seq_of (c_bf c) n hyp))
                 + (if c_excl c then 0 else 1))%nat ->
  exists L,
    entry3 (c_bf c) k n (optimal_completion c N ref hyp)
      = L ++ repeat (c_pad c) (oc_width c N ref hyp - length L)
    /\ (length L <= oc_width c N ref hyp)%nat
    /\ StronglySorted Z.lt L
    /\ forall t, In t L <->
         preserving (c_ins c) (c_del c) (c_sub c)
           (denote (c_eos c) (c_incl c) (seq_of (c_bf c) n ref))
           (firstn k (denote (c_eos c) (c_incl c) (seq_of (c_bf c) n hyp))) t.
Proof. exact oc_row_correct. Qed.
Print Assumptions c03_oc_row_correct.

(* "once each and followed only by padding", for every row and every cost triple: a strictly
   increasing, duplicate-free list of counted reference tokens, then padding to the width *)
Theorem c03_oc_sorted_nodup_then_padding : forall c N ref hyp n,
  (n < N)%nat -> wf_tensor (c_bf c) N ref -> wf_tensor (c_bf c) N hyp ->
  forall k, (k < oc_rows c N hyp)%nat ->
  exists L,
    entry3 (c_bf c) k n (optimal_completion c N ref hyp)
      = L ++ repeat (c_pad c) (oc_width c N ref hyp - length L)
    /\ (length L <= oc_width c N ref hyp)%nat /\ StronglySorted Z.lt L /\ NoDup L
    /\ forall t, In t L -> In t (denote (c_eos c) (c_incl c) (seq_of (c_bf c) n ref)).
Proof. exact oc_sorted_nodup_then_padding. Qed.
Print Assumptions c03_oc_sorted_nodup_then_padding.

(* "Prefixes past the hypothesis's end yield only padding" (row 0 is past the end only in the
   excluded case) *)
Theorem c03_oc_past_end_is_padding : forall c N ref hyp n,
  (n < N)%nat -> wf_tensor (c_bf c) N ref -> wf_tensor (c_bf c) N hyp ->
  forall k, (1 <= k)%nat -> (k < oc_rows c N hyp)%nat ->
  (length (denote (c_eos c) (c_incl c) (seq_of (c_bf c) n hyp)) + (if c_excl c then 0 else 1) <= k)%nat ->
  entry3 (c_bf c) k n (optimal_completion c N ref hyp) = repeat (c_pad c) (oc_width c N ref hyp).
Proof. exact oc_past_end_is_padding. Qed.
Print Assumptions c03_oc_past_end_is_padding.

(* a pair's listed tokens depend only on its two sequences cut at eos - not on the batch, the
   position in it or the garbage after eos; only the amount of padding is batch-wide *)
Theorem c03_oc_row_pointwise : forall c N ref hyp n N' ref' hyp' n' k,
  0 < c_ins c -> 0 < c_del c -> 0 < c_sub c ->
  (n < N)%nat -> wf_tensor (c_bf c) N ref -> wf_tensor (c_bf c) N hyp ->
  (n' < N')%nat -> wf_tensor (c_bf c) N' ref' -> wf_tensor (c_bf c) N' hyp' ->
  denote (c_eos c) (c_incl c) (seq_of (c_bf c) n ref)
    = denote (c_eos c) (c_incl c) (seq_of (c_bf c) n' ref') ->
  denote (c_eos c) (c_incl c) (seq_of (c_bf c) n hyp)
    = denote (c_eos c) (c_incl c) (seq_of (c_bf c) n' hyp') ->
  (k = 0 \/ k < length (denote (c_eos c) (c_incl c) (seq_of (c_bf c) n hyp))
                 + (if c_excl c then 0 else 1))%nat ->
  exists L,
    entry3 (c_bf c) k n (optimal_completion c N ref hyp)
      = L ++ repeat (c_pad c) (oc_width c N ref hyp - length L) /\
    entry3 (c_bf c) k n' (optimal_completion c N' ref' hyp')
      = L ++ repeat (c_pad c) (oc_width c N' ref' hyp' - length L).
Proof. exact oc_row_pointwise. Qed.
Print Assumptions c03_oc_row_pointwise.

(* the boolean judgement the harness applies to implementation outputs decides the spec's
   [target_row] (any order, once each, then padding), and the model passes it on every row *)
Theorem c03_row_checker_decides_spec : forall ci cd cs, 0 < ci -> 0 < cd -> 0 < cs ->
  forall r p pad row,
  target_row_okb ci cd cs r p pad row = true <-> target_row ci cd cs r p pad row.
Proof. exact target_row_okb_iff. Qed.
Print Assumptions c03_row_checker_decides_spec.

Theorem c03_oc_row_meets_spec : forall c N ref hyp n,
  (n < N)%nat -> wf_tensor (c_bf c) N ref -> wf_tensor (c_bf c) N hyp ->
  forall k, 0 < c_ins c -> 0 < c_del c -> 0 < c_sub c -> (k < oc_rows c N hyp)%nat ->
  spec_row_okb (c_eos c) (c_incl c) (c_excl c) (c_ins c) (c_del c) (c_sub c) (c_pad c)
    (seq_of (c_bf c) n ref) (seq_of (c_bf c) n hyp) k
    (entry3 (c_bf c) k n (optimal_completion c N ref hyp)) = true.
Proof. exact oc_row_meets_spec. Qed.
Print Assumptions c03_oc_row_meets_spec.

(* mechanism 3: cross entropy with ignore_index summed over a row "targets then padding" and
   divided by the clamped number of non-padding entries is the mean of -log p (x weight) over
   the targets, and zero when there are none ([qmean f [] = 0]) *)
Theorem c03_step_loss_formula : forall ign w lp L n, ~ In ign L ->
  (step_loss ign w lp (L ++ repeat ign n) == qmean (nll w lp) L)%Q.
Proof. exact step_loss_formula. Qed.
Print Assumptions c03_step_loss_formula.

(* THE PROPERTY, last sentence, reduction 'none': at every prefix k < |hyp| of pair n the loss is
   the average negative log-probability over the set of distance-preserving tokens (listed once
   each), zero if the set is empty.  [c_pad c] is ignore_index; it must not be a counted
   reference token.  [logp] = log_softmax(logits) laid out like hyp *)
Theorem c03_hard_ocd_loss_formula : forall c w N ref hyp logp,
  (1 <= time_len (c_bf c) hyp)%nat -> (1 <= N)%nat ->
  wf_tensor (c_bf c) N ref -> wf_tensor (c_bf c) N hyp ->
  wf_logp (c_bf c) N (time_len (c_bf c) hyp) logp ->
  forall n, (n < N)%nat ->
  ~ In (c_pad c) (denote (c_eos c) (c_incl c) (seq_of (c_bf c) n ref)) ->
  forall k, 0 < c_ins c -> 0 < c_del c -> 0 < c_sub c ->
  (k < length (denote (c_eos c) (c_incl c) (seq_of (c_bf c) n hyp)))%nat ->
  exists L,
    NoDup L /\
    (forall t, In t L <->
       preserving (c_ins c) (c_del c) (c_sub c)
         (denote (c_eos c) (c_incl c) (seq_of (c_bf c) n ref))
         (firstn k (denote (c_eos c) (c_incl c) (seq_of (c_bf c) n hyp))) t) /\
    (entryQ (c_bf c) k n (loss_grid c w N ref hyp logp)
     == qmean (nll w (entryL (c_bf c) k n logp)) L)%Q.
Proof. exact loss_entry_formula. Qed.
Print Assumptions c03_hard_ocd_loss_formula.

(* ... and zero at steps past the end of the hypothesis *)
Theorem c03_hard_ocd_loss_past_end_zero : forall c w N ref hyp logp,
  (1 <= time_len (c_bf c) hyp)%nat -> (1 <= N)%nat ->
  wf_tensor (c_bf c) N ref -> wf_tensor (c_bf c) N hyp ->
  wf_logp (c_bf c) N (time_len (c_bf c) hyp) logp ->
  forall n, (n < N)%nat ->
  forall k, (1 <= k)%nat -> (k < time_len (c_bf c) hyp)%nat ->
  (length (denote (c_eos c) (c_incl c) (seq_of (c_bf c) n hyp)) <= k)%nat ->
  (entryQ (c_bf c) k n (loss_grid c w N ref hyp logp) == 0)%Q.
Proof. exact loss_entry_past_end. Qed.
Print Assumptions c03_hard_ocd_loss_past_end_zero.

(* "reduced as requested": 'none' returns the grid, 'sum' adds every entry, 'mean' divides each
   sequence's sum over time by its number of steps that have a target (at least 1) and averages
   over the batch - in both layouts *)
Theorem c03_hard_ocd_loss_none : forall c w N ref hyp logp,
  hard_ocd_loss c w RNone N ref hyp logp = LossGrid (loss_grid c w N ref hyp logp).
Proof. exact hard_ocd_loss_none. Qed.
Print Assumptions c03_hard_ocd_loss_none.

Theorem c03_hard_ocd_loss_sum : forall c w N ref hyp logp,
  hard_ocd_loss c w RSum N ref hyp logp
  = LossScalar (qsum (map qsum (loss_grid c w N ref hyp logp))).
Proof. exact loss_sum. Qed.
Print Assumptions c03_hard_ocd_loss_sum.

Theorem c03_hard_ocd_loss_mean : forall c w N ref hyp logp,
  (1 <= time_len (c_bf c) hyp)%nat -> (1 <= N)%nat ->
  wf_tensor (c_bf c) N ref -> wf_tensor (c_bf c) N hyp ->
  wf_logp (c_bf c) N (time_len (c_bf c) hyp) logp ->
  hard_ocd_loss c w RMean N ref hyp logp
  = LossScalar (qsum (map (seq_mean c w N ref hyp logp) (seq 0 N)) / inject_Z (Z.of_nat N))%Q.
Proof. exact loss_mean. Qed.
Print Assumptions c03_hard_ocd_loss_mean.

(* the positivity of the costs is needed: with a zero insertion cost a token outside the
   reference preserves the best reachable distance and is not listed *)
Theorem c03_positive_costs_needed : exists c N ref hyp t,
  c_ins c = 0 /\
  preserving (c_ins c) (c_del c) (c_sub c)
    (denote (c_eos c) (c_incl c) (seq_of (c_bf c) 0 ref))
    (firstn 0 (denote (c_eos c) (c_incl c) (seq_of (c_bf c) 0 hyp))) t /\
  ~ In t (entry3 (c_bf c) 0 0 (optimal_completion c N ref hyp)).
Proof. exact positive_costs_needed. Qed.
Print Assumptions c03_positive_costs_needed.

(* non-vacuity: the docstring's "foot"/"bot" example and a ragged batch-first batch with eos,
   garbage after it, a repeated reference token, non-uniform costs and exclude_last meet the
   hypotheses of c03_oc_row_correct, and the model returns the expected rows *)
Example c03_nonvacuous :
  optimal_completion ex_cfg_foot 1 ex_ref_foot ex_hyp_foot
    = [[[102; -100]]; [[102; 111]]; [[111; -100]]; [[111; 116]]]
  /\ (0 < 1)%nat /\ wf_tensor (c_bf ex_cfg_foot) 1 ex_ref_foot /\ wf_tensor (c_bf ex_cfg_foot) 1 ex_hyp_foot
  /\ 0 < c_ins ex_cfg_foot /\ 0 < c_del ex_cfg_foot /\ 0 < c_sub ex_cfg_foot
  /\ (3 < length (denote (c_eos ex_cfg_foot) (c_incl ex_cfg_foot) (seq_of (c_bf ex_cfg_foot) 0 ex_hyp_foot)) + 1)%nat
  /\ optimal_completion ex_cfg_rag 2 ex_ref_rag ex_hyp_rag = ex_out_rag
  /\ (1 < 2)%nat /\ wf_tensor (c_bf ex_cfg_rag) 2 ex_ref_rag /\ wf_tensor (c_bf ex_cfg_rag) 2 ex_hyp_rag
  /\ 0 < c_ins ex_cfg_rag /\ 0 < c_del ex_cfg_rag /\ 0 < c_sub ex_cfg_rag
  /\ (1 < length (denote (c_eos ex_cfg_rag) (c_incl ex_cfg_rag) (seq_of (c_bf ex_cfg_rag) 1 ex_hyp_rag)) + 0)%nat.
Proof. exact nonvacuous. Qed.

(* ======================================================================================
   SOURCE TIE (DESIGN.md section 10, notes/C03_tie_report.md).  The statements below are about the
   Python text of `_string_matching` itself on the path `optimal_completion` takes through it
   (return_mask = True; exclude_last arbitrary; norm / return_prf_dsts / return_mistakes at their default
   False): PV.Gen.C03Src.{sm3_pre, sm3_row0, sm3_main, sm3_loop, sm3_body, sm3_lens} are regenerated from
   /repo by harness/py2coq/translate.py on every C03 run, PV.MiniPy.Interp interprets them, the torch calls
   mean what PV.MiniTorch.OpsC03 / OpsC01 / OpsC07 say (PV.C03.SrcRun.ext03).  A float cost is c / s for
   integers ci cd cs over any common denominator s; [TieMath.ofx s o] is the float o / s, +inf for None;
   [TieLib.runs_to P o]: the run o ends normally in a state satisfying P; [TieLoop.body_pre3 .. lf ms st]:
   in state st the flags are those of the mask path, ref (R x N), hyp (H x N), ref_lens = rl, hyp_lens = hl,
   del_mat[i][j] = del_entry cd i j, rrange = arange(R + 1), row[i][n] = lf i n (None = +inf) and the Python
   list `masks` holds the (R x N) boolean tensors ms.
   ====================================================================================== *)
From Coq Require QArith.
From PV Require MiniPy.Syntax MiniPy.Interp MiniTorch.OpsC07 MiniTorch.OpsC01 Gen.C03Src C01.TieLib C01.TieLoop C01.Tie
  C03.SrcRun C03.TieMath C03.TieLoop C03.Tie C03.TieOcWhole.

(* priority 1: ONE EXECUTION OF THE LOOP BODY (hyp_idx = k) leaves, for every column n, exactly Model.mask_step of
   that column: in `row` the row carried to the next step (insertion / substitution candidates, the fold through
   del_mat, freezing by not_done, +inf past ref_lens) and, appended to `masks`, the mask row
   (row[:-1] == mins) & not_done.  Every batch size, widths, lengths, exclude_last, costs, previous row (with +inf). *)
Theorem c03_source_loop_body_is_mask_step :
  forall (s : positive) (ci cd cs : Z) (R N H : nat) (rf hf : nat -> nat -> Z) (rl hl : nat -> nat) (excl : bool)
         (st : MiniPy.Interp.state) (k : nat) (lf : nat -> nat -> option Z) (ms : list (nat -> nat -> bool)),
  (1 <= k <= H)%nat ->
  C03.TieLoop.body_pre3 s ci cd cs R N H rf hf rl hl excl lf ms st ->
  C01.TieLib.runs_to
    (C03.TieLoop.body_pre3 s ci cd cs R N H rf hf rl hl excl
       (fun i n => nth i (fst (mask_step ci cd cs (C01.TieLoop.colf R rf n) (C01.TieLoop.colf H hf n) (rl n) (hl n) excl k
                                 (C03.TieLoop.colo (S R) lf n))) None)
       (ms ++ [fun i n => nth i (snd (mask_step ci cd cs (C01.TieLoop.colf R rf n) (C01.TieLoop.colf H hf n) (rl n) (hl n) excl k
                                        (C03.TieLoop.colo (S R) lf n))) false]))
    (C03.Tie.run_loop_body k st).
Proof. exact C03.Tie.loop_body_is_mask_step. Qed.
Print Assumptions c03_source_loop_body_is_mask_step.

(* priority 2: THE `for hyp_idx in range(1, max_hyp_steps + (0 if exclude_last else 1))` STATEMENT: steps = H or H - 1
   iterations of mask_step in every column; `masks` grows by Model.masks_loop's rows *)
Theorem c03_source_loop_is_masks_loop :
  forall (s : positive) (ci cd cs : Z) (R N H : nat) (rf hf : nat -> nat -> Z) (rl hl : nat -> nat) (excl : bool)
         (st : MiniPy.Interp.state) (lf : nat -> nat -> option Z) (ms : list (nat -> nat -> bool)),
  C03.TieLoop.body_pre3 s ci cd cs R N H rf hf rl hl excl lf ms st -> C03.Tie.max_hyp_steps_is H st ->
  let steps := (H + (if excl then 0 else 1) - 1)%nat in
  C01.TieLib.runs_to
    (C03.TieLoop.body_pre3 s ci cd cs R N H rf hf rl hl excl
       (fun i n => nth i (C03.TieMath.iter_mrow ci cd cs (C01.TieLoop.colf R rf n) (C01.TieLoop.colf H hf n) (rl n) (hl n) excl
                            steps 1 (C03.TieLoop.colo (S R) lf n)) None)
       (ms ++ map (fun j i n =>
                     nth i (nth j (masks_loop ci cd cs (C01.TieLoop.colf R rf n) (C01.TieLoop.colf H hf n) (rl n) (hl n) excl
                                     steps 1 (C03.TieLoop.colo (S R) lf n)) []) false) (seq 0 steps)))
    (C03.Tie.run_loop st).
Proof. exact C03.Tie.loop_is_masks_loop. Qed.
Print Assumptions c03_source_loop_is_masks_loop.

(* priority 3: THE WHOLE CALL optimal_completion makes.  The blocks sm3_pre; sm3_row0; sm3_main run in sequence on the
   arguments (ref / hyp as handed over: N rows of width R / H when batch_first, else R / H rows of width N; any eos,
   include_eos, batch_first, exclude_last, warn; costs c / s) RETURN the (H', R, N) boolean tensor whose entry (k, i, n)
   is bit i of row k of Model.oc_masks' pair n.  Hypotheses: the matrices are matrices, N > 0, R > 0 (a zero-width
   reference makes the source raise IndexError at `row_mask[0] = ...`), and H > 0 when there is an eos (torch.max over
   an empty dimension raises) - the input space of the property. *)
Theorem c03_source_mask_is_model :
  forall (s : positive) (c : cfg) (N R H : nat) (ref hyp : list (list Z)) (w : bool),
  (0 < N)%nat -> R <> 0%nat -> C01.Tie.wf_src (c_bf c) N R ref -> C01.Tie.wf_src (c_bf c) N H hyp ->
  (c_eos c <> None -> H <> 0%nat) ->
  exists st', C03.Tie.run_mask_blocks s c N ref hyp w
              = MiniPy.Interp.Ok (MiniTorch.OpsC07.enc_b (C03.Tie.model_mask_tensor c N R ref hyp)) st'.
Proof. exact C03.Tie.mask_is_model. Qed.
Print Assumptions c03_source_mask_is_model.

(* THE WHOLE BODY OF THE FUNCTION AS ONE TERM (Gen.C03Src.sm3_body, every statement of _string_matching): the same *)
Theorem c03_source_string_matching_mask_is_model :
  forall (s : positive) (c : cfg) (N R H : nat) (ref hyp : list (list Z)) (w : bool),
  (0 < N)%nat -> R <> 0%nat -> C01.Tie.wf_src (c_bf c) N R ref -> C01.Tie.wf_src (c_bf c) N H hyp ->
  (c_eos c <> None -> H <> 0%nat) ->
  exists st', C03.Tie.run_mask_body s c N ref hyp w
              = MiniPy.Interp.Ok (MiniTorch.OpsC07.enc_b (C03.Tie.model_mask_tensor c N R ref hyp)) st'.
Proof. exact C03.Tie.mask_body_is_model. Qed.
Print Assumptions c03_source_string_matching_mask_is_model.

(* the executable the harness evaluates on the cases of every run IS that run *)
Theorem c03_source_src_mask_is_model :
  forall (c : cfg) (scale : Z) (N R H : nat) (ref hyp : list (list Z)),
  (0 < N)%nat -> R <> 0%nat -> C01.Tie.wf_src (c_bf c) N R ref -> C01.Tie.wf_src (c_bf c) N H hyp ->
  (c_eos c <> None -> H <> 0%nat) ->
  C03.SrcRun.src_mask C03.SrcRun.sm3_blocks c scale N ref hyp = Some (Some (C03.Tie.model_mask_tensor c N R ref hyp)) /\
  C03.SrcRun.src_mask Gen.C03Src.sm3_body c scale N ref hyp = Some (Some (C03.Tie.model_mask_tensor c N R ref hyp)).
Proof. exact C03.Tie.src_mask_is_model. Qed.
Print Assumptions c03_source_src_mask_is_model.

(* composed with c03_mask_marks_row_minima, ProofsMain.argmin_transfer and c03_preserving_iff_after_row_minimum - a
   statement purely about the interpreted source: for positive costs the (H', R, N) tensor the source returns marks, in
   row k of pair n (k = 0, or k below the length of the cut hypothesis, + 1 without exclude_last), exactly the positions
   whose reference tokens keep the best reachable distance: t is found at a marked position iff appending t to the first
   k hypothesis tokens does not raise the smallest edit distance a completion can still reach *)
Theorem c03_source_mask_marks_preserving_tokens :
  forall (s : positive) (c : cfg) (N R H : nat) (ref hyp : list (list Z)) (w : bool),
  (0 < N)%nat -> R <> 0%nat -> C01.Tie.wf_src (c_bf c) N R ref -> C01.Tie.wf_src (c_bf c) N H hyp ->
  (c_eos c <> None -> H <> 0%nat) ->
  0 < c_ins c -> 0 < c_del c -> 0 < c_sub c ->
  exists K (bits : list bool) st',
    C03.Tie.run_mask_body s c N ref hyp w
    = MiniPy.Interp.Ok (MiniTorch.OpsC07.enc_b (MiniTorch.OpsC07.mkTn [K; R; N] bits)) st' /\
    K = S (H + (if c_excl c then 0 else 1) - 1) /\
    forall n k, (n < N)%nat ->
      let rseq := denote (c_eos c) (c_incl c) (seq_of (c_bf c) n ref) in
      let hseq := denote (c_eos c) (c_incl c) (seq_of (c_bf c) n hyp) in
      (k = 0 \/ k < length hseq + (if c_excl c then 0 else 1))%nat ->
      forall t,
        (exists i, (i < R)%nat /\ nth ((k * R + i) * N + n) bits false = true /\ nth i (seq_of (c_bf c) n ref) 0 = t)
        <-> preserving (c_ins c) (c_del c) (c_sub c) rseq (firstn k hseq) t.
Proof. exact C03.Tie.mask_marks_preserving. Qed.
Print Assumptions c03_source_mask_marks_preserving_tokens.

(* priority 4: THE WHOLE BODY OF optimal_completion (Gen.C03Src.oc_body: the call of _string_matching(.., return_mask=True,
   exclude_last=..) = the interpretation of sm3_body; `ref.t()`; the duplicate propagation
   (mask.transpose(1, 2).unsqueeze(2) & (ref.unsqueeze(1) == ref.unsqueeze(2))).any(3); ref.sort(1); mask.gather(2, ..); the
   neighbour de-duplication and torch.cat; masked_select; counts = mask.sum(2); C = int(counts.max().item()); torch.full;
   target_mask; targets.masked_scatter_(..); the transposition of batch-first output) returns the tensor of
   Model.optimal_completion: shape (H', N, C) - (N, H', C) when batch_first - and, flattened, the model's nested lists.
   Every batch, widths (R > 0), tokens, eos / include_eos / batch_first / exclude_last / padding, costs c / s.  torch.sort is read
   as a stable sort (see MiniTorch.OpsC03.sort_last2). *)
Theorem c03_source_optimal_completion_is_model :
  forall (s : positive) (c : cfg) (N R' H : nat) (ref hyp : list (list Z)) (w : bool),
  (0 < N)%nat -> C01.Tie.wf_src (c_bf c) N (S R') ref -> C01.Tie.wf_src (c_bf c) N H hyp ->
  (c_eos c <> None -> H <> 0%nat) ->
  exists st', C03.TieOcWhole.run_oc Gen.C03Src.oc_body s c N ref hyp w
              = MiniPy.Interp.Ok (MiniTorch.OpsC07.enc_i (C03.TieOcWhole.model_oc_tensor c N ref hyp)) st'.
Proof. exact C03.TieOcWhole.oc_body_is_model. Qed.
Print Assumptions c03_source_optimal_completion_is_model.

(* the same for the three blocks oc_call; oc_post; oc_fin run in sequence *)
Theorem c03_source_optimal_completion_blocks_is_model :
  forall (s : positive) (c : cfg) (N R' H : nat) (ref hyp : list (list Z)) (w : bool),
  (0 < N)%nat -> C01.Tie.wf_src (c_bf c) N (S R') ref -> C01.Tie.wf_src (c_bf c) N H hyp ->
  (c_eos c <> None -> H <> 0%nat) ->
  exists st', C03.TieOcWhole.run_oc C03.TieOcWhole.oc_blocks s c N ref hyp w
              = MiniPy.Interp.Ok (MiniTorch.OpsC07.enc_i (C03.TieOcWhole.model_oc_tensor c N ref hyp)) st'.
Proof. exact C03.TieOcWhole.oc_blocks_is_model. Qed.
Print Assumptions c03_source_optimal_completion_blocks_is_model.

(* the executable the harness evaluates on the optimal_completion cases of every run IS that run *)
Theorem c03_source_src_oc_is_model :
  forall (c : cfg) (scale : Z) (N R' H : nat) (ref hyp : list (list Z)),
  (0 < N)%nat -> C01.Tie.wf_src (c_bf c) N (S R') ref -> C01.Tie.wf_src (c_bf c) N H hyp ->
  (c_eos c <> None -> H <> 0%nat) ->
  C03.SrcRun.src_oc Gen.C03Src.oc_body c scale N ref hyp = Some (Some (C03.TieOcWhole.model_oc_tensor c N ref hyp)).
Proof. exact C03.TieOcWhole.src_oc_is_model. Qed.
Print Assumptions c03_source_src_oc_is_model.

(* composed with c03_oc_row_correct - THE PROPERTY, first sentence, about the interpreted source alone: for positive costs the
   tensor the source of optimal_completion returns holds, in row k of pair n (W entries at offset ((k * N + n) * W), or
   ((n * K + k) * W) when batch_first), a strictly increasing list L - hence once each - followed only by padding, and L lists
   exactly the tokens that can be appended to the first k hypothesis tokens without raising the smallest edit distance a
   completion can still reach (k = 0, or k below the length of the cut hypothesis, + 1 without exclude_last) *)
Theorem c03_source_optimal_completion_rows_correct :
  forall (s : positive) (c : cfg) (N R' H : nat) (ref hyp : list (list Z)) (w : bool),
  (0 < N)%nat -> C01.Tie.wf_src (c_bf c) N (S R') ref -> C01.Tie.wf_src (c_bf c) N H hyp ->
  (c_eos c <> None -> H <> 0%nat) ->
  0 < c_ins c -> 0 < c_del c -> 0 < c_sub c ->
  exists (K W : nat) (data : list Z) st',
    C03.TieOcWhole.run_oc Gen.C03Src.oc_body s c N ref hyp w
      = MiniPy.Interp.Ok (MiniTorch.OpsC07.enc_i (MiniTorch.OpsC07.mkTn (if c_bf c then [N; K; W] else [K; N; W]) data)) st' /\
    K = S (H + (if c_excl c then 0 else 1) - 1) /\
    forall n k, (n < N)%nat ->
      let rseq := denote (c_eos c) (c_incl c) (seq_of (c_bf c) n ref) in
      let hseq := denote (c_eos c) (c_incl c) (seq_of (c_bf c) n hyp) in
      (k = 0 \/ k < length hseq + (if c_excl c then 0 else 1))%nat ->
      exists L,
        firstn W (skipn ((if c_bf c then n * K + k else k * N + n) * W) data) = L ++ repeat (c_pad c) (W - length L) /\
        (length L <= W)%nat /\ StronglySorted Z.lt L /\
        forall t, In t L <-> preserving (c_ins c) (c_del c) (c_sub c) rseq (firstn k hseq) t.
Proof. exact C03.TieOcWhole.oc_source_rows_correct. Qed.
Print Assumptions c03_source_optimal_completion_rows_correct.

(* non-vacuity: the ragged batch of c03_nonvacuous (batch-first, eos = 0 counted, garbage after it, a repeated reference
   token, costs 3/2, 1/2, 1, exclude_last) meets the hypotheses, and the interpreted source (blocks and whole body)
   returns the model's (3, 4, 2) mask (and optimal_completion's whole body the (2, 3, 2) tensor ex_out_rag), whose marked positions are (k, i, n) = (0,0,0) (0,0,1) (1,1,0) (1,1,1) (2,1,0) (2,3,0)
   - the positions of the tokens listed in ex_out_rag *)
Example c03_source_nonvacuous :
  C01.Tie.wf_src (c_bf ex_cfg_rag) 2 4 ex_ref_rag /\ C01.Tie.wf_src (c_bf ex_cfg_rag) 2 3 ex_hyp_rag /\
  (0 < 2)%nat /\ 4%nat <> 0%nat /\ 3%nat <> 0%nat /\
  C03.SrcRun.src_mask C03.SrcRun.sm3_blocks ex_cfg_rag 4 2 ex_ref_rag ex_hyp_rag
    = Some (Some (C03.Tie.model_mask_tensor ex_cfg_rag 2 4 ex_ref_rag ex_hyp_rag)) /\
  C03.SrcRun.src_mask Gen.C03Src.sm3_body ex_cfg_rag 4 2 ex_ref_rag ex_hyp_rag
    = Some (Some (MiniTorch.OpsC07.mkTn [3; 4; 2]%nat
                    [true; true; false; false; false; false; false; false;
                     false; false; true; true; false; false; false; false;
                     false; false; true; false; false; false; true; false])) /\
  C03.SrcRun.src_oc Gen.C03Src.oc_body ex_cfg_rag 4 2 ex_ref_rag ex_hyp_rag
    = Some (Some (MiniTorch.OpsC07.mkTn [2; 3; 2]%nat (concat (concat ex_out_rag)))).
Proof.
  split; [split; [reflexivity|intros row [<-|[<-|[]]]; reflexivity]|].
  split; [split; [reflexivity|intros row [<-|[<-|[]]]; reflexivity]|].
  split; [apply Nat.lt_0_succ|]. split; [discriminate|]. split; [discriminate|].
  split; [vm_compute; reflexivity|]. split; vm_compute; reflexivity.
Qed.

(* ======================================================================================================
   SECOND SOURCE TIE (notes/C03_tie_report.md, "Second tie"): `hard_optimal_completion_distillation_loss`.
   PV.Gen.C03BSrc.{loss_body, loss_checks, loss_call, loss_ce, loss_red} are regenerated from /repo on every C03 run; the torch calls
   mean what PV.MiniTorch.OpsC03B (+ OpsC03 / OpsC01 / OpsC07) say (PV.C03.SrcRunB.ext03B); the call of `optimal_completion` is the
   interpretation of the FIRST tie's term Gen.C03Src.oc_body (c03_source_optimal_completion_is_model is used for it).
   [lsm : list fx -> list Q] is the log-softmax ORACLE (one row of logits -> its log-probabilities; regime T): every theorem holds for
   EVERY such function.  [lg]: the logits as handed over, nested lists in hyp's layout plus the class axis ([wf_logits]: N x H x V
   when batch_first, else H x N x V); [w]: the class weights or None; costs c / s as in the first tie; [c_pad c] is ignore_index,
   [c_excl c] is not read (the function forces exclude_last).  [run_loss lsm prog s c w red ..]: Interp.run of prog on the thirteen
   arguments.  A float the source returns is [Fq (Qred q)] for the model's rational q ([TieBModel.loss_tensor]: the model adds and
   divides without reducing fractions; Qred q == q).  Hypotheses of the tie: the matrices are matrices, N > 0, R > 0, H > 0 (an
   empty hypothesis with the forced exclude_last is the excluded case of the property: the source raises there), the weight vector
   has V entries, [eos_ok]: a counted eos is a class index other than ignore_index (the function's own guards: otherwise it raises
   RuntimeError - theorems below), and [targets_ok]: every listed target is ignore_index or a class index (torch's cross_entropy
   raises IndexError otherwise; the model has no such error) - which follows from "every counted reference token is a class index"
   (c03_source_loss_targets_are_classes), the input space of the loss.
   ====================================================================================================== *)
From PV Require MiniTorch.OpsC01 MiniTorch.OpsC03B Gen.C03BSrc C03.SrcRunB C03.TieB C03.TieBModel C03.TieBWhole C03.TieBSpec.

(* THE WHOLE BODY of hard_optimal_completion_distillation_loss as one term: the checks, the call, unsqueeze / expand / contiguous /
   flatten, cross_entropy(reduction="none", weight, ignore_index), view_as, masked_fill, sum(2), the division by the clamped number of
   targets, and the reduction, RETURN the float tensor of Model.hard_ocd_loss on the oracle's log-probabilities: shape (N, H) / (H, N)
   for 'none', a 0-d tensor for 'sum' / 'mean'.  Every batch, layout, eos setting, cost triple, weight, ignore_index, logits. *)
Theorem c03_source_loss_is_model :
  forall (lsm : list MiniTorch.OpsC01.fx -> list Q) (s : positive) (c : cfg) (w : option (list Q)) (red : reduction)
         (N R' H V : nat) (ref hyp : list (list Z)) (lg : list (list (list MiniTorch.OpsC01.fx))) (warn : bool),
  (0 < N)%nat -> C01.Tie.wf_src (c_bf c) N (S R') ref -> C01.Tie.wf_src (c_bf c) N H hyp -> H <> 0%nat ->
  C03.TieBWhole.wf_logits (c_bf c) N H V lg -> C03.TieBWhole.weight_ok w V -> C03.TieBWhole.eos_ok c V ->
  C03.TieBWhole.targets_ok c N V ref hyp ->
  exists st', C03.TieBWhole.run_loss lsm Gen.C03BSrc.loss_body s c w (C03.SrcRunB.red_str red) N V ref hyp lg warn
              = MiniPy.Interp.Ok (MiniTorch.OpsC01.enc_x (C03.TieBModel.loss_tensor (C03.TieBWhole.grid_shape (c_bf c) N H)
                                    (hard_ocd_loss c w red N ref hyp (map (map lsm) lg)))) st'.
Proof. exact C03.TieBWhole.loss_body_is_model. Qed.
Print Assumptions c03_source_loss_is_model.

(* the same for the four blocks loss_checks; loss_call; loss_ce; loss_red run in sequence *)
Theorem c03_source_loss_blocks_is_model :
  forall (lsm : list MiniTorch.OpsC01.fx -> list Q) (s : positive) (c : cfg) (w : option (list Q)) (red : reduction)
         (N R' H V : nat) (ref hyp : list (list Z)) (lg : list (list (list MiniTorch.OpsC01.fx))) (warn : bool),
  (0 < N)%nat -> C01.Tie.wf_src (c_bf c) N (S R') ref -> C01.Tie.wf_src (c_bf c) N H hyp -> H <> 0%nat ->
  C03.TieBWhole.wf_logits (c_bf c) N H V lg -> C03.TieBWhole.weight_ok w V -> C03.TieBWhole.eos_ok c V ->
  C03.TieBWhole.targets_ok c N V ref hyp ->
  exists st', C03.TieBWhole.run_loss lsm C03.SrcRunB.loss_blocks s c w (C03.SrcRunB.red_str red) N V ref hyp lg warn
              = MiniPy.Interp.Ok (MiniTorch.OpsC01.enc_x (C03.TieBModel.loss_tensor (C03.TieBWhole.grid_shape (c_bf c) N H)
                                    (hard_ocd_loss c w red N ref hyp (map (map lsm) lg)))) st'.
Proof. exact C03.TieBWhole.loss_blocks_is_model. Qed.
Print Assumptions c03_source_loss_blocks_is_model.

(* the blocks loss_ce; loss_red alone, on ANY (A x B x C) tensor of targets [tf] and (A x B x V) logits [lgv a b = the vector at (a, b)]:
   Model.hard_ocd_loss as a function of the targets (TieBModel.loss_of; [TieBModel.hard_ocd_loss_of]) - independent of
   optimal_completion.  A, B > 0; every target ignore_index or a class index *)
Theorem c03_source_loss_core_is_model :
  forall (lsm : list MiniTorch.OpsC01.fx -> list Q) (A B C V : nat) (lgv : nat -> nat -> list MiniTorch.OpsC01.fx)
         (tf : nat -> nat -> nat -> Z) (w : option (list Q)) (ign : Z),
  (forall a b, (a < A)%nat -> (b < B)%nat -> length (lgv a b) = V) ->
  match w with Some wv => length wv = V | None => True end ->
  (forall a b k, (a < A)%nat -> (b < B)%nat -> (k < C)%nat -> MiniTorch.OpsC03B.class_ok ign V (tf a b k) = true) ->
  (0 < A)%nat -> (0 < B)%nat ->
  forall (bf : bool) (red : reduction) st,
  C03.TieLib.known3 st (C03.TieB.ce_stage0 A B C V (C03.TieBModel.lfn lgv) tf w ign (MiniPy.Syntax.VBool bf)
                          (MiniPy.Syntax.VStr (C03.SrcRunB.red_str red))) ->
  C03.TieLib.returns3
    (MiniTorch.OpsC01.enc_x (C03.TieBModel.loss_tensor [A; B]
       (C03.TieBModel.loss_of ign w red bf (if bf then A else B)
          (C03.TieBModel.nest2 A B (fun a b => lsm (lgv a b))) (C03.TieBModel.nest2 A B (C03.TieBModel.orow C tf)))))
    (MiniPy.Interp.exec (C03.SrcRunB.ext03B lsm) (MiniPy.Syntax.SSeq Gen.C03BSrc.loss_ce Gen.C03BSrc.loss_red) st).
Proof. exact C03.TieBWhole.core_run. Qed.
Print Assumptions c03_source_loss_core_is_model.

(* the executable the harness evaluates on the loss cases of every run IS that run (for the oracle it is given) *)
Theorem c03_source_src_loss_is_model :
  forall (lsm : list MiniTorch.OpsC01.fx -> list Q) (c : cfg) (w : option (list Q)) (red : reduction) (scale : Z)
         (N R' H V : nat) (ref hyp : list (list Z)) (lg : list (list (list MiniTorch.OpsC01.fx))),
  (0 < N)%nat -> C01.Tie.wf_src (c_bf c) N (S R') ref -> C01.Tie.wf_src (c_bf c) N H hyp -> H <> 0%nat ->
  C03.TieBWhole.wf_logits (c_bf c) N H V lg -> C03.TieBWhole.weight_ok w V -> C03.TieBWhole.eos_ok c V ->
  C03.TieBWhole.targets_ok c N V ref hyp ->
  C03.SrcRunB.src_loss lsm Gen.C03BSrc.loss_body c w (C03.SrcRunB.red_str red) scale N V ref hyp lg
  = Some (Some (C03.TieBModel.loss_tensor (C03.TieBWhole.grid_shape (c_bf c) N H) (hard_ocd_loss c w red N ref hyp (map (map lsm) lg)))).
Proof. exact C03.TieBWhole.src_loss_is_model. Qed.
Print Assumptions c03_source_src_loss_is_model.

(* the hypothesis [targets_ok] follows from the input space of the loss: every counted reference token is a class index *)
Theorem c03_source_loss_targets_are_classes : forall c N R' H V ref hyp, (0 < N)%nat ->
  C01.Tie.wf_src (c_bf c) N (S R') ref -> C01.Tie.wf_src (c_bf c) N H hyp ->
  C03.TieBSpec.ref_classes c N V ref -> C03.TieBWhole.targets_ok c N V ref hyp.
Proof. exact C03.TieBSpec.targets_ok_of_ref. Qed.
Print Assumptions c03_source_loss_targets_are_classes.

(* THE RAISE PATHS of the function's own guards (the model has none: they delimit the tie's hypotheses).  include_eos with an eos
   that is not a class index *)
Theorem c03_source_loss_raises_eos_not_a_class :
  forall (lsm : list MiniTorch.OpsC01.fx -> list Q) (s : positive) (c : cfg) (w : option (list Q)) (red : String.string)
         (N H V : nat) (ref hyp : list (list Z)) (lg : list (list (list MiniTorch.OpsC01.fx))) (warn : bool),
  (0 < N)%nat -> C01.Tie.wf_src (c_bf c) N H hyp -> C03.TieBWhole.wf_logits (c_bf c) N H V lg ->
  forall e, c_incl c = true -> c_eos c = Some e -> (e < 0 \/ Z.of_nat V <= e) ->
  exists st', C03.TieBWhole.run_loss lsm Gen.C03BSrc.loss_body s c w red N V ref hyp lg warn = MiniPy.Interp.Exc C01.SrcRun.runtime_error st'.
Proof. exact C03.TieBWhole.loss_raises_eos_not_a_class. Qed.
Print Assumptions c03_source_loss_raises_eos_not_a_class.

(* include_eos with eos = ignore_index *)
Theorem c03_source_loss_raises_eos_is_ignore_index :
  forall (lsm : list MiniTorch.OpsC01.fx -> list Q) (s : positive) (c : cfg) (w : option (list Q)) (red : String.string)
         (N H V : nat) (ref hyp : list (list Z)) (lg : list (list (list MiniTorch.OpsC01.fx))) (warn : bool),
  (0 < N)%nat -> C01.Tie.wf_src (c_bf c) N H hyp -> C03.TieBWhole.wf_logits (c_bf c) N H V lg ->
  forall e, c_incl c = true -> c_eos c = Some e -> (0 <= e < Z.of_nat V) -> e = c_pad c ->
  exists st', C03.TieBWhole.run_loss lsm Gen.C03BSrc.loss_body s c w red N V ref hyp lg warn = MiniPy.Interp.Exc C01.SrcRun.runtime_error st'.
Proof. exact C03.TieBWhole.loss_raises_eos_is_ignore_index. Qed.
Print Assumptions c03_source_loss_raises_eos_is_ignore_index.

(* a reduction other than 'mean' / 'sum' / 'none': everything is computed, then RuntimeError *)
Theorem c03_source_loss_raises_bad_reduction :
  forall (lsm : list MiniTorch.OpsC01.fx -> list Q) (s : positive) (c : cfg) (w : option (list Q)) (red : String.string)
         (N R' H V : nat) (ref hyp : list (list Z)) (lg : list (list (list MiniTorch.OpsC01.fx))) (warn : bool),
  (0 < N)%nat -> C01.Tie.wf_src (c_bf c) N (S R') ref -> C01.Tie.wf_src (c_bf c) N H hyp -> H <> 0%nat ->
  C03.TieBWhole.wf_logits (c_bf c) N H V lg -> C03.TieBWhole.weight_ok w V -> C03.TieBWhole.eos_ok c V ->
  C03.TieBWhole.targets_ok c N V ref hyp ->
  red <> (C03.SrcRunB.red_str RMean) -> red <> (C03.SrcRunB.red_str RSum) -> red <> (C03.SrcRunB.red_str RNone) ->
  exists st', C03.TieBWhole.run_loss lsm Gen.C03BSrc.loss_body s c w red N V ref hyp lg warn = MiniPy.Interp.Exc C01.SrcRun.runtime_error st'.
Proof. exact C03.TieBWhole.loss_raises_bad_reduction. Qed.
Print Assumptions c03_source_loss_raises_bad_reduction.

(* composed with c03_hard_ocd_loss_formula and c03_hard_ocd_loss_past_end_zero - THE PROPERTY, last sentence, about the interpreted
   source alone: with reduction 'none' the source returns a float tensor of shape (N, H) / (H, N) whose entry for prefix k of pair n
   (offset n * H + k when batch_first, else k * N + n) is, for k below the length of the cut hypothesis, the MEAN over the set L of
   distance-preserving next tokens (listed once each) of -log p(t) (x weight(t)), p = the oracle's log-softmax of the logits at
   (k, n) - 0 when L is empty ([qmean f [] = 0]) - and exactly 0 at the steps past the end of the hypothesis.  Positive costs;
   ignore_index not a counted reference token; every counted reference token a class index. *)
Theorem c03_source_loss_none_is_mean_neg_log_prob :
  forall (lsm : list MiniTorch.OpsC01.fx -> list Q) (s : positive) (c : cfg) (w : option (list Q)) (N R' H V : nat)
         (ref hyp : list (list Z)) (lg : list (list (list MiniTorch.OpsC01.fx))) (warn : bool),
  (0 < N)%nat -> C01.Tie.wf_src (c_bf c) N (S R') ref -> C01.Tie.wf_src (c_bf c) N H hyp -> H <> 0%nat ->
  C03.TieBWhole.wf_logits (c_bf c) N H V lg -> C03.TieBWhole.weight_ok w V -> C03.TieBWhole.eos_ok c V ->
  C03.TieBSpec.ref_classes c N V ref ->
  0 < c_ins c -> 0 < c_del c -> 0 < c_sub c ->
  exists (data : list MiniTorch.OpsC01.fx) st',
    C03.TieBWhole.run_loss lsm Gen.C03BSrc.loss_body s c w (C03.SrcRunB.red_str RNone) N V ref hyp lg warn
      = MiniPy.Interp.Ok (MiniTorch.OpsC01.enc_x (MiniTorch.OpsC07.mkTn (C03.TieBWhole.grid_shape (c_bf c) N H) data)) st' /\
    length data = (N * H)%nat /\
    forall n k, (n < N)%nat -> (k < H)%nat ->
      let rseq := denote (c_eos c) (c_incl c) (seq_of (c_bf c) n ref) in
      let hseq := denote (c_eos c) (c_incl c) (seq_of (c_bf c) n hyp) in
      let lp := lsm (if c_bf c then C03.TieBWhole.lgv_of lg n k else C03.TieBWhole.lgv_of lg k n) in
      ((k < length hseq)%nat -> ~ In (c_pad c) rseq ->
         exists (L : list Z) (q : Q),
           NoDup L /\
           (forall t, In t L <-> preserving (c_ins c) (c_del c) (c_sub c) rseq (firstn k hseq) t) /\
           nth (C03.TieBSpec.src_idx (c_bf c) N H k n) data MiniTorch.OpsC01.FNaN = MiniTorch.OpsC01.Fq q /\
           (q == qmean (nll w lp) L)%Q) /\
      ((1 <= k)%nat -> (length hseq <= k)%nat ->
         nth (C03.TieBSpec.src_idx (c_bf c) N H k n) data MiniTorch.OpsC01.FNaN = MiniTorch.OpsC01.Fq 0).
Proof. exact C03.TieBSpec.loss_source_none_formula. Qed.
Print Assumptions c03_source_loss_none_is_mean_neg_log_prob.

(* composed with c03_hard_ocd_loss_sum / _mean - "reduced as requested": 'sum' returns the sum of that grid, 'mean' the batch mean of
   each sequence's sum over time divided by its number of steps that have a target (at least 1) - both layouts *)
Theorem c03_source_loss_sum_mean_are_reductions :
  forall (lsm : list MiniTorch.OpsC01.fx -> list Q) (s : positive) (c : cfg) (w : option (list Q)) (N R' H V : nat)
         (ref hyp : list (list Z)) (lg : list (list (list MiniTorch.OpsC01.fx))) (warn : bool),
  (0 < N)%nat -> C01.Tie.wf_src (c_bf c) N (S R') ref -> C01.Tie.wf_src (c_bf c) N H hyp -> H <> 0%nat ->
  C03.TieBWhole.wf_logits (c_bf c) N H V lg -> C03.TieBWhole.weight_ok w V -> C03.TieBWhole.eos_ok c V ->
  C03.TieBSpec.ref_classes c N V ref ->
  (exists (q : Q) st',
     C03.TieBWhole.run_loss lsm Gen.C03BSrc.loss_body s c w (C03.SrcRunB.red_str RSum) N V ref hyp lg warn
       = MiniPy.Interp.Ok (MiniTorch.OpsC01.enc_x (MiniTorch.OpsC07.mkTn [] [MiniTorch.OpsC01.Fq q])) st' /\
     (q == qsum (map qsum (loss_grid c w N ref hyp (map (map lsm) lg))))%Q) /\
  (exists (q : Q) st',
     C03.TieBWhole.run_loss lsm Gen.C03BSrc.loss_body s c w (C03.SrcRunB.red_str RMean) N V ref hyp lg warn
       = MiniPy.Interp.Ok (MiniTorch.OpsC01.enc_x (MiniTorch.OpsC07.mkTn [] [MiniTorch.OpsC01.Fq q])) st' /\
     (q == qsum (map (seq_mean c w N ref hyp (map (map lsm) lg)) (seq 0 N)) / inject_Z (Z.of_nat N))%Q).
Proof. exact C03.TieBSpec.loss_source_sum_mean. Qed.
Print Assumptions c03_source_loss_sum_mean_are_reductions.

(* non-vacuity: the ragged batch of c03_nonvacuous (batch-first, eos = 0 counted, repeated reference token, costs 3/2, 1/2, 1,
   ignore_index -1) with V = 6 classes, logits (n + 2 k + v) / 4, class weights (1, 1/2, 2, 1, 1, 3) and the oracle "logit - 3" meets
   every hypothesis of the theorems above; the interpreted source returns the model's tensor: the (2, 3) grid 11/8, 4, 5/2 | 2, 9/4, 0
   (e.g. step 2 of pair 0 lists {0, 2}: (2 * 1 + 3/2 * 2) / 2 = 5/2; step 2 of pair 1 is past the end), its sum 97/8, the mean 19/8
   = ((11/8 + 4 + 5/2) / 3 + (2 + 9/4) / 2) / 2, and RuntimeError for reduction "max" *)
Definition c03_ex_lsm (row : list MiniTorch.OpsC01.fx) : list Q :=
  map (fun x => match x with MiniTorch.OpsC01.Fq q => Qred (q - 3) | _ => 0%Q end) row.
Definition c03_ex_logits : list (list (list MiniTorch.OpsC01.fx)) :=
  map (fun n => map (fun k => map (fun v => MiniTorch.OpsC01.Fq (Qred (inject_Z (Z.of_nat (n + 2 * k + v)) / 4))) (seq 0 6)) (seq 0 3)) (seq 0 2).
Definition c03_ex_weight : option (list Q) := Some [1; 1 # 2; 2; 1; 1; 3]%Q.

Example c03_source_loss_nonvacuous :
  C01.Tie.wf_src (c_bf ex_cfg_rag) 2 4 ex_ref_rag /\ C01.Tie.wf_src (c_bf ex_cfg_rag) 2 3 ex_hyp_rag /\ (0 < 2)%nat /\ 3%nat <> 0%nat /\
  C03.TieBWhole.wf_logits (c_bf ex_cfg_rag) 2 3 6 c03_ex_logits /\ C03.TieBWhole.weight_ok c03_ex_weight 6 /\
  C03.TieBWhole.eos_ok ex_cfg_rag 6 /\ C03.TieBSpec.ref_classes ex_cfg_rag 2 6 ex_ref_rag /\
  0 < c_ins ex_cfg_rag /\ 0 < c_del ex_cfg_rag /\ 0 < c_sub ex_cfg_rag /\
  C03.SrcRunB.src_loss c03_ex_lsm Gen.C03BSrc.loss_body ex_cfg_rag c03_ex_weight (C03.SrcRunB.red_str RNone) 4 2 6 ex_ref_rag ex_hyp_rag c03_ex_logits
    = Some (Some (C03.TieBModel.loss_tensor [2; 3]%nat
                    (hard_ocd_loss ex_cfg_rag c03_ex_weight RNone 2 ex_ref_rag ex_hyp_rag (map (map c03_ex_lsm) c03_ex_logits)))) /\
  C03.SrcRunB.src_loss c03_ex_lsm C03.SrcRunB.loss_blocks ex_cfg_rag c03_ex_weight (C03.SrcRunB.red_str RNone) 4 2 6 ex_ref_rag ex_hyp_rag c03_ex_logits
    = Some (Some (MiniTorch.OpsC07.mkTn [2; 3]%nat
                    (map MiniTorch.OpsC01.Fq [11 # 8; 4; 5 # 2; 2; 9 # 4; 0]%Q))) /\
  C03.SrcRunB.src_loss c03_ex_lsm Gen.C03BSrc.loss_body ex_cfg_rag c03_ex_weight (C03.SrcRunB.red_str RSum) 4 2 6 ex_ref_rag ex_hyp_rag c03_ex_logits
    = Some (Some (MiniTorch.OpsC07.mkTn [] [MiniTorch.OpsC01.Fq (97 # 8)])) /\
  C03.SrcRunB.src_loss c03_ex_lsm Gen.C03BSrc.loss_body ex_cfg_rag c03_ex_weight (C03.SrcRunB.red_str RMean) 4 2 6 ex_ref_rag ex_hyp_rag c03_ex_logits
    = Some (Some (MiniTorch.OpsC07.mkTn [] [MiniTorch.OpsC01.Fq (19 # 8)])) /\
  C03.SrcRunB.src_loss c03_ex_lsm Gen.C03BSrc.loss_body ex_cfg_rag c03_ex_weight C03.TieBSpec.ex_bad_reduction 4 2 6 ex_ref_rag ex_hyp_rag c03_ex_logits
    = Some None.
Proof.
  split; [split; [reflexivity|intros row [<-|[<-|[]]]; reflexivity]|].
  split; [split; [reflexivity|intros row [<-|[<-|[]]]; reflexivity]|].
  split; [apply Nat.lt_0_succ|]. split; [discriminate|].
  split.
  { split; [reflexivity|]. intros row [<-|[<-|[]]]; (split; [reflexivity|]); intros v [<-|[<-|[<-|[]]]]; reflexivity. }
  split; [reflexivity|].
  split; [intros _ e He; injection He as <-; split; [split; [apply Z.le_refl|reflexivity]|discriminate]|].
  split.
  { intros n Hn t Hin. destruct n as [|[|n]]; [| |exfalso; apply (Nat.lt_irrefl 2); apply (Nat.le_lt_trans _ (S (S n))); [apply le_n_S, le_n_S, Nat.le_0_l|exact Hn]];
      vm_compute in Hin; left; repeat (destruct Hin as [<-|Hin]; [split; [discriminate|reflexivity]|]); destruct Hin. }
  split; [reflexivity|]. split; [reflexivity|]. split; [reflexivity|].
  split; [vm_compute; reflexivity|]. split; [vm_compute; reflexivity|]. split; [vm_compute; reflexivity|].
  split; vm_compute; reflexivity.
Qed.
