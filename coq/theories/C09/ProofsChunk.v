(* C09 — chunk_by_slices over a batch. *)
From Coq Require Import List Arith Bool Lia ZArith ZifyBool ZifyNat.
From PV Require Import C09.Model C09.Spec C09.Proofs C09.Buffers C09.ProofsPad C09.ChunkRow.
Import ListNotations.
Local Open Scope nat_scope.

Section ScatterAt.
  Context {A R : Type}.

  (* scatter into an arbitrary row of width W at positions [a, a+n) *)
  Lemma scatter2_at (rows : list R) (phi : R -> nat -> bool) W (a n : R -> nat) (dst buf : R -> list A) :
    (forall r, In r rows -> length (dst r) = W /\ a r + n r <= W /\ length (buf r) = n r /\
                            forall t, t < W -> phi r t = (a r <=? t) && (t <? a r + n r)) ->
    scatter2 (length rows) W (map (fun r => map (phi r) (seq 0 W)) rows) (map dst rows)
             (concat (map buf rows))
    = Ok (map (fun r => firstn (a r) (dst r) ++ buf r ++ skipn (n r) (skipn (a r) (dst r))) rows).
  Proof.
    intros H.
    rewrite (map_ext_in dst (fun r => firstn (a r) (dst r) ++ firstn (n r) (skipn (a r) (dst r))
                                        ++ skipn (n r) (skipn (a r) (dst r))) rows)
      by (intros; now rewrite !firstn_skipn).
    apply scatter2_seg. intros r Hr. destruct (H r Hr) as (H1 & H2 & H3 & H4).
    rewrite !firstn_length, !skipn_length. split; [lia|]. split; [lia|].
    unfold seg_mask. intros t Ht. rewrite !firstn_length, skipn_length, H4 by assumption. lia.
  Qed.
End ScatterAt.

Section ChunkProofs.
  Context {A : Type}.
  Notation crow := (crow A).
  Variable fill : A.
  Variable md : mode.

  Definition c_seq (r : crow) : list A := firstn (c_len r) (c_cells r).
  Definition c_ok (T : nat) (rows : list crow) : Prop :=
    rows_ok c_cells c_len c_lp c_rp T md rows.
  Definition c_Tp (rows : list crow) : nat :=
    Nat.max (Nat.max (list_max (map c_lp rows)) (list_max (map c_chunk rows)))
            (list_max (map c_rp rows)).
  Definition c_X (r : crow) : list A :=
    firstn (c_slice r) (skipn (Z.to_nat (c_start_ r)) (c_cells r)).
  (* the number of cells the reflect special case moves *)
  Definition c_k (r : crow) : nat :=
    if c_keep r && (c_offset r <=? c_rp r) then c_rp r - c_offset r else 0.
  Definition c_LB (r : crow) : list A := lpart md fill (c_lp r) (c_seq r).
  Definition c_RB (r : crow) : list A := rpart md fill (c_rp r) (c_seq r).

  Section WithRows.
    Variable rows : list crow.
    Variable T : nat.
    Notation Tp := (c_Tp rows).

    Definition c_Z (r : crow) : list A := repeat fill (Tp - c_right r).
    Definition c_row2 (r : crow) : list A := (c_LB r ++ repeat fill (c_slice r)) ++ c_RB r ++ c_Z r.
    Definition c_row3 (r : crow) : list A :=
      [] ++ skipn (c_rp r - c_k r) (c_RB r) ++ skipn (c_k r) (c_row2 r).
    Definition c_out (r : crow) : list A :=
      match md with
      | Reflect => firstn (c_lp r) (c_row3 r) ++ c_X r ++ skipn (c_slice r) (skipn (c_lp r) (c_row3 r))
      | _ => c_LB r ++ c_X r ++ (c_RB r ++ c_Z r)
      end.

    Lemma c_spec (r : crow) :
      ((c_end r <= c_start r)%Z /\ c_lp r = 0 /\ c_rp r = 0 /\ c_chunk r = 0) \/
      ((c_start r < c_end r)%Z /\ c_lp r = Z.to_nat (- c_start r)
       /\ c_rp r = Z.to_nat (c_end r - Z.of_nat (c_len r))
       /\ c_chunk r = Z.to_nat (c_end r - c_start r)).
    Proof.
      unfold c_lp, c_rp, c_empty. destruct (Nat.eqb_spec (c_chunk r) 0) as [E|E]; unfold c_chunk in *.
      - left. lia.
      - right. lia.
    Qed.

    Ltac crow r :=
      let H := fresh "Hspec" in
      pose proof (c_spec r) as H;
      unfold c_k, c_keep, c_rp', c_right, c_mid, c_slice, c_offset, c_start_, c_end_ in *;
      destruct H as [(? & ? & ? & ?) | (? & ? & ? & ?)].

    Hypothesis Hne : rows <> [].
    Hypothesis Hok : c_ok T rows.

    Lemma c_in_bounds r : In r rows -> c_lp r <= Tp /\ c_chunk r <= Tp /\ c_rp r <= Tp /\ c_right r <= Tp.
    Proof.
      intros Hr.
      pose proof (list_max_map_in c_lp rows r Hr). pose proof (list_max_map_in c_chunk rows r Hr).
      pose proof (list_max_map_in c_rp rows r Hr). unfold c_Tp.
      repeat split; try lia. destruct (Hok r Hr) as (_ & HlenT & _).
      crow r; lia.
    Qed.

    Lemma c_seq_length r : In r rows -> length (c_seq r) = c_len r.
    Proof. intros Hr. apply (seqf_length c_cells c_len c_lp c_rp T md rows r Hok Hr). Qed.

    Lemma c_X_length r : In r rows -> length (c_X r) = c_slice r.
    Proof.
      intros Hr. destruct (Hok r Hr) as (Hc & HlenT & _). unfold c_X.
      rewrite firstn_length, skipn_length, Hc. crow r; lia.
    Qed.

    Lemma c_X_in_seq r :
      In r rows -> c_X r = firstn (c_slice r) (skipn (Z.to_nat (c_start_ r)) (c_seq r)).
    Proof.
      intros Hr. destruct (Hok r Hr) as (Hc & HlenT & _). unfold c_X, c_seq.
      apply selected_in_seq. crow r; lia.
    Qed.

    Lemma c_md : md <> OtherMode.
    Proof.
      intros E. destruct rows as [|r rows']; [congruence|].
      destruct (Hok r (or_introl eq_refl)) as (_ & _ & H). rewrite E in H. discriminate.
    Qed.

    Lemma c_LB_length r : In r rows -> length (c_LB r) = c_lp r.
    Proof.
      intros Hr. destruct (Hok r Hr) as (_ & _ & Hl).
      apply (lpart_length md fill (c_lp r) (c_rp r)). now rewrite c_seq_length.
    Qed.

    Lemma c_RB_length r : In r rows -> length (c_RB r) = c_rp r.
    Proof.
      intros Hr. destruct (Hok r Hr) as (_ & _ & Hl).
      apply (rpart_length md fill (c_lp r) (c_rp r)). now rewrite c_seq_length.
    Qed.

    Lemma c_buffers_ok d :
      exists bufs, get_padding_buffers c_cells c_len c_lp c_rp T d md rows = Ok bufs /\
                   (md <> Constant -> bufs = (concat (map c_LB rows), concat (map c_RB rows))).
    Proof.
      pose proof c_md as Hmd. pose proof Hok as Hok'. unfold c_ok in Hok'. unfold c_LB, c_RB. destruct md.
      - eexists; split; [reflexivity|intros H; now contradiction H].
      - eexists; split; [apply (padding_buffers_correct c_cells c_len c_lp c_rp T d fill); auto|reflexivity].
      - eexists; split; [apply (padding_buffers_correct c_cells c_len c_lp c_rp T d fill); auto|reflexivity].
      - congruence.
    Qed.

    Lemma c_row2_length r : In r rows -> length (c_row2 r) = Tp.
    Proof.
      intros Hr. destruct (c_in_bounds r Hr) as (? & ? & ? & ?).
      unfold c_row2, c_Z. rewrite !app_length, !repeat_length, c_LB_length, c_RB_length by assumption.
      unfold c_right in *. lia.
    Qed.

    Lemma c_k_le r : c_k r <= c_rp r.
    Proof. unfold c_k. destruct (c_keep r && (c_offset r <=? c_rp r)); lia. Qed.

    Lemma c_row3_length r : In r rows -> length (c_row3 r) = Tp.
    Proof.
      intros Hr. destruct (c_in_bounds r Hr) as (? & ? & ? & ?). pose proof (c_k_le r).
      unfold c_row3. cbn [app]. rewrite app_length, !skipn_length, c_row2_length, c_RB_length by assumption.
      lia.
    Qed.

    (* what chunk_rows computes, row by row *)
    Theorem chunk_rows_eq d :
      chunk_rows T d fill md rows = Ok (map c_out rows, map c_chunk rows).
    Proof.
      destruct (c_buffers_ok d) as (bufs & Hb & Hbufs).
      unfold chunk_rows, c_out.
      destruct (Nat.eqb_spec (length rows) 0) as [E|_].
      { apply length_zero_iff_nil in E. contradiction. }
      rewrite Hb. cbn [bind]. cbv zeta. fold Tp.
      (* the selected cells *)
      erewrite (map_ext_in c_cells
                  (fun r => firstn (Z.to_nat (c_start_ r)) (c_cells r) ++ c_X r
                            ++ skipn (c_slice r) (skipn (Z.to_nat (c_start_ r)) (c_cells r))) rows)
        by (intros; unfold c_X; now rewrite !firstn_skipn).
      rewrite (select2_seg rows (fun r t => (c_start r <=? Z.of_nat t)%Z && (Z.of_nat t <? c_end_ r)%Z) T).
      2:{ intros r Hr. destruct (Hok r Hr) as (Hc & HlenT & _). pose proof (c_X_length r Hr) as HX.
          rewrite HX, firstn_length, !skipn_length, Hc. split.
          - crow r; lia.
          - unfold seg_mask. intros t Ht. rewrite HX, firstn_length, Hc. crow r; lia. }
      pose proof c_md as Hmd.
      rewrite repeat_map_const.
      destruct (mode_eq_constant md) as [Ec | Hnc].
      - (* constant *)
        rewrite Ec. cbn [bind].
        erewrite (map_ext_in (fun _ => repeat fill Tp)
                    (fun r => repeat fill (c_lp r) ++ repeat fill (c_slice r) ++ repeat fill (Tp - c_mid r)) rows).
        2:{ intros r Hr. destruct (c_in_bounds r Hr) as (? & ? & ? & ?).
            rewrite <- !repeat_app. f_equal. unfold c_right, c_mid in *. lia. }
        unfold between_mask.
        rewrite (scatter2_seg rows (fun r t => (t <? c_mid r) && negb (t <? c_lp r)) Tp _ _ _ c_X).
        2:{ intros r Hr. destruct (c_in_bounds r Hr) as (? & ? & ? & ?). pose proof (c_X_length r Hr).
            rewrite !repeat_length. unfold c_right, c_mid in *. split; [lia|]. split; [lia|]. seg_solve. }
        cbn [bind]. f_equal. f_equal. apply map_ext_in. intros r Hr.
        destruct (c_in_bounds r Hr) as (? & ? & ? & ?).
        unfold c_LB, c_RB, c_Z. rewrite Ec. cbn [lpart rpart]. do 2 f_equal.
        rewrite <- repeat_app. f_equal. unfold c_right, c_mid in *. lia.
      - rewrite (Hbufs Hnc). cbn [fst snd]. rewrite match_not_constant by assumption.
        (* left buffer *)
        erewrite (map_ext_in (fun _ => repeat fill Tp)
                    (fun r => [] ++ repeat fill (c_lp r) ++ repeat fill (Tp - c_lp r)) rows).
        2:{ intros r Hr. destruct (c_in_bounds r Hr) as (? & ? & ? & ?). cbn [app].
            rewrite <- repeat_app. f_equal. lia. }
        unfold lt_mask at 1.
        rewrite (scatter2_seg rows (fun r t => t <? c_lp r) Tp _ _ _ c_LB).
        2:{ intros r Hr. destruct (c_in_bounds r Hr) as (? & ? & ? & ?). pose proof (c_LB_length r Hr).
            rewrite !repeat_length. cbn [length]. split; [lia|]. split; [lia|]. seg_solve. }
        cbn [bind].
        (* right buffer *)
        erewrite (map_ext_in (fun r => [] ++ c_LB r ++ repeat fill (Tp - c_lp r))
                    (fun r => (c_LB r ++ repeat fill (c_slice r)) ++ repeat fill (c_rp r) ++ c_Z r) rows).
        2:{ intros r Hr. destruct (c_in_bounds r Hr) as (? & ? & ? & ?). cbn [app]. unfold c_Z.
            rewrite <- !app_assoc. f_equal. rewrite <- !repeat_app. f_equal. unfold c_right in *. lia. }
        unfold between_mask at 1.
        rewrite (scatter2_seg rows (fun r t => (t <? c_right r) && negb (t <? c_mid r)) Tp _ _ _ c_RB).
        2:{ intros r Hr. destruct (c_in_bounds r Hr) as (? & ? & ? & ?).
            pose proof (c_LB_length r Hr). pose proof (c_RB_length r Hr).
            unfold c_Z. rewrite !app_length, !repeat_length. unfold c_right, c_mid in *.
            split; [lia|]. split; [lia|]. unfold seg_mask. intros. cbn beta.
            rewrite !app_length, !repeat_length. lia. }
        cbn [bind]. fold c_row2.
        destruct md eqn:Emd; try congruence.
        + (* reflect: the special case *)
          cbn [bind].
          erewrite (map_ext_in c_row2
                      (fun r => ((c_LB r ++ repeat fill (c_slice r)) ++ firstn (c_rp r - c_k r) (c_RB r))
                                ++ skipn (c_rp r - c_k r) (c_RB r) ++ c_Z r) rows).
          2:{ intros r Hr. unfold c_row2. rewrite <- !app_assoc. do 2 f_equal.
              rewrite app_assoc, firstn_skipn. reflexivity. }
          rewrite (select2_seg rows
                     (fun r t => ((t <? c_right r) && negb (t <? c_mid r)) && (c_mid r + c_offset r <=? t)
                                 && c_keep r) Tp).
          2:{ intros r Hr. destruct (c_in_bounds r Hr) as (? & ? & ? & ?).
              pose proof (c_LB_length r Hr). pose proof (c_RB_length r Hr). pose proof (c_k_le r).
              unfold c_Z. rewrite !app_length, firstn_length, skipn_length, !repeat_length.
              unfold c_right, c_mid in *. split; [lia|].
              unfold seg_mask. intros t Ht. cbn beta.
              rewrite !app_length, firstn_length, skipn_length, !repeat_length.
              unfold c_k in *. destruct (c_keep r && (c_offset r <=? c_rp r)) eqn:Ek; lia. }
          erewrite (map_ext_in (fun r => ((c_LB r ++ repeat fill (c_slice r)) ++ firstn (c_rp r - c_k r) (c_RB r))
                                          ++ skipn (c_rp r - c_k r) (c_RB r) ++ c_Z r)
                      (fun r => [] ++ firstn (c_k r) (c_row2 r) ++ skipn (c_k r) (c_row2 r)) rows).
          2:{ intros r Hr. cbn [app]. rewrite firstn_skipn. unfold c_row2. rewrite <- !app_assoc. do 2 f_equal.
              rewrite app_assoc, firstn_skipn. reflexivity. }
          rewrite (scatter2_seg rows
                     (fun r t => ((Z.of_nat t <? c_rp' r)%Z && c_keep r) && negb (t <? c_mid r)) Tp _ _ _
                     (fun r => skipn (c_rp r - c_k r) (c_RB r))).
          2:{ intros r Hr. destruct (c_in_bounds r Hr) as (? & ? & ? & ?).
              pose proof (c_RB_length r Hr). pose proof (c_k_le r). pose proof (c_row2_length r Hr).
              destruct (Hok r Hr) as (_ & HlenT & _).
              rewrite firstn_length, !skipn_length. cbn [length]. split; [lia|]. split; [lia|].
              unfold seg_mask. intros t Ht. cbn beta. rewrite firstn_length. cbn [length].
              unfold c_k in *. destruct (c_keep r && (c_offset r <=? c_rp r)) eqn:Ek; crow r; lia. }
          cbn [bind]. fold c_row3.
          unfold between_mask.
          rewrite (scatter2_at rows (fun r t => (t <? c_mid r) && negb (t <? c_lp r)) Tp c_lp c_slice c_row3 c_X).
          2:{ intros r Hr. destruct (c_in_bounds r Hr) as (? & ? & ? & ?).
              rewrite c_row3_length, c_X_length by assumption. unfold c_right, c_mid in *.
              repeat split; try lia. }
          cbn [bind]. reflexivity.
        + (* replicate *)
          cbn [bind].
          erewrite (map_ext_in c_row2 (fun r => c_LB r ++ repeat fill (c_slice r) ++ (c_RB r ++ c_Z r)) rows)
            by (intros; unfold c_row2; now rewrite <- !app_assoc).
          unfold between_mask.
          rewrite (scatter2_seg rows (fun r t => (t <? c_mid r) && negb (t <? c_lp r)) Tp _ _ _ c_X).
          2:{ intros r Hr. destruct (c_in_bounds r Hr) as (? & ? & ? & ?).
              pose proof (c_LB_length r Hr). pose proof (c_RB_length r Hr). pose proof (c_X_length r Hr).
              unfold c_Z. rewrite !app_length, !repeat_length. unfold c_right, c_mid in *.
              split; [lia|]. split; [lia|]. unfold seg_mask. intros. cbn beta. rewrite repeat_length. lia. }
          cbn [bind]. reflexivity.
    Qed.

    (* every row, cut at the reported length, is the slice of the padded sequence *)
    Theorem c_out_correct r :
      In r rows ->
      firstn (c_chunk r) (c_out r) = chunk1 md fill (c_seq r) (c_start r) (c_end r)
      /\ length (c_out r) = Tp /\ c_chunk r <= Tp.
    Proof.
      intros Hr. pose proof c_md as Hmd.
      destruct (c_in_bounds r Hr) as (HlpT & HchT & HrpT & HrT).
      pose proof (c_LB_length r Hr) as HLB. pose proof (c_RB_length r Hr) as HRB.
      pose proof (c_X_length r Hr) as HX. pose proof (c_seq_length r Hr) as Hs.
      pose proof (c_row3_length r Hr) as H3. pose proof (c_row2_length r Hr) as H2.
      destruct (Hok r Hr) as (Hc & HlenT & Hleg).
      split; [|split; [|assumption]].
      2:{ unfold c_out. destruct md; try congruence.
          - unfold c_Z. rewrite !app_length, repeat_length, HLB, HRB, HX. unfold c_right in *. lia.
          - rewrite !app_length, firstn_length, !skipn_length, H3, HX. unfold c_right in *. lia.
          - unfold c_Z. rewrite !app_length, repeat_length, HLB, HRB, HX. unfold c_right in *. lia. }
      destruct (c_spec r) as [(Hemp & E1 & E2 & E3) | (Hnon & E1 & E2 & E3)].
      { (* empty or inverted slice *)
        rewrite E3. unfold chunk1. destruct (Z.leb_spec (c_end r) (c_start r)); [reflexivity|lia]. }
      assert (Hplain : (c_start r <= Z.of_nat (c_len r))%Z \/ md <> Reflect ->
                       firstn (c_chunk r) (c_LB r ++ c_X r ++ c_RB r ++ c_Z r)
                       = chunk1 md fill (c_seq r) (c_start r) (c_end r)).
      { intros Hcase. rewrite E3.
        apply (row_plain md fill (c_seq r) (c_LB r) (c_RB r) (c_X r) (c_Z r)); try assumption.
        - unfold c_LB. now rewrite E1.
        - unfold c_RB. now rewrite E2, Hs.
        - now rewrite HLB, E1.
        - now rewrite HRB, E2, Hs.
        - rewrite Hs. apply (c_X_in_seq r Hr).
        - rewrite Hs. destruct Hcase as [Hin | Hnr]; [now left|right].
          unfold c_RB. rewrite <- E2. destruct md; try congruence; eexists; reflexivity. }
      unfold c_out. destruct md eqn:Emd; try congruence.
      - apply Hplain. right. discriminate.
      - (* reflect *)
        destruct (Z_le_gt_dec (c_start r) (Z.of_nat (c_len r))) as [Hin | Hout].
        + (* not moved: k = 0 and the row is the plain one *)
          assert (Hk : c_k r = 0).
          { unfold c_k, c_keep, c_offset, c_start_. destruct (_ && _) eqn:Ek; lia. }
          unfold c_row3. rewrite Hk, Nat.sub_0_r. cbn [skipn app].
          rewrite skipn_all2 by lia. cbn [app].
          unfold c_row2. rewrite <- !app_assoc.
          rewrite (firstn_app_exact (c_LB r)) by lia. rewrite (skipn_app_exact (c_LB r)) by lia.
          rewrite (skipn_app_exact (repeat fill (c_slice r))) by (now rewrite repeat_length).
          apply Hplain. now left.
        + (* moved *)
          assert (Hlp0 : c_lp r = 0) by lia.
          assert (Hsl0 : c_slice r = 0) by (unfold c_slice, c_start_, c_end_; lia).
          assert (Hk : c_k r = c_chunk r /\ c_rp r - c_k r = c_offset r).
          { unfold c_k, c_keep, c_offset, c_start_ in *. destruct (_ && _) eqn:Ek; lia. }
          destruct Hk as (Hk1 & Hk2).
          assert (c_LB r = []) as HLnil by (apply length_zero_nil; lia).
          assert (c_X r = []) as HXnil by (apply length_zero_nil; lia).
          rewrite Hlp0, Hsl0, HXnil. cbn [firstn skipn app].
          unfold c_row3, c_row2. rewrite HLnil, Hsl0, Hk2, Hk1. cbn [repeat app].
          rewrite E3. unfold c_offset, c_start_.
          replace (Z.to_nat (Z.max (c_start r) 0 - Z.of_nat (c_len r)))
            with (Z.to_nat (c_start r - Z.of_nat (length (c_seq r)))) by lia.
          apply (row_moved fill (c_seq r) (c_RB r) (c_Z r)); try lia.
          unfold c_RB. now rewrite Emd, E2, Hs.
      - apply Hplain. right. discriminate.
    Qed.
  End WithRows.
End ChunkProofs.
