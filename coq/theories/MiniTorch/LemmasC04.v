(* MiniTorch, unit C04 — the algebra of OpsC04.v needed by the C04 tie (no new definitions of meaning):
   tabulated tensors, and each operation on tabulated arguments. *)
From Coq Require Import List ZArith QArith Bool Arith Lia.
From PV Require Import MiniPy.Syntax MiniTorch.Ops MiniTorch.Lemmas MiniTorch.OpsC04.
Import ListNotations.
Local Open Scope nat_scope.

(* ---- lists ------------------------------------------------------------------------------------ *)
Lemma map_nth_seq : forall {A} (l : list A) d, map (fun k => nth k l d) (seq 0 (length l)) = l.
Proof.
  intros A l d. apply nth_ext with (d := d) (d' := d); [now rewrite map_length, seq_length|].
  intros i Hi. rewrite map_length, seq_length in Hi. now rewrite Lemmas.nth_map_seq.
Qed.

Lemma tl2_length : forall {A} n m (f : nat -> nat -> A), length (tl2 n m f) = n * m.
Proof.
  intros. unfold tl2. rewrite (length_flat_map_const _ _ m), seq_length; [reflexivity|].
  intros a _. now rewrite map_length, seq_length.
Qed.

Lemma tl3_unfold : forall {A} a b c (f : nat -> nat -> nat -> A),
  tl3 a b c f = flat_map (fun i => tl2 b c (f i)) (seq 0 a).
Proof. reflexivity. Qed.

Lemma tl3_length : forall {A} a b c (f : nat -> nat -> nat -> A), length (tl3 a b c f) = a * (b * c).
Proof.
  intros. rewrite tl3_unfold, (length_flat_map_const _ _ (b * c)), seq_length; [reflexivity|].
  intros i _. apply tl2_length.
Qed.

Lemma nth_tl2 : forall {A} n m (f : nat -> nat -> A) i j d, i < n -> j < m -> nth (i * m + j) (tl2 n m f) d = f i j.
Proof.
  intros A n m f i j d Hi Hj. unfold tl2.
  rewrite (nth_flat_map_const _ _ m i j 0 d).
  - rewrite seq_nth by assumption. cbn [Nat.add]. now apply Lemmas.nth_map_seq.
  - intros a _. now rewrite map_length, seq_length.
  - now rewrite seq_length.
  - assumption.
Qed.

Lemma nth_tl3 : forall {A} a b c (f : nat -> nat -> nat -> A) i j k d, i < a -> j < b -> k < c ->
  nth ((i * b + j) * c + k) (tl3 a b c f) d = f i j k.
Proof.
  intros A a b c f i j k d Hi Hj Hk. rewrite tl3_unfold.
  replace ((i * b + j) * c + k) with (i * (b * c) + (j * c + k)) by lia.
  rewrite (nth_flat_map_const _ _ (b * c) i (j * c + k) 0 d).
  - rewrite seq_nth by assumption. cbn [Nat.add]. now apply nth_tl2.
  - intros x _. apply tl2_length.
  - now rewrite seq_length.
  - nia.
Qed.

Lemma tl2_ext : forall {A} n m (f g : nat -> nat -> A),
  (forall i j, i < n -> j < m -> f i j = g i j) -> tl2 n m f = tl2 n m g.
Proof.
  intros A n m f g H. unfold tl2. apply flat_map_ext_in. intros i Hi. apply in_seq in Hi.
  apply map_ext_in. intros j Hj. apply in_seq in Hj. apply H; lia.
Qed.

Lemma tl3_ext : forall {A} a b c (f g : nat -> nat -> nat -> A),
  (forall i j k, i < a -> j < b -> k < c -> f i j k = g i j k) -> tl3 a b c f = tl3 a b c g.
Proof.
  intros A a b c f g H. rewrite !tl3_unfold. apply flat_map_ext_in. intros i Hi. apply in_seq in Hi.
  apply tl2_ext. intros j k Hj Hk. apply H; lia.
Qed.

Lemma map_tl2 : forall {A B} (h : A -> B) n m f, map h (tl2 n m f) = tl2 n m (fun i j => h (f i j)).
Proof.
  intros. unfold tl2. rewrite map_flat_map. apply flat_map_ext_in. intros i _. now rewrite map_map.
Qed.

Lemma map_tl3 : forall {A B} (h : A -> B) a b c f, map h (tl3 a b c f) = tl3 a b c (fun i j k => h (f i j k)).
Proof.
  intros. rewrite !tl3_unfold, map_flat_map. apply flat_map_ext_in. intros i _. apply map_tl2.
Qed.

Lemma in_tl2 : forall {A} n m (f : nat -> nat -> A) x, List.In x (tl2 n m f) -> exists i j, i < n /\ j < m /\ x = f i j.
Proof.
  intros A n m f x H. unfold tl2 in H. apply in_flat_map in H. destruct H as [i [Hi H]].
  apply in_map_iff in H. destruct H as [j [E Hj]]. apply in_seq in Hi. apply in_seq in Hj.
  exists i, j. repeat split; [lia|lia|now symmetry].
Qed.

Lemma in_tl3 : forall {A} a b c (f : nat -> nat -> nat -> A) x, List.In x (tl3 a b c f) ->
  exists i j k, i < a /\ j < b /\ k < c /\ x = f i j k.
Proof.
  intros A a b c f x H. rewrite tl3_unfold in H. apply in_flat_map in H. destruct H as [i [Hi H]].
  apply in_seq in Hi. apply in_tl2 in H. destruct H as [j [k [Hj [Hk E]]]].
  exists i, j, k. repeat split; try lia. exact E.
Qed.

Lemma map_opt_ext_in : forall {A B} (h : A -> option B) (g : A -> B) l,
  (forall x, List.In x l -> h x = Some (g x)) -> map_opt h l = Some (map g l).
Proof.
  induction l as [|x l IH]; intros H; [reflexivity|]. cbn [map_opt map].
  rewrite (H x) by now left. rewrite IH by (intros; apply H; now right). reflexivity.
Qed.

Lemma map_opt_tl2 : forall {A B} (h : A -> option B) n m f g,
  (forall i j, i < n -> j < m -> h (f i j) = Some (g i j)) -> map_opt h (tl2 n m f) = Some (tl2 n m g).
Proof.
  intros A B h n m f g H.
  assert (E : tl2 n m g = map (fun x => match h x with Some y => y | None => g 0 0 end) (tl2 n m f)).
  { rewrite map_tl2. apply tl2_ext. intros i j Hi Hj. now rewrite H. }
  rewrite E. apply map_opt_ext_in. intros x Hx. apply in_tl2 in Hx. destruct Hx as [i [j [Hi [Hj ->]]]].
  now rewrite H.
Qed.

Lemma map_opt_tl3 : forall {A B} (h : A -> option B) a b c f g,
  (forall i j k, i < a -> j < b -> k < c -> h (f i j k) = Some (g i j k)) ->
  map_opt h (tl3 a b c f) = Some (tl3 a b c g).
Proof.
  intros A B h a b c f g H.
  assert (E : tl3 a b c g = map (fun x => match h x with Some y => y | None => g 0 0 0 end) (tl3 a b c f)).
  { rewrite map_tl3. apply tl3_ext. intros i j k Hi Hj Hk. now rewrite H. }
  rewrite E. apply map_opt_ext_in. intros x Hx. apply in_tl3 in Hx.
  destruct Hx as [i [j [k [Hi [Hj [Hk ->]]]]]]. now rewrite H.
Qed.

Lemma sequence_tl2 : forall {A} n m (f : nat -> nat -> option A) g,
  (forall i j, i < n -> j < m -> f i j = Some (g i j)) -> sequence (tl2 n m f) = Some (tl2 n m g).
Proof. intros. unfold sequence. now apply map_opt_tl2. Qed.

Lemma sequence_tl3 : forall {A} a b c (f : nat -> nat -> nat -> option A) g,
  (forall i j k, i < a -> j < b -> k < c -> f i j k = Some (g i j k)) -> sequence (tl3 a b c f) = Some (tl3 a b c g).
Proof. intros. unfold sequence. now apply map_opt_tl3. Qed.

Lemma forallb_tl2 : forall {A} (p : A -> bool) n m f,
  (forall i j, i < n -> j < m -> p (f i j) = true) -> forallb p (tl2 n m f) = true.
Proof.
  intros. apply forallb_forall. intros x Hx. apply in_tl2 in Hx. destruct Hx as [i [j [Hi [Hj ->]]]]. auto.
Qed.

Lemma forallb_tl3 : forall {A} (p : A -> bool) a b c f,
  (forall i j k, i < a -> j < b -> k < c -> p (f i j k) = true) -> forallb p (tl3 a b c f) = true.
Proof.
  intros. apply forallb_forall. intros x Hx. apply in_tl3 in Hx.
  destruct Hx as [i [j [k [Hi [Hj [Hk ->]]]]]]. auto.
Qed.

(* rows of equal length, concatenated *)
Lemma concat_regular : forall {A} (rows : list (list A)) m d,
  Forall (fun r => length r = m) rows ->
  concat rows = tl2 (length rows) m (fun i j => nth j (nth i rows []) d).
Proof.
  intros A rows m d H. unfold tl2.
  rewrite <- (map_nth_seq rows []) at 1. rewrite <- flat_map_concat_map.
  apply flat_map_ext_in. intros i Hi. apply in_seq in Hi.
  assert (Hl : length (nth i rows []) = m).
  { eapply Forall_forall in H; [exact H|]. apply nth_In. lia. }
  rewrite <- Hl. symmetry. apply map_nth_seq.
Qed.

Lemma concat_flat_map : forall {A B} (g : A -> list (list B)) l,
  concat (flat_map g l) = flat_map (fun x => concat (g x)) l.
Proof. induction l as [|x l IH]; cbn; [reflexivity|]. now rewrite concat_app, IH. Qed.

Lemma concat_tl2 : forall {A} n m c (g : nat -> nat -> list A) d,
  (forall i j, i < n -> j < m -> length (g i j) = c) ->
  concat (tl2 n m g) = tl3 n m c (fun i j k => nth k (g i j) d).
Proof.
  intros A n m c g d H. unfold tl2, tl3. rewrite concat_flat_map.
  apply flat_map_ext_in. intros i Hi. apply in_seq in Hi.
  rewrite <- flat_map_concat_map.
  apply flat_map_ext_in. intros j Hj. apply in_seq in Hj.
  rewrite <- (H i j) by lia. symmetry. apply map_nth_seq.
Qed.
