(* C08, second tie - the wrapper `spec_augment` (unit C08BSrc, sa_body) in a configuration WITHOUT warp
   (max_time_warp = max_freq_warp = 0), training mode: draw (the translated `spec_augment_draw_parameters` of the first
   tie, a nested run under ext08) then apply (the translated `spec_augment_apply_parameters`, a nested run under extA).
   Composition of Tie.body_run (first tie) with TieBApply.apply_nowarp_run: the returned tensor is, batch element by
   batch element, Model.apply_masks on the masks Model.draw draws from the variates the oracle served. *)
From Coq Require Import ZArith QArith Qround List String Bool Arith Lia.
From PV Require Import MiniPy.Syntax MiniPy.Interp MiniTorch.Ops MiniTorch.OpsC08 MiniTorch.LemmasC08.
From PV Require Import MiniTorch.OpsC08B MiniTorch.LemmasC08B.
From PV Require Import Gen.C08Src Gen.C08BSrc C08.SrcRun C08.TieLib C08.SrcRunB C08.TieBLib C08.TieBMask C08.TieBApply.
From PV Require C08.Model C08.Tie C08.TieBlocks C08.TieBlocks2 C08.TieModel C08.ProofsRound MiniTorch.Lemmas.
Import ListNotations.
Local Open Scope string_scope.
Local Open Scope list_scope.

#[local] Arguments Z.of_nat : simpl never.
#[local] Arguments cmp_eval : simpl never.
#[local] Arguments numel : simpl never.
#[local] Arguments draw_body : simpl never.
#[local] Arguments apply_body : simpl never.

Lemma run_exec ext body vars0 v st : Interp.run ext body vars0 = Ok v st ->
  exec ext body (mkState vars0 []) = Ok (CReturn v) st \/ (exec ext body (mkState vars0 []) = Ok CNormal st /\ v = VNone).
Proof.
  unfold Interp.run. destruct (exec ext body (mkState vars0 [])) as [[|w] s|n s|w]; intros H; inversion H; subst; auto.
Qed.

(* a mask group as the draw returns it: two (N, M) long tensors when enabled, two empty float tensors otherwise *)
Definition tm_of (en : bool) (N M : nat) (g0 g : nat -> nat -> Z) : mspec :=
  if en then (if Nat.eqb (numel [N; M]) 0 then MOff (PL (T2 N M g0)) (PL (T2 N M g)) else MOn M g0 g)
  else MOff (PF empty0) (PF empty0).

Lemma enc_tm_p0 en N M g0 g : enc_par (mspec_p0 N (tm_of en N M g0 g)) = if en then enc_l (T2 N M g0) else enc_f empty0.
Proof. unfold tm_of. destruct en; [|reflexivity]. destruct (Nat.eqb (numel [N; M]) 0); reflexivity. Qed.
Lemma enc_tm_p en N M g0 g : enc_par (mspec_p N (tm_of en N M g0 g)) = if en then enc_l (T2 N M g) else enc_f empty0.
Proof. unfold tm_of. destruct en; [|reflexivity]. destruct (Nat.eqb (numel [N; M]) 0); reflexivity. Qed.

Lemma tm_of_ok en N M g0 g : mspec_ok N (tm_of en N M g0 g).
Proof.
  unfold tm_of. destruct en; [|reflexivity]. destruct (Nat.eqb (numel [N; M]) 0) eqn:E; cbn [mspec_ok par_on shp T2]; [|exact E].
  now rewrite E.
Qed.

Lemma tm_of_bands en N M g0 g n : (n < N)%nat -> (en = true -> M <> 0%nat) ->
  mspec_bands (tm_of en N M g0 g) n = if en then Some (map (fun m => (g0 n m, g n m)) (seq 0 M)) else None.
Proof.
  intros Hn HM. unfold tm_of. destruct en; [|reflexivity]. specialize (HM eq_refl).
  destruct (Nat.eqb (numel [N; M]) 0) eqn:E; [|reflexivity].
  apply Nat.eqb_eq in E. unfold numel in E. cbn [fold_right] in E. exfalso. nia.
Qed.

Lemma ext_nested_draw a spl gso nested args st :
  ext_core a spl gso nested "spec_augment_draw_parameters" args [] st
  = match nested "spec_augment_draw_parameters" args st with Some o => o | None => Stuck ("extB: " ++ "spec_augment_draw_parameters") end.
Proof. reflexivity. Qed.

Lemma ext_nested_apply a spl gso nested args st :
  ext_core a spl gso nested "spec_augment_apply_parameters" args [] st
  = match nested "spec_augment_apply_parameters" args st with Some o => o | None => Stuck ("extB: " ++ "spec_augment_apply_parameters") end.
Proof. reflexivity. Qed.

Lemma check_ok a spl gso nested N T F eps d lens st : lens_okB N T lens ->
  ext_core a spl gso nested "_spec_augment_check_input" [enc_c eps (mkTn [N; T; F] d); lengths_val lens] [] st = Ok VNone st.
Proof.
  intros H. destruct lens as [l|]; unfold lengths_val.
  - destruct H as [HN HR]. subst N. now apply extB_check_lens.
  - apply extB_check_none.
Qed.

Section Sa.
  Variable a : Model.arith.
  Hypothesis laws : ProofsRound.rounding_laws a.
  Variable spl : nat -> list val -> list Q.
  Variable gso : nat -> list val -> list val.
  Variable rnd : nat -> nat -> Q.
  Variables (eps : Q) (c : Model.cfg) (N T F : nat) (cells : nat -> nat -> nat -> val) (order : Z) (lens : option (list Z)).
  Hypothesis Hl : TieBlocks2.lens_ok N T lens.
  Hypothesis HWt : Model.nonzero (Model.c_Wt c) = false.
  Hypothesis HWf : Model.nonzero (Model.c_Wf c) = false.

  Notation E := (PF empty0).

  Lemma out_val_pars : exists g0 g h0 h,
    Tie.out_val a rnd eps c N T F lens
    = enc_pars (pars_nowarp N E E E E (tm_of (tmask_enabled c) N (Model.c_nt c) g0 g) (tm_of (fmask_enabled c) N (Model.c_nf c) h0 h))
    /\ forall n, Model.p_tm (Tie.src_params a rnd eps c T F lens n)
                 = (if tmask_enabled c then Some (map (fun m => (g0 n m, g n m)) (seq 0 (Model.c_nt c))) else None)
              /\ Model.p_fm (Tie.src_params a rnd eps c T F lens n)
                 = (if fmask_enabled c then Some (map (fun m => (h0 n m, h n m)) (seq 0 (Model.c_nf c))) else None).
  Proof.
    do 4 eexists. split.
    - unfold Tie.out_val, Tie.out_w0, Tie.out_w, Tie.out_v0, Tie.out_v, Tie.out_t0, Tie.out_t, Tie.out_f0, Tie.out_f.
      rewrite HWt, HWf. unfold enc_pars, pars_nowarp. cbn [q_w0 q_w q_v0 q_v q_t0 q_t q_f0 q_f enc_par].
      rewrite !enc_tm_p0, !enc_tm_p. reflexivity.
    - intros n. unfold Tie.src_params. cbn [Model.p_tm Model.p_fm]. split; reflexivity.
  Qed.

  Theorem sa_nowarp_run :
    exists st out,
      run_sa a spl gso rnd eps (T3 N T F cells) c order lens true = Ok (enc_c eps (mkTn [N; T; F] out)) st
      /\ forall n, (n < N)%nat ->
           let p := Model.draw (pyq a) eps c (Z.of_nat F) (len_of T lens n) (uv_of rnd c n) in
           img_of VNone T F out n
           = Model.apply_masks (VQ 0) (Model.p_tm p) (Model.p_fm p) (img_of VNone T F (tabl3 N T F cells) n).
  Proof.
    destruct out_val_pars as [g0 [g [h0 [h [EV EP]]]]].
    set (tm := tm_of (tmask_enabled c) N (Model.c_nt c) g0 g) in *.
    set (fm := tm_of (fmask_enabled c) N (Model.c_nf c) h0 h) in *.
    pose proof (Tie.body_run a laws rnd eps c N T F lens Hl) as BR.
    match type of BR with _ = Ok _ ?s => set (sd := s) in * end.
    assert (ED : exec (ext08 a rnd) draw_body (mkState (draw_vars eps c N T F lens) [])
                 = Ok (CReturn (Tie.out_val a rnd eps c N T F lens)) sd
                 \/ (exec (ext08 a rnd) draw_body (mkState (draw_vars eps c N T F lens) []) = Ok CNormal sd
                     /\ Tie.out_val a rnd eps c N T F lens = VNone)) by (apply run_exec; exact BR).
    assert (Hlb : lens_okB N T lens) by exact Hl.
    assert (Eoff : (par_on E && par_on E)%bool = false) by reflexivity.
    (* the apply call, from the state the wrapper is in *)
    destruct (apply_nowarp_run a spl gso (nestedA a spl gso) eps N T F cells E E E E tm fm order lens (events sd)
                Hlb Eoff Eoff (tm_of_ok _ _ _ _ _) (tm_of_ok _ _ _ _ _)) as [vsA EA].
    rewrite <- EV in EA.
    eexists. exists (tabl3 N T F (filled (mspec_t tm) (mspec_f fm) cells)). split.
    - unfold run_sa, Interp.run, sa_body, sa_vars, globalsB.
      (* statement 1: the argument check *)
      erewrite exec_seq_okB.
      2:{ cbn. unfold T3, extS. rewrite (check_ok a spl gso _ N T F eps _ lens _ Hlb). reflexivity. }
      (* statement 2: training *)
      erewrite exec_seq_okB by (cbn; reflexivity).
      (* statement 3: the draw *)
      erewrite exec_seq_okB.
      2:{ cbn. unfold extS. rewrite ext_nested_draw. unfold nestedS. cbn [is String.eqb Ascii.eqb Bool.eqb].
          unfold feats_for_draw. rewrite dec_c_enc. cbn [shp T3 bind_args draw_body_params option_map events vars].
          change (exec (ext08 a rnd) draw_body _) with (exec (ext08 a rnd) draw_body (mkState (draw_vars eps c N T F lens) [])).
          destruct ED as [ED|[ED EN]]; rewrite ED; cbn; [reflexivity|]. rewrite <- EN. reflexivity. }
      (* statement 4: the apply *)
      cbn. unfold extS. rewrite ext_nested_apply. unfold nestedS. cbn [is String.eqb Ascii.eqb Bool.eqb].
      unfold extA, call_fn. cbn [bind_args apply_body_params option_map events vars].
      change (exec (ext_core a spl gso (nestedA a spl gso)) apply_body _)
        with (exec (ext_core a spl gso (nestedA a spl gso)) apply_body
                (mkState (apply_vars eps (T3 N T F cells) (Tie.out_val a rnd eps c N T F lens) order lens) (events sd))).
      rewrite EA. reflexivity.
    - intros n Hn p. rewrite (filled_is_apply_masks N T F cells tm fm n Hn).
      destruct (EP n) as [Et Ef].
      destruct (Tie.src_params_model a laws rnd eps c N T F lens Hl n) as [_ [_ [Pt Pf]]].
      unfold p. rewrite <- Pt, <- Pf, Et, Ef. unfold tm, fm.
      rewrite !tm_of_bands; try exact Hn; [reflexivity| |].
      + unfold fmask_enabled. intros H. destruct (Nat.eqb (Model.c_nf c) 0) eqn:E0; [now rewrite andb_false_r in H|]. now apply Nat.eqb_neq.
      + unfold tmask_enabled. intros H. destruct (Nat.eqb (Model.c_nt c) 0) eqn:E0; [now rewrite andb_false_r, andb_false_l in H|]. now apply Nat.eqb_neq.
  Qed.
End Sa.
