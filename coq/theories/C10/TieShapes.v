(* C10 — the tie, part 3: what the interpreted source of `chunk_token_sequences_by_slices` does on the shapes the
   model's input type cannot express - for ARBITRARY tensors (any data): RuntimeError when refs is neither 2- nor
   3-dimensional, when its last dimension is not 3, when slices is not (N, 2), when ref_lens is not (N,); an (N, 0)
   tensor and N zeros for token-only (2-D) refs.  Same technique as Tie.v (symbolic run, statement by statement). *)
From Coq Require Import ZArith List String Bool Arith Lia ZifyBool ZifyNat.
From PV Require Import MiniPy.Syntax MiniPy.Interp MiniTorch.Ops MiniTorch.Value MiniTorch.Lemmas.
From PV Require Import MiniTorch.OpsC10 MiniTorch.ValueC10 MiniTorch.LemmasC10 Gen.C10Src.
From PV Require Import C10.SrcRun.
From PV Require Import C10.Model C10.Spec C10.Lists C10.ProofsTokens C10.Proofs C10.TieModel C10.Tie.
Import ListNotations.
Local Open Scope string_scope.
#[local] Arguments enc10 : simpl never.
#[local] Arguments dec10 : simpl never.
#[local] Arguments OpsC10.size : simpl never.
#[local] Arguments OpsC10.ndim : simpl never.
#[local] Arguments OpsC10.new_empty : simpl never.
#[local] Arguments OpsC10.new_zeros : simpl never.
#[local] Arguments Z.of_nat : simpl never.
#[local] Arguments then_ : simpl never.

(* ---- malformed shapes and 2-D refs: arbitrary tensors ------------------------------------------------------------ *)
Lemma size_of_shape : forall x s z k, ishape x = s -> wrap_dim (List.length s) z = Some k ->
  OpsC10.size x z = Some (nth k s 0%nat).
Proof. intros x s z k Hs Hk. unfold OpsC10.size, ndim. now rewrite Hs, Hk. Qed.

Lemma ndim_of_shape : forall x s, ishape x = s -> ndim x = List.length s.
Proof. intros x s Hs. unfold ndim. now rewrite Hs. Qed.

Ltac gstep H :=
  tstep; rewrite ?(ndim_of_shape _ _ H), ?(size_of_shape _ _ 0%Z 0%nat H eq_refl), ?(size_of_shape _ _ 1%Z 1%nat H eq_refl),
    ?(size_of_shape _ _ 2%Z 2%nat H eq_refl).

(* refs that is neither 2- nor 3-dimensional *)
Theorem tokens_raises_ndim : forall refs slices rl partial retain,
  ndim refs <> 2%nat -> ndim refs <> 3%nat ->
  run_tokens_raw refs slices rl partial retain
  = Exc runtime_error (mkState (tokens_vars_raw refs slices rl partial retain) []).
Proof.
  intros refs slices rl partial retain H2 H3. unfold run_tokens_raw, Interp.run, chunk_tokens_body, tokens_vars_raw.
  open_seq. repeat (progress tstep).
  replace (Z.of_nat (ndim refs) =? 2)%Z with false by lia. repeat (progress tstep).
  replace (Z.of_nat (ndim refs) =? 3)%Z with false by lia. reflexivity.
Qed.

(* 3-dimensional refs whose last dimension is not 3 *)
Theorem tokens_raises_last_dim : forall refs slices rl partial retain n m k,
  ishape refs = [n; m; k] -> k <> 3%nat ->
  run_tokens_raw refs slices rl partial retain
  = Exc runtime_error (mkState (tokens_vars_raw refs slices rl partial retain) []).
Proof.
  intros refs slices rl partial retain n m k Hs Hk. unfold run_tokens_raw, Interp.run, chunk_tokens_body, tokens_vars_raw.
  open_seq. repeat (progress (gstep Hs)).
  replace (Z.of_nat k =? 3)%Z with false by lia. reflexivity.
Qed.

(* token-only (2-D) refs: an (N, 0) tensor and N zeros, whatever the other arguments are *)
Theorem tokens_2d : forall refs slices rl partial retain N R,
  ishape refs = [N; R] ->
  exists st, run_tokens_raw refs slices rl partial retain
             = Ok (VTuple [enc10 (new_empty [N; 0%nat]); enc10 (new_zeros [N])]) st.
Proof.
  intros refs slices rl partial retain N R Hs. unfold run_tokens_raw, Interp.run, chunk_tokens_body, tokens_vars_raw.
  open_seq. repeat (progress (gstep Hs)). rewrite then_return. eexists. reflexivity.
Qed.

(* slices that is not (N, 2) *)
Theorem tokens_raises_slices : forall refs ss sd rl partial retain N R,
  ishape refs = [N; R; 3%nat] -> ss <> [N; 2%nat] ->
  exists st, run_tokens_raw refs (mkIT ss sd) rl partial retain = Exc runtime_error st.
Proof.
  intros refs ss sd rl partial retain N R Hs Hne. unfold run_tokens_raw, Interp.run, chunk_tokens_body, tokens_vars_raw.
  open_seq. repeat (progress (gstep Hs)). close_stmt.
  open_seq. repeat (progress (gstep Hs)). close_stmt.
  open_seq. repeat (progress (gstep Hs)).
  destruct ss as [|a [|b [|c ss']]]; repeat (progress tstep); rewrite ?andb_false_r; repeat (progress tstep);
    try (eexists; reflexivity).
  destruct (Z.eqb_spec (Z.of_nat a) (Z.of_nat N)); repeat (progress tstep); try (eexists; reflexivity).
  destruct (Z.eqb_spec (Z.of_nat b) 2); repeat (progress tstep); try (eexists; reflexivity).
  exfalso. apply Hne. f_equal; [lia|f_equal; lia].
Qed.

(* ref_lens that is not (N,) *)
Theorem tokens_raises_ref_lens : forall refs slices ls ld partial retain N R,
  ishape refs = [N; R; 3%nat] -> ishape slices = [N; 2%nat] -> ls <> [N] ->
  exists st, run_tokens_raw refs slices (Some (mkIT ls ld)) partial retain = Exc runtime_error st.
Proof.
  intros refs slices ls ld partial retain N R Hs Hsl Hne. unfold run_tokens_raw, Interp.run, chunk_tokens_body, tokens_vars_raw, opt_tensor.
  open_seq. repeat (progress (gstep Hs)). close_stmt.
  open_seq. repeat (progress (gstep Hs)). close_stmt.
  open_seq. repeat (progress (gstep Hs)). rewrite Hsl. repeat (progress tstep). close_stmt.
  open_seq. repeat (progress (gstep Hs)). close_stmt.
  open_seq. repeat (progress (gstep Hs)).
  destruct ls as [|a [|b ls']]; repeat (progress tstep); rewrite ?andb_false_r; repeat (progress tstep);
    try (eexists; reflexivity).
  destruct (Z.eqb_spec (Z.of_nat a) (Z.of_nat N)); repeat (progress tstep); try (eexists; reflexivity).
  exfalso. apply Hne. f_equal. lia.
Qed.
