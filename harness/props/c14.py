"""C14 - batching loses nothing: correspondence between /repo's bucket sampler, loaders and collate
functions and PV.C14.Model, judged by PV.C14.Spec when they differ."""
import itertools
import json
import os
import shutil
import warnings

import numpy as np
import torch

from vlib import CoqError, cb, cl, cln, cn, co, cp, coq_eval_bools, coq_eval_print, exc_kind, shrink, load_corpus

IMPORTS = "From PV Require Import C14.Model C14.Spec.\n"
THEOREMS = ["c14_batches_single_bucket_in_order", "c14_batch_sizes", "c14_every_index_once",
            "c14_every_index_once_or_dropped_incomplete", "c14_len_eq_number_of_batches",
            "c14_same_seed_epoch_same_batches", "c14_bucket_is_length_class", "c14_collate_lossless",
            "c14_extract_window_edge_replication"]

# ------------------------------------------------------------------------------------------
# Coq literals (the evaluation files open Z_scope, so bare numerals are Z)
# ------------------------------------------------------------------------------------------


def z(v):
    v = int(v)
    return str(v) if v >= 0 else f"({v})"


def lz(xs):
    return "[" + "; ".join(z(v) for v in xs) + "]"


def llz(xs):
    return "[" + "; ".join(lz(r) for r in xs) + "]"


def lllz(xs):
    return "[" + "; ".join(llz(r) for r in xs) + "]"


def lln(xs):
    return cl([cln(b) for b in xs])


def res(x, f):
    """x = {'err': kind} or {'ok': value}"""
    if "err" in x:
        return f"(Err {x['err']})" if x["err"] in ("IndexError", "ZeroDivisionError", "RuntimeError") else None
    return f"(Ok {f(x['ok'])})"


def lp(c):
    return f"(mkLP {cn(c['bs'])} {cn(c['nb'])} {cb(c['dyn'])} {cb(c['drop'])})"


# ------------------------------------------------------------------------------------------
# synthetic data: everything is a function of the case, integer-valued so comparisons are exact
# ------------------------------------------------------------------------------------------


_ENC = [None]  # [TT, RR] of the current case (size stream): injective payloads for long / wide / many utterances


def feat_of(i, T, F):
    if _ENC[0] is not None:  # (utterance, frame, coefficient) -> distinct integers (< 2^24: exact in float32)
        return [[(i * _ENC[0][0] + t) * F + f + 1 for f in range(F)] for t in range(T)]
    return [[100 * i + 10 * t + f + 1 for f in range(F)] for t in range(T)]


def ali_of(i, T):
    if _ENC[0] is not None:
        return [i * _ENC[0][0] + t for t in range(T)]
    return [7 * i + t for t in range(T)]


def ref_rows(i, R, W):
    """rows of width W: [tok] or [tok, start, end]"""
    if _ENC[0] is not None:
        return [[i * _ENC[0][1] + j + 1] + ([j, j + 1] if W == 3 else []) for j in range(R)]
    return [[50 * i + j + 1] + ([j, j + 1] if W == 3 else []) for j in range(R)]


def ref_tensor(rows, W):
    if W == 1:
        return torch.tensor([r[0] for r in rows], dtype=torch.long)
    return torch.tensor(rows, dtype=torch.long).view(len(rows), 3)


def rows_of(t, W):
    """tensor (..., R) for W = 1 or (..., R, 3) -> nested lists whose innermost entries are rows"""
    if W == 1:
        return t.unsqueeze(-1).tolist()
    return t.tolist()


# utterance names: by default u000, u001, ...; a case may carry its own list (`names`, sorted as the data set sorts
# them - by code point) with ids that are prefixes of each other, contain the characters file names allow (space, dot,
# dash, the file suffix itself) or sort differently as numbers than as strings
WEIRD = sorted(["-", "0", "00", "B", "U1", "a", "a b", "a-b", "a.b", "a.pt", "a_b", "ab", "u", "u.", "u1", "u10", "u2",
                "\u00e9", "~", "a.pt.pt"])
_NAMES = [None]


def set_names(case):
    _ENC[0] = list(case["enc"]) if case.get("enc") else None
    if case.get("names") is not None:
        _NAMES[0] = list(case["names"])
    elif case.get("weird"):
        _NAMES[0] = WEIRD
    else:
        _NAMES[0] = None


def uname(i):
    return _NAMES[0][i] if _NAMES[0] is not None else "u%03d" % i


def _subset(case):
    """value of params.subset_ids: None = unset; else the kept names plus the decoys that are to be excluded for
    another reason (a missing companion file)"""
    dec = case.get("decoys") or []
    if not any(d[2] == "subset" for d in dec):
        return None
    keep = [uname(i) for i in range(len(case["lens"]))] + [d[0] for d in dec if d[2] != "subset"]
    return keep or ["zz-not-there"]


def make_dir(root, case):
    """data directory for spect / cw cases"""
    shutil.rmtree(root, ignore_errors=True)
    os.makedirs(os.path.join(root, "feat"))
    has_ali, refs = case.get("alis", False), case.get("refs")
    if has_ali:
        os.makedirs(os.path.join(root, "ali"))
    if refs is not None:
        os.makedirs(os.path.join(root, "ref"))
    for i, T in enumerate(case["lens"]):
        torch.save(torch.tensor(feat_of(i, T, case["F"]), dtype=torch.float).view(T, case["F"]),
                   os.path.join(root, "feat", uname(i) + ".pt"))
        if has_ali:
            torch.save(torch.tensor(ali_of(i, T), dtype=torch.long), os.path.join(root, "ali", uname(i) + ".pt"))
        if refs is not None:
            torch.save(ref_tensor(ref_rows(i, refs[i], case["Wf"]), case["Wf"]),
                       os.path.join(root, "ref", uname(i) + ".pt"))
    # decoys: utterances on disk that are NOT part of the data set - excluded by params.subset_ids ("subset": all
    # files present) or because a companion file is missing ("noali" / "noref")
    for j, (name, T, how) in enumerate(case.get("decoys") or []):
        torch.save(torch.tensor(feat_of(90 + j, T, case["F"]), dtype=torch.float).view(T, case["F"]),
                   os.path.join(root, "feat", name + ".pt"))
        if has_ali and how != "noali":
            torch.save(torch.tensor(ali_of(90 + j, T), dtype=torch.long), os.path.join(root, "ali", name + ".pt"))
        if refs is not None and how != "noref":
            torch.save(ref_tensor(ref_rows(90 + j, 1, case["Wf"]), case["Wf"]), os.path.join(root, "ref", name + ".pt"))


def make_lang_dir(root, case):
    shutil.rmtree(root, ignore_errors=True)
    os.makedirs(root)
    for i, R in enumerate(case["lens"]):
        torch.save(ref_tensor(ref_rows(i, R, case["Wf"]), case["Wf"]), os.path.join(root, uname(i) + ".pt"))
    for j, (name, R, how) in enumerate(case.get("decoys") or []):
        torch.save(ref_tensor(ref_rows(90 + j, R, case["Wf"]), case["Wf"]), os.path.join(root, name + ".pt"))


def orders_for(case, n, count):
    out = []
    for e in range(case["e0"], case["e0"] + count):
        if case["shuffle"]:
            out.append([int(x) for x in np.random.RandomState((case["seed"], e)).permutation(n)])
        else:
            out.append(list(range(n)))
    return out


# ------------------------------------------------------------------------------------------
# canonical forms of implementation outputs
# ------------------------------------------------------------------------------------------


def ids_of(uttids):
    if _NAMES[0] is not None:
        return [_NAMES[0].index(u) if u in _NAMES[0] else 4000 for u in uttids]
    return [int(u[1:]) for u in uttids]


def canon_spect(batch, has_alis, has_ids, W):
    """-> dict feats alis refs fsz rsz ids (+ arity_ok)"""
    want = 4 + int(has_alis) + int(has_ids)
    if len(batch) != want:
        return {"bad_arity": len(batch)}
    batch = list(batch)
    feats = batch.pop(0)
    alis = batch.pop(0) if has_alis else None
    refs, fsz, rsz = batch[0], batch[1], batch[2]
    ids = ids_of(batch[3]) if has_ids else []
    return {"feats": [[[int(v) for v in r] for r in m] for m in feats.tolist()],
            "alis": None if alis is None else alis.tolist(),
            "refs": None if refs is None else rows_of(refs, W),
            "fsz": fsz.tolist(), "rsz": None if rsz is None else rsz.tolist(), "ids": ids}


def sbatch_term(c):
    if "bad_arity" in c:
        return None
    return (f"(mkSB {lllz(c['feats'])} {co(None if c['alis'] is None else llz(c['alis']))} "
            f"{co(None if c['refs'] is None else lllz(c['refs']))} {cln(c['fsz'])} "
            f"{co(None if c['rsz'] is None else cln(c['rsz']))} {cln(c['ids'])})")


def utt_term(feat, ali, ref, i):
    return f"(mkUtt {llz(feat)} {co(None if ali is None else lz(ali))} {co(None if ref is None else llz(ref))} {cn(i)})"


def spect_items(case):
    """the data set as the model sees it: ali None when absent/suppressed, ref None when absent;
    Wm = width of reference rows as delivered"""
    W = 1 if (case["tokens_only"] or case["Wf"] == 1) else 3
    out = []
    for i, T in enumerate(case["lens"]):
        ali = ali_of(i, T) if (case.get("alis") and not case["sa"]) else None
        ref = None
        if case.get("refs") is not None:
            ref = ref_rows(i, case["refs"][i], case["Wf"])
            if W == 1:
                ref = [[r[0]] for r in ref]
        out.append((feat_of(i, T, case["F"]), ali, ref, i))
    return out, W


# ------------------------------------------------------------------------------------------
# implementation runners
# ------------------------------------------------------------------------------------------


def _tables(dl, n):
    from pydrobert.torch.data import BucketBatchSampler

    bsamp = dl.batch_sampler
    if not isinstance(bsamp, BucketBatchSampler):
        return None
    i2b, b2s = bsamp.idx2bucket, bsamp.bucket2size
    if sorted(i2b) != list(range(n)) or sorted(b2s) != list(range(len(b2s))):
        return {"bad_keys": [sorted(map(int, i2b)), sorted(map(int, b2s))]}
    return [[int(i2b[i]) for i in range(n)], [int(b2s[j]) for j in range(len(b2s))]]


def _alternate(its, conv):
    """advance two iterators alternately; what they yielded is looked at only after both are exhausted (a yielded batch
    must stay valid while the iteration goes on)"""
    got, live, turn = [[], []], [True, True], 0
    while any(live):
        if live[turn]:
            try:
                got[turn].append(next(its[turn]))
            except StopIteration:
                live[turn] = False
        turn = 1 - turn
    return [[conv(b) for b in g] for g in got]


def _held(it, conv):
    """exhaust the iterator, THEN convert what it yielded"""
    return [conv(b) for b in list(it)]


def _idx(b):
    return [int(i) for i in b]


def _epochs(mk, case, canon, extra=None):
    """Shared driver for the three loaders.  mk(init_epoch) builds a loader.  Returns
    {'err': kind} (constructor raised) or {'ok': {...}} with per-epoch len / index batches /
    collated batches and the results of the (seed, epoch) metamorphic relations."""
    k, e0 = case["k"], case["e0"]
    try:
        A, B = mk(e0), mk(e0)
    except Exception as e:
        return {"err": exc_kind(e), "msg": str(e)[:200]}
    n = len(A.dataset)
    out = {"n": n, "tables": _tables(A, n), "len": [], "idx": [], "col0": None, "meta": [], "lenB": []}
    try:
        if case.get("peek") is not None:
            # history: take `peek` batches from an iterator, abandon it midway, put the epoch back as a
            # user would; everything below must still be what a fresh loader delivers
            for obj, src in ((A, A.batch_sampler), (B, B)):
                it = iter(src)
                try:
                    for _ in range(case["peek"]):
                        next(it)
                except StopIteration:
                    pass
                del it
                obj.epoch = e0
        if case.get("inter"):
            # two iterators of one batch sampler alive at once (epochs e0, e0+1) vs. one after the other
            E, G = mk(e0), mk(e0)
            seq = [_held(E.batch_sampler, _idx) for _ in range(2)]
            got = _alternate([iter(G.batch_sampler), iter(G.batch_sampler)], _idx)
            if got != seq:
                out["meta"].append("two interleaved iterators of one batch sampler deliver other batches than two "
                                   "successive ones: %s vs %s" % (got, seq))
        if case.get("inter2"):
            # the same at the level of the loader: two live iterators of one loader (collated batches of epochs e0, e0+1)
            E, G = mk(e0), mk(e0)
            seq = [_held(E, canon) for _ in range(2)]
            got = _alternate([iter(G), iter(G)], canon)
            if got != seq:
                out["meta"].append("two interleaved iterators of one loader deliver other batches than two successive passes")
        if extra is not None:
            out["meta"] += extra(A)
        cols = []
        for j in range(k + 1):
            out["len"].append(int(len(A)))
            out["lenB"].append(int(len(B)))
            if A.epoch != e0 + j:
                out["meta"].append("epoch counter is %d at iteration %d from %d" % (A.epoch, j, e0))
            out["idx"].append(_held(A.batch_sampler, _idx))
            col = _held(B, canon)
            cols.append(col)
            if len(col) != out["lenB"][-1]:
                out["meta"].append("len() = %d but %d batches delivered in epoch %d" % (out["lenB"][-1], len(col), e0 + j))
        out["col0"] = cols[0]
        # identical batches for identical (seed, epoch): a loader constructed at e0+k, and one whose
        # epoch attribute is set to e0+k, deliver what iterating k epochs from e0 delivers
        C, D = mk(e0 + k), mk(0)
        D.epoch = e0 + k
        lnD = len(D)
        cC, cD = _held(C, canon), _held(D, canon)
        if cC != cols[k]:
            out["meta"].append("init_epoch=e0+k delivers other batches than iterating k epochs from e0")
        if cD != cols[k]:
            out["meta"].append("setting .epoch=e0+k delivers other batches than iterating k epochs from e0")
        if lnD != len(cD):
            out["meta"].append("len() after setting .epoch differs from the number of batches")
    except Exception as e:
        return {"err": "iter:" + exc_kind(e), "msg": str(e)[:200]}
    return {"ok": out}


def _set_subset(p, case):
    sub = _subset(case)
    if sub is not None:
        p.subset_ids = sub
    return p


def _loader(cls, case, e, data, p, dp, ds_kw, flags):
    """the public constructor under the case's calling convention.  flags = [shuffle, batch_first, sort_batch] (spect,
    lang) or [shuffle] (cw)"""
    entry = case.get("entry", "path")
    if entry == "pos":
        if len(flags) == 3:
            return cls(data, p, dp, flags[0], flags[1], flags[2], e, "raise", case["seed"], **ds_kw)
        return cls(data, p, dp, flags[0], e, case["seed"], **ds_kw)
    kw = dict(zip(("shuffle", "batch_first", "sort_batch"), flags))
    kw["seed"] = case["seed"]
    if not (case.get("omit_defaults") and e == 0):
        kw["init_epoch"] = e
    if case.get("omit_defaults") and not case["shuffle"]:
        del kw["seed"]
    if dp is not None:
        kw["data_params"] = dp
    return cls(data, p, **kw, **ds_kw)


def run_spect(case, root):
    from pydrobert.torch.data import (SpectDataLoader, SpectDataLoaderParams, SpectDataParams, SpectDataSet,
                                      DynamicLengthDataLoaderParams, SpectTrainingDataLoader, SpectEvaluationDataLoader)

    make_dir(root, case)
    has_alis, has_ids = not case["sa"], not case["su"]
    W = 1 if (case["tokens_only"] or case["Wf"] == 1) else 3
    entry, shared = case.get("entry", "path"), {}
    lkw = dict(batch_size=case["bs"], num_length_buckets=case["nb"], size_batch_by_length=case["dyn"], drop_last=case["drop"])

    def mk(e):
        ds_kw = dict(suppress_uttids=case["su"], suppress_alis=case["sa"], tokens_only=case["tokens_only"])
        if entry == "split":
            p, dp = DynamicLengthDataLoaderParams(**lkw), _set_subset(SpectDataParams(), case)
        else:
            p = _set_subset(SpectDataLoaderParams(**lkw), case)
            dp = p if entry == "alias" else None
        data = root
        if entry == "dataset":  # one data set object serves every loader of the case
            if "ds" not in shared:
                shared["ds"] = SpectDataSet(root, params=p, **ds_kw)
            data, ds_kw = shared["ds"], {}
        cls_name = case.get("cls", "main")
        if cls_name == "train":  # deprecated wrappers: their own defaults differ, so every flag is given
            return SpectTrainingDataLoader(data, p, init_epoch=e, batch_first=case["bf"], data_params=dp, seed=case["seed"],
                                           shuffle=case["shuffle"], sort_batch=case["sort"], **ds_kw)
        if cls_name == "eval":
            if case.get("eval_prefix_explicit") and entry != "dataset":  # default call otherwise (F35: the default was the suffix)
                ds_kw["file_prefix"] = ""
            return SpectEvaluationDataLoader(data, p, batch_first=case["bf"], data_params=dp, seed=case["seed"], init_epoch=e,
                                             shuffle=case["shuffle"], sort_batch=case["sort"], **ds_kw)
        return _loader(SpectDataLoader, case, e, data, p, dp, ds_kw, [case["shuffle"], case["bf"], case["sort"]])

    return _epochs(mk, case, lambda b: canon_spect(b, has_alis, has_ids, W))


def canon_lang(batch, has_ids, W):
    if len(batch) != 2 + int(has_ids):
        return {"bad_arity": len(batch)}
    return {"refs": rows_of(batch[0], W), "rsz": batch[1].tolist(), "ids": ids_of(batch[2]) if has_ids else []}


def run_lang(case, root):
    from pydrobert.torch.data import (LangDataLoader, LangDataLoaderParams, LangDataParams, LangDataSet,
                                      DynamicLengthDataLoaderParams)

    make_lang_dir(root, case)
    W = 1 if (case["tokens_only"] or case["Wf"] == 1) else 3
    entry, shared = case.get("entry", "path"), {}
    lkw = dict(batch_size=case["bs"], num_length_buckets=case["nb"], size_batch_by_length=case["dyn"], drop_last=case["drop"])

    def mk(e):
        ds_kw = dict(suppress_uttids=case["su"], tokens_only=case["tokens_only"])
        if entry == "split":
            p, dp = DynamicLengthDataLoaderParams(**lkw), _set_subset(LangDataParams(), case)
        else:
            p = _set_subset(LangDataLoaderParams(**lkw), case)
            dp = p if entry == "alias" else None
        data = root
        if entry == "dataset":
            if "ds" not in shared:
                shared["ds"] = LangDataSet(root, params=p, **ds_kw)
            data, ds_kw = shared["ds"], {}
        return _loader(LangDataLoader, case, e, data, p, dp, ds_kw, [case["shuffle"], case["bf"], case["sort"]])

    return _epochs(mk, case, lambda b: canon_lang(b, not case["su"], W))


def canon_cw(batch, has_ids):
    if len(batch) != (4 if has_ids else 2):
        return {"bad_arity": len(batch)}
    return {"windows": [[[int(v) for v in r] for r in w] for w in batch[0].tolist()],
            "alis": None if batch[1] is None else batch[1].tolist(),
            "sizes": batch[2].tolist() if has_ids else [], "ids": ids_of(batch[3]) if has_ids else []}


_SEEDED = []


def _seeded_cw_params():
    """ContextWindowDataLoaderParams with a `seed` parameter (the loader falls back on params.seed when the argument
    is None)"""
    if not _SEEDED:
        import param
        from pydrobert.torch.data import ContextWindowDataLoaderParams

        class SeededCWParams(ContextWindowDataLoaderParams):
            seed = param.Integer(None, allow_None=True)

        _SEEDED.append(SeededCWParams)
    return _SEEDED[0]


def run_cw(case, root):
    from pydrobert.torch import data as D

    make_dir(root, case)
    entry, shared = case.get("entry", "path"), {}
    via, cls_name, dep_args = case.get("seed_via", "arg"), case.get("cls", "main"), case.get("dep_args", False)
    left, right, rev = case["left"], case["right"], case["reverse"]

    def mk(e):
        ds_kw = dict(suppress_uttids=case["su"])
        ctx = dict(context_left=left, context_right=right, reverse=rev)
        if dep_args and entry != "dataset":
            # deprecated spelling: left / right / reverse by argument; they override what the params say
            ctx = dict(context_left=left + 1, context_right=right + 2, reverse=not rev)
            ds_kw.update(left=left, right=right, reverse=rev)
        seed = case["seed"]
        if entry == "split":
            p, dp = D.DataLoaderParams(batch_size=case["bs"], drop_last=case["drop"]), _set_subset(D.ContextWindowDataParams(**ctx), case)
        else:
            pcls = D.ContextWindowDataLoaderParams if via == "arg" else _seeded_cw_params()
            p = _set_subset(pcls(batch_size=case["bs"], drop_last=case["drop"], **ctx), case)
            dp = p if entry == "alias" else None
            if via == "params":
                p.seed, seed = case["seed"], None
            elif via == "both":  # the argument wins, also when it is 0
                p.seed = case["seed"] + 1
        data = root
        if entry == "dataset":
            if "ds" not in shared:
                shared["ds"] = D.ContextWindowDataSet(root, params=dp or p, **ds_kw)
            data, ds_kw = shared["ds"], {}
        c = dict(case, seed=seed)
        if cls_name == "train":
            return D.ContextWindowTrainingDataLoader(data, p, init_epoch=e, data_params=dp, seed=seed, shuffle=case["shuffle"], **ds_kw)
        if cls_name == "eval":
            return D.ContextWindowEvaluationDataLoader(data, p, data_params=dp, init_epoch=e, seed=seed, shuffle=case["shuffle"], **ds_kw)
        return _loader(D.ContextWindowDataLoader, c, e, data, p, dp, ds_kw, [case["shuffle"]])

    def extra(A):
        """the data set against extract_window (frame by frame), get_windowed_utterance and an independent reading"""
        ds, msgs = A.dataset, []
        for i in range(len(ds)):
            win = ds[i][0]
            feat = ds.get_utterance_tuple(i)[0]
            ok = tuple(win.shape) == (feat.size(0), 1 + left + right, feat.size(1))
            ok = ok and torch.equal(ds.get_windowed_utterance(i)[0], win)
            for t in range(feat.size(0) if ok else 0):
                ok = ok and torch.equal(D.extract_window(feat, t, left, right, rev), win[t])
                ok = ok and torch.equal(D.extract_window(feat, frame_idx=t, left=left, right=right, reverse=rev), win[t])
            if ok and [[[int(v) for v in r] for r in w] for w in win.tolist()] != windows_of(
                    [[int(v) for v in r] for r in feat.tolist()], left, right, rev):
                ok = False
            if not ok:
                msgs.append("ContextWindowDataSet[%d] is not extract_window(feat, t, %d, %d, reverse=%s) for every frame t" % (i, left, right, rev))
        return msgs

    return _epochs(mk, case, lambda b: canon_cw(b, not case["su"]), extra)


def run_bbs(case):
    from pydrobert.torch.data import BucketBatchSampler

    # bucket ids are arbitrary sortable hashables: the j-th bucket may be labelled by a negative int, a string or a tuple
    # (labels increase with j, so the flush order of the model - by bucket number - is the order of the labels)
    lab = {None: lambda j: j, "neg": lambda j: j - 7, "str": lambda j: "b%03d" % j, "tuple": lambda j: (0, j)}[case.get("labels")]
    i2b = {i: lab(b) for i, b in enumerate(case["i2b"])}
    b2s = {lab(j): z for j, z in enumerate(case["b2s"])}
    smp = tuple(case["sampler"]) if case.get("seqtype") == "tuple" else list(case["sampler"])
    try:
        # the constructor is part of the observed behaviour: an exception here (the model never rejects at construction) is
        # an outcome to compare, not a breakdown of the harness
        if case.get("call") == "kw":
            s = BucketBatchSampler(sampler=smp, idx2bucket=i2b, bucket2size=b2s, drop_incomplete=case["drop"])
        elif case.get("call") == "default" and not case["drop"]:
            s = BucketBatchSampler(smp, i2b, b2s)
        else:
            s = BucketBatchSampler(smp, i2b, b2s, case["drop"])
    except Exception as e:
        return {"err": "ctor:" + exc_kind(e)}
    try:
        if case.get("peek") is not None:
            # history: an iterator abandoned after `peek` batches must not influence the next one
            it = iter(s)
            try:
                for _ in range(case["peek"]):
                    next(it)
            except StopIteration:
                pass
            del it
        first = _held(s, _idx)
        second = _held(s, _idx)
        inter_same = True
        if case.get("inter"):
            got = _alternate([iter(s), iter(s)], _idx)
            inter_same = got == [second, second]
    except RuntimeError:
        return {"err": "RuntimeError"}
    except Exception as e:
        return {"err": "other:" + exc_kind(e)}
    return {"ok": first, "again_same": first == second and inter_same}


def relayout(t, how):
    """the same logical tensor in another memory layout / dtype: `t` transposed storage, `off` a slice of a larger
    buffer with a storage offset, `step` every second element of a buffer, `wide` float64 features"""
    if t is None or not how:
        return t
    if how == "wide":
        return t.double() if t.is_floating_point() else t
    if how == "t" and t.dim() == 2:
        r = t.t().contiguous().t()
    elif how == "off":
        junk = torch.full((3,), -77, dtype=t.dtype)
        r = torch.cat([junk, t.reshape(-1), junk])[3:3 + t.numel()].view(t.shape)
    else:
        r = torch.stack([t, torch.full_like(t, -77)], -1)[..., 0]
    assert r.shape == t.shape and torch.equal(r, t)
    return r


def _container(seq, case):
    return tuple(seq) if case.get("seqtype") == "tuple" else seq


def _unchanged(before, seq):
    """a collate function must not write into its inputs"""
    flat = [x for tup in seq for x in (tup if isinstance(tup, tuple) else (tup,)) if isinstance(x, torch.Tensor)]
    return len(before) == len(flat) and all(torch.equal(a, b) for a, b in zip(before, flat))


def _snapshot(seq):
    return [x.clone() for tup in seq for x in (tup if isinstance(tup, tuple) else (tup,)) if isinstance(x, torch.Tensor)]


def run_collate(case):
    from pydrobert.torch.data import spect_seq_to_batch

    seq, items = [], []
    lay = case.get("layout")
    for (i, T, ali, R) in case["items"]:
        feat = feat_of(i, T, case["F"])
        a = ali_of(i, T) if ali else None
        r = ref_rows(i, R, case["W"]) if R is not None else None
        items.append((feat, a if case["has_alis"] else None, r, i))
        tup = [relayout(torch.tensor(feat, dtype=torch.float).view(T, case["F"]), lay)]
        if case["has_alis"]:
            tup.append(None if a is None else relayout(torch.tensor(a, dtype=torch.long), lay))
        tup.append(None if r is None else relayout(ref_tensor(r, case["W"]), lay))
        if case["has_ids"]:
            tup.append(uname(i))
        seq.append(tuple(tup))
    before = _snapshot(seq)
    try:
        if case.get("call") == "kw":
            out = spect_seq_to_batch(seq=_container(seq, case), batch_first=case["bf"], sort=case["sort"],
                                     has_alis=case["has_alis"], has_uttids=case["has_ids"])
        else:
            out = spect_seq_to_batch(_container(seq, case), case["bf"], case["sort"], case["has_alis"], case["has_ids"])
    except Exception as e:
        return {"err": exc_kind(e), "msg": str(e)[:200]}, items
    if not _unchanged(before, seq):
        return {"err": "inputs-modified", "msg": "spect_seq_to_batch wrote into its input tensors"}, items
    if out[0].dtype != seq[0][0].dtype:
        return {"err": "dtype", "msg": "feats come back as %s from %s input" % (out[0].dtype, seq[0][0].dtype)}, items
    return {"ok": canon_spect(out, case["has_alis"], case["has_ids"], case["W"])}, items


def run_lcollate(case):
    from pydrobert.torch.data import lang_seq_to_batch

    seq, items = [], []
    for (i, R) in case["items"]:
        r = ref_rows(i, R, case["W"])
        items.append((r, i))
        t = relayout(ref_tensor(r, case["W"]), case.get("layout"))
        seq.append((t, uname(i)) if case["has_ids"] else t)
    before = _snapshot(seq)
    try:
        if case.get("call") == "kw":
            out = lang_seq_to_batch(seq=_container(seq, case), batch_first=case["bf"], sort=case["sort"], has_uttids=case["has_ids"])
        else:
            out = lang_seq_to_batch(_container(seq, case), case["bf"], case["sort"], case["has_ids"])
    except Exception as e:
        return {"err": exc_kind(e), "msg": str(e)[:200]}, items
    if not _unchanged(before, seq):
        return {"err": "inputs-modified", "msg": "lang_seq_to_batch wrote into its input tensors"}, items
    return {"ok": canon_lang(out, case["has_ids"], case["W"])}, items


def windows_of(feat, left, right, reverse):
    """independent Python reading of the edge-replicated window (clamped frame indices)"""
    T = len(feat)
    out = []
    for c in range(T):
        w = [feat[min(max(c - left + k, 0), T - 1)] for k in range(left + right + 1)]
        out.append(w[::-1] if reverse else w)
    return out


def run_cwcollate(case):
    from pydrobert.torch.data import context_window_seq_to_batch

    seq, items = [], []
    C = 1 + case["left"] + case["right"]
    for (i, T, ali) in case["items"]:
        win = windows_of(feat_of(i, T, case["F"]), case["left"], case["right"], False)
        a = ali_of(i, T) if ali else None
        items.append((win, a, i))
        lay = case.get("layout")
        tup = [relayout(torch.tensor(win, dtype=torch.float).view(T, C, case["F"]), lay),
               None if a is None else relayout(torch.tensor(a, dtype=torch.long), lay)]
        if case["has_ids"]:
            tup.append(uname(i))
        seq.append(tuple(tup))
    before = _snapshot(seq)
    try:
        if case.get("call") == "kw":
            out = context_window_seq_to_batch(seq=_container(seq, case), has_uttids=case["has_ids"])
        else:
            out = context_window_seq_to_batch(_container(seq, case), case["has_ids"])
    except Exception as e:
        return {"err": exc_kind(e), "msg": str(e)[:200]}, items
    if not _unchanged(before, seq):
        return {"err": "inputs-modified", "msg": "context_window_seq_to_batch wrote into its input tensors"}, items
    return {"ok": canon_cw(out, case["has_ids"])}, items


def run_window(case):
    from pydrobert.torch.data import extract_window

    feat = feat_of(0, case["T"], case["F"])
    t = relayout(torch.tensor(feat, dtype=torch.float).view(case["T"], case["F"]), case.get("layout"))
    before = t.clone()
    try:
        if case.get("call") == "kw":
            w = extract_window(feat=t, frame_idx=case["idx"], left=case["left"], right=case["right"], reverse=case["reverse"])
        elif case.get("call") == "default" and not case["reverse"]:
            w = extract_window(t, case["idx"], case["left"], case["right"])
        else:
            w = extract_window(t, case["idx"], case["left"], case["right"], case["reverse"])
        res_ = [[int(v) for v in r] for r in w.tolist()]
        # the result may be a view of the input: writing into the INPUT afterwards is the caller's business, but the
        # call itself must leave the input as it was
        if not torch.equal(before, t):
            return {"err": "inputs-modified", "msg": "extract_window wrote into feat"}, feat
        if tuple(w.shape) != (1 + case["left"] + case["right"], case["F"]) or w.dtype != t.dtype:
            return {"err": "shape", "msg": "%s %s" % (tuple(w.shape), w.dtype)}, feat
    except Exception as e:
        return {"err": exc_kind(e), "msg": str(e)[:200]}, feat
    return {"ok": res_}, feat


# ------------------------------------------------------------------------------------------
# Coq terms: model agreement and spec verdicts
# ------------------------------------------------------------------------------------------


def _all(parts):
    if any(p is None for p in parts):
        return "false"
    return "(" + " && ".join(parts) + ")" if parts else "true"


def tables_term(t):
    return "None" if t is None else co(cp(cln(t[0]), cln(t[1])))


def loader_terms(case, out, lens):
    """index-level agreement with the model: tables, batches and len() of every epoch"""
    if "err" in out:
        if out["err"].startswith("iter:") or res(out, str) is None:
            return "false"
        return f"check_batches {cln(lens)} {lp(case)} [] {res(out, str)}"
    o = out["ok"]
    if isinstance(o["tables"], dict) or o["n"] != len(lens):
        return "false"
    orders = orders_for(case, o["n"], case["k"] + 1)
    parts = [f"check_batches {cln(lens)} {lp(case)} {lln(orders)} "
             f"(Ok {cl([cp(cn(l), lln(b)) for l, b in zip(o['len'], o['idx'])])})"]
    if o["tables"] is not None:
        parts.append(f"check_params {cln(lens)} {cn(case['nb'])} {cn(case['bs'])} {cb(case['dyn'])} "
                     f"(Ok {cp(cln(o['tables'][0]), cln(o['tables'][1]))})")
        parts.append(cb(case["nb"] > 1))
    else:
        parts.append(cb(case["nb"] <= 1))
    return _all(parts)


def loader_spec_term(case, out, lens):
    """spec verdict on the implementation's own output (no model): len = #batches, batches cover
    the epoch order in order, single bucket per batch w.r.t. the exposed tables, tables monotone
    in the length"""
    if "err" in out:
        return "false"
    o = out["ok"]
    if isinstance(o["tables"], dict) or o["n"] != len(lens) or o["meta"]:
        return "false"
    orders = orders_for(case, o["n"], case["k"] + 1)
    parts = [f"loader_okb {cln(lens)} {lp(case)} {tables_term(o['tables'])} {cln(od)} {cn(l)} {lln(b)}"
             for od, l, b in zip(orders, o["len"], o["idx"])]
    return _all(parts)


def spect_model_term(case, out):
    lens = case["lens"]
    parts = [loader_terms(case, out, lens)]
    if "ok" in out:
        o = out["ok"]
        items, W = spect_items(case)
        ds = cl([utt_term(*it) for it in items])
        order = orders_for(case, o["n"], 1)[0]
        impl = cl([sbatch_term(c) or "BAD" for c in o["col0"]])
        if "BAD" in impl:
            return "false"
        parts.append(f"check_spect_loader {ds} {lp(case)} {cb(case['bf'])} {cb(case['sort'])} {cb(not case['su'])} "
                     f"{cn(case['F'])} {cn(W)} {cln(order)} (Ok {impl})")
        parts.append(cb(not o["meta"] and o["len"] == o["lenB"]))
    return _all(parts)


def spect_spec_term(case, out):
    """spec verdict: loader_okb on the index batches + every collated batch of the first epoch is a
    lossless collation of the items of its index batch"""
    if "err" in out:
        return "false"
    o = out["ok"]
    parts = [loader_spec_term(case, out, case["lens"])]
    items, W = spect_items(case)
    if len(o["col0"]) != len(o["idx"][0]):
        return "false"
    for b, c in zip(o["idx"][0], o["col0"]):
        t = sbatch_term(c)
        if t is None or any(i >= len(items) for i in b):
            return "false"
        sq = cl([utt_term(*items[i]) for i in b])
        parts.append(f"spect_collate_okb {cb(case['bf'])} {cb(case['sort'])} {cb(not case['su'])} {cn(case['F'])} {cn(W)} {sq} {t}")
    return _all(parts)


def lang_items(case):
    W = 1 if (case["tokens_only"] or case["Wf"] == 1) else 3
    items = []
    for i, R in enumerate(case["lens"]):
        r = ref_rows(i, R, case["Wf"])
        if W == 1:
            r = [[x[0]] for x in r]
        items.append((r, i))
    return items, W


def lbatch_term(c):
    if "bad_arity" in c:
        return None
    return cp(lllz(c["refs"]), cln(c["rsz"]), cln(c["ids"]))


def lang_model_term(case, out):
    items, W = lang_items(case)
    parts = [loader_terms(case, out, case["lens"])]
    if "ok" in out:
        o = out["ok"]
        ds = cl([cp(llz(r), cn(i)) for r, i in items])
        order = orders_for(case, o["n"], 1)[0]
        impl = cl([lbatch_term(c) or "BAD" for c in o["col0"]])
        if "BAD" in impl:
            return "false"
        parts.append(f"check_lang_loader {cb(not case['su'])} {cn(W)} {ds} {lp(case)} {cb(case['bf'])} "
                     f"{cb(case['sort'])} {cln(order)} (Ok {impl})")
        parts.append(cb(not o["meta"] and o["len"] == o["lenB"]))
    return _all(parts)


def cw_model_term(case, out):
    if "err" in out:
        return "false"
    o = out["ok"]
    if o["tables"] is not None or o["n"] != len(case["lens"]):
        return "false"
    orders = orders_for(case, o["n"], case["k"] + 1)
    p = dict(case, nb=1, dyn=False)
    parts = [f"check_batches {cln(case['lens'])} {lp(p)} {lln(orders)} "
             f"(Ok {cl([cp(cn(l), lln(b)) for l, b in zip(o['len'], o['idx'])])})"]
    ds = cl([utt_term(feat_of(i, T, case["F"]), ali_of(i, T) if case["alis"] else None, None, i)
             for i, T in enumerate(case["lens"])])
    impl = []
    for c in o["col0"]:
        if "bad_arity" in c:
            return "false"
        impl.append(cp(lllz(c["windows"]), co(None if c["alis"] is None else lz(c["alis"])), cln(c["sizes"]), cln(c["ids"])))
    parts.append(f"check_cw_loader {ds} {cn(case['bs'])} {cb(case['drop'])} {cn(case['left'])} {cn(case['right'])} "
                 f"{cb(case['reverse'])} {cb(not case['su'])} {cln(orders[0])} {cl(impl)}")
    parts.append(cb(not o["meta"] and o["len"] == o["lenB"]))
    return _all(parts)


def bbs_model_term(case, out):
    if "err" in out and out["err"] != "RuntimeError":
        return "false"
    impl = "None" if "err" in out else co(lln(out["ok"]))
    t = f"check_bbs {cln(case['sampler'])} {cln(case['i2b'])} {cln(case['b2s'])} {cb(case['drop'])} {impl}"
    return _all([t, cb(out.get("again_same", True))])


IMPORTS_SRC = "From PV Require Import C14.Model C14.SrcRun.\n"


def bbs_src_term(case, out):
    """bool: the regenerated source term of BucketBatchSampler.__iter__ (PV.Gen.C14Src.bbs_iter), run by
    PV.MiniPy.Interp inside Coq on {i: i2b[i]} / {b: b2s[b]}, yields what the implementation yielded"""
    if "err" in out and out["err"] != "RuntimeError":
        return "false"
    impl = "None" if "err" in out else co(lln(out["ok"]))
    return f"src_check_bbs {cln(case['sampler'])} {cln(case['i2b'])} {cln(case['b2s'])} {cb(case['drop'])} {impl}"


def source_tie(chk, cases, outs):
    """run the translated source inside Coq on the direct BucketBatchSampler cases of this run (validates the
    translator + MiniPy semantics against CPython; independent of whether the tie lemmas still compile)"""
    idx = [i for i, c in enumerate(cases) if c["kind"] == "bbs" and not c.get("peek") and not c.get("inter")
           and all(0 <= x < len(c["i2b"]) for x in c["sampler"]) and all(0 <= b < len(c["b2s"]) for b in c["i2b"])]
    try:
        res = coq_eval_bools(chk.workdir, IMPORTS_SRC, [bbs_src_term(cases[i], outs[i]) for i in idx], shard=100, tag="src")
    except CoqError as e:
        chk.extra["source_tie_run"] = "not evaluated: " + str(e)[-400:]
        return
    bad = [idx[j] for j, ok in enumerate(res) if not ok]
    chk.extra["source_tie_run"] = {"cases": len(idx), "disagreements": len(bad)}
    chk.count("source_tie_cases", len(idx))
    if bad:
        i = bad[0]
        chk.report({"case": cases[i], "impl": outs[i],
                    "what": "BucketBatchSampler.__iter__ as translated to MiniPy and interpreted in Coq (PV.C14.SrcRun.src_bbs) does "
                            "not reproduce the implementation's batches: translator / interpreter no longer describe the code",
                    "correspondence": "tie:C14:py2coq+MiniPy.Interp:BucketBatchSampler.__iter__",
                    "theorems_at_stake": ["c14_source_bucket_iter_is_model"]}, no_failing_input=True)


def bbs_spec_term(case, out):
    """valid inputs (every bucket of the sampler has a positive size) must not raise and must
    satisfy the sampler clauses"""
    valid = all(case["b2s"][case["i2b"][i]] > 0 for i in case["sampler"])
    if "err" in out:
        return cb(not valid)
    return _all([f"bbs_okb (tbl {cln(case['i2b'])}) (tbl {cln(case['b2s'])}) {cb(case['drop'])} "
                 f"{cln(case['sampler'])} {lln(out['ok'])}", cb(out.get("again_same", True))]) if valid else "true"


def collate_terms(case, out, items):
    if "err" in out:
        return "false", "false"
    t = sbatch_term(out["ok"])
    if t is None:
        return "false", "false"
    sq = cl([utt_term(*it) for it in items])
    flags = f"{cb(case['bf'])} {cb(case['sort'])} {cb(case['has_ids'])} {cn(case['F'])} {cn(case['W'])}"
    return f"check_spect_collate {flags} {sq} {t}", f"spect_collate_okb {flags} {sq} {t}"


def lcollate_term(case, out, items):
    if "err" in out or "bad_arity" in out["ok"]:
        return "false"
    sq = cl([cp(llz(r), cn(i)) for r, i in items])
    return (f"check_lang_collate {cb(case['bf'])} {cb(case['sort'])} {cb(case['has_ids'])} {cn(case['W'])} {sq} "
            f"{lbatch_term(out['ok'])}")


def cwcollate_term(case, out, items):
    if "err" in out or "bad_arity" in out["ok"]:
        return "false"
    c = out["ok"]
    sq = cl([cp(lllz(w), co(None if a is None else lz(a)), cn(i)) for w, a, i in items])
    impl = cp(lllz(c["windows"]), co(None if c["alis"] is None else lz(c["alis"])), cln(c["sizes"]), cln(c["ids"]))
    return f"check_cw_collate {cb(case['has_ids'])} {sq} {impl}"


def window_term(case, out, feat):
    if "err" in out:
        return "false"
    # model agreement and the independent clamped-index reading
    want = windows_of(feat, case["left"], case["right"], case["reverse"])[case["idx"]]
    return _all([f"check_window {llz(feat)} {cn(case['idx'])} {cn(case['left'])} {cn(case['right'])} "
                 f"{cb(case['reverse'])} {llz(out['ok'])}", cb(want == out["ok"])])


# ------------------------------------------------------------------------------------------
# generators
# ------------------------------------------------------------------------------------------


def gen_lens(rng, n, hi):
    mode = rng.randrange(4)
    if mode == 0:  # many ties
        vals = [rng.randint(0, hi) for _ in range(2)]
        return [rng.choice(vals) for _ in range(n)]
    if mode == 1:  # no zero lengths
        return [rng.randint(1, hi) for _ in range(n)]
    return [rng.randint(0, hi) for _ in range(n)]


def gen_names(rng, case, hows):
    """unusual utterance ids and utterances on disk that do not belong to the data set (see WEIRD, make_dir)"""
    n = len(case["lens"])
    r = rng.random()
    if r < 0.55:
        return case
    pool = list(WEIRD) if r < 0.85 else ["u%03d" % i for i in range(20)]
    rng.shuffle(pool)
    nd = rng.choice([0, 1, 1, 2]) if rng.random() < 0.6 else 0
    case["names"] = sorted(pool[:n])
    hows = [h for h in hows if h == "subset" or n >= 1]
    case["decoys"] = [[nm, rng.randint(0, 3), rng.choice(hows)] for nm in pool[n:n + nd]]
    return case


def gen_entry(rng, case):
    case["entry"] = rng.choice(["path", "path", "dataset", "split", "alias", "pos"])
    case["omit_defaults"] = rng.random() < 0.4
    case["inter2"] = rng.random() < 0.2
    return case


def gen_spect(rng, big):
    n = rng.choice([0, 1, 2, 3, 4, 5, 6, 7, 8, 9, 10, 12] if big else [0, 1, 2, 3, 4, 5, 6, 7, 8])
    lens = gen_lens(rng, n, 6)
    has_ref = rng.random() < 0.7
    c = dict(kind="spect", lens=lens, F=rng.choice([1, 2]), alis=rng.random() < 0.6,
             refs=[rng.randint(0, 3) for _ in range(n)] if has_ref else None, Wf=rng.choice([1, 3]),
             tokens_only=rng.random() < 0.5, bs=rng.randint(1, 5), nb=rng.choice([1, 2, 2, 3, 3, 4]),
             dyn=rng.random() < 0.5, drop=rng.random() < 0.5, shuffle=rng.random() < 0.6,
             seed=rng.choice([0, 0, 1, rng.randint(0, 10 ** 6), rng.randint(0, 10 ** 6)]), sort=rng.random() < 0.5, bf=rng.random() < 0.5,
             su=rng.random() < 0.5, sa=rng.random() < 0.5, e0=rng.randint(0, 3), k=rng.randint(0, 2),
             peek=rng.choice([None, 0, 1, 1, 2, 3]), inter=rng.random() < 0.3)
    if rng.random() < 0.12:
        # long utterances, large batch sizes: the quantile / dynamic-size arithmetic away from the tiny numbers
        c.update(lens=[rng.choice([rng.randint(0, 40), rng.randint(30, 40), 32]) for _ in range(n)], F=1, alis=False, refs=None,
                 bs=rng.randint(1, 9), nb=rng.choice([2, 3, 4, 5]), k=0)
    gen_entry(rng, c)
    c["cls"] = rng.choice(["main", "main", "main", "train", "eval"])
    c["eval_prefix_explicit"] = rng.random() < 0.3
    return gen_names(rng, c, ["subset"] + (["noali"] if c["alis"] and not c["sa"] else []) + (["noref"] if c["refs"] is not None else []))


def gen_lang(rng, big):
    n = rng.choice([0, 1, 2, 3, 4, 5, 6, 7, 8])
    c = dict(kind="lang", lens=gen_lens(rng, n, 5), Wf=rng.choice([1, 3]), tokens_only=rng.random() < 0.5,
             bs=rng.randint(1, 4), nb=rng.choice([1, 2, 2, 3, 4]), dyn=rng.random() < 0.5,
             drop=rng.random() < 0.5, shuffle=rng.random() < 0.5, seed=rng.choice([0, 0, 1, rng.randint(0, 10 ** 6), rng.randint(0, 10 ** 6)]),
             sort=rng.random() < 0.5, bf=rng.random() < 0.5, su=rng.random() < 0.4,
             e0=rng.randint(0, 2), k=rng.randint(0, 1), peek=rng.choice([None, 0, 1, 1, 2, 3]),
             inter=rng.random() < 0.3)
    return gen_names(rng, gen_entry(rng, c), ["subset"])


def gen_cw(rng, big):
    n = rng.choice([0, 1, 2, 3, 4, 5, 6])
    left, right = rng.randint(0, 3), rng.randint(0, 3)
    if rng.random() < 0.5 and left == right:  # asymmetric windows are the interesting ones under reverse
        right = (left + rng.randint(1, 3)) % 5
    c = dict(kind="cw", lens=gen_lens(rng, n, 4), F=rng.choice([1, 2]), alis=rng.random() < 0.6, refs=None, Wf=1,
             bs=rng.randint(1, 4), drop=rng.random() < 0.5, left=left, right=right,
             reverse=rng.random() < 0.5, su=rng.random() < 0.5, shuffle=rng.random() < 0.5,
             seed=rng.choice([0, 0, 1, rng.randint(0, 10 ** 6), rng.randint(0, 10 ** 6)]), e0=rng.randint(0, 2), k=rng.randint(0, 1),
             peek=rng.choice([None, None, 0, 1, 2, 3]), inter=rng.random() < 0.3)
    gen_entry(rng, c)
    c["seed_via"] = rng.choice(["arg", "arg", "params", "both"]) if c["entry"] != "split" else "arg"
    c["cls"] = rng.choice(["main", "main", "main", "train", "eval"])
    c["dep_args"] = rng.random() < 0.25
    return gen_names(rng, c, ["subset"] + (["noali"] if c["alis"] else []))


def gen_bbs(rng, big):
    nbk = rng.randint(1, 4)
    n = rng.randint(0, 14)
    i2b = [rng.randrange(nbk) for _ in range(n)]
    b2s = [rng.choice([1, 1, 2, 2, 3, 4, 5]) for _ in range(nbk)]
    if rng.random() < 0.08:
        b2s[rng.randrange(nbk)] = 0
    sampler = list(range(n))
    r = rng.random()
    if r < 0.5:
        rng.shuffle(sampler)
    elif r < 0.65 and n:  # a sub-sample (a distributed rank's share), or repeats
        sampler = [rng.randrange(n) for _ in range(rng.randint(0, n + 3))]
    return dict(kind="bbs", sampler=sampler, i2b=i2b, b2s=b2s, drop=rng.random() < 0.5,
                peek=rng.choice([None, 0, 1, 2, 3, 4, 5]), inter=rng.random() < 0.3,
                labels=rng.choice([None, None, "neg", "str", "tuple"]), call=rng.choice(["pos", "kw", "default"]),
                seqtype=rng.choice(["list", "tuple"]))


def gen_collate(rng, big):
    n = rng.randint(1, 5)
    none_ali, none_ref = rng.random() < 0.25, rng.random() < 0.25
    all_ref_none = rng.random() < 0.15
    items = []
    for i in rng.sample(range(20), n):
        items.append((i, rng.randint(0, 5), not (none_ali and rng.random() < 0.5),
                      None if all_ref_none or (none_ref and rng.random() < 0.5) else rng.randint(0, 3)))
    return gen_call(rng, dict(kind="collate", items=items, F=rng.choice([1, 2]), W=rng.choice([1, 3]), bf=rng.random() < 0.5,
                              sort=rng.random() < 0.6, has_alis=rng.random() < 0.7, has_ids=rng.random() < 0.6))


def gen_call(rng, case):
    """memory layout / dtype, calling convention, container type and unusual ids for the direct calls"""
    case["layout"] = rng.choice([None, None, "t", "off", "step", "wide"])
    case["call"] = rng.choice(["pos", "kw", "default"])
    case["seqtype"] = rng.choice(["list", "tuple"])
    case["weird"] = rng.random() < 0.4
    return case


def gen_lcollate(rng, big):
    n = rng.randint(1, 5)
    return gen_call(rng, dict(kind="lcollate", items=[(i, rng.randint(0, 4)) for i in rng.sample(range(20), n)],
                              W=rng.choice([1, 3]), bf=rng.random() < 0.5, sort=rng.random() < 0.6, has_ids=rng.random() < 0.6))


def gen_cwcollate(rng, big):
    n = rng.randint(1, 4)
    some_none = rng.random() < 0.3
    return gen_call(rng, dict(kind="cwcollate", items=[(i, rng.randint(0, 3), not (some_none and rng.random() < 0.5))
                                                       for i in rng.sample(range(20), n)],
                              F=rng.choice([1, 2]), left=rng.randint(0, 2), right=rng.randint(0, 2), has_ids=rng.random() < 0.6))


def gen_window(rng, big):
    T = rng.randint(1, 6)
    return gen_call(rng, dict(kind="window", T=T, F=rng.choice([1, 2]), idx=rng.randrange(T), left=rng.randint(0, 7),
                              right=rng.randint(0, 7), reverse=rng.random() < 0.5))


GENS = {"spect": gen_spect, "lang": gen_lang, "cw": gen_cw, "bbs": gen_bbs, "collate": gen_collate,
        "lcollate": gen_lcollate, "cwcollate": gen_cwcollate, "window": gen_window}


def exhaustive_cases(chk):
    """small scope: every length vector over {0,1,2} (up to N utterances), every bucket count 1..3,
    batch size 1..2, dynamic flag, drop_last, sequential order; plus every bucket assignment of
    up to 5 indices over 2 buckets for the bare sampler"""
    thorough = chk.tier == "thorough"
    maxn = 4 if thorough else 3
    cases = []
    count = 0
    for n in range(0, maxn + 1):
        for lens in itertools.product(range(3), repeat=n):
            for nb, bs, dyn, drop in itertools.product((1, 2, 3), (1, 2), (False, True), (False, True)):
                count += 1
                if not thorough and n == 3 and count % 3:
                    continue
                cases.append(dict(kind="spect", lens=list(lens), F=1, alis=False, refs=None, Wf=1, tokens_only=True,
                                  bs=bs, nb=nb, dyn=dyn, drop=drop, shuffle=False, seed=0, sort=bool(count % 2),
                                  bf=bool((count // 2) % 2), su=bool((count // 4) % 2), sa=True, e0=0, k=0,
                                  peek=(None, 0, 1, 2)[(count // 8) % 4] if nb > 1 else None, inter=False,
                                  stream="exhaustive"))
    for n in range(0, 6 if thorough else 5):
        for assign in itertools.product(range(2), repeat=n):
            for s0, s1, drop in itertools.product((1, 2, 3), (1, 2, 3), (False, True)):
                cases.append(dict(kind="bbs", sampler=list(range(n)), i2b=list(assign), b2s=[s0, s1], drop=drop,
                                  stream="exhaustive"))
    # history: every bucket assignment of 3..5 indices over 2 buckets, abandon the iterator after k batches
    for n in range(3, 6):
        for assign in itertools.product(range(2), repeat=n):
            for (s0, s1), peek, drop in itertools.product(((2, 2), (2, 3), (3, 1)), (1, 2, 3), (False, True)):
                if not thorough and (n + peek + s1 + sum(assign)) % 2:
                    continue
                cases.append(dict(kind="bbs", sampler=list(range(n)), i2b=list(assign), b2s=[s0, s1], drop=drop,
                                  peek=peek, inter=(n + peek) % 3 == 0, stream="exhaustive-history"))
    chk.extra["exhaustive"] = thorough
    chk.extra["exhaustive_scope"] = (
        "SpectDataLoader on real directories: all length vectors over {0,1,2} with N<=%d (N=3 sliced 1/3 in quick), "
        "num_length_buckets 1..3, batch_size 1..2, size_batch_by_length, drop_last, sequential order; "
        "BucketBatchSampler: all assignments of N<=%d indices to 2 buckets, sizes 1..3 each, drop_incomplete; history: "
        "all assignments of 3..5 indices, an iterator abandoned after 1..3 batches, then a full pass (half in quick)"
        % (maxn, 5 if thorough else 4))
    return cases


# size thresholds / algorithm regimes: one tensor / list extent at a time at and next to 16, 32, 64, 128, 256, the
# other extents small.  Every case carries an element that FILLS the extent (the longest utterance ends in the last
# padded cell, the sampler's last index completes a batch, the centre frame is the last frame), payloads are injective
# (`enc`) so that a permuted, dropped or duplicated cell shows, and the sort-like steps (sort_batch, the (length, index)
# sort behind the quantile bounds, the flush by bucket id) get MANY TIED keys in a scrambled arrival order.  All of them
# are judged by the same Coq check terms as the small cases.
SIZE_Q = [17, 32, 33, 64, 65, 128, 129]
SIZE_T = [16, 17, 31, 32, 33, 63, 64, 65, 127, 128, 129, 255, 256, 257]


def _upto(sizes, cap):
    return [s for s in sizes if s <= cap]


def size_cases(chk):
    import random

    rng = random.Random(1000003 * int(chk.seed) + 14)
    thorough = chk.tier == "thorough"
    S = SIZE_T if thorough else SIZE_Q
    out = []

    def add(dim, **c):
        c["stream"], c["dim"] = "size", dim
        out.append(c)

    def flip():
        return rng.random() < 0.5

    def shuffled(xs):
        xs = list(xs)
        rng.shuffle(xs)
        return xs

    def seed():
        return rng.choice([0, 1, rng.randint(0, 10 ** 6)])

    def spect(dim, lens, **kw):
        c = dict(kind="spect", lens=lens, F=1, alis=False, refs=None, Wf=1, tokens_only=True, bs=2, nb=2, dyn=flip(),
                 drop=False, shuffle=True, seed=seed(), sort=True, bf=flip(), su=False, sa=True, e0=rng.randint(0, 2), k=0,
                 peek=None, inter=False, enc=[max(lens + [0]) + 1, 1])
        c.update(kw)
        if c.get("refs") is not None:
            c["enc"] = [c["enc"][0], max(c["refs"] + [0]) + 1]
        add(dim, **c)

    def lang(dim, lens, **kw):
        c = dict(kind="lang", lens=lens, Wf=rng.choice([1, 3]), tokens_only=flip(), bs=2, nb=2, dyn=flip(), drop=False,
                 shuffle=True, seed=seed(), sort=True, bf=flip(), su=False, e0=rng.randint(0, 2), k=0, peek=None, inter=False,
                 enc=[1, max(lens + [0]) + 1])
        c.update(kw)
        add(dim, **c)

    def cw(dim, lens, **kw):
        c = dict(kind="cw", lens=lens, F=1, alis=flip(), refs=None, Wf=1, bs=2, drop=False, left=1, right=1, reverse=flip(),
                 su=False, shuffle=True, seed=seed(), e0=rng.randint(0, 2), k=0, peek=None, inter=False,
                 enc=[max(lens + [0]) + 1, 1])
        c.update(kw)
        add(dim, **c)

    def tied(n, vals):
        """n lengths over a few values (ties everywhere), every value present"""
        xs = [rng.choice(vals) for _ in range(n)]
        for j, v in enumerate(vals[:n]):
            xs[j] = v
        return shuffled(xs)

    def ramp(n, g):
        """ties in groups of g, neighbouring groups one apart (every quantile index sits next to a different length),
        a single longest utterance"""
        return shuffled([j // g for j in range(n - 1)] + [(n - 1) // g + 1])

    for rep in range(2 if thorough else 1):
        # ---- BucketBatchSampler: sampler length / batch size of a bucket / number of buckets
        for n in S + ([256, 257] if not thorough else []):
            nbk = rng.choice([2, 3])
            i2b = [rng.randrange(nbk) for _ in range(n)]
            sampler = shuffled(range(n))
            b2s = [rng.choice([2, 3, 4, 5]) for _ in range(nbk)]
            # the LAST index the sampler yields completes a batch of its bucket (without it: a short / dropped batch)
            cnt = sum(1 for i in sampler if i2b[i] == i2b[sampler[-1]])
            divs = [d for d in (2, 3, 4, 5, 7) if cnt % d == 0]
            if divs:
                b2s[i2b[sampler[-1]]] = rng.choice(divs)
            add("bbs.n", kind="bbs", sampler=sampler, i2b=i2b, b2s=b2s, drop=flip(), seqtype=rng.choice(["list", "tuple"]))
        for B in S:
            n0, n1 = rng.choice([B, B, B + 1, 2 * B, 2 * B - 1]), rng.randint(1, 4)
            i2b = shuffled([0] * n0 + [1] * n1)
            sampler = shuffled(range(n0 + n1))
            j = max(p for p, i in enumerate(sampler) if i2b[i] == 0)  # an index of the big bucket comes last
            sampler[j], sampler[-1] = sampler[-1], sampler[j]
            add("bbs.size", kind="bbs", sampler=sampler, i2b=i2b, b2s=[B, 2], drop=flip())
        for K in _upto(S, 129):
            b2s = [rng.choice([2, 3]) for _ in range(K)]
            # every bucket stays incomplete until the end: the flush sorts K open buckets that were opened in a scrambled order
            i2b = shuffled([b for b in range(K) for _ in range(rng.randint(1, b2s[b] - 1))])
            extra = rng.sample(range(K), 3)  # ... but three of them fill up
            i2b = shuffled(i2b + [b for b in extra for _ in range(b2s[b])])
            add("bbs.buckets", kind="bbs", sampler=shuffled(range(len(i2b))), i2b=i2b, b2s=b2s, drop=rng.random() < 0.2,
                labels=rng.choice([None, "neg", "str", "tuple"]))
        # ---- collate functions: number of items (tied lengths, sort), then T / R / F / C one at a time
        for N in _upto(S, 129):
            ids, vals = shuffled(range(N)), sorted(rng.sample(range(4), 2))
            lens = tied(N, vals)
            direct = dict(layout=None, call=rng.choice(["pos", "kw"]), seqtype=rng.choice(["list", "tuple"]), weird=False)
            add("collate.N", kind="collate", items=[(i, T, True, rng.randint(0, 2)) for i, T in zip(ids, lens)], F=1,
                W=rng.choice([1, 3]), bf=flip(), sort=True, has_alis=True, has_ids=True, enc=[4, 3], **direct)
            add("lcollate.N", kind="lcollate", items=list(zip(ids, tied(N, vals))), W=rng.choice([1, 3]), bf=flip(), sort=True,
                has_ids=True, enc=[1, 4], **direct)
            if N in (17, 33, 65, 129) or thorough:
                add("cwcollate.N", kind="cwcollate", items=[(i, rng.randint(0, 2), True) for i in ids], F=1, left=1, right=0,
                    has_ids=True, enc=[3, 1], **direct)
        for X in _upto(S, 257) + ([257] if not thorough else []):
            direct = dict(layout=rng.choice([None, None, "t", "off", "step"]), call="pos", seqtype="list", weird=False)
            if X % 2 or thorough:
                # the utterance that fills T ends in the last padded cell; the others are one shorter / very short
                add("collate.T", kind="collate", items=shuffled([(0, 1, True, 1), (1, X, True, 2), (2, X - 1, True, 0), (3, X, True, 1)]),
                    F=rng.choice([1, 2]) if X <= 129 else 1, W=1, bf=flip(), sort=flip(), has_alis=True, has_ids=True, enc=[X + 1, 3], **direct)
                add("lcollate.R", kind="lcollate", items=shuffled([(0, X - 1), (1, X), (2, 1), (3, X)]), W=rng.choice([1, 3]), bf=flip(),
                    sort=flip(), has_ids=True, enc=[1, X + 1], **direct)
            if X <= 129 and (X % 2 or thorough):
                add("collate.R", kind="collate", items=shuffled([(0, 2, True, X - 1), (1, 1, True, X), (2, 3, True, 1)]), F=1,
                    W=rng.choice([1, 3]), bf=flip(), sort=flip(), has_alis=flip(), has_ids=True, enc=[4, X + 1], **direct)
                add("collate.F", kind="collate", items=shuffled([(0, 2, True, 1), (1, 0, True, 0), (2, 3, True, 2)]), F=X, W=1,
                    bf=flip(), sort=flip(), has_alis=flip(), has_ids=True, enc=[4, 3], **direct)
                add("cwcollate.T", kind="cwcollate", items=shuffled([(0, X, True), (1, 2, True), (2, X - 1, True)]), F=1, left=1, right=1,
                    has_ids=True, enc=[X + 1, 1], **direct)
                lr = (X - 1, 0) if flip() else (rng.randint(0, 1), X - 1 - rng.randint(0, 1))
                add("cwcollate.C", kind="cwcollate", items=[(0, 2, True), (1, 3, True)], F=1, left=lr[0], right=lr[1], has_ids=flip(),
                    enc=[4, 1], **direct)
                add("cwcollate.F", kind="cwcollate", items=[(0, 2, True), (1, 1, True)], F=X, left=1, right=0, has_ids=flip(),
                    enc=[3, 1], **direct)
        # ---- extract_window: T (centre = last / first / inner frame), left, right, F
        for X in _upto(S, 257) + ([256, 257] if not thorough else []):
            direct = dict(layout=rng.choice([None, None, "t", "off", "step"]), call=rng.choice(["pos", "kw"]), enc=[X + 2, 1])
            add("window.T", kind="window", T=X, F=rng.choice([1, 2]), idx=X - 1, left=rng.randint(0, 3), right=rng.randint(1, 3),
                reverse=flip(), **direct)
            add("window.T", kind="window", T=X, F=1, idx=rng.choice([0, X - 2, X // 2, X - rng.randint(1, 3)]), left=rng.randint(0, 3),
                right=rng.randint(0, 3), reverse=flip(), **direct)
            if X <= 129:
                T = rng.choice([1, 2, 3, X, X + 1])  # X + 1 frames, centre X: the window fits exactly, nothing is replicated
                add("window.left", kind="window", T=T, F=1, idx=T - 1 if T > 3 else rng.randrange(T), left=X, right=rng.randint(0, 2),
                    reverse=flip(), **direct)
                T = rng.choice([1, 2, 3, X, X + 1])
                add("window.right", kind="window", T=T, F=1, idx=0 if T > 3 else rng.randrange(T), left=rng.randint(0, 2), right=X,
                    reverse=flip(), **direct)
                add("window.F", kind="window", T=3, F=X, idx=rng.randrange(3), left=rng.randint(0, 2), right=rng.randint(0, 2),
                    reverse=flip(), **direct)
        # ---- the loaders on real directories
        for N in _upto(S, 129 if thorough else 65):
            # number of utterances: the (length, index) sort and the quantile indices over N entries with many ties
            lens = tied(N, sorted(rng.sample(range(5), 3))) if flip() else ramp(N, rng.choice([2, 3]))
            spect("spect.N", lens, nb=rng.choice([2, 3, 4, 5]), bs=rng.randint(2, 5), drop=flip(), su=flip())
            # batch size 1: every sample of the epoch, the last one included, is a batch of its own in len()
            (spect if N != 33 else lang)("spect.N" if N != 33 else "lang.N", shuffled(lens), nb=rng.choice([2, 3]), bs=1, dyn=False,
                                         shuffle=flip())
            if N % 2 or thorough:
                lens = ramp(N, rng.choice([2, 3])) if flip() else tied(N, sorted(rng.sample(range(5), 3)))
                lang("lang.N", lens, nb=rng.choice([2, 3, 4, 5]), bs=rng.randint(2, 5), drop=flip(), su=flip())
                cw("cw.N", tied(N, [0, 1, 2]), bs=rng.choice([N, N - 1, 17, 3]), drop=flip())
        for bs in _upto(S, 65):
            if not (bs % 2 or thorough):
                continue
            # batch size: one collated batch of >= bs utterances whose lengths are tied, sort_batch=True
            spect("spect.bs", tied(bs + rng.randint(0, 3), sorted(rng.sample(range(1, 4), 2))), nb=1, bs=bs, dyn=False)
            if bs <= 33:
                # two buckets: bs + r1 utterances of ONE length (bound a), bs + r2 of two longer lengths (bound c): each bucket
                # delivers a full batch of bs tied utterances
                a, b, c = sorted(rng.sample(range(1, 5), 3))
                r1 = rng.randint(0, 2)
                r2 = rng.randint(0, r1 + 1)
                spect("spect.bs", shuffled([a] * (bs + r1) + [b] * (bs // 2) + [c] * (bs - bs // 2 + r2)), nb=2, bs=bs, dyn=False)
                lang("lang.bs", tied(bs + rng.randint(0, 3), sorted(rng.sample(range(4), 2))), nb=1, bs=bs, dyn=False)
        for nb in _upto(S, 65):
            if not (nb % 2 or thorough):
                continue
            # number of length buckets (also far more buckets than utterances)
            n = 2 * nb + rng.randint(0, 3) if nb <= 33 else rng.randint(17, 24)
            spect("spect.nb", ramp(n, 2), nb=nb, bs=2)
            if nb <= 17 or thorough:
                lang("lang.nb", ramp(n, 2), nb=nb, bs=rng.choice([1, 2]))
        for X in _upto(S, 257) + ([257] if not thorough else []):
            if not (X % 2 or thorough):
                continue
            # T / R / F / window sizes: the longest utterance defines the padded extent, the last bound and the dynamic sizes
            spect("spect.T", shuffled([X, 1, X - 1, 0, X]), alis=True, sa=False, nb=2, bs=rng.choice([1, 2]),
                  F=rng.choice([1, 2]) if X <= 129 else 1)
            if X <= 129 or thorough:
                lang("lang.R", shuffled([X, X - 1, 1, 2, X]), nb=2, bs=rng.choice([1, 2]))
            if X <= 129:
                spect("spect.R", [2, 1, 3], refs=shuffled([X, X - 1, 1]), Wf=rng.choice([1, 3]), tokens_only=False, nb=1, bs=3)
                spect("spect.F", shuffled([2, 0, 3]), F=X, nb=1, bs=rng.choice([2, 3]))
                cw("cw.T", shuffled([X, 2, X - 1]), left=rng.randint(0, 2), right=rng.randint(1, 2))
            if X <= 65:
                cw("cw.left", shuffled([2, 3, 1]), left=X, right=rng.randint(0, 1))
                cw("cw.right", shuffled([2, 3, 1]), left=rng.randint(0, 1), right=X)
                cw("cw.F", shuffled([2, 1]), F=X)
    rng.shuffle(out)  # the heavy terms of one dimension do not end up in one evaluation shard
    return out


def gen_cases(chk):
    cases = exhaustive_cases(chk)
    for c in load_corpus("C14"):
        c = dict(c.get("case", c))
        c["stream"] = "corpus"
        cases.append(c)
    big = chk.tier == "thorough"
    mult = 12 if big else 1
    # (the size stream below replaced 25 + 15 + 15 random loader cases and 110 random direct calls: same wall time)
    plan = [("spect", 255), ("lang", 145), ("cw", 135), ("bbs", 370), ("collate", 180), ("lcollate", 85),
            ("cwcollate", 65), ("window", 120)]
    for kind, n in plan:
        for _ in range(n * mult):
            c = GENS[kind](chk.rng, big)
            c["stream"] = "random"
            cases.append(c)
    # the size cases carry the large Coq terms: spread them over the evaluation shards
    big_ones = size_cases(chk)
    step = max(len(cases) // (len(big_ones) + 1), 1)
    for j, c in enumerate(big_ones):
        cases.insert(min((j + 1) * step + j, len(cases)), c)
    return cases


# ------------------------------------------------------------------------------------------
# running, judging, reporting
# ------------------------------------------------------------------------------------------


def nontrivial(case, out):
    k = case["kind"]
    if k in ("spect", "lang"):
        return case["nb"] > 1 and len(case["lens"]) >= 2 and "ok" in out and len(set(out["ok"]["tables"][0])) >= 2 \
            if ("ok" in out and out["ok"]["tables"] and not isinstance(out["ok"]["tables"], dict)) else False
    if k == "cw":
        return len(case["lens"]) >= 2 and (case["left"] + case["right"]) > 0
    if k == "bbs":
        return len(set(case["i2b"][i] for i in case["sampler"])) >= 2 and len(case["sampler"]) >= 3
    if k in ("collate", "lcollate", "cwcollate"):
        return len(case["items"]) >= 2 and len({it[1] for it in case["items"]}) >= 2
    if k == "window":
        return case["idx"] < case["left"] or case["idx"] + case["right"] + 1 > case["T"]
    return False


def evaluate(chk, case, root):
    """-> (impl output, model-agreement term, spec term or None, aux)"""
    k = case["kind"]
    set_names(case)
    with warnings.catch_warnings():
        warnings.simplefilter("ignore")
        if k == "spect":
            out = run_spect(case, root)
            return out, spect_model_term(case, out), spect_spec_term(case, out)
        if k == "lang":
            out = run_lang(case, root)
            return out, lang_model_term(case, out), loader_spec_term(case, out, case["lens"])
        if k == "cw":
            out = run_cw(case, root)
            return out, cw_model_term(case, out), None
        if k == "bbs":
            out = run_bbs(case)
            return out, bbs_model_term(case, out), bbs_spec_term(case, out)
        if k == "collate":
            out, items = run_collate(case)
            m, s = collate_terms(case, out, items)
            return out, m, s
        if k == "lcollate":
            out, items = run_lcollate(case)
            return out, lcollate_term(case, out, items), None
        if k == "cwcollate":
            out, items = run_cwcollate(case)
            return out, cwcollate_term(case, out, items), None
        if k == "window":
            out, feat = run_window(case)
            return out, window_term(case, out, feat), None
    raise ValueError(k)


def region(case):
    """parts of the input space where the faithful model itself violates the property (a recorded,
    unrepaired defect; there, code that differs from the model but satisfies the spec is what a
    repaired /repo looks like).  Empty since F8 and F11 were repaired in /repo: the model describes
    the repaired code and is proved to satisfy the property everywhere."""
    return []


def _defect_area(case):
    """labels only: where F8 / F11 used to strike, so that a regression is named in the record"""
    k = case["kind"]
    r = []
    if k in ("spect", "lang") and case["nb"] > 1:
        if len(case["lens"]) == 0:
            r.append("F8-empty")
        if case["dyn"] and 0 in case["lens"]:
            r.append("F8-zero")
        if k == "lang" and case["su"]:
            r.append("F11-lang-suppress")
    return r


def finding_class(case, out):
    """which repaired defect's symptom an observed violation shows (None = something else)"""
    r = _defect_area(case)
    err = out.get("err")
    if err == "IndexError" and "F8-empty" in r:
        return "F8-empty"
    if err == "ZeroDivisionError" and "F8-zero" in r:
        return "F8-zero"
    if err == "IndexError" and "F11-lang-suppress" in r and "Dimension specified" in out.get("msg", ""):
        return "F11-lang-suppress"
    return None


def known_signature(entry, record):
    sig = entry.get("signature", {})
    return sig.get("class") is not None and sig.get("class") == record.get("finding_class")


def _shrink_cands(case):
    if "lens" in case and case["lens"]:
        for i in range(len(case["lens"])):
            c = dict(case)
            c["lens"] = case["lens"][:i] + case["lens"][i + 1:]
            if case.get("refs") is not None:
                c["refs"] = case["refs"][:i] + case["refs"][i + 1:]
            if case.get("names") is not None:
                c["names"] = case["names"][:i] + case["names"][i + 1:]
            if not c["lens"] and case.get("decoys"):  # a missing companion file only excludes while the directory has others
                c["decoys"] = [d for d in case["decoys"] if d[2] == "subset"]
            yield c
        for i, v in enumerate(case["lens"]):
            if v > 0:
                c = dict(case)
                c["lens"] = list(case["lens"])
                c["lens"][i] = v - 1
                yield c
    if case["kind"] == "bbs" and case["sampler"]:
        for i in range(len(case["sampler"])):
            c = dict(case)
            c["sampler"] = case["sampler"][:i] + case["sampler"][i + 1:]
            yield c
    if "items" in case and len(case["items"]) > 1:
        for i in range(len(case["items"])):
            c = dict(case)
            c["items"] = case["items"][:i] + case["items"][i + 1:]
            yield c
    for key, lo in (("k", 0), ("e0", 0), ("bs", 1), ("nb", 1), ("left", 0), ("right", 0)):
        if key in case and case[key] > lo:
            c = dict(case)
            c[key] = case[key] - 1
            yield c
    if case.get("peek"):
        c = dict(case)
        c["peek"] = case["peek"] - 1
        yield c
    for key in ("shuffle", "sort", "dyn", "drop", "alis", "reverse", "inter"):
        if case.get(key) is True:
            c = dict(case)
            c[key] = False
            yield c
    if case.get("refs") is not None:
        c = dict(case)
        c["refs"] = None
        yield c
    for key, dflt in (("decoys", None), ("entry", "path"), ("cls", "main"), ("seed_via", "arg"), ("dep_args", False), ("inter2", False),
                      ("omit_defaults", False), ("layout", None), ("call", "pos"), ("seqtype", "list"), ("weird", False), ("labels", None)):
        if case.get(key, dflt) not in (dflt, [], None) or (key == "decoys" and case.get(key)):
            c = dict(case)
            c[key] = dflt
            yield c
    if case.get("names") is not None and not case.get("decoys"):
        c = dict(case)
        c["names"] = None
        yield c


def verdict(case, out, agree, spec):
    """-> 'ok' | 'violation' | 'repaired' | 'nfi'.
    agree = output equals the as-coded model's; spec = Spec.v verdict on the output (None = not
    evaluated / the output is uniquely determined and the model is the reference)"""
    raised = "err" in out and case["kind"] != "bbs"
    if raised or spec is False:
        return "violation"
    if agree:
        return "ok"
    if spec is None:
        return "violation"
    return "repaired" if region(case) else "nfi"


def needs_spec(case, out, agree):
    return (not agree) or ("err" in out) or bool(region(case))


def judge_one(chk, case, root):
    out, m, s = evaluate(chk, case, root)
    agree = coq_eval_bools(chk.workdir, IMPORTS, [m], tag="j")[0]
    spec = None
    if s is not None and needs_spec(case, out, agree):
        spec = coq_eval_bools(chk.workdir, IMPORTS, [s], tag="js")[0]
    return out, agree, spec, verdict(case, out, agree, spec)


def run(chk, cases=None):
    chk.rule = (
        "streams: spect/lang/cw = a real data directory is written, the public loader is built on it (two instances "
        "with the same seed), len(), the index batches of k+1 successive epochs, the exposed idx2bucket/bucket2size and "
        "the collated tensors of the first epoch are compared with PV.C14.Model on NumPy's permutation for (seed, epoch); "
        "bbs = BucketBatchSampler on explicit maps; collate/lcollate/cwcollate/window = the public collate functions and "
        "extract_window on synthetic tensors. History: before the recorded pass an iterator of the same sampler/loader is "
        "abandoned after `peek` batches (epoch put back), and (`inter`) two iterators are advanced alternately; the model "
        "starts every __iter__ from empty accumulators; `inter2` does the same with two iterators of one loader, and a yielded batch "
        "is only looked at after its iterator is exhausted. Variants drawn independently of the arithmetic: entry (path / shared data-set "
        "object / separate data_params / data_params is params / positional call), deprecated wrapper classes, cw seed by params vs "
        "argument and deprecated left/right/reverse arguments, own utterance names (prefixes of each other, separators) and decoy "
        "utterances excluded by subset_ids or a missing companion file, memory layout / float64 / keyword call / tuple container for the "
        "direct calls (inputs unchanged, dtype kept); every cw data set is compared frame by frame with extract_window. Stream `size`: one "
        "extent at a time (utterances, batch size, buckets, sampler length, items of a collated batch, T, R, F, window left/right) at 16..257 "
        "with an element that fills the extent, injective payloads and many tied sort keys, judged by the same model terms. Where model and code differ, where the code raises, and in the regions of "
        "the recorded defects the Spec.v checkers judge the code's output. "
        "non-trivial = at least two buckets actually occur (loaders), two buckets among >=3 samples (bbs), two "
        "different lengths (collate), an edge actually replicated (window)")
    chk.assumptions += [
        "np.random.RandomState((seed, epoch)).permutation(n) is the order oracle handed to the model (as in C13)",
        "features, alignments and references are integer-valued so float32 storage is exact",
        "torch.utils.data.BatchSampler, torch.nn.utils.rnn.pad_sequence, torch.cat, sorted() are modelled by their documented semantics",
        "single process, num_workers=0, no torch.distributed group (the property does not quantify over ranks)"]
    replaying = cases is not None
    cases = cases if cases is not None else gen_cases(chk)
    root = str(chk.workdir / "data")
    outs, mterms, sterms = [], [], []
    for c in cases:
        stream = c.pop("stream", "random")
        out, m, s = evaluate(chk, c, root)
        outs.append(out)
        mterms.append(m)
        sterms.append(s)
        chk.note_case(c, nontrivial(c, out), stream)
        chk.count("kind=" + c["kind"])
        if c.get("dim"):
            chk.count("size.dim=" + c["dim"])
        chk.count("outcome=" + ("ok" if "ok" in out else "raise:" + out["err"]))
        for key in ("nb", "bs", "dyn", "drop", "shuffle", "sort", "bf", "su", "sa", "tokens_only", "reverse", "has_alis", "has_ids", "peek", "inter",
                    "inter2", "entry", "cls", "seed_via", "dep_args", "layout", "call", "seqtype", "weird", "omit_defaults", "labels"):
            if key in c:
                chk.count("%s.%s=%s" % (c["kind"], key, c[key]))
        if "lens" in c:
            chk.count("%s.n=%d" % (c["kind"], len(c["lens"])))
            chk.count("%s.names=%s" % (c["kind"], "own" if c.get("names") is not None else "default"))
            chk.count("%s.decoys=%d" % (c["kind"], len(c.get("decoys") or [])))
            chk.count("%s.seed=%s" % (c["kind"], "0" if c["seed"] == 0 else "other"))
        if c["kind"] == "cw":
            chk.count("cw.window=%s%s" % ("asym" if c["left"] != c["right"] else "sym", "+reverse" if c["reverse"] else ""))
    mres = coq_eval_bools(chk.workdir, IMPORTS, mterms, shard=120)
    source_tie(chk, cases, outs)
    from props import c14_tie      # second source tie: windows, collate functions, bucket parameters interpreted in Coq
    c14_tie.source_tie(chk, cases, outs)
    need = [i for i in range(len(cases)) if sterms[i] is not None and needs_spec(cases[i], outs[i], mres[i])]
    sres = dict(zip(need, coq_eval_bools(chk.workdir, IMPORTS, [sterms[i] for i in need], shard=60, tag="spec")))
    chk.extra["model_disagreements"] = sum(1 for r in mres if not r)
    chk.extra["spec_evaluated"] = len(need)
    chk.extra["spec_rejections"] = sum(1 for v in sres.values() if not v)

    picked, nfi = {}, []
    for i, c in enumerate(cases):
        v = verdict(c, outs[i], mres[i], sres.get(i))
        chk.count("verdict=" + v)
        if v == "nfi":
            nfi.append(i)
        elif v == "violation":
            fc = finding_class(c, outs[i])
            key = fc or ("new:" + c["kind"])
            if key not in picked or len(json.dumps(c)) < len(json.dumps(cases[picked[key]])):
                picked[key] = i

    for key, i in sorted(picked.items()):
        c, out, agree, spec = cases[i], outs[i], mres[i], sres.get(i)
        fc = finding_class(c, out)
        if fc is None and not replaying:
            def still(cc):
                return judge_one(chk, cc, root)[3] == "violation" and finding_class(cc, judge_one(chk, cc, root)[0]) is None
            c = shrink(c, still, _shrink_cands, budget=20)
            out, agree, spec, _ = judge_one(chk, c, root)
        rec = {"case": c, "impl": _brief(out), "finding_class": fc, "correspondence": "corr:C14:" + c["kind"],
               "model_agrees": bool(agree), "spec_accepts_impl": spec, "theorems_at_stake": THEOREMS}
        if "err" in out and c["kind"] != "bbs":
            rec["spec_accepts_impl"] = False
            rec["what"] = ("%s raised %s (%s) where the property promises batches (len() = number of batches, every "
                           "utterance delivered)" % (c["kind"], out["err"], out.get("msg", "")))
        elif spec is False:
            rec["what"] = "implementation output violates the property's boolean reading (Spec.v): " + _why(c, out)
        else:
            rec["what"] = ("%s output differs from the model; this output is uniquely determined and the model is proved "
                           "to satisfy the property, so the input is a failing input" % c["kind"])
        chk.report(rec, known_signature)
    if nfi and not picked:
        i = nfi[0]
        chk.report({"case": cases[i], "impl": _brief(outs[i]), "correspondence": "corr:C14:" + cases[i]["kind"],
                    "theorems_at_stake": THEOREMS, "disagreeing_cases": len(nfi),
                    "what": "implementation differs from the model but every explored output satisfies the property's boolean reading"},
                   no_failing_input=True)
    elif nfi:
        chk.extra["model_disagreements_with_spec_ok"] = len(nfi)
    shutil.rmtree(root, ignore_errors=True)


def _brief(out):
    s = json.dumps(out, default=str)
    return out if len(s) < 3000 else s[:3000] + "..."


def _why(case, out):
    if case["kind"] == "lang" and case.get("su") and case.get("nb", 1) > 1:
        return ("LangDataLoader with suppress_uttids=True does not bucket by the reference length (F11: x[0].size(0) of a "
                "bare tensor): batches mix length classes")
    o = out.get("ok", {})
    if isinstance(o, dict) and o.get("meta"):
        return "; ".join(o["meta"])
    return "see impl / spec_accepts_impl"


def replay(chk, path):
    rec = json.loads(open(path).read())
    case = dict(rec["case"])
    case.pop("stream", None)
    run(chk, [case])
