(* C04 — the translated source of `beam_search_advance` as an executable: the environment [ext04],
   the encoding of the model's beams as MiniPy tensors, and the correspondence entry point
   [src_advance_check] (same interface as Model.check_advance).  Definitions only; the lemmas are
   in Tie.v.

   PV.Gen.C04Src.bsa_body is regenerated from /repo/src/pydrobert/torch/_decoding.py on every run by
   harness/py2coq/translate.py (the WHOLE body of the function; the decorator `@script` is outside
   it: TorchScript compilation is NOT modelled, the tie is about the Python text as eager CPython
   runs it).

   [ext04] gives the torch calls of that body the meaning defined in PV.MiniTorch.OpsC04 (values as
   elements: VQ / VInf for scores, VInt for integers; <= 3-D).  What arrives here (see MiniPy.Interp):
     x.dim() x.size(k) x.unsqueeze(k) x.flatten(k) x.topk(k, d) x.gather(d, i) x.expand(a, b, c)
     x.scatter(d, i, s) x.max() x.item() x.any() x.new_full(size, v) x.new_zeros(n, m)
     x.new_empty(a, b, c)            "$method.<name>" with the tensor as first argument
     x.shape                         "$attr.shape": the tuple of sizes (a MiniPy tuple of ints)
     x.dtype, x.device               "$attr.<name>": opaque tokens (only passed back to torch.ones);
                                     the dtype token exists only for a tensor all of whose elements
                                     are integers
     shape[1:]                       "$getitem" on a tuple with a slice(lo, hi, None)
     a + b, a + 1, a % V             "operator" ["add" | "mod"; a; b]
     a != 0                          "compare" ["ne"; a; 0]       (MiniPy.Interp: rich comparison of a tensor)
     torch.cat([a, b], d)  torch.ones(size, dtype=, device=)  trunc_divide(a, V)  int(v)  float("inf")
   ASSUMPTIONS: `trunc_divide` is pydrobert.torch._compat's wrapper, eager branch
   `input.div(other, rounding_mode="trunc")` (defined under a module-level `if`: not translated);
   torch.cat of tensors whose sizes differ outside the concatenating dimension raises RuntimeError;
   torch.topk's tie-break is the model's stable one (an oracle: torch leaves it unspecified; the
   harness cases have pairwise distinct finite sums, and slots with score -inf are compared by
   position only); `.any()` yields the Python bool its 0-d result converts to; cells of
   `new_empty` are 0.  Everything else is Stuck. *)
From Coq Require Import ZArith QArith List String Bool Arith.
From PV Require Import MiniPy.Syntax MiniPy.Interp MiniTorch.Ops MiniTorch.Value MiniTorch.OpsC04 Gen.C04Src.
From PV Require Import C04.Model.
Import ListNotations.
Local Open Scope string_scope.
Local Open Scope nat_scope.

(* ---- tensors as MiniPy values (the encoding of MiniTorch.Value, elements kept as they are) -------- *)
Definition enc_shape (sh : list nat) : list val := map (fun n => VInt (Z.of_nat n)) sh.

Definition encv (t : vt) : val := VTuple [VStr tensor_tag; VList (enc_shape (vshape t)); VList (vdata t)].

Definition decv (v : val) : option vt :=
  match v with
  | VTuple [VStr tag; VList sh; VList d] =>
      if String.eqb tag tensor_tag then option_map (fun s => mkVT s d) (dec_nats sh) else None
  | _ => None
  end.

Definition ret_t (why : string) (o : option vt) (st : state) : outcome val :=
  match o with Some t => Ok (encv t) st | None => Stuck ("MiniTorch(C04): outside the modelled domain: " ++ why) end.

Definition ret_v (why : string) (o : option val) (st : state) : outcome val :=
  match o with Some v => Ok v st | None => Stuck ("MiniTorch(C04): outside the modelled domain: " ++ why) end.

Definition runtime_error : string := "RuntimeError".

Definition ret_c (why : string) (c : cres) (st : state) : outcome val :=
  match c with
  | COk t => Ok (encv t) st
  | CRaise => Exc runtime_error st
  | CUndef => Stuck ("MiniTorch(C04): outside the modelled domain: " ++ why)
  end.

Definition device_token : val := VStr "$device".
Definition int_dtype_token : val := VStr "$dtype.int".

Definition no_kw (kw : list (string * val)) : bool := match kw with [] => true | _ => false end.

Definition ones_kw_ok (kw : list (string * val)) : bool :=
  (forallb (fun kv => (is (fst kv) "device" && val_eqb (snd kv) device_token)
                      || (is (fst kv) "dtype" && val_eqb (snd kv) int_dtype_token)) kw
   && existsb (fun kv => is (fst kv) "dtype") kw)%bool.

(* a bound of a tuple slice: None -> the default, a non-negative int -> itself (negative: not modelled) *)
Definition slice_bound (v : val) (dflt : nat) : option nat :=
  match v with
  | VNone => Some dflt
  | VInt z => if (0 <=? z)%Z then Some (Z.to_nat z) else None
  | _ => None
  end.

Definition ext04 (f : string) (args : list val) (kw : list (string * val)) (st : state) : outcome val :=
  if is f "torch.ones" then
    match args with
    | [VTuple sizes] =>
        if ones_kw_ok kw
        then match map_opt z_of sizes with Some zs => ret_t "ones" (ones_int zs) st | None => Stuck "ones: size" end
        else Stuck "ones: keywords"
    | _ => Stuck "ones"
    end
  else if negb (no_kw kw) then Stuck ("ext04: keyword arguments of " ++ f)
  else if is f "$method.dim" then
    match args with
    | [t] => match decv t with Some x => Ok (vnat (dim x)) st | None => Stuck "dim" end
    | _ => Stuck "dim"
    end
  else if is f "$attr.shape" then
    match args with
    | [t] => match decv t with Some x => Ok (VTuple (enc_shape (vshape x))) st | None => Stuck "shape" end
    | _ => Stuck "shape"
    end
  else if is f "$getitem" then
    match args with
    | [VTuple l; VTuple [VStr tag; lo; hi; VNone]] =>
        if String.eqb tag "$slice" then
          match slice_bound lo 0, slice_bound hi (List.length l) with
          | Some a, Some b => Ok (VTuple (firstn (b - a) (skipn a l))) st
          | _, _ => Stuck "tuple slice bounds"
          end
        else Stuck "getitem"
    | _ => Stuck "getitem"
    end
  else if is f "$method.size" then
    match args with
    | [t; VInt d] => match decv t with
                     | Some x => ret_v "size" (option_map vnat (size x d)) st
                     | None => Stuck "size" end
    | _ => Stuck "size"
    end
  else if is f "$method.unsqueeze" then
    match args with
    | [t; VInt d] => match decv t with Some x => ret_t "unsqueeze" (unsqueeze x d) st | None => Stuck "unsqueeze" end
    | _ => Stuck "unsqueeze"
    end
  else if is f "$method.flatten" then
    match args with
    | [t; VInt d] => match decv t with Some x => ret_t "flatten" (flatten x d) st | None => Stuck "flatten" end
    | _ => Stuck "flatten"
    end
  else if is f "operator" then
    match args with
    | [VStr o; a; b] =>
        if is o "add" then
          match decv a, decv b with
          | Some x, Some y => ret_t "add" (add x y) st
          | Some x, None => ret_t "add scalar" (add_scalar x b) st
          | None, _ => Stuck "add"
          end
        else if is o "mod" then
          match decv a, b with
          | Some x, VInt c => ret_t "remainder" (remainder x c) st
          | _, _ => Stuck "mod"
          end
        else Stuck ("operator " ++ o)
    | _ => Stuck "operator"
    end
  else if is f "compare" then
    match args with
    | [VStr o; a; VInt c] =>
        if is o "ne" then
          match decv a with Some x => ret_t "ne" (ne_scalar x c) st | None => Stuck "ne" end
        else Stuck ("compare " ++ o)
    | _ => Stuck "compare"
    end
  else if is f "$method.topk" then
    match args with
    | [t; VInt k; VInt d] =>
        match decv t with
        | Some x => match topk x k d with
                    | Some (vals, idx) => Ok (VTuple [encv vals; encv idx]) st
                    | None => Stuck "MiniTorch(C04): outside the modelled domain: topk"
                    end
        | None => Stuck "topk"
        end
    | _ => Stuck "topk"
    end
  else if is f "trunc_divide" then
    match args with
    | [t; VInt c] => match decv t with Some x => ret_t "trunc_divide" (trunc_div x c) st | None => Stuck "trunc_divide" end
    | _ => Stuck "trunc_divide"
    end
  else if is f "$method.gather" then
    match args with
    | [t; VInt d; i] =>
        match decv t, decv i with
        | Some x, Some ix => ret_t "gather" (gather x d ix) st
        | _, _ => Stuck "gather"
        end
    | _ => Stuck "gather"
    end
  else if is f "$method.scatter" then
    match args with
    | [t; VInt d; i; s] =>
        match decv t, decv i, decv s with
        | Some x, Some ix, Some sx => ret_t "scatter" (scatter x d ix sx) st
        | _, _, _ => Stuck "scatter"
        end
    | _ => Stuck "scatter"
    end
  else if is f "$method.expand" then
    match args with
    | t :: sizes =>
        match decv t, map_opt z_of sizes with
        | Some x, Some zs => ret_t "expand" (expand x zs) st
        | _, _ => Stuck "expand"
        end
    | _ => Stuck "expand"
    end
  else if is f "torch.cat" then
    match args with
    | [VList [a; b]; VInt d] =>
        match decv a, decv b with
        | Some x, Some y => ret_c "cat" (cat x y d) st
        | _, _ => Stuck "cat"
        end
    | _ => Stuck "cat"
    end
  else if is f "$method.new_full" then
    match args with
    | [t; VTuple sizes; v] =>
        match decv t, map_opt z_of sizes with
        | Some x, Some zs => ret_t "new_full" (new_full x zs v) st
        | _, _ => Stuck "new_full"
        end
    | _ => Stuck "new_full"
    end
  else if is f "$method.new_zeros" then
    match args with
    | t :: sizes =>
        match decv t, map_opt z_of sizes with
        | Some x, Some zs => ret_t "new_zeros" (new_zeros x zs) st
        | _, _ => Stuck "new_zeros"
        end
    | _ => Stuck "new_zeros"
    end
  else if is f "$method.new_empty" then
    match args with
    | t :: sizes =>
        match decv t, map_opt z_of sizes with
        | Some x, Some zs => ret_t "new_empty" (new_empty x zs) st
        | _, _ => Stuck "new_empty"
        end
    | _ => Stuck "new_empty"
    end
  else if is f "$method.max" then
    match args with
    | [t] => match decv t with Some x => ret_t "max" (tmax x) st | None => Stuck "max" end
    | _ => Stuck "max"
    end
  else if is f "$method.item" then
    match args with
    | [t] => match decv t with Some x => ret_v "item" (item x) st | None => Stuck "item" end
    | _ => Stuck "item"
    end
  else if is f "$method.any" then
    match args with
    | [t] => match decv t with Some x => ret_v "any" (option_map VBool (any x)) st | None => Stuck "any" end
    | _ => Stuck "any"
    end
  else if is f "int" then
    match args with [VInt z] => Ok (VInt z) st | _ => Stuck "int" end
  else if is f "float" then
    match args with
    | [VStr s] => if String.eqb s "inf" then Ok (VInf true) st
                  else if String.eqb s "-inf" then Ok (VInf false) st else Stuck "float"
    | _ => Stuck "float"
    end
  else if is f "$attr.device" then
    match args with
    | [t] => match decv t with Some _ => Ok device_token st | None => Stuck "device" end
    | _ => Stuck "device"
    end
  else if is f "$attr.dtype" then
    match args with
    | [t] => match decv t with
             | Some x => if all_int x then Ok int_dtype_token st else Stuck "dtype of a non-integer tensor"
             | None => Stuck "dtype" end
    | _ => Stuck "dtype"
    end
  else Stuck ("ext04: " ++ f).

(* ---- the model's state as tensors ------------------------------------------------------------------ *)
(* a score: Some z (a log-probability on the integer grid) is the float z, None is -inf *)
Definition esc (s : score) : val := match s with Some z => VQ (inject_Z z) | None => VInf false end.

(* log_probs_t (N, Kp, V), log_probs_prev (N, Kp), y_prev (S, N, Kp), y_prev_lens (N, Kp) *)
Definition enc_lpt (N Kp V : nat) (logp : list (list (list score))) : vt :=
  mkVT [N; Kp; V] (map esc (List.concat (List.concat logp))).
Definition enc_lpp (N Kp : nat) (beams : list (list slot)) : vt :=
  mkVT [N; Kp] (map (fun sl => esc (sc sl)) (List.concat beams)).
Definition enc_y (S N Kp : nat) (beams : list (list slot)) : vt :=
  mkVT [S; N; Kp] (flat_map (fun s => map (fun sl => VInt (nth s (col sl) 0%Z)) (List.concat beams)) (seq 0 S)).
Definition enc_lens (N Kp : nat) (beams : list (list slot)) : vt :=
  mkVT [N; Kp] (map (fun sl => vnat (len sl)) (List.concat beams)).

Definition advance_vars (V width S : nat) (has_lens : bool) (beams : list (list slot))
  (logp : list (list (list score))) : list (string * val) :=
  let N := List.length beams in
  let Kp := List.length (hd [] beams) in
  [("log_probs_t", encv (enc_lpt N Kp V logp));
   ("width", VInt (Z.of_nat width));
   ("log_probs_prev", encv (enc_lpp N Kp beams));
   ("y_prev", encv (enc_y S N Kp beams));
   ("y_prev_lens", if has_lens then encv (enc_lens N Kp beams) else VNone)].

(* the interpreted source *)
Definition run_advance (V width S : nat) (has_lens : bool) (beams : list (list slot))
  (logp : list (list (list score))) : outcome val :=
  Interp.run ext04 bsa_body (advance_vars V width S has_lens beams logp).

(* ---- the returned tensors as the model's rows ---------------------------------------------------------- *)
(* (y_next (H, N, W), y_next_lens (N, W), log_probs_next (N, W), next_src (N, W)) -> per batch
   element the W slots (column of height H, length, score) and the W source indices.  The encoding
   the other way round is [enc_rows]. *)
Definition row_of (H N W : nat) (y lens lp src : vt) (n : nat) : option (list slot * list nat) :=
  match sequence (map (fun k =>
           match map_opt z_of (map (fun s => g3 N W y s n k) (seq 0 H)),
                 nat_of (g2 W lens n k), score_of (g2 W lp n k) with
           | Some c, Some l, Some s => Some (mkSlot c l s)
           | _, _, _ => None
           end) (seq 0 W)),
        map_opt nat_of (map (fun k => g2 W src n k) (seq 0 W)) with
  | Some slots, Some srcs => Some (slots, srcs)
  | _, _ => None
  end.

Definition rows_of (v : val) : option (list (list slot * list nat)) :=
  match v with
  | VTuple [vy; vl; vp; vs] =>
      match decv vy, decv vl, decv vp, decv vs with
      | Some y, Some lens, Some lp, Some src =>
          match vshape y, vshape lens with
          | [H; N; W], [N'; W'] =>
              if ((N =? N') && (W =? W') && list_eqb Nat.eqb (vshape lp) [N; W]
                  && list_eqb Nat.eqb (vshape src) [N; W])%bool
              then sequence (map (row_of H N W y lens lp src) (seq 0 N))
              else None
          | _, _ => None
          end
      | _, _, _, _ => None
      end
  | _ => None
  end.

Definition slot_of (rows : list (list slot * list nat)) (n k : nat) : slot := nth k (fst (nth n rows ([], []))) dslot.
Definition src_of (rows : list (list slot * list nat)) (n k : nat) : nat := nth k (snd (nth n rows ([], []))) 0.

(* rows (N of them, W slots each, columns of height H) as the four returned tensors *)
Definition enc_rows (H W : nat) (rows : list (list slot * list nat)) : val :=
  let N := List.length rows in
  VTuple [encv (tabv3 H N W (fun s n k => VInt (nth s (col (slot_of rows n k)) 0%Z)));
          encv (tabv2 N W (fun n k => vnat (len (slot_of rows n k))));
          encv (tabv2 N W (fun n k => esc (sc (slot_of rows n k))));
          encv (tabv2 N W (fun n k => vnat (src_of rows n k)))].

(* outer None: the interpreter got stuck / returned something that is not four such tensors / raised
   something else than RuntimeError; inner None: RuntimeError (as Model.advance_fn) *)
Definition src_advance (V width S : nat) (has_lens : bool) (beams : list (list slot))
  (logp : list (list (list score))) : option (option (list (list slot * list nat))) :=
  match run_advance V width S has_lens beams logp with
  | Ok v _ => option_map Some (rows_of v)
  | Exc name _ => if String.eqb name runtime_error then Some None else None
  | Stuck _ => None
  end.

(* the comparison Model.check_advance makes between the model's rows and the implementation's output *)
Definition rows_match (res : option (list (list slot * list nat)))
  (impl : option (list (list (option (list Z * nat * Z * nat))) * nat)) : bool :=
  match res, impl with
  | None, None => true
  | Some rows, Some (irows, iS) =>
      (list_eqb (list_eqb canon_adv_eqb)
         (map (fun r => map canon_adv (combine (fst r) (snd r))) rows) irows
       && (iS =? match rows with
                 | [] => iS
                 | r :: _ => List.length (col (hd dslot (fst r)))
                 end))%bool
  | _, _ => false
  end.

(* same interface as Model.check_advance *)
Definition src_advance_check (V width S : nat) (has_lens : bool) (beams : list (list slot))
  (logp : list (list (list score)))
  (impl : option (list (list (option (list Z * nat * Z * nat))) * nat)) : bool :=
  match src_advance V width S has_lens beams logp with
  | Some res => rows_match res impl
  | None => false
  end.
