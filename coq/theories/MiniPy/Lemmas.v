(* MiniPy — reasoning principles for the interpreter (no new definitions of semantics). *)
From Coq Require Import ZArith QArith List String Bool.
From PV Require Import MiniPy.Syntax MiniPy.Interp.
Import ListNotations.
Local Open Scope string_scope.

Section Lemmas.
  Variable ext : string -> list val -> list (string * val) -> state -> outcome val.

  (* the loop of [SFor] as a top-level function: induction over the iterated items *)
  Fixpoint for_loop (x : string) (body : stmt) (l : list val) (st : state) {struct l} : outcome ctl :=
    match l with
    | [] => Ok CNormal st
    | i :: r =>
        bind (exec ext body (set_var x i st)) (fun c st' =>
          match c with CNormal => for_loop x body r st' | CReturn _ => Ok c st' end)
    end.

  Lemma exec_for x e body st :
    exec ext (SFor x e body) st =
    bind (eval ext e st) (fun v st1 =>
      match iter_items v with
      | None => Stuck "for over a non-container"
      | Some items => for_loop x body items st1
      end).
  Proof.
    cbn [exec]. destruct (eval ext e st) as [v st1|n st1|w]; cbn [bind]; try reflexivity.
    destruct (iter_items v) as [items|]; [|reflexivity].
    revert st1. induction items as [|i r IH]; intros st1; [reflexivity|].
    cbn [for_loop]. destruct (exec ext body (set_var x i st1)) as [c st'|n st'|w]; cbn [bind]; try reflexivity.
    destruct c; [apply IH|reflexivity].
  Qed.

  (* the key computation of [ESorted] as a top-level function *)
  Fixpoint sorted_keys (x : string) (key : expr) (l : list val) (st : state) {struct l}
    : outcome (list (val * val)) :=
    match l with
    | [] => Ok [] st
    | i :: r =>
        bind (eval ext key (set_var x i st)) (fun k st' =>
          bind (sorted_keys x key r st') (fun ks st'' => Ok ((k, i) :: ks) st''))
    end.

  Lemma eval_sorted it x key st :
    eval ext (ESorted it x key) st =
    bind (eval ext it st) (fun v st1 =>
      match container_items v with
      | None => Stuck "sorted of a non-container"
      | Some items =>
          bind (sorted_keys x key items st1) (fun kis st2 =>
            match sort_keyed kis with
            | Some sorted => Ok (VList sorted) st2
            | None => Stuck "sorted: keys are not comparable numbers"
            end)
      end).
  Proof.
    cbn [eval]. destruct (eval ext it st) as [v st1|n st1|w]; cbn [bind]; try reflexivity.
    destruct (container_items v) as [items|]; [|reflexivity].
    f_equal. revert st1. induction items as [|i r IH]; intros st1; [reflexivity|].
    cbn [sorted_keys]. destruct (eval ext key (set_var x i st1)) as [k st'|n st'|w]; cbn [bind]; try reflexivity.
    rewrite IH. reflexivity.
  Qed.

  Lemma exec_seq a b st :
    exec ext (SSeq a b) st =
    bind (exec ext a st) (fun c st1 => match c with CNormal => exec ext b st1 | CReturn v => Ok c st1 end).
  Proof. reflexivity. Qed.

  Lemma exec_if c t f st :
    exec ext (SIf c t f) st = bind (eval ext c st) (fun cv st1 => if truthy cv then exec ext t st1 else exec ext f st1).
  Proof. reflexivity. Qed.
End Lemmas.
