From Coq Require Import List ZArith Bool.
From PV Require Import C10.Model C10.Spec C10.Proofs.
Import ListNotations.
Local Open Scope Z_scope.

Theorem c10_stub : fst (chunk_tokens as_coded [[(8, 2, 5)]] [(2, 9)] None false false) = [[(8, 4, 7)]].
Proof. exact relative_boundaries_refuted_stub. Qed.
Print Assumptions c10_stub.
