(* C03 - the preamble of `_string_matching` (PV.Gen.C03Src.sm3_pre) for the call optimal_completion makes (return_mask = True,
   exclude_last arbitrary): argument checks, the uniform-cost shortcut, transposition of batch-first input, sizes, and the
   lengths - torch.full without eos, `_lens_from_eos` (this unit's sm3_lens) and the include_eos fix-up with eos - leave the
   state [stageA3], with the effective costs of Model.eff_costs and the lengths Model.eff_len.  The scripts are C01.TiePre's
   (which are tied to ext01 and to the plain flags), replayed for ext03 and these flags; the definitions that do not mention
   the environment (in_tensor, the eff_ costs, ref_len, the fixup lemmas) are C01's, imported read-only. *)
From Coq Require Import ZArith QArith List String Bool Arith Lia ZifyBool ZifyNat.
From PV Require Import MiniPy.Syntax MiniPy.Interp MiniPy.Lemmas MiniTorch.Ops MiniTorch.Lemmas MiniTorch.OpsC07 MiniTorch.LemmasC07
  MiniTorch.OpsC01 MiniTorch.LemmasC01 MiniTorch.OpsC03 MiniTorch.LemmasC03.
From PV Require Import Gen.C03Src C01.SrcRun C01.TieLib C01.TieMath C01.TieLoop C01.TieWhole C01.TiePre C03.SrcRun C03.TieLib.
From PV Require Import C07.SrcRun C07.Tie.
From PV Require C07.Model C07.Spec C07.ProofsSlp C01.TieLens C01.TieBlocks C01.Obs C01.Model C01.Proofs.
Import ListNotations.
Local Open Scope string_scope.

(* ---- `_lens_from_eos(tok, eos, 0)` on a (T x B) tensor: this unit's sm3_lens, as C01.TieLens.lens_run_2 ---------------- *)
Section Lens.
  #[local] Arguments dec_any : simpl never.
  #[local] Arguments enc_b : simpl never.
  #[local] Arguments enc_i : simpl never.
  #[local] Arguments enc_f : simpl never.
  #[local] Arguments tab2 : simpl never.
  #[local] Arguments tab3 : simpl never.
  #[local] Arguments ext07_ops : simpl never.
  #[local] Arguments cumsum_bool : simpl never.
  #[local] Arguments max_bool : simpl never.
  #[local] Arguments seq : simpl never.

  Lemma lens_run_3 : forall lsm T B h e, T <> 0%nat ->
    exists st, Interp.run (ext07_ops lsm) sm3_lens
                 (("tok", enc_i (mkTn [T; B] (tab2 T B h))) :: ("eos", VInt e) :: ("dim", VInt 0) :: globals07) =
      Ok (enc_i (mkTn [B] (map (fun b => Z.of_nat (C01.Model.first_eos e (map (fun t => h t b) (seq 0 T)))) (seq 0 B)))) st.
  Proof.
    intros lsm T B h e HT. unfold Interp.run, sm3_lens, globals07.
    istep. rewrite ext_eq_i. C01.TieLens.norm2. istep.
    rewrite ext_cumsum, cumsum_bool_2. C01.TieLens.norm2. istep.
    rewrite ext_eq_i. C01.TieLens.norm2. istep. rewrite ext_and. C01.TieLens.norm2. istep.
    rewrite ext_max, max_bool_2 by assumption. istep.
    rewrite ext_eq_b. C01.TieLens.norm2. istep. rewrite ext_shape_i. istep.
    rewrite ext_mfill_i. C01.TieLens.norm2. istep.
    eexists. do 3 f_equal. apply map_ext_seq. intros b Hb.
    rewrite <- C01.TieLens.first_eos_same. apply (lens_col e T (fun t => h t b)).
  Qed.
End Lens.

#[local] Arguments dec01 : simpl never.
#[local] Arguments enc_b : simpl never.
#[local] Arguments enc_i : simpl never.
#[local] Arguments enc_x : simpl never.
#[local] Arguments tab2 : simpl never.
#[local] Arguments tab3 : simpl never.
#[local] Arguments qz : simpl never.
#[local] Arguments Z.add : simpl never.
#[local] Arguments Z.sub : simpl never.
#[local] Arguments Z.of_nat : simpl nomatch.
#[local] Arguments select0 : simpl never.
#[local] Arguments slice0 : simpl never.
#[local] Arguments set_slice0 : simpl never.
#[local] Arguments broadcast : simpl never.
#[local] Arguments where_f : simpl never.
#[local] Arguments min_dim : simpl never.
#[local] Arguments gather0 : simpl never.
#[local] Arguments unsqueeze : simpl never.
#[local] Arguments squeeze_dim : simpl never.
#[local] Arguments expand2 : simpl never.
#[local] Arguments triu_f : simpl never.
#[local] Arguments transpose2 : simpl never.
#[local] Arguments arange_f : simpl never.
#[local] Arguments full : simpl never.
#[local] Arguments fadd : simpl never.
#[local] Arguments fsub : simpl never.
#[local] Arguments fmul : simpl never.
#[local] Arguments fdiv : simpl never.
#[local] Arguments fmin : simpl never.
#[local] Arguments b2f : simpl never.
#[local] Arguments z2f : simpl never.

#[local] Arguments ext01 : simpl never.
#[local] Arguments ext03 : simpl never.
#[local] Arguments zf : simpl never.
#[local] Arguments ofx : simpl never.
#[local] Arguments seq : simpl never.
#[local] Arguments Qeq_bool : simpl never.
#[local] Arguments Qcompare : simpl never.
#[local] Arguments Z.eqb : simpl nomatch.
#[local] Arguments any_b : simpl never.

Notation torch_module := C01.TieBlocks.torch_module.
Notation lens_tensor := C01.TieBlocks.lens_tensor.

(* the arguments of the call made by optimal_completion (norm = its default False; padding is not read on this path) *)
Definition params3 (s : positive) (c : C01.Model.cfg) (R N H : nat) (rf hf : nat -> nat -> Z) (w excl : bool) : list (string * val) :=
  [("ref", enc_i (in_tensor (C01.Model.c_bf c) R N rf)); ("hyp", enc_i (in_tensor (C01.Model.c_bf c) H N hf));
   ("eos", opt_int (C01.Model.c_eos c)); ("include_eos", VBool (C01.Model.c_incl c));
   ("batch_first", VBool (C01.Model.c_bf c));
   ("ins_cost", VQ (qz s (C01.Model.c_ins c))); ("del_cost", VQ (qz s (C01.Model.c_del c)));
   ("sub_cost", VQ (qz s (C01.Model.c_sub c)));
   ("warn", VBool w); ("norm", VBool false); ("return_mask", VBool true);
   ("return_prf_dsts", VBool false); ("exclude_last", VBool excl); ("return_mistakes", VBool false);
   ("torch", torch_module)].

(* after the preamble: the flags of the mask path, time-major tensors, sizes, effective costs over the denominator s,
   the lengths *)
Definition stageA3 (s : positive) (ci cd cs : Z) (mult : Q) (R N H : nat) (rf hf : nat -> nat -> Z) (rl hl : nat -> nat)
  (nm w excl : bool) : list (string * val) :=
  [("exclude_last", VBool excl); ("return_mistakes", VBool false); ("return_mask", VBool true);
   ("return_prf_dsts", VBool false); ("norm", VBool nm); ("warn", VBool w);
   ("ref", enc_i (mkTn [R; N] (tab2 R N rf))); ("hyp", enc_i (mkTn [H; N] (tab2 H N hf)));
   ("max_ref_steps", VInt (Z.of_nat R)); ("batch_size", VInt (Z.of_nat N)); ("max_hyp_steps", VInt (Z.of_nat H));
   ("device", device_token); ("torch", torch_module);
   ("ins_cost", VQ (qz s ci)); ("del_cost", VQ (qz s cd)); ("sub_cost", VQ (qz s cs)); ("mult", VQ mult);
   ("ref_lens", lens_tensor N rl); ("hyp_lens", lens_tensor N hl); ("masks", VList [])].

(* `assert not exclude_last or (return_mask or return_prf_dsts)` holds on the mask path, whatever exclude_last is *)
Lemma assert2_ok : forall (b : bool) st,
  lookup "exclude_last" (vars st) = Some (VBool b) -> lookup "return_mask" (vars st) = Some (VBool true) ->
  exists v, eval ext03 (EOr (ENot (EName "exclude_last")) (EOr (EName "return_mask") (EName "return_prf_dsts"))) st = Ok v st /\
            truthy v = true.
Proof.
  intros [|] st He Hm; eexists; (split; [cbn; rewrite ?He; cbn; rewrite ?Hm; cbn; reflexivity|reflexivity]).
Qed.

Definition pre_a : stmt := seq_take 5 sm3_pre.
Definition pre_b : stmt := seq_take 9 (seq_drop 5 sm3_pre).
Definition pre_c : stmt := seq_drop 14 sm3_pre.

Lemma sm3_pre_split : forall st, exec ext03 sm3_pre st = exec ext03 (SSeq pre_a (SSeq pre_b pre_c)) st.
Proof.
  intros st. unfold pre_a, pre_b, pre_c. rewrite <- (xexec_take_drop ext03 5 sm3_pre st).
  cbn [exec]. destruct (exec ext03 (seq_take 5 sm3_pre) st) as [[|v] st1|n st1|q]; cbn [bind]; try reflexivity.
  change (seq_drop 14 sm3_pre) with (seq_drop 9 (seq_drop 5 sm3_pre)).
  symmetry. apply (xexec_take_drop ext03 9 (seq_drop 5 sm3_pre) st1).
Qed.

Section Pre.
  Variables (s : positive) (c : C01.Model.cfg) (R N H : nat) (rf hf : nat -> nat -> Z) (w excl : bool).

  (* after the argument checks and the uniform-cost shortcut *)
  Definition stageP1 : list (string * val) :=
    [("ref", enc_i (in_tensor (C01.Model.c_bf c) R N rf)); ("hyp", enc_i (in_tensor (C01.Model.c_bf c) H N hf));
     ("eos", opt_int (C01.Model.c_eos c)); ("include_eos", VBool (C01.Model.c_incl c));
     ("batch_first", VBool (C01.Model.c_bf c));
     ("ins_cost", VQ (qz (eff_scale s c) (eff_ci c))); ("del_cost", VQ (qz (eff_scale s c) (eff_cd c)));
     ("sub_cost", VQ (qz (eff_scale s c) (eff_cs c))); ("mult", VQ (eff_mult s c));
     ("warn", VBool w); ("norm", VBool false); ("return_mask", VBool true);
     ("return_prf_dsts", VBool false); ("exclude_last", VBool excl); ("return_mistakes", VBool false);
     ("torch", torch_module)].

  Lemma cost_cond : forall st,
    lookup "ins_cost" (vars st) = Some (VQ (qz s (C01.Model.c_ins c))) ->
    lookup "del_cost" (vars st) = Some (VQ (qz s (C01.Model.c_del c))) ->
    lookup "sub_cost" (vars st) = Some (VQ (qz s (C01.Model.c_sub c))) ->
    exists v, eval ext03 (EAnd (ECmp Eq (EName "ins_cost") (EName "del_cost"))
                           (EAnd (ECmp Eq (EName "del_cost") (EName "sub_cost"))
                                 (ECmp Gt (EName "sub_cost") (EConst (VQ (0 # 1)%Q))))) st = Ok v st /\
              truthy v = uniformb (C01.Model.c_ins c) (C01.Model.c_del c) (C01.Model.c_sub c).
  Proof.
    intros st Hi Hd Hs. unfold uniformb.
    destruct (C01.Model.c_ins c =? C01.Model.c_del c)%Z eqn:E1;
    destruct (C01.Model.c_del c =? C01.Model.c_sub c)%Z eqn:E2;
    destruct (0 <? C01.Model.c_sub c)%Z eqn:E3;
    (eexists; split;
     [ repeat (progress (cbn; look; rewrite ?qz_eqb, ?qz_gt0, ?E1, ?E2, ?E3)); reflexivity | reflexivity ]).
  Qed.

  Lemma pre_a_run : forall st, known3 st (params3 s c R N H rf hf w excl) ->
    runs_to (fun st' => known3 st' stageP1) (exec ext03 pre_a st).
  Proof.
    intros st K. unfold params3 in K. open_known3 K. unfold pre_a, sm3_pre. cbn [seq_take].
    assertstep3. seqnorm3.
    match goal with
    | He : lookup "exclude_last" (vars ?st0) = _, Hm : lookup "return_mask" (vars ?st0) = _
      |- context [exec ext03 (SSeq (SAssert ?e) ?b) ?st0] =>
        destruct (assert2_ok _ st0 He Hm) as [v [Hv Ht]]; rewrite (xexec_seq_assert ext03 e b st0 v Hv Ht); clear Hv Ht v
    end.
    ifstep3_t ltac:(repeat (progress (evn3; rewrite ?in_tensor_rank)); reflexivity).
    asg3. seqnorm3.
    match goal with
    | Hi : lookup "ins_cost" (vars ?st0) = _, Hd : lookup "del_cost" (vars ?st0) = _, Hs : lookup "sub_cost" (vars ?st0) = _
      |- context [exec ext03 (SSeq (SIf ?cc ?t ?f) ?b) ?st0] =>
        destruct (cost_cond st0 Hi Hd Hs) as [v [Hv Ht]]; rewrite (xexec_seq_if ext03 cc t f b st0 v st0 Hv), Ht; clear Hv Ht v
    end.
    unfold stageP1, eff_scale, eff_ci, eff_cd, eff_cs, eff_mult.
    destruct (uniformb (C01.Model.c_ins c) (C01.Model.c_del c) (C01.Model.c_sub c)).
    - ifstep3. asg3. assign33. asg3. seqnorm3. apply runs_to_ok. close_known3.
    - ifstep3. seqnorm3. apply runs_to_ok. close_known3.
  Qed.

  (* after the transposition and the size queries: time-major tensors *)
  Definition stageP2 : list (string * val) :=
    [("ref", enc_i (mkTn [R; N] (tab2 R N rf))); ("hyp", enc_i (mkTn [H; N] (tab2 H N hf)));
     ("eos", opt_int (C01.Model.c_eos c)); ("include_eos", VBool (C01.Model.c_incl c));
     ("ins_cost", VQ (qz (eff_scale s c) (eff_ci c))); ("del_cost", VQ (qz (eff_scale s c) (eff_cd c)));
     ("sub_cost", VQ (qz (eff_scale s c) (eff_cs c))); ("mult", VQ (eff_mult s c));
     ("warn", VBool w); ("norm", VBool false); ("return_mask", VBool true);
     ("return_prf_dsts", VBool false); ("exclude_last", VBool excl); ("return_mistakes", VBool false);
     ("torch", torch_module);
     ("max_ref_steps", VInt (Z.of_nat R)); ("batch_size", VInt (Z.of_nat N)); ("max_hyp_steps", VInt (Z.of_nat H));
     ("device", device_token); ("masks", VList [])].

  Ltac asg_t tac := assign3x ltac:(repeat (progress (evn3; tac)); reflexivity).

  Lemma pre_b_run : forall st, known3 st stageP1 -> runs_to (fun st' => known3 st' stageP2) (exec ext03 pre_b st).
  Proof.
    intros st K. unfold stageP1 in K. open_known3 K. unfold pre_b, sm3_pre. cbn [seq_take seq_drop].
    destruct (C01.Model.c_bf c); unfold in_tensor in *.
    - ifstep3. asg_t ltac:(rewrite ?transpose2_mat). asg_t ltac:(rewrite ?transpose2_mat).
      assign33. asg3. asg3. asg3. asg3. asg3. asg3. asg3. asg3. asg3. asg3.
      ifstep3_t ltac:(repeat (progress (evn3; rewrite ?Z.eqb_refl)); reflexivity).
      seqnorm3. apply runs_to_ok. unfold stageP2. close_known3.
    - ifstep3.
      assign33. asg3. asg3. asg3. asg3. asg3. asg3. asg3. asg3. asg3. asg3.
      ifstep3_t ltac:(repeat (progress (evn3; rewrite ?Z.eqb_refl)); reflexivity).
      seqnorm3. apply runs_to_ok. unfold stageP2. close_known3.
  Qed.

  Notation A := (stageA3 (eff_scale s c) (eff_ci c) (eff_cd c) (eff_cs c) (eff_mult s c) R N H rf hf (ref_len c R rf) (hyp_len c H hf)
                   false w excl).

  (* close a goal about one of the two length tensors *)
  Ltac close_lens :=
    match goal with
    | L : lookup ?x (vars ?st) = Some _ |- lookup ?x (vars ?st) = Some _ =>
        rewrite L; unfold lens_tensor, ref_len, hyp_len; do 3 f_equal; apply map_ext_seq; intros n Hn;
        first [ apply (fixup_any rf hf)
              | apply (fixup_none rf hf);
                match goal with Hany : any_b _ = false |- _ => exact (any_false_at rf hf _ _ n Hn Hany) end
              | reflexivity ]
    end.

  Lemma pre_c_run : forall st, (C01.Model.c_eos c <> None -> R <> 0%nat /\ H <> 0%nat) ->
    known3 st stageP2 -> runs_to (fun st' => known3 st' A) (exec ext03 pre_c st).
  Proof.
    intros st Hnz K. unfold stageP2 in K. open_known3 K. unfold pre_c, sm3_pre. cbn [seq_drop].
    unfold ref_len, hyp_len in *. destruct (C01.Model.c_eos c) as [e|]; cbn [opt_int] in *.
    - destruct (Hnz ltac:(discriminate)) as [HR HH].
      destruct (lens_run_3 (fun x => x) R N rf e HR) as [sr Hr].
      destruct (lens_run_3 (fun x => x) H N hf e HH) as [sh Hh].
      ifstep3.
      assign3x ltac:(ev3; rewrite ext3_lens; unfold C07.SrcRun.call_body; rewrite Hr; reflexivity).
      assign3x ltac:(ev3; rewrite ext3_lens; unfold C07.SrcRun.call_body; rewrite Hh; reflexivity).
      clear Hr Hh sr sh.
      destruct (C01.Model.c_incl c).
      + destruct w.
        * ifstep3. asg3. asg3. ifstep3.
          match goal with |- context [if any_b ?m then _ else _] => destruct (any_b m) eqn:? end;
          [ ifstep3; asg3 | idtac ];
          (asg3; asg3; ifstep3;
           match goal with |- context [if any_b ?m then _ else _] => destruct (any_b m) eqn:? end;
           [ ifstep3; asg3 | idtac ];
           seqnorm3; apply runs_to_ok; unfold stageA3; close_known3; close_lens).
        * ifstep3. asg3. asg3. ifstep3.
          match goal with |- context [if any_b ?m then _ else _] => destruct (any_b m) eqn:? end;
          [ ifstep3; asg3 | idtac ];
          (asg3; asg3; ifstep3;
           match goal with |- context [if any_b ?m then _ else _] => destruct (any_b m) eqn:? end;
           [ ifstep3; asg3 | idtac ];
           seqnorm3; apply runs_to_ok; unfold stageA3; close_known3; close_lens).
      + ifstep3. seqnorm3. apply runs_to_ok. unfold stageA3. close_known3; close_lens.
    - ifstep3.
      asg_t ltac:(replace (Z.of_nat N <? 0)%Z with false by lia; rewrite ?Nat2Z.id, ?full_vec).
      asg_t ltac:(replace (Z.of_nat N <? 0)%Z with false by lia; rewrite ?Nat2Z.id, ?full_vec).
      apply runs_to_ok. unfold stageA3. close_known3;
      match goal with
      | L : lookup ?x (vars ?st) = Some _ |- lookup ?x (vars ?st) = Some _ =>
          rewrite L; unfold lens_tensor; do 3 f_equal; apply map_ext_seq; intros n Hn;
          cbn [C01.Model.eff_len]; now rewrite colf_length
      end.
  Qed.

  Theorem pre_run : forall st, (C01.Model.c_eos c <> None -> R <> 0%nat /\ H <> 0%nat) ->
    known3 st (params3 s c R N H rf hf w excl) -> runs_to (fun st' => known3 st' A) (exec ext03 sm3_pre st).
  Proof.
    intros st Hnz K. rewrite sm3_pre_split.
    eapply (xruns_to_seq ext03); [apply pre_a_run; exact K|]. intros st1 K1.
    eapply (xruns_to_seq ext03); [apply pre_b_run; exact K1|]. intros st2 K2.
    apply pre_c_run; assumption.
  Qed.
End Pre.
