(* C18, second tie — MeanVarianceNormalization.store (PV.Gen.C18BSrc.store_body) against Model.store, and whole
   histories of the module (accumulate / store in any sequence) against Model.run_ops.  See TieB.v. *)
From Coq Require Import ZArith QArith List String Bool Arith Lia ZifyBool ZifyNat.
From PV Require Import MiniPy.Syntax MiniPy.Interp MiniTorch.Value MiniTorch.Lemmas Gen.C18BSrc.
From PV Require MiniTorch.Ops.
From PV Require Import C18.SrcRun MiniTorch.OpsC18B MiniTorch.LemmasC18B C18.SrcRunB.
From PV Require Import C18.Model C18.Spec C18.QLemmas C18.Tensor C18.ProofsMvn C18.TieB.
Import ListNotations.
Local Open Scope string_scope.

(* ================================================================================================================ *)
(* store                                                                                                            *)
(* ================================================================================================================ *)
Lemma lt_truth_1 : forall c q, lt_scalar_truth (mkT [1%nat] [c]) q = ROk (negb (Qle_bool q c)).
Proof. reflexivity. Qed.

Lemma count_nonzero : forall c, Qle_bool 2 c = true -> Qeq_bool c 0 = false /\ Qeq_bool (c - inject_Z 1) 0 = false.
Proof.
  intros c H. apply Qle_bool_iff in H. split.
  - destruct (Qeq_bool c 0) eqn:E; [|reflexivity]. apply Qeq_bool_eq in E. rewrite E in H. exfalso. apply H. reflexivity.
  - destruct (Qeq_bool (c - inject_Z 1) 0) eqn:E; [|reflexivity]. apply Qeq_bool_eq in E.
    assert (c == 1)%Q as E1. { rewrite <- (Qplus_0_r 1). rewrite <- E. change (inject_Z 1) with 1%Q. ring. }
    rewrite E1 in H. exfalso. apply H. reflexivity.
Qed.

Lemma div_vec_one : forall a n c, List.length a = n -> Qeq_bool c 0 = false ->
  OpsC18B.div (mkT [n] a) (mkT [1%nat] [c]) = ROk (mkT [n] (map (fun u => (u / c)%Q) a)).
Proof.
  intros a n c Ha Hc. unfold OpsC18B.div. cbn [data existsb]. rewrite Hc. cbn [orb]. now apply ew2_vec_one.
Qed.

Lemma sub_vec : forall a b n, List.length a = n -> List.length b = n ->
  OpsC18B.sub (mkT [n] a) (mkT [n] b) = ROk (mkT [n] (zipw Qminus a b)).
Proof. intros. unfold OpsC18B.sub. now apply ew2_vec. Qed.

Lemma imul_vec_one : forall a n c, List.length a = n ->
  OpsC18B.imul (mkT [n] a) (mkT [1%nat] [c]) = ROk (mkT [n] (map (fun u => (u * c)%Q) a)).
Proof. intros a n c <-. unfold OpsC18B.imul. apply iop2_vec_one. Qed.

Lemma clamp_mat : forall sh d c, OpsC18B.clamp_min (mkT sh d) c = mkT sh (map (fun v => qmax v c) d).
Proof. reflexivity. Qed.

Lemma sqrt_mat : forall sq sh d, sqrt_ sq (mkT sh d) = mkT sh (map sq d).
Proof. reflexivity. Qed.

Lemma sub_scalar_1 : forall c q, sub_scalar (mkT [1%nat] [c]) q = mkT [1%nat] [(c - q)%Q].
Proof. reflexivity. Qed.

Lemma var_fusion : forall (c : Q) ssq mean,
  map (fun v => qmax v (inject_Z 0)) (zipw Qminus (map (fun u => (u / c)%Q) ssq) (map qsq mean))
  = zipw (fun q m => qmax (q / c - qsq m) 0) ssq mean.
Proof.
  intros c ssq. induction ssq as [|q ssq IH]; intros [|m mean]; try reflexivity.
  cbn [map zipw]. f_equal. apply IH.
Qed.


#[local] Arguments enc_tensor : simpl never.
#[local] Arguments dect : simpl never.
#[local] Arguments OpsC18B.size : simpl never.
#[local] Arguments OpsC18B.transpose : simpl never.
#[local] Arguments OpsC18B.unsqueeze : simpl never.
#[local] Arguments OpsC18B.flatten : simpl never.
#[local] Arguments OpsC18B.view : simpl never.
#[local] Arguments zeros : simpl never.
#[local] Arguments square : simpl never.
#[local] Arguments sum1 : simpl never.
#[local] Arguments OpsC18B.iadd : simpl never.
#[local] Arguments OpsC18B.imul : simpl never.
#[local] Arguments OpsC18B.sub : simpl never.
#[local] Arguments OpsC18B.div : simpl never.
#[local] Arguments add_scalar : simpl never.
#[local] Arguments sub_scalar : simpl never.
#[local] Arguments OpsC18B.clamp_min : simpl never.
#[local] Arguments sqrt_ : simpl never.
#[local] Arguments lt_scalar_truth : simpl never.
#[local] Arguments Model.transpose : simpl never.
#[local] Arguments Z.of_nat : simpl never.
#[local] Arguments Z.eqb : simpl never.
#[local] Arguments foreign : simpl never.
#[local] Arguments cmp_eval : simpl never.
#[local] Arguments Qplus : simpl never.
#[local] Arguments Qminus : simpl never.
#[local] Arguments Qmult : simpl never.
#[local] Arguments Qdiv : simpl never.
#[local] Arguments Qle_bool : simpl never.
#[local] Arguments Qeq_bool : simpl never.
#[local] Arguments qsum : simpl never.
#[local] Arguments qsq : simpl never.
#[local] Arguments qmax : simpl never.
#[local] Arguments rows : simpl never.
#[local] Arguments rows_width : simpl never.
#[local] Arguments repeat : simpl never.
#[local] Arguments zipw : simpl never.
#[local] Arguments inject_Z : simpl never.

Ltac tstep :=
  cbn; change (Z.of_nat 3) with 3%Z; change (Z.of_nat 2) with 2%Z; change (Z.of_nat 1) with 1%Z; change (Pos.to_nat 1) with 1%nat; change (Pos.to_nat 2) with 2%nat;
  rewrite ?method_enc, ?attribute_enc, ?dect_enc, ?on1_enc, ?on2_enc, ?is_none_enc, ?is_none_none, ?dect_int, ?dect_none, ?add_enc_int, ?sub_enc_int,
    ?add_enc_enc, ?sub_enc_enc, ?mul_enc_enc, ?div_enc_enc, ?scalar_enc, ?foreign_enc, ?foreign_tuple_enc.


Ltac srun := repeat (progress (tstep; rewrite ?lt_truth_1, ?square_mat, ?clamp_mat, ?sqrt_mat, ?sub_scalar_1)).

(* the statistics a module can hold: both sums have one length (preserved by accumulate, see [accumulate_wf]) *)
Definition stats_wf (s : stats) : Prop := List.length (ssum s) = List.length (ssq s).

Lemma store_ok : forall sq dim eps mean0 std0 s (del bessel : bool) mean var,
  stats_wf s -> Model.store (Some s) bessel = Ok (mean, var) ->
  exists fin, run_store sq (mkM dim eps mean0 std0 (Some s)) del bessel = Interp.Ok VNone fin /\
    lookup "self" (vars fin) =
      Some (self_val (mkM dim eps (Some mean) (Some (map sq var)) (if del then None else Some s))).
Proof.
  intros sq dim eps mean0 std0 s del bessel mean var Hwf Hst. unfold stats_wf in Hwf.
  unfold Model.store in Hst. destruct (Qle_bool 2 (cnt s)) eqn:Hc; [|discriminate].
  destruct (count_nonzero _ Hc) as [Hc0 Hc1].
  injection Hst as <- <-.
  unfold run_store, Interp.run, store_body, store_vars, self_val.
  cbn [m_dim m_eps m_mean m_std m_stats count_val sum_val sumsq_val option_map opt_vec ssum ssq cnt]. unfold vec.
  srun.
  replace (Qle_bool (inject_Z 2) (cnt s)) with true by (symmetry; exact Hc). srun.
  rewrite (div_vec_one _ _ _ eq_refl Hc0). srun.
  rewrite (div_vec_one _ _ _ eq_refl Hc0). srun.
  rewrite <- Hwf. rewrite (sub_vec _ _ (List.length (ssum s))) by (rewrite ?map_length; congruence). srun.
  rewrite var_fusion.
  destruct bessel; srun.
  - rewrite (div_vec_one [cnt s] 1%nat _ eq_refl Hc1). srun.
    rewrite imul_vec_one by (rewrite length_zipw; rewrite ?map_length; congruence). srun.
    destruct del; srun; (eexists; split; [reflexivity|]); cbn; unfold opt_vec, vec;
      rewrite ?map_length, ?length_zipw by (rewrite ?map_length; congruence); rewrite ?map_length, <- ?Hwf; reflexivity.
  - destruct del; srun; (eexists; split; [reflexivity|]); cbn; unfold opt_vec, vec;
      rewrite ?map_length, ?length_zipw by (rewrite ?map_length; congruence); rewrite ?map_length, <- ?Hwf; reflexivity.
Qed.

(* `if self.count is None: raise RuntimeError` *)
Lemma store_none : forall sq dim eps mean0 std0 (del bessel : bool),
  run_store sq (mkM dim eps mean0 std0 None) del bessel
  = Interp.Exc "RuntimeError" (mkState (store_vars (mkM dim eps mean0 std0 None) del bessel) []).
Proof. intros. unfold run_store, Interp.run, store_body, store_vars, self_val. srun. reflexivity. Qed.

(* `if count < 2: raise RuntimeError`: the module is left as it was *)
Lemma store_few : forall sq dim eps mean0 std0 s (del bessel : bool),
  Qle_bool 2 (cnt s) = false ->
  exists fin, run_store sq (mkM dim eps mean0 std0 (Some s)) del bessel = Interp.Exc "RuntimeError" fin /\
    lookup "self" (vars fin) = Some (self_val (mkM dim eps mean0 std0 (Some s))).
Proof.
  intros sq dim eps mean0 std0 s del bessel Hc.
  unfold run_store, Interp.run, store_body, store_vars, self_val.
  cbn [m_dim m_eps m_mean m_std m_stats count_val sum_val sumsq_val option_map opt_vec ssum ssq cnt]. unfold vec.
  srun.
  replace (Qle_bool (inject_Z 2) (cnt s)) with false by (symmetry; exact Hc). srun.
  eexists; split; reflexivity.
Qed.
