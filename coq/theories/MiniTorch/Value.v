(* MiniTorch — tensors as MiniPy values, and helpers for a unit's [ext].  DEFINITIONS ONLY.

   A tensor enters the interpreter as the tagged tuple

       VTuple [VStr "$tensor"; VList [VInt s_0; ...]; VList [VQ x_0; ...]]      (shape; row-major data)

   It is not a [VDict], so none of MiniPy's own attribute / method rules applies to it:
   `t.m(...)` reaches the unit's [ext] as "$method.m" (t first), `t.a` as "$attr.a", `t - u` as
   "operator" "sub".  (MiniPy's rules for tuples - len, subscript, iteration, ==, truthiness -
   would see the three components: translated tensor code that used them on a tensor would NOT
   mean what torch means; the code tied so far does not, and the harness-side source run would
   disagree with torch if it did.) *)
From Coq Require Import List ZArith QArith Bool String.
From PV Require Import MiniPy.Syntax MiniPy.Interp MiniTorch.Ops.
Import ListNotations.
Local Open Scope string_scope.

Definition tensor_tag : string := "$tensor".

Definition enc (t : tens) : val :=
  VTuple [VStr tensor_tag; VList (map (fun n => VInt (Z.of_nat n)) (tshape t)); VList (map VQ (tdata t))].

Fixpoint dec_nats (l : list val) : option (list nat) :=
  match l with
  | [] => Some []
  | VInt z :: r => if Z.leb 0 z then option_map (cons (Z.to_nat z)) (dec_nats r) else None
  | _ => None
  end.

Fixpoint dec_qs (l : list val) : option (list Q) :=
  match l with
  | [] => Some []
  | VQ q :: r => option_map (cons q) (dec_qs r)
  | _ => None
  end.

Definition dec (v : val) : option tens :=
  match v with
  | VTuple [VStr tag; VList sh; VList d] =>
      if String.eqb tag tensor_tag then
        match dec_nats sh, dec_qs d with
        | Some s, Some q => Some (mkTens s q)
        | _, _ => None
        end
      else None
  | _ => None
  end.

(* a Python number where torch takes a scalar *)
Definition scalar (v : val) : option Q :=
  match v with VInt z => Some (inject_Z z) | VQ q => Some q | _ => None end.

(* results of the operations -> interpreter outcomes; [None] (outside the modelled domain) is Stuck *)
Definition ret_tens (why : string) (o : option tens) (st : state) : outcome val :=
  match o with Some t => Ok (enc t) st | None => Stuck ("MiniTorch: outside the modelled domain: " ++ why) end.

Definition ret_nat (why : string) (o : option nat) (st : state) : outcome val :=
  match o with Some n => Ok (VInt (Z.of_nat n)) st | None => Stuck ("MiniTorch: outside the modelled domain: " ++ why) end.

(* argument patterns *)
Definition on_tens (why : string) (v : val) (k : tens -> option tens) (st : state) : outcome val :=
  match dec v with Some t => ret_tens why (k t) st | None => Stuck ("MiniTorch: not a tensor: " ++ why) end.

Definition on_tens2 (why : string) (v w : val) (k : tens -> tens -> option tens) (st : state) : outcome val :=
  match dec v, dec w with
  | Some t, Some u => ret_tens why (k t u) st
  | _, _ => Stuck ("MiniTorch: not a tensor: " ++ why)
  end.
