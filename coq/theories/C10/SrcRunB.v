(* C10, second source tie — the translated source of `slice_spect_data` as an executable: the environment
   [extB], the encoding of the model's inputs as MiniPy values, and the correspondence entry point
   [src_check_slice] (same interface as Model.check_slice, minus the variant).  Definitions only; the lemmas are
   in TieB*.v.

   PV.Gen.C10BSrc.slice_body is regenerated from /repo/src/pydrobert/torch/_feats.py on every run by
   harness/py2coq/translate.py (the WHOLE body of the function: all three policies).  The decorators `@script`,
   `@functional_wrapper(...)` and the `@overload` stub are outside it: TorchScript is NOT modelled.

   [extB] gives the torch calls of that body the meaning defined in PV.MiniTorch.OpsC10 / OpsC10B (integer and
   boolean tensors, unbounded integers, <= 3 dimensions where broadcasting is involved); what it does not know
   itself it hands to SrcRun.ext10 (first tie).  What arrives here (see MiniPy.Interp):
     torch.arange(n | a, b, s, device=), torch.empty( *sizes, dtype=torch.long, device=), torch.full(size, v, device=),
     torch.stack([a, b], d), torch.cat([..], d), torch.zeros_like(x), int(bool)
     x.expand( *sizes ) (-1 allowed), x.flatten(end_dim=), x.nonzero(), x.clone(), x.gather(1, i), x.clamp_min_(m),
     x.squeeze(d), x.masked_fill_(m, v)                         "$method.<name>", the tensor first
     a == b, a != b                                             "compare" ["eq"|"ne"; a; b]   (b may be a Python int)
     a * b, a | b                                               "operator" ["mul"|"or"; a; b]
     shape[:2] (a plain tuple), x[:, c], x[:, a:b], x[a:b], x[mask] (1-D boolean mask over dim 0), x[idx] (1-D integer
     index)                                                     "$getitem" [x; key]
     x[a:b] = v  (second half of `-=` / `+=` on a slice of a LOCAL 1-D tensor)   "$setitem" [x; key; v]
   through ext10: x.ndim, x.shape, x.device, x.size(k), x.view( *s ), x.unsqueeze(k), x.long(), x.all(k), < <= > >=, & + -,
     x[..., c], x[..., a:b].
   Keyword arguments: device= must be the token `input.device` returned; dtype= must be torch.long (the global `torch`
   is the object {long: "$dtype.long", bool: "$dtype.bool"} in the initial variables); both are otherwise ignored.
   In-place methods: `clamp_min_` and `masked_fill_` are applied to fresh temporaries and used as expressions
   (returning the updated tensor IS Python's meaning there); `start_idx[n:] -= offs` is getitem / sub / setitem on a
   tensor created in the function (`end_idx` is a `.clone()`: no aliasing).  No argument tensor is written. *)
From Coq Require Import ZArith List String Bool.
From PV Require Import MiniPy.Syntax MiniPy.Interp MiniTorch.Ops MiniTorch.Value MiniTorch.OpsC10 MiniTorch.ValueC10
  MiniTorch.OpsC10B Gen.C10BSrc.
From PV Require C10.Model.
From PV Require Import C10.SrcRun.
Import ListNotations.
Local Open Scope string_scope.

Definition long_dtype_token : val := VStr "$dtype.long".
Definition torch_module_b : val := VDict [(VStr "long", long_dtype_token); (VStr "bool", bool_dtype_token)].

Definition kw_long_ok (kv : string * val) : bool := is (fst kv) "dtype" && val_eqb (snd kv) long_dtype_token.
Definition dev_kw_ok (kw : list (string * val)) : bool := forallb kw_device_ok kw.
Definition empty_kw_ok (kw : list (string * val)) : bool :=
  forallb (fun kv => kw_device_ok kv || kw_long_ok kv) kw.

Fixpoint dec_zs (l : list val) : option (list Z) :=
  match l with
  | [] => Some []
  | VInt z :: r => option_map (cons z) (dec_zs r)
  | _ => None
  end.

Fixpoint dec_tensors (l : list val) : option (list itens) :=
  match l with
  | [] => Some []
  | v :: r => match dec10 v, dec_tensors r with Some t, Some ts => Some (t :: ts) | _, _ => None end
  end.

Definition is_slice (v : val) : option (option Z * option Z) :=
  match v with
  | VTuple [VStr s; a; b; VNone] =>
      if String.eqb s "$slice" then
        match dec_bound a, dec_bound b with Some x, Some y => Some (x, y) | _, _ => None end
      else None
  | _ => None
  end.

Definition is_full_slice (v : val) : bool :=
  match is_slice v with Some (None, None) => true | _ => false end.

(* t[a:b] of a plain Python tuple (no step): "slice indices are clipped" *)
Definition tuple_slice (l : list val) (a b : option Z) : list val :=
  let k := List.length l in
  let lo := slice_bound k 0 a in
  firstn (slice_bound k k b - lo) (skipn lo l).

Definition is_bool_cell (c : cell) : bool := match c with CBool _ => true | _ => false end.

Definition getitemB (t k : val) (st : state) : outcome val :=
  match dec10 t with
  | None =>
      (* a plain tuple (input.shape) sliced *)
      match t, is_slice k with
      | VTuple l, Some (a, b) => if foreign t then Stuck "getitem" else Ok (VTuple (tuple_slice l a b)) st
      | _, _ => Stuck "getitem"
      end
  | Some x =>
      match k with
      | VTuple [f; VInt c] =>
          (* x[:, c] on a 2-D tensor = x[..., c] *)
          if (is_full_slice f && (ndim x =? 2)%nat)%bool then ret10 "x[:, c]" (select_last x c) st
          else ext10 "$getitem" [t; k] [] st
      | VTuple [f; s] =>
          match (if (is_full_slice f && (ndim x =? 2)%nat)%bool then is_slice s else None) with
          | Some (a, b) => ret10 "x[:, a:b]" (slice_last x a b) st           (* 2-D: = x[..., a:b] *)
          | None => ext10 "$getitem" [t; k] [] st
          end
      | _ =>
          match is_slice k with
          | Some (a, b) =>
              if (ndim x =? 1)%nat then ret10 "x[a:b]" (slice_last x a b) st else Stuck "getitem: slice of a non-1-D tensor"
          | None =>
              match dec10 k with
              | Some m => if forallb is_bool_cell (idata m) then ret10 "x[mask]" (mask_rows x m) st
                          else ret10 "x[idx]" (index_select1 x m) st
              | None => ext10 "$getitem" [t; k] [] st
              end
          end
      end
  end.

Definition extB (f : string) (args : list val) (kw : list (string * val)) (st : state) : outcome val :=
  if is f "torch.arange" then
    if dev_kw_ok kw then
      match args with
      | [VInt n] => ret10 "arange" (OpsC10.arange n) st
      | [VInt a; VInt b; VInt s] => ret10 "arange" (arange3 a b s) st
      | _ => Stuck "arange"
      end
    else Stuck "arange: keyword"
  else if is f "torch.empty" then
    if empty_kw_ok kw then ret10 "empty" (option_map empty (dec_nats args)) st else Stuck "empty: keyword"
  else if is f "torch.full" then
    if dev_kw_ok kw then
      match args with
      | [s; VInt v] => ret10 "full" (option_map (fun sz => full_int sz v) (dec_sizes s)) st
      | _ => Stuck "full"
      end
    else Stuck "full: keyword"
  else if is f "$method.flatten" then
    match args, kw with
    | [t], [] => on1 "flatten" t (fun x => flatten x 0 (-1)) st
    | [t], [(n, VInt e)] => if is n "end_dim" then on1 "flatten" t (fun x => flatten x 0 e) st else Stuck "flatten: keyword"
    | _, _ => Stuck "flatten"
    end
  else if negb (no_kw kw) then Stuck ("extB: keyword arguments of " ++ f)
  else if is f "torch.stack" then
    match args with
    | [VList [a; b]; VInt d] =>
        match dec10 a, dec10 b with
        | Some x, Some y => ret10 "stack" (stack2_last x y d) st
        | _, _ => Stuck "stack"
        end
    | _ => Stuck "stack"
    end
  else if is f "torch.cat" then
    match args with
    | [VList l; VInt d] =>
        match dec_tensors l with Some ts => ret10 "cat" (cat_last ts d) st | None => Stuck "cat" end
    | _ => Stuck "cat"
    end
  else if is f "torch.zeros_like" then
    match args with [t] => on1 "zeros_like" t zeros_like st | _ => Stuck "zeros_like" end
  else if is f "int" then
    match args with [VBool b] => Ok (VInt (if b then 1 else 0)) st | [VInt z] => Ok (VInt z) st | _ => Stuck "int" end
  else if is f "$method.expand" then
    match args with
    | t :: s => on1 "expand" t (fun x => match dec_zs s with Some sz => expand_to x sz | None => None end) st
    | _ => Stuck "expand"
    end
  else if is f "$method.nonzero" then
    match args with [t] => on1 "nonzero" t nonzero2 st | _ => Stuck "nonzero" end
  else if is f "$method.clone" then
    match args with [t] => on1 "clone" t (fun x => Some (clone x)) st | _ => Stuck "clone" end
  else if is f "$method.gather" then
    match args with
    | [t; VInt d; i] => match dec10 t, dec10 i with
                        | Some x, Some ix => ret10 "gather" (gather1 x d ix) st
                        | _, _ => Stuck "gather"
                        end
    | _ => Stuck "gather"
    end
  else if is f "$method.clamp_min_" then
    match args with [t; VInt lo] => on1 "clamp_min_" t (fun x => clamp_min x lo) st | _ => Stuck "clamp_min_" end
  else if is f "$method.squeeze" then
    match args with [t; VInt d] => on1 "squeeze" t (fun x => squeeze x d) st | _ => Stuck "squeeze" end
  else if is f "$method.masked_fill_" then
    match args with
    | [t; m; VInt v] => match dec10 t, dec10 m with
                        | Some x, Some mk => ret10 "masked_fill_" (masked_fill x mk v) st
                        | _, _ => Stuck "masked_fill_"
                        end
    | _ => Stuck "masked_fill_"
    end
  else if is f "compare" then
    match args with
    | [VStr o; a; b] =>
        if is o "eq" then on2 "eq" a b (compare_eq false) st
        else if is o "ne" then on2 "ne" a b (compare_eq true) st
        else ext10 f args kw st
    | _ => Stuck "compare"
    end
  else if is f "operator" then
    match args with
    | [VStr o; a; b] =>
        if is o "mul" then on2 "mul" a b mul st
        else if is o "or" then on2 "or" a b logical_or st
        else ext10 f args kw st
    | _ => Stuck "operator"
    end
  else if is f "$getitem" then
    match args with [t; k] => getitemB t k st | _ => Stuck "getitem" end
  else if is f "$setitem" then
    match args with
    | [t; k; v] =>
        match is_slice k, dec10 t, dec10 v with
        | Some (a, b), Some x, Some y =>
            if (ndim x =? 1)%nat then ret10 "x[a:b] = v" (set_slice_last x a b y) st else Stuck "setitem"
        | _, _, _ => Stuck "setitem"
        end
    | _ => Stuck "setitem"
    end
  else ext10 f args kw st.

(* ---- encodings ------------------------------------------------------------------------------ *)
(* alignments: N rows of T labels -> the (N, T) tensor *)
Definition ali_tensor (T : nat) (rows : list (list Z)) : itens :=
  mkIT [List.length rows; T] (flat_map (map CInt) rows).

(* the input tensor of a model input.  'fixed' looks at the first two sizes only: a (N, T) tensor of zeros *)
Definition input_tensor (T : nat) (inp : Model.sinput) : itens :=
  match inp with
  | Model.InFixed N => full [N; T] (CInt 0)
  | Model.InAli rows => ali_tensor T rows
  | Model.InRef rows => refs_tensor T rows
  end.

Definition policy_name (inp : Model.sinput) : string :=
  match inp with Model.InFixed _ => "fixed" | Model.InAli _ => "ali" | Model.InRef _ => "ref" end.

Definition wt_name (wt : Model.wtype) : string :=
  match wt with Model.Symmetric => "symmetric" | Model.Causal => "causal" | Model.Future => "future" end.

(* the arguments of slice_spect_data(input, in_lens, other_lens, policy, window_type, valid_only, lobe_size) + torch *)
Definition slice_vars_raw (input : itens) (in_lens other_lens : option itens) (policy wt : string) (vo : bool) (lobe : Z)
  : list (string * val) :=
  [("input", enc10 input); ("in_lens", opt_tensor in_lens); ("other_lens", opt_tensor other_lens);
   ("policy", VStr policy); ("window_type", VStr wt); ("valid_only", VBool vo); ("lobe_size", VInt lobe);
   ("torch", torch_module_b)].

Definition slice_vars (T : nat) (inp : Model.sinput) (in_lens other_lens : option (list Z)) (wt : Model.wtype)
  (vo : bool) (lobe : Z) : list (string * val) :=
  slice_vars_raw (input_tensor T inp) (option_map vec_tensor in_lens) (option_map vec_tensor other_lens)
                 (policy_name inp) (wt_name wt) vo lobe.

Definition run_slice_raw input in_lens other_lens policy wt vo lobe : outcome val :=
  Interp.run extB slice_body (slice_vars_raw input in_lens other_lens policy wt vo lobe).

Definition run_slice T inp in_lens other_lens wt vo lobe : outcome val :=
  Interp.run extB slice_body (slice_vars T inp in_lens other_lens wt vo lobe).

(* the value a model result stands for: the (M, 2) tensor of windows and the (M,) tensor of sources *)
Definition slices_value (out : list ((Z * Z) * Z)) : val :=
  VTuple [enc10 (slices_tensor (map fst out)); enc10 (vec_tensor (map snd out))].

(* ---- reading a returned (slices, sources) back ---- *)
Fixpoint pairs_of_cells (l : list cell) : option (list (Z * Z)) :=
  match l with
  | [] => Some []
  | CInt a :: CInt b :: r => option_map (cons (a, b)) (pairs_of_cells r)
  | _ => None
  end.

Definition read_slices (slices sources : itens) : option (list ((Z * Z) * Z)) :=
  match ishape slices, ishape sources, pairs_of_cells (idata slices), all_some (map as_int (idata sources)) with
  | [m; 2%nat], [m'], Some ws, Some ss =>
      if ((m =? m')%nat && (m =? List.length ws)%nat && (m =? List.length ss)%nat)%bool
      then Some (combine ws ss) else None
  | _, _, _, _ => None
  end.

(* outer None: the interpreter got stuck / raised something else than RuntimeError / returned something that is not
   a pair of integer tensors of shapes (M, 2), (M,);  Some None: the source raises RuntimeError *)
Definition src_slice T inp in_lens other_lens wt vo lobe : option Model.sres :=
  match run_slice T inp in_lens other_lens wt vo lobe with
  | Ok (VTuple [s; c]) _ => match dec10 s, dec10 c with
                            | Some st, Some ct => option_map Some (read_slices st ct)
                            | _, _ => None
                            end
  | Exc name _ => if String.eqb name runtime_error then Some None else None
  | _ => None
  end.

(* same interface as Model.check_slice (no variant: the source is what it is) *)
Definition src_check_slice T inp in_lens other_lens wt vo lobe (impl : Model.sres) : bool :=
  match src_slice T inp in_lens other_lens wt vo lobe with
  | Some o => Model.sres_eqb o impl
  | None => false
  end.

(* malformed calls on tensors of the given shapes (all elements 0): the source raises RuntimeError *)
Definition src_slice_rejects (input_shape : list nat) (in_lens_shape other_lens_shape : option (list nat))
  (policy wt : string) (vo : bool) (lobe : Z) : bool :=
  match run_slice_raw (zeros_of input_shape) (option_map zeros_of in_lens_shape) (option_map zeros_of other_lens_shape)
                      policy wt vo lobe with
  | Exc name _ => String.eqb name runtime_error
  | _ => false
  end.
