(* C19 - tie between the Python text of `simple_random_sampling_without_replacement` and PV.C19.Combinatorics.srswor,
   checked by the kernel.  PV.Gen.C19Src.srswor_body is the MiniPy term harness/py2coq/translate.py regenerates from
   /repo/src/pydrobert/torch/_combinatorics.py on every run; PV.MiniPy.Interp is its semantics; the torch calls mean what
   PV.MiniTorch.OpsC19 says (through SrcRun.ext19).  For EVERY batch shape, every pair of count tensors (of that shape, or
   a one-element given_count that broadcasts), out_size given or None, every content of uninitialised memory and every
   Bernoulli oracle that draws 1 at p = 1 and 0 at p = 0: the interpreted source raises RuntimeError exactly when the model
   returns None for some batch element, and otherwise returns the tensor of shape batch + (out_size,) whose n-th row is
   Model.srswor total[n] given[n] out_size run on a script of uniforms in [0, 1). *)
From Coq Require Import ZArith QArith List Bool Arith Lia.
From PV Require Import MiniPy.Syntax MiniPy.Interp.
From PV Require Import MiniTorch.Ops MiniTorch.Value MiniTorch.Lemmas MiniTorch.OpsC19 MiniTorch.LemmasC19 Gen.C19Src.
From PV Require Import C19.Combinatorics C19.Spec C19.ProofsComb.
From PV Require Import C19.SrcRun C19.TieLib C19.TieSrswor C19.TieModel.
Import ListNotations.
Local Open Scope Z_scope.

(* max of total_count (0 for no element: never used, the run raises there) *)
Definition zmaxl (l : list Z) : Z := match l with [] => 0 | a :: r => zmax1 a r end.
(* the effective out_size *)
Definition oeffz (out : option Z) (totals : list Z) : Z := match out with Some o => o | None => zmaxl totals end.
(* out_size, when given, is a size *)
Definition out_ok (out : option Z) : Prop := match out with Some o => 0 <= o | None => True end.
(* the guard of the source: some given count exceeds its total, or out_size is below the largest total *)
Definition guard (totals givens : list Z) (out : option Z) : bool :=
  over totals givens || (oeffz out totals <? zmaxl totals).

(* row n of the sample: the n-th entry of every step's draw *)
Definition rows_of_bits (N : nat) (bits : list (list bool)) : list (list Z) :=
  map (fun n => map (fun bt => b2z (nth n bt false)) bits) (seq 0 N).

(* ---- lists ------------------------------------------------------------------------------------------------------- *)
Lemma list_as_nth : forall {A} (l : list A) d, l = map (fun t => nth t l d) (seq 0 (length l)).
Proof.
  intros A l d. induction l as [|x l IH]; [reflexivity|]. cbn [length seq map nth]. f_equal.
  rewrite <- seq_shift, map_map. exact IH.
Qed.

Lemma result_data_rows : forall N O bits, length bits = O ->
  result_data N O bits = zinj (concat (rows_of_bits N bits)).
Proof.
  intros N O bits Hl. unfold result_data, tab2, rows_of_bits, zinj. cbn [tdata].
  rewrite concat_map, map_map, flat_map_concat_map. f_equal. apply map_ext. intros n.
  replace (map (fun bt => b2z (nth n bt false)) bits)
    with (map (fun bt => b2z (nth n bt false)) (map (fun t => nth t bits []) (seq 0 (length bits))))
    by (now rewrite <- list_as_nth).
  rewrite Hl, !map_map. apply map_ext. intros t. now rewrite qbool_z.
Qed.

Lemma over_false_nth : forall totals givens n, length totals = length givens -> over totals givens = false ->
  (n < length totals)%nat -> nth n givens 0 <= nth n totals 0.
Proof.
  intros totals givens n Hl Hov Hn. unfold over in Hov.
  destruct (Z.le_gt_cases (nth n givens 0) (nth n totals 0)) as [H|H]; [assumption|exfalso].
  assert (E : existsb (fun gt : Z * Z => snd gt <? fst gt) (combine givens totals) = true); [|congruence].
  apply existsb_exists. exists (nth n givens 0, nth n totals 0). split.
  - rewrite <- combine_nth by congruence. apply nth_In. rewrite combine_length. lia.
  - cbn [fst snd]. apply Z.ltb_lt. lia.
Qed.

Lemma over_true_nth : forall totals givens, length totals = length givens -> over totals givens = true ->
  exists n, (n < length totals)%nat /\ nth n totals 0 < nth n givens 0.
Proof.
  intros totals givens Hl Hov. unfold over in Hov. apply existsb_exists in Hov. destruct Hov as [[g t] [Hin Hlt]].
  apply (In_nth _ _ (0, 0)) in Hin. destruct Hin as [n [Hn E]]. rewrite combine_length in Hn.
  rewrite combine_nth in E by congruence. inversion E; subst. exists n. split; [lia|].
  cbn [fst snd] in Hlt. now apply Z.ltb_lt in Hlt.
Qed.

Lemma zmaxl_ge : forall l n, (n < length l)%nat -> nth n l 0 <= zmaxl l.
Proof. intros [|a r] n H; [cbn in H; lia|]. apply zmax1_ge. now apply nth_In. Qed.

Lemma zmaxl_in : forall l, l <> [] -> exists n, (n < length l)%nat /\ nth n l 0 = zmaxl l.
Proof.
  intros [|a r] H; [congruence|]. destruct (In_nth _ _ 0 (zmax1_in r a)) as [n [Hn E]]. exists n. now split.
Qed.

Lemma map_repeat' : forall {A B} (f : A -> B) x n, map f (repeat x n) = repeat (f x) n.
Proof. induction n as [|n IH]; [reflexivity|]. cbn. now rewrite IH. Qed.

(* ---- the guard is the model's error condition, element by element ------------------------------------------------ *)
Lemma guard_iff : forall totals givens out, length totals = length givens -> totals <> [] -> out_ok out ->
  Forall (fun g => 0 <= g) givens ->
  (guard totals givens out = true <->
   exists n, (n < length totals)%nat /\
             forall us, srswor (nth n totals 0) (nth n givens 0) (Z.to_nat (oeffz out totals)) us = None).
Proof.
  intros totals givens out Hl Hne Hout Hg. unfold guard. split.
  - intros H. apply orb_prop in H. destruct H as [H|H].
    + destruct (over_true_nth _ _ Hl H) as [n [Hn Hlt]]. exists n. split; [assumption|]. intros us.
      apply srswor_error_iff. now left.
    + apply Z.ltb_lt in H. destruct (zmaxl_in totals Hne) as [n [Hn E]]. exists n. split; [assumption|]. intros us.
      apply srswor_error_iff.
      destruct (Z.lt_ge_cases (nth n totals 0) (nth n givens 0)) as [Hc|Hc]; [now left|right].
      rewrite E. assert (0 <= zmaxl totals).
      { rewrite <- E. rewrite Forall_forall in Hg. specialize (Hg (nth n givens 0) ltac:(apply nth_In; lia)). lia. }
      destruct out as [o|]; cbn [oeffz out_ok] in *; lia.
  - intros [n [Hn H]]. specialize (H []). apply srswor_error_iff in H.
    destruct (over totals givens) eqn:Hov; [reflexivity|]. cbn [orb]. apply Z.ltb_lt.
    pose proof (over_false_nth _ _ n Hl Hov Hn). destruct H as [H|H]; [lia|].
    pose proof (zmaxl_ge totals n Hn).
    rewrite Forall_forall in Hg. specialize (Hg (nth n givens 0) ltac:(apply nth_In; lia)). lia.
Qed.

(* ---- the general statement: any pair of tensors that broadcast to (totals, givens) of shape sh --------------------- *)
Section Gen.
  Variables (orc : oracle) (junk : nat -> Q).
  Hypothesis Hok : oracle_ok orc.
  Variables (s1 s2 sh : list nat) (d1 d2 : list Q) (totals givens : list Z).
  Hypothesis Hmax : max_all (mkTens s1 d1) = Some (inject_Z (zmaxl totals)).
  Hypothesis Hbc : broadcast_pair (mkTens s1 d1) (mkTens s2 d2) = Some (mkTens sh (zinj totals), mkTens sh (zinj givens)).
  Hypothesis Ht : length totals = numel sh.
  Hypothesis Hg : length givens = numel sh.
  Hypothesis Hne : totals <> [].
  Hypothesis Hg0 : Forall (fun g => 0 <= g) givens.

  Theorem srswor_tie_gen : forall out, out_ok out ->
    let O := Z.to_nat (oeffz out totals) in
    if guard totals givens out
    then exists st, Interp.run (ext19 orc junk) srswor_body (srswor_vars (mkTens s1 d1) (mkTens s2 d2) out)
                    = Exc runtime_error st
    else exists st rows,
           Interp.run (ext19 orc junk) srswor_body (srswor_vars (mkTens s1 d1) (mkTens s2 d2) out)
           = Ok (enc (ztens (sh ++ [O]) (concat rows))) st /\
           length rows = numel sh /\
           forall n, (n < numel sh)%nat ->
             exists us, Forall unit_u us /\ srswor (nth n totals 0) (nth n givens 0) O us = Some (nth n rows []).
  Proof.
    intros out Hout O. unfold guard. destruct (over totals givens) eqn:Hov; cbn [orb].
    - apply (srswor_run_raises orc junk s1 s2 sh d1 d2 totals givens (zmaxl totals) Hmax Hbc out). now left.
    - destruct (oeffz out totals <? zmaxl totals) eqn:Hlt.
      + apply (srswor_run_raises orc junk s1 s2 sh d1 d2 totals givens (zmaxl totals) Hmax Hbc out). right.
        apply Z.ltb_lt in Hlt. destruct out; exact Hlt.
      + apply Z.ltb_ge in Hlt.
        assert (Hpos : 0 <= oeffz out totals).
        { destruct out as [o|]; [exact Hout|]. cbn [oeffz] in *.
          destruct totals as [|a r]; [congruence|]. destruct givens as [|g gs]; [cbn in Hg; cbn in Ht; lia|].
          pose proof (over_false_nth (a :: r) (g :: gs) 0%nat ltac:(congruence) Hov ltac:(cbn; lia)) as H. cbn [nth] in H.
          inversion Hg0; subst. pose proof (zmax1_ge_init r a). cbn [zmaxl]. lia. }
        destruct (srswor_run_ok orc junk s1 s2 sh d1 d2 totals givens (zmaxl totals) Hmax Hbc out Ht Hg Hov) as [st Hrun].
        { destruct out; exact Hlt. } { destruct out; exact Hpos. }
        assert (EO : oeff (zmaxl totals) out = oeffz out totals) by (destruct out; reflexivity). rewrite EO in Hrun. fold O in Hrun.
        set (trems := map (fun t => Z.max t 1) totals) in *.
        set (bits := bloop orc 0 O givens trems) in *.
        destruct (bloop_rows orc O 0 givens trems (numel sh) Hg) as [Hlen Hrows]; [unfold trems; now rewrite map_length|].
        fold bits in Hlen, Hrows.
        exists st, (rows_of_bits (numel sh) bits). split; [|split].
        * rewrite Hrun. rewrite (result_data_rows _ O) by exact Hlen. reflexivity.
        * unfold rows_of_bits. now rewrite map_length, seq_length.
        * intros n Hn.
          assert (Hgn : nth n givens 0 <= nth n totals 0) by (apply over_false_nth; [congruence|assumption|lia]).
          assert (Hg0n : 0 <= nth n givens 0).
          { rewrite Forall_forall in Hg0. apply Hg0. apply nth_In. lia. }
          assert (Htn : nth n trems 0 = Z.max (nth n totals 0) 1).
          { unfold trems. rewrite (nth_indep _ 0 1) by (rewrite map_length; lia).
            exact (map_nth (fun t => Z.max t 1) totals 0 n). }
          destruct (row_of_bloop orc Hok O 0 givens trems n) as [us [Hus Hrow]].
          { unfold trems. rewrite map_length. congruence. } { lia. } { rewrite Htn. unfold inv. lia. }
          exists us. split; [assumption|]. unfold srswor.
          replace (nth n totals 0 <? nth n givens 0) with false by (symmetry; apply Z.ltb_ge; lia).
          replace (Z.of_nat O <? nth n totals 0) with false.
          2:{ symmetry. apply Z.ltb_ge. unfold O. rewrite Z2Nat.id by lia. pose proof (zmaxl_ge totals n ltac:(lia)). lia. }
          f_equal. rewrite <- Htn, <- Hrow. unfold rows_of_bits.
          rewrite nth_map_seq by lia. reflexivity.
  Qed.
End Gen.

(* ---- count tensors of one shape ------------------------------------------------------------------------------------- *)
Definition srswor_conclusion (o : outcome val) (sh : list nat) (totals givens : list Z) (out : option Z) : Prop :=
  let O := Z.to_nat (oeffz out totals) in
  if guard totals givens out
  then exists st, o = Exc runtime_error st
  else exists st rows,
         o = Ok (enc (ztens (sh ++ [O]) (concat rows))) st /\
         length rows = numel sh /\
         forall n, (n < numel sh)%nat ->
           exists us, Forall unit_u us /\ srswor (nth n totals 0) (nth n givens 0) O us = Some (nth n rows []).

Theorem srswor_tie : forall orc junk sh totals givens out,
  oracle_ok orc -> length totals = numel sh -> length givens = numel sh -> totals <> [] ->
  Forall (fun g => 0 <= g) givens -> out_ok out ->
  srswor_conclusion (run_srswor orc junk (ztens sh totals) (ztens sh givens) out) sh totals givens out.
Proof.
  intros orc junk sh totals givens out Hok Ht Hg Hne Hg0 Hout.
  apply (srswor_tie_gen orc junk Hok sh sh sh (zinj totals) (zinj givens) totals givens); try assumption.
  - destruct totals as [|a r]; [congruence|]. apply max_all_z.
  - unfold broadcast_pair. cbn [tshape]. now rewrite shape_eqb_refl.
Qed.

(* ---- a one-element given_count (0-dim, or all sizes 1) against a batch of totals -------------------------------------- *)
Theorem srswor_tie_scalar_given : forall orc junk sh totals gsh g out,
  oracle_ok orc -> length totals = numel sh -> totals <> [] -> 0 <= g -> out_ok out ->
  shape_eqb sh gsh = false -> one_elt (ztens sh totals) (ztens gsh [g]) = false -> one_elt (ztens gsh [g]) (ztens sh totals) = true ->
  srswor_conclusion (run_srswor orc junk (ztens sh totals) (ztens gsh [g]) out) sh totals (repeat g (numel sh)) out.
Proof.
  intros orc junk sh totals gsh g out Hok Ht Hne Hg0 Hout H1 H2 H3.
  apply (srswor_tie_gen orc junk Hok sh gsh sh (zinj totals) (zinj [g]) totals (repeat g (numel sh))); try assumption.
  - destruct totals as [|a r]; [congruence|]. apply max_all_z.
  - unfold broadcast_pair, ztens, zinj in *. cbn [tshape] in *. rewrite H1, H2, H3.
    unfold expand_one. cbn [tdata map hd]. now rewrite map_repeat'.
  - apply repeat_length.
  - apply Forall_forall. intros x Hx. apply repeat_spec in Hx. now subst.
Qed.

(* ---- consequences that speak about the interpreted source only --------------------------------------------------------- *)
Theorem srswor_source_raises_iff : forall orc junk sh totals givens out,
  oracle_ok orc -> length totals = numel sh -> length givens = numel sh -> totals <> [] ->
  Forall (fun g => 0 <= g) givens -> out_ok out ->
  ((exists st, run_srswor orc junk (ztens sh totals) (ztens sh givens) out = Exc runtime_error st) <->
   exists n, (n < numel sh)%nat /\
             forall us, srswor (nth n totals 0) (nth n givens 0) (Z.to_nat (oeffz out totals)) us = None).
Proof.
  intros orc junk sh totals givens out Hok Ht Hg Hne Hg0 Hout.
  pose proof (srswor_tie orc junk sh totals givens out Hok Ht Hg Hne Hg0 Hout) as T. unfold srswor_conclusion in T.
  pose proof (guard_iff totals givens out ltac:(congruence) Hne Hout Hg0) as G. rewrite Ht in G.
  destruct (guard totals givens out).
  - split; [intros _; now apply G|intros _; exact T].
  - split.
    + intros [st E]. destruct T as [st' [rows [E' _]]]. congruence.
    + intros H. apply G in H. discriminate.
Qed.

(* COMPOSED with the model theorem ProofsComb.srswor_cardinality_and_positions: whenever the interpreted source returns,
   it returns a tensor of shape batch + (out_size,) every row of which has exactly given[n] ones, all of them among the
   first total[n] positions - for every oracle with the two boundary properties and every uninitialised memory *)
Theorem srswor_source_cardinality_and_positions : forall orc junk sh totals givens out v st,
  oracle_ok orc -> length totals = numel sh -> length givens = numel sh -> totals <> [] ->
  Forall (fun g => 0 <= g) givens -> out_ok out ->
  run_srswor orc junk (ztens sh totals) (ztens sh givens) out = Ok v st ->
  exists rows, v = enc (ztens (sh ++ [Z.to_nat (oeffz out totals)]) (concat rows)) /\ length rows = numel sh /\
    forall n, (n < numel sh)%nat ->
      srswor_ok (nth n totals 0) (nth n givens 0) (Z.to_nat (oeffz out totals)) (nth n rows []).
Proof.
  intros orc junk sh totals givens out v st Hok Ht Hg Hne Hg0 Hout Hrun.
  pose proof (srswor_tie orc junk sh totals givens out Hok Ht Hg Hne Hg0 Hout) as T. unfold srswor_conclusion in T.
  destruct (guard totals givens out).
  - destruct T as [st' E]. congruence.
  - destruct T as [st' [rows [E [Hl Hrows]]]]. rewrite Hrun in E. inversion E; subst. exists rows. split; [reflexivity|split; [assumption|]].
    intros n Hn. destruct (Hrows n Hn) as [us [Hus Hs]].
    apply (srswor_cardinality_and_positions _ _ _ us); [|assumption|assumption].
    rewrite Forall_forall in Hg0. apply Hg0. apply nth_In. lia.
Qed.

Example srswor_source_nonvacuous :
  let us := [[1#2; 1#2]; [1#2; 1#2]; [1#2; 1#2]; [1#2; 1#2]; [1#2; 1#2]]%Q in
  agrees (run_srswor (orc_of_script us) junk_check (ztens [2%nat] [4; 3]) (ztens [2%nat] [2; 1]) (Some 5))
         (Some ([2%nat; 5%nat], [0; 1; 0; 1; 0; 0; 0; 1; 0; 0])) = true /\
  agrees (run_srswor (orc_of_script us) junk_check (ztens [2%nat] [4; 3]) (ztens [] [2]) None)
         (Some ([2%nat; 4%nat], [0; 1; 0; 1; 1; 0; 1; 0])) = true /\
  agrees (run_srswor (orc_of_script us) junk_check (ztens [2%nat] [4; 3]) (ztens [2%nat] [2; 4]) None) None = true /\
  agrees (run_srswor (orc_of_script us) junk_check (ztens [2%nat] [4; 3]) (ztens [2%nat] [2; 1]) (Some 3)) None = true.
Proof. vm_compute. repeat split. Qed.
