(* C03, second tie - the source tie of `hard_optimal_completion_distillation_loss` (src/pydrobert/torch/_string.py), whole body:
   the argument checks (TieBChecks), the call of `optimal_completion` (= the interpretation of PV.Gen.C03Src.oc_body, the FIRST
   tie's theorem TieOcWhole.oc_body_is_model, with exclude_last = True and padding = ignore_index), the cross entropy and the
   division by the clamped number of targets (TieB.ce_run), the reductions (TieB.red_none .. red_bad), and the identification of the closed
   forms with PV.C03.Model.hard_ocd_loss (TieBModel): the interpreted PV.Gen.C03BSrc.loss_body returns the float tensor of
   Model.hard_ocd_loss on the oracle's log-probabilities - every batch, widths, tokens, eos / include_eos / batch_first setting,
   costs c / s, weight, ignore_index, reduction, logits, and EVERY log-softmax oracle. *)
From Coq Require Import ZArith QArith List String Bool Arith Lia ZifyBool ZifyNat.
From PV Require Import MiniPy.Syntax MiniPy.Interp MiniPy.Lemmas MiniTorch.Ops MiniTorch.Lemmas MiniTorch.OpsC07 MiniTorch.LemmasC07
  MiniTorch.OpsC01 MiniTorch.LemmasC01 MiniTorch.OpsC03 MiniTorch.LemmasC03 MiniTorch.OpsC03B MiniTorch.LemmasC03B.
From PV Require Import Gen.C03Src Gen.C03BSrc C01.SrcRun C01.TieLib C03.SrcRun C03.TieLib C03.TieOcLib C03.TieOcModel C03.TieOcWhole
  C03.SrcRunB C03.TieBLib C03.TieB C03.TieBChecks C03.TieBModel.
From PV Require C01.Obs C01.Spec C01.Model C01.Proofs C01.TieLoop C01.TiePre C01.Tie C03.Spec C03.Model C03.ProofsTop C03.ProofsMain C03.ProofsLoss.
Import ListNotations.
Local Open Scope string_scope.

#[local] Arguments dec01 : simpl never.
#[local] Arguments enc_b : simpl never.
#[local] Arguments enc_i : simpl never.
#[local] Arguments enc_x : simpl never.
#[local] Arguments tab2 : simpl never.
#[local] Arguments tab3 : simpl never.
#[local] Arguments qz : simpl never.
#[local] Arguments Z.of_nat : simpl never.
#[local] Arguments ext01 : simpl never.
#[local] Arguments ext03 : simpl never.
#[local] Arguments ext03_sm : simpl never.
#[local] Arguments ext03_oc : simpl never.
#[local] Arguments ext03B : simpl never.
#[local] Arguments seq : simpl never.
#[local] Arguments mat_tensor : simpl never.
#[local] Arguments logits_tensor : simpl never.
#[local] Arguments weight_val : simpl never.
#[local] Arguments call_body_oc : simpl never.
#[local] Arguments loss_tensor : simpl never.
#[local] Arguments loss_of : simpl never.

Notation wf_src := C01.Tie.wf_src.
Notation at_src := C01.Tie.at_src.

(* ---- loss_ce; loss_red on tabulated tensors = Model.hard_ocd_loss as a function of the targets ------------------------------- *)
Section Core.
  Variable lsm : list fx -> list Q.
  Variables (A B C V : nat) (lgv : nat -> nat -> list fx) (tf : nat -> nat -> nat -> Z) (w : option (list Q)) (ign : Z).
  Hypothesis Hlg : forall a b, (a < A)%nat -> (b < B)%nat -> List.length (lgv a b) = V.
  Hypothesis Hw : match w with Some wv => List.length wv = V | None => True end.
  Hypothesis Hok : forall a b c, (a < A)%nat -> (b < B)%nat -> (c < C)%nat -> class_ok ign V (tf a b c) = true.
  Hypothesis HA : (0 < A)%nat.
  Hypothesis HB : (0 < B)%nat.

  Lemma core_run : forall (bf : bool) (red : C03.Model.reduction) st,
    known3 st (ce_stage0 A B C V (lfn lgv) tf w ign (VBool bf) (VStr (red_str red))) ->
    returns3 (enc_x (loss_tensor [A; B] (loss_of ign w red bf (if bf then A else B)
                                           (nest2 A B (fun a b => lsm (lgv a b))) (nest2 A B (orow C tf)))))
             (exec (ext03B lsm) (SSeq loss_ce loss_red) st).
  Proof.
    intros bf red st K0.
    eapply xreturns_seq; [exact (ce_run lsm A B C V (lfn lgv) tf w ign (VBool bf) (VStr (red_str red)) Hw Hok st K0)|].
    intros st1 K1. unfold ce_stage1 in K1.
    destruct red; cbn [red_str] in *.
    - rewrite <- (result_none lsm A B C V lgv tf w ign Hlg Hw Hok). apply (red_none lsm A B C _ (pmf tf ign) bf). exact K1.
    - rewrite <- (result_sum lsm A B C V lgv tf w ign Hlg Hw Hok). apply (red_sum lsm A B C _ (pmf tf ign) bf). exact K1.
    - destruct bf.
      + rewrite <- (result_mean_bf lsm A B C V lgv tf w ign Hlg Hw Hok A HA). apply (red_mean_bf lsm A B C _ (pmf tf ign)). exact K1.
      + rewrite <- (result_mean_tf lsm A B C V lgv tf w ign Hlg Hw Hok HB). apply (red_mean_tf lsm A B C _ (pmf tf ign)). exact K1.
  Qed.
End Core.

(* ---- the arguments ------------------------------------------------------------------------------------------------------------- *)
(* logits as handed over: nested lists in hyp's layout plus the class axis *)
Definition wf_logits (bf : bool) (N H V : nat) (lg : list (list (list fx))) : Prop :=
  List.length lg = (if bf then N else H) /\
  forall row, List.In row lg -> List.length row = (if bf then H else N) /\ forall v, List.In v row -> List.length v = V.

Definition lgv_of (lg : list (list (list fx))) (a b : nat) : list fx := nth b (nth a lg []) [].

Lemma concat_concat_rect : forall (lg : list (list (list fx))) A B V,
  List.length lg = A -> (forall row, List.In row lg -> List.length row = B /\ forall v, List.In v row -> List.length v = V) ->
  List.concat (List.concat lg) = tab3 A B V (lfn (lgv_of lg)).
Proof.
  intros lg A B V HA HB. unfold tab3.
  rewrite (list_as_map_nth lg A [] HA) at 1. rewrite <- flat_map_concat_map, concat_flat_map.
  apply flat_map_ext_seq. intros a Ha.
  assert (Hin : List.In (nth a lg []) lg) by (apply nth_In; lia).
  destruct (HB _ Hin) as [HBr HV].
  rewrite (list_as_map_nth (nth a lg []) B [] HBr) at 1. rewrite <- flat_map_concat_map.
  apply flat_map_ext_seq. intros b Hb. unfold lfn, lgv_of.
  apply list_as_map_nth. apply HV. apply nth_In. lia.
Qed.

Lemma lgv_length : forall lg A B V,
  List.length lg = A -> (forall row, List.In row lg -> List.length row = B /\ forall v, List.In v row -> List.length v = V) ->
  forall a b, (a < A)%nat -> (b < B)%nat -> List.length (lgv_of lg a b) = V.
Proof.
  intros lg A B V HA HB a b Ha Hb. unfold lgv_of.
  assert (Hin : List.In (nth a lg []) lg) by (apply nth_In; lia).
  destruct (HB _ Hin) as [HBr HV]. apply HV. apply nth_In. lia.
Qed.

Lemma logp_nest2 : forall (lsm : list fx -> list Q) lg A B V,
  List.length lg = A -> (forall row, List.In row lg -> List.length row = B /\ forall v, List.In v row -> List.length v = V) ->
  map (map lsm) lg = nest2 A B (fun a b => lsm (lgv_of lg a b)).
Proof.
  intros lsm lg A B V HA HB. unfold nest2, lgv_of.
  rewrite (list_as_map_nth lg A [] HA) at 1. rewrite map_map. apply map_ext_seq. intros a Ha.
  assert (Hin : List.In (nth a lg []) lg) by (apply nth_In; lia).
  destruct (HB _ Hin) as [HBr _].
  rewrite (list_as_map_nth (nth a lg []) B [] HBr) at 1. now rewrite map_map.
Qed.

Lemma logits_tensor_tab : forall bf N H V lg, (0 < N)%nat -> wf_logits bf N H V lg ->
  logits_tensor bf N V lg =
  mkTn [if bf then N else H; if bf then H else N; V] (tab3 (if bf then N else H) (if bf then H else N) V (lfn (lgv_of lg))).
Proof.
  intros bf N H V lg HN [HL HR]. unfold logits_tensor. rewrite (concat_concat_rect lg _ _ V HL HR).
  destruct bf; [|now rewrite HL].
  assert (Hhd : List.length (hd [] lg) = H).
  { destruct lg as [|row lg]; [cbn [List.length] in HL; lia|]. apply (HR row). now left. }
  now rewrite Hhd.
Qed.

(* hard_optimal_completion_distillation_loss(logits, ref, hyp, eos, include_eos, batch_first, ins_cost, del_cost, sub_cost, weight,
   reduction, ignore_index, warn); exclude_last of [c] is not an argument (the function forces it) *)
Definition loss_params (s : positive) (c : C01.Model.cfg) (w : option (list Q)) (red : string) (N V : nat)
  (ref hyp : list (list Z)) (lg : list (list (list fx))) (warn : bool) : list (string * val) :=
  loss_vars_gen (enc_x (logits_tensor (C01.Model.c_bf c) N V lg))
    (enc_i (mat_tensor (C01.Model.c_bf c) N ref)) (enc_i (mat_tensor (C01.Model.c_bf c) N hyp))
    (opt_int (C01.Model.c_eos c)) (VBool (C01.Model.c_incl c)) (VBool (C01.Model.c_bf c))
    (VQ (qz s (C01.Model.c_ins c))) (VQ (qz s (C01.Model.c_del c))) (VQ (qz s (C01.Model.c_sub c)))
    (weight_val w) (VStr red) (VInt (C01.Model.c_pad c)) (VBool warn).

Definition run_loss (lsm : list fx -> list Q) (prog : stmt) (s : positive) (c : C01.Model.cfg) (w : option (list Q)) (red : string)
  (N V : nat) (ref hyp : list (list Z)) (lg : list (list (list fx))) (warn : bool) : outcome val :=
  Interp.run (ext03B lsm) prog (loss_params s c w red N V ref hyp lg warn).

(* the guards of the function: a counted eos is a class index other than ignore_index *)
Definition eos_ok (c : C01.Model.cfg) (V : nat) : Prop :=
  C01.Model.c_incl c = true -> forall e, C01.Model.c_eos c = Some e -> (0 <= e < Z.of_nat V)%Z /\ e <> C01.Model.c_pad c.

Definition weight_ok (w : option (list Q)) (V : nat) : Prop :=
  match w with Some wv => List.length wv = V | None => True end.

(* every target the model lists is ignore_index or a class index (torch's cross_entropy raises IndexError otherwise) *)
Definition targets_ok (c : C01.Model.cfg) (N V : nat) (ref hyp : list (list Z)) : Prop :=
  forall t, List.In t (dat (model_oc_tensor (C03.ProofsLoss.with_excl c) N ref hyp)) -> class_ok (C01.Model.c_pad c) V t = true.

Definition grid_shape (bf : bool) (N H : nat) : list nat := if bf then [N; H] else [H; N].

Lemma xexec_seq_skip : forall ext a b st, exec ext a st = Ok CNormal st -> exec ext (SSeq a b) st = exec ext b st.
Proof. intros ext a b st H. cbn [exec]. rewrite H. reflexivity. Qed.

Lemma xexec_seq_normal : forall ext a b st st1, exec ext a st = Ok CNormal st1 -> exec ext (SSeq a b) st = exec ext b st1.
Proof. intros ext a b st st1 H. cbn [exec]. rewrite H. reflexivity. Qed.

Lemma xexec_seq_exc : forall ext a b st n st', exec ext a st = Exc n st' -> exec ext (SSeq a b) st = Exc n st'.
Proof. intros ext a b st n st' H. cbn [exec]. rewrite H. reflexivity. Qed.

Lemma idx3_lt : forall A B C a b c, (a < A)%nat -> (b < B)%nat -> (c < C)%nat -> ((a * B + b) * C + c < A * (B * C))%nat.
Proof.
  intros A B C a b c Ha Hb Hc. assert (H1 : (a * B + b + 1 <= A * B)%nat) by nia.
  assert (H2 : ((a * B + b) * C + c < (a * B + b + 1) * C)%nat) by nia.
  assert (H3 : ((a * B + b + 1) * C <= A * B * C)%nat) by (now apply Nat.mul_le_mono_r). lia.
Qed.

Lemma orows_nest3 : forall A B C f, nest3 A B C f = nest2 A B (orow C f).
Proof. reflexivity. Qed.

Lemma time_len_src : forall bf N H hyp, (0 < N)%nat -> wf_src bf N H hyp -> C01.Proofs.time_len bf hyp = H.
Proof.
  intros bf N H hyp HN Hh. pose proof (C01.Tie.wf_src_model _ _ _ _ Hh) as Hwh.
  rewrite <- (C01.Proofs.seq_of_length _ N hyp 0 HN Hwh), <- (C01.Tie.colf_seq_of _ N H hyp 0 HN Hh).
  apply C01.TiePre.colf_length.
Qed.

Lemma oc_rows_excl : forall c N H (ref hyp : list (list Z)), (0 < N)%nat -> wf_src (C01.Model.c_bf c) N H hyp -> H <> 0%nat ->
  C03.Model.oc_rows (C03.ProofsLoss.with_excl c) N hyp = H.
Proof.
  intros c N H ref hyp HN Hh HH. pose proof (C01.Tie.wf_src_model _ _ _ _ Hh) as Hwh.
  rewrite (C03.ProofsMain.oc_rows_time (C03.ProofsLoss.with_excl c) N ref hyp 0 HN Hwh).
  cbn [C01.Model.c_bf C01.Model.c_excl C03.ProofsLoss.with_excl]. rewrite (time_len_src _ N H hyp HN Hh). lia.
Qed.

(* ---- the whole body ---------------------------------------------------------------------------------------------------------- *)
Lemma loss_body_split : forall lsm st, exec (ext03B lsm) loss_body st = exec (ext03B lsm) loss_blocks st.
Proof. intros lsm st. unfold loss_blocks. rewrite !(xexec_flatten (ext03B lsm)). f_equal. Qed.

(* the checks and the call leave what loss_ce / loss_red read: the logits and the model's targets as tables, in the layout
   (A, B) = (N, H) when batch_first, else (H, N) *)
Lemma pre_run :
  forall (lsm : list fx -> list Q) (s : positive) (c : C01.Model.cfg) (w : option (list Q)) (red : string)
         (N R' H V : nat) (ref hyp : list (list Z)) (lg : list (list (list fx))) (warn : bool),
  (0 < N)%nat -> wf_src (C01.Model.c_bf c) N (S R') ref -> wf_src (C01.Model.c_bf c) N H hyp -> H <> 0%nat ->
  wf_logits (C01.Model.c_bf c) N H V lg -> eos_ok c V -> targets_ok c N V ref hyp ->
  exists C tf,
    C03.Model.optimal_completion (C03.ProofsLoss.with_excl c) N ref hyp
      = nest2 (if C01.Model.c_bf c then N else H) (if C01.Model.c_bf c then H else N) (orow C tf) /\
    (forall a b k, (a < if C01.Model.c_bf c then N else H)%nat -> (b < if C01.Model.c_bf c then H else N)%nat -> (k < C)%nat ->
                   class_ok (C01.Model.c_pad c) V (tf a b k) = true) /\
    forall st0, known3 st0 (loss_params s c w red N V ref hyp lg warn) ->
      runs_to (fun st => known3 st (ce_stage0 (if C01.Model.c_bf c then N else H) (if C01.Model.c_bf c then H else N) C V
                                      (lfn (lgv_of lg)) tf w (C01.Model.c_pad c) (VBool (C01.Model.c_bf c)) (VStr red)))
              (exec (ext03B lsm) (SSeq loss_checks loss_call) st0).
Proof.
  intros lsm s c w red N R' H V ref hyp lg warn HN Hr Hh HH Hlg Heos Htg.
  destruct c as [eos incl nrm bf ci cd cs pad excl]. unfold eos_ok in Heos.
  cbn [C01.Model.c_eos C01.Model.c_incl C01.Model.c_norm C01.Model.c_bf C01.Model.c_ins C01.Model.c_del C01.Model.c_sub C01.Model.c_pad
       C01.Model.c_excl] in *.
  set (c0 := C01.Model.mkCfg eos incl nrm bf ci cd cs pad excl) in *.
  pose (c' := C01.Model.mkCfg eos incl nrm bf ci cd cs pad true).
  destruct (oc_body_is_model s c' N R' H ref hyp warn HN Hr Hh (fun _ => HH)) as [stm Hm].
  unfold run_oc, oc_params in Hm.
  pose proof (opt_as_nest c' N R' H ref hyp HN Hr Hh) as Hnest.
  pose proof (oc_rows_excl c0 N H ref hyp HN Hh HH) as Hrows. change (C03.ProofsLoss.with_excl c0) with c' in Hrows.
  rewrite Hrows in Hnest.
  unfold targets_ok in Htg. change (C03.ProofsLoss.with_excl c0) with c' in Htg. unfold model_oc_tensor in Htg. cbn [dat] in Htg.
  change (C03.ProofsLoss.with_excl c0) with c'.
  cbn [C01.Model.c_bf C01.Model.c_pad c' c0] in *.
  pose proof (logits_tensor_tab _ N H V lg HN Hlg) as Hlt.
  pose proof (C01.Tie.mat_tensor_in _ N H hyp HN Hh) as Hht.
  pose proof (width_model c' N R' ref hyp HN Hr) as Hwd. rewrite Hrows in Hwd. cbn [C01.Model.c_bf c'] in Hwd.
  assert (Hrun : forall A B C tf, (A = if bf then N else H) -> (B = if bf then H else N) ->
            mkTn (if bf then [N; H; C03.Model.oc_width c' N ref hyp] else [H; N; C03.Model.oc_width c' N ref hyp])
                 (List.concat (List.concat (C03.Model.optimal_completion c' N ref hyp))) = mkTn [A; B; C] (tab3 A B C tf) ->
            forall st0, known3 st0 (loss_params s c0 w red N V ref hyp lg warn) ->
            runs_to (fun st => known3 st (ce_stage0 A B C V (lfn (lgv_of lg)) tf w pad (VBool bf) (VStr red)))
                    (exec (ext03B lsm) (SSeq loss_checks loss_call) st0)).
  { intros A B C tf EA EB Eoc st0 K0.
    unfold loss_params, loss_vars_gen, globals01 in K0.
    cbn [C01.Model.c_eos C01.Model.c_incl C01.Model.c_norm C01.Model.c_bf C01.Model.c_ins C01.Model.c_del C01.Model.c_sub C01.Model.c_pad c0] in K0.
    open_known3 K0.
    rewrite (xexec_seq_skip (ext03B lsm) loss_checks).
    2:{ match goal with Kl : lookup "logits" (vars _) = Some _, Kh : lookup "hyp" (vars _) = Some _ |- _ =>
          rewrite Hlt in Kl; rewrite Hht in Kh; unfold C01.TiePre.in_tensor in Kh end.
        destruct bf.
        - eapply (checks_pass lsm N H V _ _ incl eos pad); [unfold checks_stage; cbn [known3 app]; repeat split; eassumption|exact Heos].
        - eapply (checks_pass lsm H N V _ _ incl eos pad); [unfold checks_stage; cbn [known3 app]; repeat split; eassumption|exact Heos]. }
    unfold loss_call.
    assign3x ltac:(evb; unfold call_body_oc;
                   match goal with |- match ?r with _ => _ end = _ =>
                     replace r with (Ok (enc_i (model_oc_tensor c' N ref hyp)) stm) by (symmetry; exact Hm)
                   end; reflexivity).
    match goal with Kl : lookup "logits" (vars _) = Some _ |- _ => rewrite Hlt in Kl end.
    match goal with Lo : lookup "optimals" (vars _) = Some _ |- _ =>
      unfold model_oc_tensor in Lo; rewrite Hrows in Lo; cbn [C01.Model.c_bf c'] in Lo; rewrite Eoc in Lo end.
    apply runs_to_ok. unfold ce_stage0. subst A B. close_known3. }
  destruct bf.
  - rewrite Hnest in Htg. rewrite concat_nest3 in Htg.
    match type of Hnest with _ = nest3 _ _ ?C ?f => set (Cw := C) in *; set (tfw := f) in *; exists Cw, tfw end.
    split; [rewrite Hnest; apply orows_nest3|]. split.
    + intros a b k Ha Hb Hk. apply Htg.
      rewrite <- (nth_tab3 N H Cw tfw a b k 0%Z Ha Hb Hk).
      apply nth_In. rewrite length_tab3. now apply idx3_lt.
    + apply Hrun; try reflexivity. rewrite Hwd, Hnest, concat_nest3. reflexivity.
  - rewrite Hnest in Htg. rewrite concat_nest3 in Htg.
    match type of Hnest with _ = nest3 _ _ ?C ?f => set (Cw := C) in *; set (tfw := f) in *; exists Cw, tfw end.
    split; [rewrite Hnest; apply orows_nest3|]. split.
    + intros a b k Ha Hb Hk. apply Htg.
      rewrite <- (nth_tab3 H N Cw tfw a b k 0%Z Ha Hb Hk).
      apply nth_In. rewrite length_tab3. now apply idx3_lt.
    + apply Hrun; try reflexivity. rewrite Hwd, Hnest, concat_nest3. reflexivity.
Qed.

Lemma blocks_assoc : forall ext a b c d st, exec ext (SSeq a (SSeq b (SSeq c d))) st = exec ext (SSeq (SSeq a b) (SSeq c d)) st.
Proof. intros. now rewrite <- xexec_seq_assoc. Qed.

Theorem loss_blocks_is_model :
  forall (lsm : list fx -> list Q) (s : positive) (c : C01.Model.cfg) (w : option (list Q)) (red : C03.Model.reduction)
         (N R' H V : nat) (ref hyp : list (list Z)) (lg : list (list (list fx))) (warn : bool),
  (0 < N)%nat -> wf_src (C01.Model.c_bf c) N (S R') ref -> wf_src (C01.Model.c_bf c) N H hyp -> H <> 0%nat ->
  wf_logits (C01.Model.c_bf c) N H V lg -> weight_ok w V -> eos_ok c V -> targets_ok c N V ref hyp ->
  exists st', run_loss lsm loss_blocks s c w (red_str red) N V ref hyp lg warn
              = Ok (enc_x (loss_tensor (grid_shape (C01.Model.c_bf c) N H)
                             (C03.Model.hard_ocd_loss c w red N ref hyp (map (map lsm) lg)))) st'.
Proof.
  intros lsm s c w red N R' H V ref hyp lg warn HN Hr Hh HH Hlg HW Heos Htg.
  destruct (pre_run lsm s c w (red_str red) N R' H V ref hyp lg warn HN Hr Hh HH Hlg Heos Htg) as [C [tf [Hoc [Hok Hpre]]]].
  rewrite hard_ocd_loss_of, Hoc. destruct Hlg as [HL HR].
  rewrite (logp_nest2 lsm lg _ _ V HL HR).
  unfold run_loss, Interp.run. match goal with |- context [exec (ext03B lsm) _ ?st0] => set (st0' := st0) end.
  assert (K0 : known3 st0' (loss_params s c w (red_str red) N V ref hyp lg warn)).
  { unfold st0', loss_params, loss_vars_gen, globals01. cbn [known3 app]. repeat split; reflexivity. }
  assert (Hret : returns3 (enc_x (loss_tensor (grid_shape (C01.Model.c_bf c) N H)
                    (loss_of (C01.Model.c_pad c) w red (C01.Model.c_bf c) N
                       (nest2 (if C01.Model.c_bf c then N else H) (if C01.Model.c_bf c then H else N) (fun a b => lsm (lgv_of lg a b)))
                       (nest2 (if C01.Model.c_bf c then N else H) (if C01.Model.c_bf c then H else N) (orow C tf)))))
                          (exec (ext03B lsm) loss_blocks st0')).
  { unfold loss_blocks. rewrite blocks_assoc. eapply xreturns_seq; [exact (Hpre st0' K0)|].
    intros st1 K1. unfold grid_shape.
    pose proof (lgv_length lg _ _ V HL HR) as Hlv.
    destruct (C01.Model.c_bf c).
    - change N with (if true then N else H) at 3.
      apply (core_run lsm N H C V (lgv_of lg) tf w _ Hlv HW Hok); try lia. exact K1.
    - change N with (if false then H else N) at 3.
      apply (core_run lsm H N C V (lgv_of lg) tf w _ Hlv HW Hok); try lia. exact K1. }
  destruct Hret as [st' He]. rewrite He. now exists st'.
Qed.

(* an unknown reduction string: everything is computed, then RuntimeError *)
Theorem loss_raises_bad_reduction :
  forall (lsm : list fx -> list Q) (s : positive) (c : C01.Model.cfg) (w : option (list Q)) (red : string)
         (N R' H V : nat) (ref hyp : list (list Z)) (lg : list (list (list fx))) (warn : bool),
  (0 < N)%nat -> wf_src (C01.Model.c_bf c) N (S R') ref -> wf_src (C01.Model.c_bf c) N H hyp -> H <> 0%nat ->
  wf_logits (C01.Model.c_bf c) N H V lg -> weight_ok w V -> eos_ok c V -> targets_ok c N V ref hyp ->
  red <> "mean" -> red <> "sum" -> red <> "none" ->
  exists st', run_loss lsm loss_body s c w red N V ref hyp lg warn = Exc "RuntimeError" st'.
Proof.
  intros lsm s c w red N R' H V ref hyp lg warn HN Hr Hh HH Hlg HW Heos Htg N1 N2 N3.
  destruct (pre_run lsm s c w red N R' H V ref hyp lg warn HN Hr Hh HH Hlg Heos Htg) as [C [tf [Hoc [Hok Hpre]]]].
  unfold run_loss, Interp.run. rewrite loss_body_split.
  match goal with |- context [exec (ext03B lsm) _ ?st0] => set (st0' := st0) end.
  assert (K0 : known3 st0' (loss_params s c w red N V ref hyp lg warn)).
  { unfold st0', loss_params, loss_vars_gen, globals01. cbn [known3 app]. repeat split; reflexivity. }
  unfold loss_blocks. rewrite blocks_assoc.
  destruct (Hpre st0' K0) as [st1 [E1 K1]]. rewrite (xexec_seq_normal _ _ _ _ _ E1).
  assert (HW' : match w with Some wv => List.length wv = V | None => True end) by exact HW.
  destruct (ce_run lsm _ _ C V (lfn (lgv_of lg)) tf w (C01.Model.c_pad c) (VBool (C01.Model.c_bf c)) (VStr red) HW' Hok st1 K1) as [st2 [E2 K2]].
  rewrite (xexec_seq_normal _ _ _ _ _ E2).
  unfold ce_stage1 in K2.
  edestruct (red_bad lsm) as [st3 E3];
    [apply String.eqb_neq; exact N1|apply String.eqb_neq; exact N2|apply String.eqb_neq; exact N3|unfold red_stage; exact K2|].
  rewrite E3. now exists st3.
Qed.

Theorem loss_body_is_model :
  forall (lsm : list fx -> list Q) (s : positive) (c : C01.Model.cfg) (w : option (list Q)) (red : C03.Model.reduction)
         (N R' H V : nat) (ref hyp : list (list Z)) (lg : list (list (list fx))) (warn : bool),
  (0 < N)%nat -> wf_src (C01.Model.c_bf c) N (S R') ref -> wf_src (C01.Model.c_bf c) N H hyp -> H <> 0%nat ->
  wf_logits (C01.Model.c_bf c) N H V lg -> weight_ok w V -> eos_ok c V -> targets_ok c N V ref hyp ->
  exists st', run_loss lsm loss_body s c w (red_str red) N V ref hyp lg warn
              = Ok (enc_x (loss_tensor (grid_shape (C01.Model.c_bf c) N H)
                             (C03.Model.hard_ocd_loss c w red N ref hyp (map (map lsm) lg)))) st'.
Proof.
  intros lsm s c w red N R' H V ref hyp lg warn HN Hr Hh HH Hlg HW Heos Htg.
  destruct (loss_blocks_is_model lsm s c w red N R' H V ref hyp lg warn HN Hr Hh HH Hlg HW Heos Htg) as [st' He]. exists st'.
  unfold run_loss, Interp.run in *. now rewrite loss_body_split.
Qed.

(* the executable of the harness is this run (for the oracle it is given) *)
Corollary src_loss_is_model :
  forall (lsm : list fx -> list Q) (c : C01.Model.cfg) (w : option (list Q)) (red : C03.Model.reduction) (scale : Z)
         (N R' H V : nat) (ref hyp : list (list Z)) (lg : list (list (list fx))),
  (0 < N)%nat -> wf_src (C01.Model.c_bf c) N (S R') ref -> wf_src (C01.Model.c_bf c) N H hyp -> H <> 0%nat ->
  wf_logits (C01.Model.c_bf c) N H V lg -> weight_ok w V -> eos_ok c V -> targets_ok c N V ref hyp ->
  src_loss lsm loss_body c w (red_str red) scale N V ref hyp lg
  = Some (Some (loss_tensor (grid_shape (C01.Model.c_bf c) N H) (C03.Model.hard_ocd_loss c w red N ref hyp (map (map lsm) lg)))).
Proof.
  intros lsm c w red scale N R' H V ref hyp lg HN Hr Hh HH Hlg HW Heos Htg.
  destruct (loss_body_is_model lsm (Z.to_pos scale) c w red N R' H V ref hyp lg false HN Hr Hh HH Hlg HW Heos Htg) as [st' He].
  unfold src_loss, loss_vars, cost_q. unfold run_loss, loss_params, qz in He. rewrite He, dec01_enc_x. reflexivity.
Qed.

(* ---- the raise paths of the function's own guards --------------------------------------------------------------------------- *)
Section Raises.
  Variable lsm : list fx -> list Q.
  Variables (s : positive) (c : C01.Model.cfg) (w : option (list Q)) (red : string) (N H V : nat)
            (ref hyp : list (list Z)) (lg : list (list (list fx))) (warn : bool).
  Hypothesis HN : (0 < N)%nat.
  Hypothesis Hh : wf_src (C01.Model.c_bf c) N H hyp.
  Hypothesis Hlg : wf_logits (C01.Model.c_bf c) N H V lg.

  Lemma checks_known : forall st, known3 st (loss_params s c w red N V ref hyp lg warn) ->
    exists A B dl dh, known3 st (checks_stage A B V dl dh (C01.Model.c_incl c) (C01.Model.c_eos c) (C01.Model.c_pad c)).
  Proof.
    intros st K0. unfold loss_params, loss_vars_gen, globals01 in K0. open_known3 K0.
    match goal with Kl : lookup "logits" (vars _) = Some _, Kh : lookup "hyp" (vars _) = Some _ |- _ =>
      rewrite (logits_tensor_tab _ N H V lg HN Hlg) in Kl; rewrite (C01.Tie.mat_tensor_in _ N H hyp HN Hh) in Kh;
      unfold C01.TiePre.in_tensor in Kh end.
    destruct (C01.Model.c_bf c); do 4 eexists; unfold checks_stage; cbn [known3 app]; repeat split; eassumption.
  Qed.

  (* include_eos with an eos that is not a class index: "If include_eos=True, eos must be a class idx" *)
  Theorem loss_raises_eos_not_a_class : forall e, C01.Model.c_incl c = true -> C01.Model.c_eos c = Some e ->
    (e < 0 \/ Z.of_nat V <= e)%Z ->
    exists st', run_loss lsm loss_body s c w red N V ref hyp lg warn = Exc "RuntimeError" st'.
  Proof.
    intros e Hi He Hb. unfold run_loss, Interp.run. rewrite loss_body_split.
    match goal with |- context [exec (ext03B lsm) _ ?st0] => set (st0' := st0) end.
    destruct (checks_known st0') as [A [B [dl [dh K]]]].
    { unfold st0', loss_params, loss_vars_gen, globals01. cbn [known3 app]. repeat split; reflexivity. }
    rewrite Hi, He in K. unfold loss_blocks.
    rewrite (xexec_seq_exc _ _ _ _ _ _ (checks_raise_class lsm A B V dl dh _ st0' e K Hb)). now exists st0'.
  Qed.

  (* include_eos with eos = ignore_index: "If include_eos=True, eos cannot equal ignore_index" *)
  Theorem loss_raises_eos_is_ignore_index : forall e, C01.Model.c_incl c = true -> C01.Model.c_eos c = Some e ->
    (0 <= e < Z.of_nat V)%Z -> e = C01.Model.c_pad c ->
    exists st', run_loss lsm loss_body s c w red N V ref hyp lg warn = Exc "RuntimeError" st'.
  Proof.
    intros e Hi He Hr Hb. unfold run_loss, Interp.run. rewrite loss_body_split.
    match goal with |- context [exec (ext03B lsm) _ ?st0] => set (st0' := st0) end.
    destruct (checks_known st0') as [A [B [dl [dh K]]]].
    { unfold st0', loss_params, loss_vars_gen, globals01. cbn [known3 app]. repeat split; reflexivity. }
    rewrite Hi, He in K. unfold loss_blocks.
    rewrite (xexec_seq_exc _ _ _ _ _ _ (checks_raise_ign lsm A B V dl dh _ st0' e K Hr Hb)). now exists st0'.
  Qed.
End Raises.
