(* C20 - additions to Model.v needed to state the second source tie (MultiHeadedAttention,
   ConcatSoftAttention).  Definitions only.

   [mha_sizes P qs ks vs]: the four projection matrices and their optional biases have the sizes
   MultiHeadedAttention.__init__ gives them:
     WQ = Linear(query_size, num_heads * d_q)   weight (num_heads * d_q) x query_size
     WK = Linear(key_size,   num_heads * d_k)   weight (num_heads * d_k) x key_size
     WV = Linear(value_size, num_heads * d_v)   weight (num_heads * d_v) x value_size
     WC = Linear(d_v * num_heads, out_size)     weight out_size x (num_heads * d_v)
   a bias, when requested, has one entry per row of its weight.  (The counterpart of [fl_sizes] for
   the single-head score parameters.) *)
From Coq Require Import List Arith Bool ZArith QArith.
From PV Require Import C20.Model.
Import ListNotations.
Local Open Scope nat_scope.

Definition mat_sizes (W : list (list Q)) (b : option (list Q)) (rows cols : nat) : bool :=
  Nat.eqb (length W) rows && forallb (fun w => Nat.eqb (length w) cols) W
  && match b with None => true | Some bl => Nat.eqb (length bl) (length W) end.

Definition mha_sizes (P : mha_params) (qs ks vs : nat) : bool :=
  mat_sizes (WQ P) (bQ P) (num_heads P * d_q P) qs
  && mat_sizes (WK P) (bK P) (num_heads P * d_k P) ks
  && mat_sizes (WV P) (bV P) (num_heads P * d_v P) vs
  && mat_sizes (WC P) (bC P) (length (WC P)) (num_heads P * d_v P).
