#!/usr/bin/env python3
"""developer tool: the per-property table of DESIGN.md section 9.2 from the tree and the evidence files"""
import glob
import json
import os
import re

V = os.path.dirname(os.path.dirname(os.path.abspath(__file__)))
print("| id | theorems (+examples) | source-tie theorems | `_partial` | `_refuted` | axioms | Coq lines | quick cases / wall |")
print("|---|---|---|---|---|---|---|---|")
tot = 0
for i in range(1, 21):
    p = f"C{i:02d}"
    props = open(os.path.join(V, "coq", "theories", p, "Properties.v")).read()
    names = re.findall(r"^\s*(Theorem|Lemma|Example)\s+([A-Za-z0-9_']+)", props, flags=re.M)
    thms = [n for k, n in names if k != "Example"]
    exs = [n for k, n in names if k == "Example"]
    partial = [n for n in thms if n.endswith("_partial")]
    refuted = [n for n in thms if "refuted" in n]
    src = [n for n in thms if "_source_" in n]
    lines = sum(len(open(f).read().splitlines()) for f in glob.glob(os.path.join(V, "coq", "theories", p, "*.v")))
    tot += lines
    try:
        ev = json.load(open(os.path.join(V, "evidence", p + ".json")))
        cov = ev["coverage"]
        ax = sorted({a for v in cov.get("axioms_by_theorem", {}).values() for a in v})
        cases = f"{cov['evaluations']} / {round(ev['wall_s'])} s"
    except Exception:
        ax, cases = [], "?"
    print(f"| {p} | {len(thms)} (+{len(exs)}) | {len(src) or '-'} | {', '.join(partial) or '-'} | {len(refuted)} | "
          f"{', '.join(a.split('.')[-1] for a in ax) or 'none'} | {lines} | {cases} |")
shared = sum(len(open(f).read().splitlines()) for d in ("MiniPy", "MiniTorch", "Common") for f in glob.glob(os.path.join(V, "coq", "theories", d, "*.v")))
print(f"\nCoq lines: {tot} in the property directories + {shared} shared (MiniPy/MiniTorch); generated Gen/*.v not counted.")
