(* C20 — broadcasting a query against batched keys = explicitly expanding it. *)
From Coq Require Import List Arith Bool ZArith QArith Lia.
From PV Require Import C20.Model C20.Spec C20.Index C20.Proofs.
Import ListNotations.
Local Open Scope nat_scope.

(* one axis of broadcast_shapes *)
Definition bdim (x y : nat) : option nat :=
  if Nat.eqb x y then Some x else if Nat.eqb x 1 then Some y else if Nat.eqb y 1 then Some x else None.

Lemma bshape_cons x a y b :
  bshape (x :: a) (y :: b) =
  match bshape a b with
  | None => None
  | Some r => match bdim x y with Some z => Some (z :: r) | None => None end
  end.
Proof.
  cbn [bshape]. unfold bdim. destruct (bshape a b); [|reflexivity].
  destruct (Nat.eqb x y); [reflexivity|]. destruct (Nat.eqb x 1); [reflexivity|].
  destruct (Nat.eqb y 1); reflexivity.
Qed.

Lemma bdim_idem x y z : bdim x y = Some z -> bdim z y = Some z.
Proof.
  unfold bdim. destruct (Nat.eqb x y) eqn:E1.
  - intros H; injection H as <-. rewrite E1. reflexivity.
  - destruct (Nat.eqb x 1) eqn:E2.
    + intros H; injection H as <-. rewrite Nat.eqb_refl. reflexivity.
    + destruct (Nat.eqb y 1) eqn:E3; [|discriminate].
      intros H; injection H as <-. rewrite E1, E2. reflexivity.
Qed.

Lemma bdim_one_l y : bdim 1 y = Some y.
Proof.
  unfold bdim. destruct (Nat.eqb 1 y) eqn:E; [apply Nat.eqb_eq in E; subst; reflexivity|reflexivity].
Qed.

Lemma bdim_one_res x y z : bdim x y = Some z -> x = 1 -> z = y.
Proof.
  intros H ->. rewrite bdim_one_l in H. injection H as <-. reflexivity.
Qed.

Lemma bshape_idem a : forall b r, length a = length b -> bshape a b = Some r -> bshape r b = Some r.
Proof.
  induction a as [|x a IH]; intros b r Hl H.
  - destruct b; [|discriminate]. cbn in H. injection H as <-. reflexivity.
  - destruct b as [|y b]; [discriminate|]. rewrite bshape_cons in H.
    destruct (bshape a b) as [r'|] eqn:E; [|discriminate].
    destruct (bdim x y) as [z|] eqn:D; [|discriminate]. injection H as <-.
    rewrite bshape_cons, (IH b r') by (cbn in Hl; congruence).
    rewrite (bdim_idem _ _ _ D). reflexivity.
Qed.

(* replacing, in the broadcast result, the axis on which the first operand had size 1 by 1
   again and broadcasting once more gives the same result *)
Lemma bshape_absorb pe : forall a b r,
  length a = length b -> bshape a b = Some r -> nth pe a 0 = 1 -> pe < length a ->
  bshape (setp pe 1 r) b = Some r.
Proof.
  induction pe as [|pe IH]; intros a b r Hl H H1 Hp.
  - destruct a as [|x a]; [cbn in Hp; lia|]. destruct b as [|y b]; [discriminate|].
    rewrite bshape_cons in H.
    destruct (bshape a b) as [r'|] eqn:E; [|discriminate].
    destruct (bdim x y) as [z|] eqn:D; [|discriminate]. injection H as <-.
    cbn in H1. pose proof (bdim_one_res _ _ _ D H1) as ->.
    rewrite setp_0, bshape_cons.
    rewrite (bshape_idem a b r') by (cbn in Hl; congruence).
    rewrite bdim_one_l. reflexivity.
  - destruct a as [|x a]; [cbn in Hp; lia|]. destruct b as [|y b]; [discriminate|].
    rewrite bshape_cons in H.
    destruct (bshape a b) as [r'|] eqn:E; [|discriminate].
    destruct (bdim x y) as [z|] eqn:D; [|discriminate]. injection H as <-.
    rewrite setp_S, bshape_cons.
    rewrite (IH a b r') by (cbn in Hl, H1, Hp; try congruence; try lia; assumption).
    rewrite (bdim_idem _ _ _ D). reflexivity.
Qed.

Lemma ins_del_setp pe x : forall s : list nat, pe < length s -> ins pe x (del pe s) = setp pe x s.
Proof.
  induction pe as [|pe IH]; intros s H.
  - destruct s; [cbn in H; lia|]. reflexivity.
  - destruct s as [|n s]; [cbn in H; lia|]. rewrite del_S, ins_S, setp_S, IH by (cbn in H; lia).
    reflexivity.
Qed.

Lemma intob_del pe : forall a b, intob a b = true -> intob (del pe a) (del pe b) = true.
Proof.
  induction pe as [|pe IH]; intros a b H.
  - destruct a as [|x a]; [apply intob_nil|]. destruct b as [|y b]; [discriminate|].
    rewrite !del_0. cbn in H. apply andb_true_iff in H. apply H.
  - destruct a as [|x a]; [apply intob_nil|]. destruct b as [|y b]; [discriminate|].
    rewrite !del_S. cbn in H. apply andb_true_iff in H. destruct H as [H1 H2].
    cbn. rewrite H1. apply IH, H2.
Qed.

(* reading an unsqueezed tensor: drop the new axis, clamp by the original shape *)
Lemma del_clamp_ins p : forall s I, p <= length s -> del p (clamp (ins p 1 s) I) = clamp s (del p I).
Proof.
  induction p as [|p IH]; intros s I H.
  - rewrite ins_0. destruct I as [|x I]; [destruct s; reflexivity|]. cbn [clamp]. rewrite !del_0. reflexivity.
  - destruct s as [|n s]; [cbn in H; lia|]. rewrite ins_S.
    destruct I as [|x I]; [reflexivity|]. cbn [clamp]. rewrite !del_S. cbn [clamp].
    rewrite IH by (cbn in H; lia). reflexivity.
Qed.

Lemma bget_unsq {A} p (t : tensor A) I :
  p <= length (tshape t) -> bget (unsq p t) I = bget t (del p I).
Proof.
  intros H. unfold bget. rewrite unsq_shape. cbn [unsq tat].
  fold (del p (clamp (ins p 1 (tshape t)) I)). rewrite del_clamp_ins by exact H. reflexivity.
Qed.

(* the query expanded to every batch axis of the scores (all but the sequence axis) *)
Definition q_expanded (q : tensor Q) (p : nat) (es : shape) : tensor Q :=
  expand q (hd 0 (tshape q) :: del (p - 1) es).

Lemma broadcast_query_eq_expanded expf sc q k v m p qs ks out es :
  attend expf sc q k v m p qs ks = Some out ->
  bshape (tl (tshape (unsq p q))) (tl (tshape k)) = Some es ->
  attend expf sc (q_expanded q p es) k v m p qs ks = Some out.
Proof.
    intros Hatt Hes.
    destruct (attend_inv _ _ _ _ _ _ _ _ _ _ Hatt) as [es0 [ps [F Eo]]].
    assert (es0 = es) as -> by (pose proof (af_es _ _ _ _ _ _ _ F) as E; rewrite Hes in E; congruence).
    pose proof (af_p _ _ _ _ _ _ _ F) as Hp1. pose proof (af_pk _ _ _ _ _ _ _ F) as Hpk.
    pose proof (af_qrank _ _ _ _ _ _ _ F) as Hqr.
    pose proof (f_es_len _ _ _ _ _ _ _ F) as Hesl. pose proof (f_pe_es _ _ _ _ _ _ _ F) as Hpe.
    destruct p as [|pe]; [lia|]. replace (S pe - 1) with pe in * by lia.
    destruct (tshape q) as [|f qs'] eqn:Eq; [cbn in Hqr; lia|]. cbn in Hqr.
    assert (Hpq : pe <= length qs') by lia.
    (* shapes *)
    assert (Hsq : tshape (q_expanded q (S pe) es) = f :: del pe es).
    { unfold q_expanded. rewrite Eq. replace (S pe - 1) with pe by lia. reflexivity. }
    assert (Htl : tl (tshape (unsq (S pe) (q_expanded q (S pe) es))) = setp pe 1 es).
    { rewrite unsq_shape, Hsq, ins_S. cbn [tl]. apply ins_del_setp, Hpe. }
    assert (Htl0 : tl (tshape (unsq (S pe) q)) = ins pe 1 qs').
    { rewrite unsq_shape, Eq, ins_S. reflexivity. }
    assert (Hes' : bshape (tl (tshape (unsq (S pe) (q_expanded q (S pe) es)))) (tl (tshape k)) = Some es).
    { rewrite Htl. rewrite Htl0 in Hes. apply (bshape_absorb pe (ins pe 1 qs')).
      - rewrite ins_shape_length. destruct (tshape k); cbn in *; lia.
      - exact Hes.
      - apply nth_ins, Hpq.
      - rewrite ins_shape_length. lia. }
    (* reads of the query rows agree *)
    assert (Hinto : intob (f :: qs') (f :: del pe es) = true).
    { cbn. rewrite Nat.eqb_refl. cbn.
      pose proof (f_into_q _ _ _ _ _ _ _ F) as Hi. rewrite Htl0 in Hi.
      apply (intob_del pe) in Hi. rewrite del_ins in Hi by exact Hpq. exact Hi. }
    assert (Hrow : forall i, brow (unsq (S pe) (q_expanded q (S pe) es)) i = brow (unsq (S pe) q) i).
    { intros i. unfold brow. rewrite !unsq_shape, Hsq, Eq, !ins_S. cbn [hd].
      apply map_ext. intros c.
      rewrite !bget_unsq by (rewrite ?Hsq, ?Eq; cbn [length]; rewrite ?del_length by exact Hpe; lia).
      unfold q_expanded, expand. unfold bget at 1. cbn [tat tshape].
      rewrite Eq. replace (S pe - 1) with pe by lia. cbn [hd].
      unfold bget. rewrite Eq. rewrite clamp_into by exact Hinto. reflexivity. }
    assert (Hem : forall i, em_at sc (q_expanded q (S pe) es) k m (S pe) i = em_at sc q k m (S pe) i).
    { intros i. unfold em_at, e_at, qu. rewrite Hrow. reflexivity. }
    (* unfold the call *)
    rewrite Eo. unfold attend.
    assert (Hleg : legalb (q_expanded q (S pe) es) k v (S pe) qs ks = legalb q k v (S pe) qs ks).
    { unfold legalb. rewrite Hsq, Eq. cbn [length hd].
      rewrite del_length by exact Hpe. rewrite Hesl.
      replace (S (S (length (tshape k) - 1 - 1))) with (length (tshape k)) by lia.
      replace (S (S (length qs'))) with (length (tshape k)) by lia. reflexivity. }
    assert (Hl : legalb q k v (S pe) qs ks = true).
    { unfold attend in Hatt. destruct (legalb q k v (S pe) qs ks); [reflexivity|discriminate]. }
    rewrite Hleg, Hl. unfold qu. rewrite Hes', (af_mask _ _ _ _ _ _ _ F), (af_ps _ _ _ _ _ _ _ F).
    cbv zeta.
    assert (Het : memo None (mkT es (em_at sc (q_expanded q (S pe) es) k m (S pe)))
                  = memo None (mkT es (em_at sc q k m (S pe))))
      by (apply memo_ext; intros i _; apply Hem).
    rewrite Het. reflexivity.
Qed.
