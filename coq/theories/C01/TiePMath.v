(* C01, prefix tie - the arithmetic, free of the interpreter: TieMath's facts with `exclude_last` as a parameter, the rows of
   the model's table as an iteration, and the value of one entry of Model.pair_prefix as the float expression the
   interpreted source leaves in `prefix_ers` (row 0 = ref_lens * del_cost, row j = gather of the row after j steps, then
   mult, the normalisation with its empty-reference convention, the padding past each hypothesis length). *)
From Coq Require Import ZArith QArith List Bool Arith Lia ZifyBool ZifyNat.
From PV Require Import MiniTorch.Ops MiniTorch.Lemmas MiniTorch.OpsC07 MiniTorch.LemmasC07 MiniTorch.OpsC01 MiniTorch.LemmasC01.
From PV Require Import C01.TieMath C01.TieWhole.
From PV Require C01.Obs C01.Model C01.Proofs.
Import ListNotations.
Local Open Scope Z_scope.

(* exclude_last only changes the freezing test: hyp_idx < hyp_lens instead of hyp_idx - 1 < hyp_lens *)
Lemma step_row_excl : forall ci cd cs r h hlen k last,
  Model.step_row ci cd cs r h hlen true k last =
  if (k <? hlen)%nat then Model.step_row ci cd cs r h hlen false k last else last.
Proof.
  intros. unfold Model.step_row. cbv zeta. rewrite Nat.sub_0_r.
  destruct (k <? hlen)%nat eqn:E; [|reflexivity].
  replace (k - 1 <? hlen)%nat with true by lia. reflexivity.
Qed.

Section StepX.
  Variables (ci cd cs : Z) (R H : nat).
  Variables (rcol : nat -> Z) (hcol : nat -> Z) (lcol : nat -> Z) (hlen k : nat).
  Hypothesis Hk : (1 <= k <= H)%nat.

  Lemma step_row_length_x : forall excl : bool,
    length (Model.step_row ci cd cs (map rcol (seq 0 R)) (map hcol (seq 0 H)) hlen excl k (map lcol (seq 0 (S R)))) = S R.
  Proof.
    intros [|].
    - rewrite step_row_excl. destruct (k <? hlen)%nat; [now apply step_row_length|now rewrite map_length, seq_length].
    - now apply step_row_length.
  Qed.

  (* the float expression the interpreted loop body leaves at entry i, either setting of exclude_last *)
  Lemma step_entry_src_x : forall (excl : bool) s i, (i < S R)%nat ->
    (if (Z.of_nat k - (if excl then 0 else 1) <? Z.of_nat hlen)%Z
     then fmin_list (map (fun j =>
            fadd (ofx s (Model.del_entry cd i j))
              match j with
              | O => fadd (zf s (lcol 0%nat)) (fmul (Fq (qz s ci)) (b2f (Z.of_nat hlen >=? Z.of_nat k)%Z))
              | S j' => fmin (fadd (zf s (lcol (S j'))) (fmul (Fq (qz s ci)) (b2f (Z.of_nat hlen >=? Z.of_nat k)%Z)))
                             (fadd (zf s (lcol j')) (fmul (Fq (qz s cs)) (b2f (negb (rcol j' =? hcol (k - 1)%nat)%Z))))
              end) (seq 0 (S R)))
     else zf s (lcol i))
    = zf s (nth i (Model.step_row ci cd cs (map rcol (seq 0 R)) (map hcol (seq 0 H)) hlen excl k (map lcol (seq 0 (S R)))) 0).
  Proof.
    intros excl s i Hi. pose proof (step_entry_src ci cd cs R H rcol hcol lcol hlen k Hk s i Hi) as P.
    destruct excl.
    - rewrite step_row_excl.
      replace (Z.of_nat k - 0 <? Z.of_nat hlen)%Z with (k <? hlen)%nat by lia.
      destruct (k <? hlen)%nat eqn:E.
      + replace (Z.of_nat (k - 1) <? Z.of_nat hlen)%Z with true in P by lia. exact P.
      + rewrite Proofs.nth_map_seq by exact Hi. reflexivity.
    - replace (Z.of_nat k - 1)%Z with (Z.of_nat (k - 1)) by lia. exact P.
  Qed.
End StepX.

(* ---- the rows of the model as an iteration, either setting of exclude_last ----------------------------------------- *)
Fixpoint iter_rows_x (ci cd cs : Z) (r h : list Z) (hlen : nat) (excl : bool) (fuel k : nat) (last : list Z) : list Z :=
  match fuel with
  | O => last
  | S f => iter_rows_x ci cd cs r h hlen excl f (S k) (Model.step_row ci cd cs r h hlen excl k last)
  end.

Lemma rows_loop_nth_x : forall ci cd cs r h hlen excl fuel k last j, (j < fuel)%nat ->
  nth j (Model.rows_loop ci cd cs r h hlen excl fuel k last) [] = iter_rows_x ci cd cs r h hlen excl (S j) k last.
Proof.
  intros ci cd cs r h hlen excl fuel. induction fuel as [|f IH]; intros k last j Hj; [lia|].
  cbn [Model.rows_loop]. destruct j as [|j]; [reflexivity|].
  cbn [nth]. rewrite IH by lia. reflexivity.
Qed.

Lemma all_rows_nth_x : forall ci cd cs r h hlen excl steps j, (j <= steps)%nat ->
  nth j (Model.all_rows ci cd cs r h hlen excl steps) [] = iter_rows_x ci cd cs r h hlen excl j 1 (Model.row0 cd r).
Proof.
  intros. unfold Model.all_rows. destruct j as [|j]; [reflexivity|]. cbn [nth]. apply rows_loop_nth_x. lia.
Qed.
