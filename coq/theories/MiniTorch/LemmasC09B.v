(* MiniTorch, unit C09BSrc — algebra of the operations of OpsC09B on tabulated tensors (no axioms). *)
From Coq Require Import List ZArith Bool Arith Lia String ZifyBool ZifyNat.
From PV Require Import MiniPy.Syntax MiniTorch.Ops MiniTorch.OpsC09 MiniTorch.LemmasC09 MiniTorch.OpsC09B.
Import ListNotations.
Local Open Scope nat_scope.

Lemma neg_tab1 s n a : neg (mkTn s (tab1 n a)) = mkTn s (tab1 n (fun i => (- a i)%Z)).
Proof. unfold neg. cbn [shp dat]. now rewrite map_tab1. Qed.

Lemma clamp_min_tab1 s n a c : clamp_min (mkTn s (tab1 n a)) c = mkTn s (tab1 n (fun i => Z.max c (a i))).
Proof. unfold clamp_min. cbn [shp dat]. now rewrite map_tab1. Qed.

Lemma masked_fill_tab1 n a b v :
  masked_fill (mkTn [n] (tab1 n a)) (mkTn [n] (tab1 n b)) v
  = Some (mkTn [n] (tab1 n (fun i => if b i then v else a i))).
Proof. unfold masked_fill. cbn [shp dat]. now rewrite nats_eqb_refl, zipw_tab1. Qed.

Lemma expand1_full {X} (d c : X) n : expand1 d (full [1] c) n = Some (mkTn [n] (tab1 n (fun _ => c))).
Proof. reflexivity. Qed.

Lemma select_last2_tab2 {X} (d : X) n m f c :
  c < m -> select_last2 d (mkTn [n; m] (tab2 n m f)) c = Some (mkTn [n] (tab1 n (fun i => f i c))).
Proof.
  intros H. unfold select_last2. cbn [shp dat]. replace (c <? m) with true by lia. f_equal. f_equal.
  apply tab1_ext. intros i Hi. now apply at2_tab2.
Qed.

Lemma xdim_ok_n1 n : xdim_ok 1 n = true.
Proof. unfold xdim_ok. cbn. apply orb_true_r. Qed.

(* equal 3-dimensional shapes *)
Lemma band_bc_same3 n m k f g :
  band_bc (mkTn [n; m; k] (tab3 n m k f)) (mkTn [n; m; k] (tab3 n m k g))
  = Some (mkTn [n; m; k] (tab3 n m k (fun i j l => f i j l && g i j l))).
Proof.
  unfold band_bc. cbn [shp dat]. rewrite Nat.eqb_refl, !xdim_ok_refl. cbn [andb]. f_equal. f_equal.
  apply tab3_ext. intros i j l Hi Hj Hl. rewrite !xidx_lt by assumption. now rewrite !at3_tab3 by assumption.
Qed.

(* (n, m, k) & (n, 1, 1) *)
Lemma band_bc_n11 n m k f g :
  band_bc (mkTn [n; m; k] (tab3 n m k f)) (mkTn [n; 1; 1] (tab1 n g))
  = Some (mkTn [n; m; k] (tab3 n m k (fun i j l => f i j l && g i))).
Proof.
  unfold band_bc. cbn [shp dat]. rewrite Nat.eqb_refl, !xdim_ok_n1. cbn [andb]. f_equal. f_equal.
  apply tab3_ext. intros i j l Hi Hj Hl. change (xidx 1 j) with 0. change (xidx 1 l) with 0.
  now rewrite at3_tab3, at3_tab1_n11 by assumption.
Qed.

(* equal 2-dimensional shapes: OpsC09.band *)
Lemma zipw_tab2' {X Y W} (f : X -> Y -> W) n m a b :
  zipw f (tab2 n m a) (tab2 n m b) = tab2 n m (fun i j => f (a i j) (b i j)).
Proof. apply zipw_tab2. Qed.

Lemma band_bc_same2 n m f g :
  band_bc (mkTn [n; m] (tab2 n m f)) (mkTn [n; m] (tab2 n m g))
  = Some (mkTn [n; m] (tab2 n m (fun i j => f i j && g i j))).
Proof. unfold band_bc, band. cbn [shp dat]. now rewrite nats_eqb_refl, zipw_tab2. Qed.

(* number of true entries, as the integer torch returns *)
Definition countZ (m : nat) (f : nat -> bool) : Z :=
  fold_right Z.add 0%Z (map (fun j => if f j then 1%Z else 0%Z) (seq 0 m)).

Lemma sum1_bool_tab2 n m f :
  sum1_bool (mkTn [n; m] (tab2 n m f)) = Some (mkTn [n] (tab1 n (fun i => countZ m (f i)))).
Proof.
  unfold sum1_bool. cbn [shp dat]. f_equal. f_equal. apply tab1_ext. intros i Hi. unfold countZ. f_equal.
  apply map_ext_in. intros j Hj. apply in_seq in Hj. rewrite at2_tab2 by lia. reflexivity.
Qed.

Lemma transpose01_tab2 {X} (d : X) a b f :
  transpose01 d (mkTn [a; b] (tab2 a b f)) = Some (mkTn [b; a] (tab2 b a (fun i j => f j i))).
Proof.
  unfold transpose01. cbn [shp dat]. f_equal. f_equal. apply tab2_ext. intros i j Hi Hj. now apply at2_tab2.
Qed.

Lemma transpose01_tab3 {X} (d : X) a b c f :
  transpose01 d (mkTn [a; b; c] (tab3 a b c f)) = Some (mkTn [b; a; c] (tab3 b a c (fun i j l => f j i l))).
Proof.
  unfold transpose01. cbn [shp dat]. f_equal. f_equal. apply tab3_ext. intros i j l Hi Hj Hl. now apply at3_tab3.
Qed.

Lemma full_like_3 {X} n m k (d : list X) (v : X) :
  full_like (mkTn [n; m; k] d) v = mkTn [n; m; k] (tab3 n m k (fun _ _ _ => v)).
Proof. unfold full_like. cbn [shp]. apply full_3. Qed.

Lemma ew2_scalar {X Y W} (f : X -> Y -> W) dx dy a b :
  ew2 f dx dy (mkTn [] [a]) (mkTn [] [b]) = Some (mkTn [] [f a b]).
Proof. reflexivity. Qed.

Lemma view_nm1 {X} n m (d : list X) : view (mkTn [n; m] d) [n; m; 1] = Some (mkTn [n; m; 1] d).
Proof.
  unfold view. cbn [shp dat numel]. replace (n * (m * 1) =? n * (m * (1 * 1))) with true; [reflexivity|].
  symmetry. apply Nat.eqb_eq. lia.
Qed.

Lemma ew_s_tab1' {X Y W} (f : X -> Y -> W) s n a c : ew_s f (mkTn s (tab1 n a)) c = mkTn s (tab1 n (fun i => f (a i) c)).
Proof. apply ew_s_tab1. Qed.

Lemma unsqueeze_2_m1 {X} n m (d : list X) : unsqueeze (mkTn [n; m] d) (-1) = Some (mkTn [n; m; 1] d).
Proof. reflexivity. Qed.

(* a flat list of the right length is the tabulation of its own entries *)
Lemma tab3_of_list {X} (d : X) n m k (l : list X) :
  List.length l = (n * (m * k))%nat -> l = tab3 n m k (fun i j c => at3 d m k l i j c).
Proof.
  intros H. apply (nth_ext _ _ d d); [now rewrite tab3_length|]. intros p Hp. rewrite H in Hp.
  assert (Hk : (k <> 0)%nat) by (intros ->; nia). assert (Hm : (m <> 0)%nat) by (intros ->; nia).
  set (c := (p mod k)%nat). set (q := (p / k)%nat). set (j := (q mod m)%nat). set (i := (q / m)%nat).
  assert (Hc : (c < k)%nat) by (apply Nat.mod_upper_bound; assumption).
  assert (Hj : (j < m)%nat) by (apply Nat.mod_upper_bound; assumption).
  assert (Ep : p = ((i * m + j) * k + c)%nat).
  { subst c j i. pose proof (Nat.div_mod p k Hk). pose proof (Nat.div_mod q m Hm). subst q. nia. }
  assert (Hi : (i < n)%nat).
  { destruct (Nat.lt_ge_cases i n) as [|Hge]; [assumption|]. exfalso. clearbody i j c q.
    assert (n * m <= i * m)%nat by nia. assert (n * m * k <= i * m * k)%nat by nia. nia. }
  rewrite Ep at 2. change (nth ((i * m + j) * k + c) (tab3 n m k (fun i j c => at3 d m k l i j c)) d)
    with (at3 d m k (tab3 n m k (fun i j c => at3 d m k l i j c)) i j c).
  rewrite at3_tab3 by assumption. unfold at3. now rewrite <- Ep.
Qed.

Lemma mscatter_length_le {X} (m : list bool) (dst src l : list X) :
  mscatter m dst src = Some l -> List.length l = Nat.min (List.length m) (List.length dst).
Proof.
  revert dst src l. induction m as [|b m IH]; intros dst src l E; [cbn in E; injection E as <-; reflexivity|].
  destruct dst as [|c dst]; [cbn in E; injection E as <-; reflexivity|]. cbn in E. destruct b.
  - destruct src as [|s src]; [discriminate|].
    destruct (mscatter m dst src) as [l'|] eqn:E'; [|discriminate]. injection E as <-. cbn. now rewrite (IH _ _ _ E').
  - destruct (mscatter m dst src) as [l'|] eqn:E'; [|discriminate]. injection E as <-. cbn. now rewrite (IH _ _ _ E').
Qed.

