From PV Require Import C16.Model C16.Spec.
