(* C16 — crash safety of the epoch update
   (src/pydrobert/torch/training.py: TrainingStateController.update_for_epoch,
    save_model_and_optimizer_with_info, save_info_to_hist, _clean_up_files,
    update_cache, get_last_epoch, get_best_epoch, load_model_and_optimizer_for_epoch).

   Executable model of what the code does: the exact sequence of file-system
   mutating calls of one update in each branch, a toy file system, a crash =
   "only the first k calls happened", a restart = a new controller reading the
   CSV.  No proofs in this file.

   What is data here (supplied by the environment / the harness):
     - the metrics of each epoch (train, val), integers on a grid where the
       "{:.4e}" formatting that get_best_epoch applies is the identity;
     - the parameter value [v] held by model and optimizer at an update call
       (one integer per call; the harness writes it into the model weight and
       into the optimizer's param group AND passes it as a user entry "tag",
       so the CSV row written by a call carries the value that call tried to
       save: column [r_tag]);
     - the order in which Python iterates the [clean_up] set (oracle [ro]).
   Not modelled: the early-stopping / learning-rate columns of a row (C15),
   os.makedirs, torn writes (os.replace and the CSV append are atomic). *)
From Coq Require Import List Arith Bool ZArith.
Import ListNotations.

(* ---------- paths and the toy file system ------------------------------ *)

Inductive kind := KM | KO.      (* model / optimizer state file *)

(* [Ckpt k (Some e)]: saved_*_fmt contains {epoch}; [Ckpt k None]: it does not.
   [Tmp c k]: the NamedTemporaryFile made by update call number c for kind k. *)
Inductive path := Ckpt (k : kind) (e : option nat) | Tmp (c : nat) (k : kind).

Definition kind_eqb (a b : kind) : bool :=
  match a, b with KM, KM => true | KO, KO => true | _, _ => false end.

Definition oe_eqb (a b : option nat) : bool :=
  match a, b with
  | None, None => true
  | Some x, Some y => Nat.eqb x y
  | _, _ => false
  end.

Definition path_eqb (p q : path) : bool :=
  match p, q with
  | Ckpt k e, Ckpt k' e' => kind_eqb k k' && oe_eqb e e'
  | Tmp c k, Tmp c' k' => Nat.eqb c c' && kind_eqb k k'
  | _, _ => false
  end.

Definition fsmap := list (path * Z).

Fixpoint fs_get (p : path) (fs : fsmap) : option Z :=
  match fs with
  | [] => None
  | (q, v) :: t => if path_eqb q p then Some v else fs_get p t
  end.

Fixpoint fs_del (p : path) (fs : fsmap) : fsmap :=
  match fs with
  | [] => []
  | (q, v) :: t => if path_eqb q p then fs_del p t else (q, v) :: fs_del p t
  end.

Definition fs_set (p : path) (v : Z) (fs : fsmap) : fsmap := (p, v) :: fs_del p fs.

Definition exists_b (fs : fsmap) (p : path) : bool :=
  match fs_get p fs with Some _ => true | None => false end.

Definition mem (p : path) (l : list path) : bool := existsb (path_eqb p) l.

Fixpoint dedup (l : list path) : list path :=
  match l with
  | [] => []
  | p :: t => if mem p t then dedup t else p :: dedup t
  end.

(* ---------- history rows, the CSV, the controller's cache --------------- *)

Record row := mkRow { r_epoch : nat; r_train : Z; r_val : Z; r_tag : Z }.

Record disk := mkDisk { files : fsmap; csv : list row }.

Definition empty_disk : disk := mkDisk [] [].

(* cache_hist is an insertion-ordered dict keyed by epoch (key 0 = the dummy
   entry with infinite metrics, kept implicit here). *)
Definition cache := list row.

Fixpoint cache_set (r : row) (c : cache) : cache :=
  match c with
  | [] => [r]
  | x :: t => if Nat.eqb (r_epoch x) (r_epoch r) then r :: t else x :: cache_set r t
  end.

(* update_cache: DictReader over the CSV *)
Definition read_cache (rows : list row) : cache :=
  fold_left (fun c r => cache_set r c) rows [].

(* get_last_epoch: max(self.cache_hist) *)
Definition last_epoch (c : cache) : nat :=
  fold_left (fun m r => Nat.max m (r_epoch r)) c 0.

Definition met (best_is_train : bool) (r : row) : Z :=
  if best_is_train then r_train r else r_val r.

(* "cur < min_met" with min_met = +inf represented by None *)
Definition lt_inf (x : Z) (m : option Z) : bool :=
  match m with None => true | Some y => Z.ltb x y end.

Definition best_step (bt : bool) (st : nat * option Z) (r : row) : nat * option Z :=
  if lt_inf (met bt r) (snd st) then (r_epoch r, Some (met bt r)) else st.

(* get_best_epoch: first strict minimum in dict order, 0 if no row *)
Definition best_epoch (bt : bool) (c : cache) : nat :=
  fst (fold_left (best_step bt) c (0, None)).

(* ---------- file-system operations -------------------------------------- *)

Inductive fsop :=
| MkTmp (t : path)              (* tempfile.NamedTemporaryFile(dir=..., delete=False) *)
| Fill (t : path) (v : Z)       (* torch.save(state_dict, f) *)
| Replace (src dst : path)      (* os.replace *)
| Append (r : row)              (* open(csv, "a"); writerow *)
| Remove (p : path).            (* os.remove *)

Definition empty_content : Z := (-1)%Z.

Definition apply_op (d : disk) (o : fsop) : disk :=
  match o with
  | MkTmp t => mkDisk (fs_set t empty_content (files d)) (csv d)
  | Fill t v => mkDisk (fs_set t v (files d)) (csv d)
  | Replace s t =>
      match fs_get s (files d) with
      | Some v => mkDisk (fs_set t v (fs_del s (files d))) (csv d)
      | None => d
      end
  | Append r => mkDisk (files d) (csv d ++ [r])
  | Remove p => mkDisk (fs_del p (files d)) (csv d)
  end.

Definition apply_ops (d : disk) (ops : list fsop) : disk := fold_left apply_op ops d.

(* ---------- one call of update_for_epoch -------------------------------- *)

Record params := mkParams
  { klb : bool;     (* keep_last_and_best_only *)
    ep_m : bool;    (* saved_model_fmt contains {epoch} *)
    ep_o : bool;    (* saved_optimizer_fmt contains {epoch} *)
    bt : bool }.    (* best_is_train *)

Definition has_ep (P : params) (k : kind) : bool :=
  match k with KM => ep_m P | KO => ep_o P end.

(* get_model_path_with_info / get_optimizer_path_with_info *)
Definition pth (P : params) (k : kind) (e : nat) : path :=
  Ckpt k (if has_ep P k then Some e else None).

(* save_model_and_optimizer_with_info *)
Definition save_ops (P : params) (cn e : nat) (v : Z) : list fsop :=
  [ MkTmp (Tmp cn KM); Fill (Tmp cn KM) v;
    MkTmp (Tmp cn KO); Fill (Tmp cn KO) v;
    Replace (Tmp cn KM) (pth P KM e); Replace (Tmp cn KO) (pth P KO e) ].

(* the order in which the set [clean_up] is iterated: first what the oracle
   lists (restricted to the set), then the rest; always the same elements *)
Definition order_by (ro l : list path) : list path :=
  filter (fun p => mem p l) (dedup ro) ++ filter (fun p => negb (mem p ro)) l.

(* None = ValueError ("would overwrite best checkpoint"), raised before any
   file operation.  Some (ops, r): the file-system calls actually made, in
   order, and the row that is written to the CSV / put into cache_hist. *)
Definition update_ops (P : params) (d : disk) (c : cache) (tr va : Z)
  (cn : nat) (v : Z) (ro : list path) : option (list fsop * row) :=
  let e := S (last_epoch c) in
  let r := mkRow e tr va v in
  let last_best := best_epoch (bt P) c in
  let m := pth P KM e in
  let o := pth P KO e in
  let sv := save_ops P cn e v in
  if klb P then
    let cur_best := best_epoch (bt P) (cache_set r c) in
    if negb (Nat.eqb cur_best e) &&
       (path_eqb m (pth P KM cur_best) || path_eqb o (pth P KO cur_best))
    then None
    else if Nat.eqb cur_best (e - 1) then Some (sv ++ [Append r], r)
    else
      let lm := pth P KM (e - 1) in
      let lo := pth P KO (e - 1) in
      let lbm := pth P KM last_best in
      let lbo := pth P KO last_best in
      let info_first := mem m [lm; lbm; lo; lbo] || mem o [lm; lbm; lo; lbo] in
      let cl0 := dedup ([lm; lo] ++ if Nat.eqb last_best cur_best then [] else [lbm; lbo]) in
      let cl := filter (fun p => negb (path_eqb p m || path_eqb p o)) cl0 in
      let pre := if info_first then [Append r] else [] in
      let post := if info_first then [] else [Append r] in
      let d1 := apply_ops d (pre ++ sv ++ post) in
      (* _clean_up_files: os.path.exists is checked before each os.remove *)
      let cle := filter (exists_b (files d1)) cl in
      Some (pre ++ sv ++ post ++ map Remove (order_by ro cle), r)
  else
    let info_first := exists_b (files d) m || exists_b (files d) o in
    let pre := if info_first then [Append r] else [] in
    let post := if info_first then [] else [Append r] in
    Some (pre ++ sv ++ post, r).

(* ---------- the training loop, crashes, restarts ------------------------ *)

Record env := mkEnv
  { ms : list (Z * Z);          (* (train, val) of epoch 1, 2, ... *)
    pv : nat -> Z;              (* parameter value at update call number cn *)
    ro : nat -> list path }.    (* set-iteration oracle of call number cn *)

Inductive outcome := Done | Crashed | Raised.

(* FS calls as the harness can log them *)
Inductive tcode := TMk | TFill | TRep (dst : path) | TApp | TRem (p : path).

Definition code_of (o : fsop) : tcode :=
  match o with
  | MkTmp _ => TMk | Fill _ _ => TFill | Replace _ t => TRep t
  | Append _ => TApp | Remove p => TRem p
  end.

Definition is_tmp (p : path) : bool := match p with Tmp _ _ => true | _ => false end.

Definition ckpts (d : disk) : list path :=
  filter (fun p => negb (is_tmp p)) (map fst (files d)).
Definition ntmp (d : disk) : nat := length (filter is_tmp (map fst (files d))).

(* per update call: the calls made, and (if it completed) the directory after *)
Definition logent := (list tcode * option (list path * nat))%type.

(* the loop "for each remaining epoch: train; update_for_epoch" run by one
   process; [rest] = metrics of the epochs still to do; [budget] = number of
   file-system calls after which the process dies (None = never). *)
Fixpoint seg (P : params) (E : env) (rest : list (Z * Z)) (d : disk) (c : cache)
  (cn : nat) (budget : option nat) : disk * nat * outcome * list logent :=
  match rest with
  | [] => (d, cn, Done, [])
  | (tr, va) :: rest' =>
      match update_ops P d c tr va cn (pv E cn) (ro E cn) with
      | None => (d, cn, Raised, [])
      | Some (ops, r) =>
          let crash_now := match budget with Some b => Nat.ltb b (length ops) | None => false end in
          if crash_now then
            let ops' := firstn (match budget with Some b => b | None => 0 end) ops in
            (apply_ops d ops', S cn, Crashed, [(map code_of ops', None)])
          else
            let d' := apply_ops d ops in
            let budget' := match budget with Some b => Some (b - length ops) | None => None end in
            let '(d'', cn', oc, lg) := seg P E rest' d' (cache_set r c) (S cn) budget' in
            (d'', cn', oc, (map code_of ops, Some (ckpts d', ntmp d')) :: lg)
      end
  end.

(* what a controller started on the files sees *)
Record obs := mkObs
  { o_outcome : outcome;
    o_hist : list row;
    o_last : nat;
    o_best : nat;
    o_loads : list (nat * (option Z * option Z));   (* every recorded epoch 1..last *)
    o_ckpts : list path;
    o_ntmp : nat;
    o_log : list logent }.

Definition load (P : params) (d : disk) (e : nat) : option Z * option Z :=
  (fs_get (pth P KM e) (files d), fs_get (pth P KO e) (files d)).

Definition observe (P : params) (d : disk) (oc : outcome) (lg : list logent) : obs :=
  let c := read_cache (csv d) in
  mkObs oc (csv d) (last_epoch c) (best_epoch (bt P) c)
        (map (fun e => (e, load P d e)) (seq 1 (last_epoch c)))
        (ckpts d) (ntmp d) lg.

(* a process started on [d] : new controller, continue after the last epoch *)
Definition start (P : params) (E : env) (d : disk) (cn : nat) (budget : option nat) :=
  let c := read_cache (csv d) in
  seg P E (skipn (last_epoch c) (ms E)) d c cn budget.

(* [crashes] = for each successive process the number of FS calls it survives;
   after the list is exhausted a last process runs to the end. *)
Fixpoint run_schedule (P : params) (E : env) (d : disk) (cn : nat) (crashes : list nat)
  : list obs :=
  match crashes with
  | [] => let '(d', _, oc, lg) := start P E d cn None in [observe P d' oc lg]
  | b :: more =>
      let '(d', cn', oc, lg) := start P E d cn (Some b) in
      observe P d' oc lg ::
      match oc with Crashed => run_schedule P E d' cn' more | _ => [] end
  end.

(* ---------- correspondence entry point ---------------------------------- *)

Definition oz_eqb (a b : option Z) : bool :=
  match a, b with None, None => true | Some x, Some y => Z.eqb x y | _, _ => false end.

Definition row_eqb (a b : row) : bool :=
  Nat.eqb (r_epoch a) (r_epoch b) && Z.eqb (r_train a) (r_train b) &&
  Z.eqb (r_val a) (r_val b) && Z.eqb (r_tag a) (r_tag b).

Fixpoint list_eqb {A} (eqb : A -> A -> bool) (a b : list A) : bool :=
  match a, b with
  | [], [] => true
  | x :: s, y :: t => eqb x y && list_eqb eqb s t
  | _, _ => false
  end.

Definition incl_b (a b : list path) : bool := forallb (fun p => mem p b) a.
Definition set_eqb (a b : list path) : bool :=
  incl_b a b && incl_b b a && Nat.eqb (length a) (length b).

Definition outcome_eqb (a b : outcome) : bool :=
  match a, b with Done, Done => true | Crashed, Crashed => true | Raised, Raised => true | _, _ => false end.

Definition tcode_eqb (a b : tcode) : bool :=
  match a, b with
  | TMk, TMk => true | TFill, TFill => true | TApp, TApp => true
  | TRep p, TRep q => path_eqb p q | TRem p, TRem q => path_eqb p q
  | _, _ => false
  end.

Definition logent_eqb (a b : logent) : bool :=
  list_eqb tcode_eqb (fst a) (fst b) &&
  match snd a, snd b with
  | None, None => true
  | Some (l1, n1), Some (l2, n2) => set_eqb l1 l2 && Nat.eqb n1 n2
  | _, _ => false
  end.

Definition load_eqb (a b : nat * (option Z * option Z)) : bool :=
  Nat.eqb (fst a) (fst b) && oz_eqb (fst (snd a)) (fst (snd b)) && oz_eqb (snd (snd a)) (snd (snd b)).

Definition obs_eqb (a b : obs) : bool :=
  outcome_eqb (o_outcome a) (o_outcome b) &&
  list_eqb row_eqb (o_hist a) (o_hist b) &&
  Nat.eqb (o_last a) (o_last b) && Nat.eqb (o_best a) (o_best b) &&
  list_eqb load_eqb (o_loads a) (o_loads b) &&
  set_eqb (o_ckpts a) (o_ckpts b) && Nat.eqb (o_ntmp a) (o_ntmp b) &&
  list_eqb logent_eqb (o_log a) (o_log b).

(* oracle from the harness: removal orders observed, per update call number *)
Definition ro_of (l : list (list path)) : nat -> list path := fun cn => nth cn l [].

(* the harness numbers the calls 1, 2, ... and uses that number as the value *)
Definition pv_count : nat -> Z := fun cn => Z.of_nat (S cn).

Definition run (P : params) (metrics : list (Z * Z)) (ros : list (list path))
  (crashes : list nat) : list obs :=
  run_schedule P (mkEnv metrics pv_count (ro_of ros)) empty_disk 0 crashes.

Definition check (P : params) (metrics : list (Z * Z)) (ros : list (list path))
  (crashes : list nat) (impl : list obs) : bool :=
  list_eqb obs_eqb (run P metrics ros crashes) impl.

(* ---------- crashes as a relation (used to state the theorems) ------------ *)

(* the next update a freshly started controller would make on disk [d]:
   None = nothing left to do, Some None = ValueError, Some (Some (ops, row)) *)
Definition attempt (P : params) (E : env) (d : disk) (cn : nat)
  : option (option (list fsop * row)) :=
  let c := read_cache (csv d) in
  match skipn (last_epoch c) (ms E) with
  | [] => None
  | (tr, va) :: _ => Some (update_ops P d c tr va cn (pv E cn) (ro E cn))
  end.

(* every disk state that any sequence of (possibly crashed) updates can leave behind:
   each step performs the first k file-system calls of the next update (all of them when
   k >= their number) *)
Inductive reach (P : params) (E : env) : disk -> nat -> Prop :=
| reach_init : reach P E empty_disk 0
| reach_step d cn ops r k :
    reach P E d cn -> attempt P E d cn = Some (Some (ops, r)) ->
    reach P E (apply_ops d (firstn k ops)) (S cn).

(* crash-free *)
Inductive reach_full (P : params) (E : env) : disk -> nat -> Prop :=
| rf_init : reach_full P E empty_disk 0
| rf_step d cn ops r :
    reach_full P E d cn -> attempt P E d cn = Some (Some (ops, r)) ->
    reach_full P E (apply_ops d ops) (S cn).

(* at most one crash per epoch: a crashed update is followed by a completed one *)
Inductive reach_c1 (P : params) (E : env) : disk -> nat -> Prop :=
| c1_init : reach_c1 P E empty_disk 0
| c1_full d cn ops r :
    reach_c1 P E d cn -> attempt P E d cn = Some (Some (ops, r)) ->
    reach_c1 P E (apply_ops d ops) (S cn)
| c1_crash_full d cn ops r k ops' r' :
    reach_c1 P E d cn -> attempt P E d cn = Some (Some (ops, r)) ->
    attempt P E (apply_ops d (firstn k ops)) (S cn) = Some (Some (ops', r')) ->
    reach_c1 P E (apply_ops (apply_ops d (firstn k ops)) ops') (S (S cn)).

Inductive reach1 (P : params) (E : env) : disk -> nat -> Prop :=
| r1_clean d cn : reach_c1 P E d cn -> reach1 P E d cn
| r1_crash d cn ops r k :
    reach_c1 P E d cn -> attempt P E d cn = Some (Some (ops, r)) ->
    reach1 P E (apply_ops d (firstn k ops)) (S cn).

(* the disk after a process started on [d] has run to the end without dying *)
Definition final (P : params) (E : env) (d : disk) (cn : nat) : disk :=
  fst (fst (fst (start P E d cn None))).

(* the history table the metrics define: epoch e has the e-th pair *)
Fixpoint hist_from (e : nat) (l : list (Z * Z)) : list (nat * (Z * Z)) :=
  match l with [] => [] | m :: t => (e, m) :: hist_from (S e) t end.
