(* MiniTorch, unit C03Src — the meaning given to the torch operations that occur in the translated
   `_string_matching` (_string.py) on the path return_mask = True (what `optimal_completion` calls) and in
   the post-processing of `optimal_completion`, IN ADDITION to those of OpsC01.v / OpsC07.v (imported
   read-only).  DEFINITIONS ONLY; the algebra is in LemmasC03.v.

   Tensors are PV.MiniTorch.OpsC07.tn: (shape, row-major flat data) over bool / Z (torch.long, unbounded) /
   OpsC01.fx (exact rational, +inf, -inf, NaN).  IEEE rounding, signed zeros, dtypes' ranges, devices,
   strides and the aliasing of views are NOT modelled.  Every operation returns [None] outside the domain
   stated with it; the unit's [ext] turns [None] into [Stuck] (fail-closed).

   Each definition quotes the sentence of the torch documentation (2.x) it models.  This file is TRUSTED by
   the C03 tie; it is exercised on every run by the harness-side [C03.SrcRun.src_mask_check] /
   [src_oc_check] (torch vs the interpreted source on the same inputs). *)
From Coq Require Import List ZArith QArith Bool Arith String.
From PV Require Import MiniPy.Syntax MiniTorch.Ops MiniTorch.OpsC07 MiniTorch.OpsC01.
Import ListNotations.
Local Open Scope nat_scope.

(* ---- comparisons of float elements ---------------------------------------------------------------- *)
(* torch.gt: "Computes input > other element-wise."  IEEE: every comparison with a NaN is false;
   +inf > x for every x but +inf (and NaN); x > -inf for every x but -inf (and NaN) *)
Definition fx_gtb (a b : fx) : bool :=
  match a with
  | FNaN => false
  | FPInf => match b with FPInf | FNaN => false | _ => true end
  | FNInf => false
  | Fq p => match b with
            | Fq q => negb (Qle_bool p q)
            | FNInf => true
            | _ => false
            end
  end.

(* torch.eq: "Computes element-wise equality".  IEEE: NaN is different from everything, itself included;
   an infinity equals itself; finite values are compared as numbers *)
Definition fx_eqb (a b : fx) : bool :=
  match a, b with
  | Fq p, Fq q => Qeq_bool p q
  | FPInf, FPInf | FNInf, FNInf => true
  | _, _ => false
  end.

(* `x > y` with x a float tensor and y a long tensor = torch.gt with broadcasting ("The second argument can
   be a number or a tensor whose shape is broadcastable with the first argument"); type promotion converts
   the integers to the float type (assumed exact) *)
Definition gt_xi (a : tn fx) (b : tn Z) : option (tn bool) :=
  broadcast (fun x z => fx_gtb x (z2f z)) FNaN 0%Z a b.

(* `x == y` on two float tensors = torch.eq with broadcasting *)
Definition eq_xx (a b : tn fx) : option (tn bool) := broadcast fx_eqb FNaN FNaN a b.

(* `x == y` / `x != y` / `x < y` on two long tensors, with broadcasting: OpsC01.cmp_i *)

(* `a & b` on boolean tensors = torch.bitwise_and: "Computes the bitwise AND of input and other. ... For
   bool tensors, it computes the logical AND", with broadcasting (OpsC07.band is the equal-shape case) *)
Definition and_bb (a b : tn bool) : option (tn bool) := broadcast andb false false a b.

(* ---- construction ------------------------------------------------------------------------------------ *)
(* torch.zeros(size, dtype=torch.bool): "Returns a tensor filled with the scalar value 0, with the shape
   defined by the variable argument size"; 0 of torch.bool is False.  = OpsC01.full size false *)

(* torch.stack(tensors, dim=0): "Concatenates a sequence of tensors along a new dimension.  All tensors need
   to be of the same size." - the new dimension is the first one, entry k is the k-th tensor.
   None: an empty sequence ("stack expects a non-empty TensorList") or different shapes (torch raises) *)
Definition stack0 {X} (l : list (tn X)) : option (tn X) :=
  match l with
  | [] => None
  | t :: r =>
      if forallb (fun u => nats_eqb (shp u) (shp t)) r
      then Some (mkTn (List.length l :: shp t) (List.concat (map dat l)))
      else None
  end.

(* ---- indexing ------------------------------------------------------------------------------------------ *)
(* x[i] = v with an integer i: row i of the first dimension is overwritten by v (negative i counts from the
   end).  Modelled for v of exactly the shape of x[i] (no broadcasting of v).
   Some None: index out of range (IndexError: "index i is out of bounds for dimension 0 with size n").
   None: 0-d x, or another shape of v *)
Definition set_row0 {X} (x : tn X) (i : Z) (v : tn X) : option (option (tn X)) :=
  match shp x with
  | n :: rest =>
      let j := if (i <? 0)%Z then (i + Z.of_nat n)%Z else i in
      if ((0 <=? j) && (j <? Z.of_nat n))%Z
      then let w := numel rest in
           if nats_eqb (shp v) rest && (List.length (dat v) =? w)
           then Some (Some (mkTn (shp x) (firstn (Z.to_nat j * w) (dat x) ++ dat v ++ skipn ((Z.to_nat j + 1) * w) (dat x))))
           else None
      else Some None
  | [] => None
  end.

(* ---- reduction with keepdim ------------------------------------------------------------------------------ *)
(* Tensor.min(dim, keepdim=True): "If keepdim is True, the output tensors are of the same size as input except
   in the dimension dim where they are of size 1.  Otherwise, dim is squeezed" - OpsC01.min_dim with the
   reduced dimension kept as a dimension of size 1 (the data are the same).
   None: dim outside [-rank, rank).  Some None: the reduced dimension has size 0 (IndexError) *)
Definition keep_dim (sh : list nat) (k : nat) : list nat := firstn k sh ++ 1 :: skipn (S k) sh.

Definition min_dim_keep (x : tn fx) (d : Z) : option (option (tn fx * tn Z)) :=
  match wrap_dim (rank x) d, min_dim x d with
  | Some k, Some (Some (v, i)) =>
      Some (Some (mkTn (keep_dim (shp x) k) (dat v), mkTn (keep_dim (shp x) k) (dat i)))
  | _, Some None => Some None
  | _, _ => None
  end.

(* ======================================================================================================
   Part 2: the operations of `optimal_completion`'s post-processing (duplicate propagation, sort, neighbour
   de-duplication, counts, scatter into padded targets).  Modelled on the ranks the function uses.
   ====================================================================================================== *)

(* `x == y`, `x > y` on two long tensors, with broadcasting (torch.eq / torch.gt): OpsC01.cmp_i Z.eqb / Z.gtb *)

(* Tensor.transpose(dim0, dim1) on a 3-D tensor: "Returns a tensor that is a transposed version of input.  The given
   dimensions dim0 and dim1 are swapped."  out[ix with components a and b swapped] = x[ix].  None: another rank,
   a dimension outside [-3, 3) *)
Definition swap3 {A} (a b : nat) (t : A * A * A) : A * A * A :=
  let '(x0, x1, x2) := t in
  let get k := match k with 0 => x0 | 1 => x1 | _ => x2 end in
  let put k := if k =? a then get b else if k =? b then get a else get k in
  (put 0, put 1, put 2).

Definition transpose3 {X} (d : X) (x : tn X) (d0 d1 : Z) : option (tn X) :=
  match shp x, wrap_dim 3 d0, wrap_dim 3 d1 with
  | [s0; s1; s2], Some a, Some b =>
      let '(t0, t1, t2) := swap3 a b (s0, s1, s2) in
      Some (mkTn [t0; t1; t2]
              (tab3 t0 t1 t2 (fun i j k => let '(i0, i1, i2) := swap3 a b (i, j, k) in nth ((i0 * s1 + i1) * s2 + i2) (dat x) d)))
  | _, _, _ => None
  end.

(* Tensor.any(dim) on a boolean tensor: "For each row of input in the given dimension dim, returns True if any element
   in the row evaluate to True and False otherwise." - dim is squeezed.  None: dim outside [-rank, rank) *)
Definition any_dim (x : tn bool) (d : Z) : option (tn bool) :=
  match wrap_dim (rank x) d with
  | Some k =>
      let sh := shp x in
      Some (mkTn (drop_dim sh k)
              (tab2 (outer sh k) (inner sh k) (fun o i => existsb (fun b => b) (fibre false (extent sh k) (inner sh k) (dat x) o i))))
  | None => None
  end.

(* Tensor.sum(dim) on a boolean tensor: "Returns the sum of each row of the input tensor in the given dimension dim";
   a bool input is summed as integers (the result is torch.long): the number of True entries.  dim is squeezed *)
Definition count_row (l : list bool) : Z := Z.of_nat (List.length (filter (fun b => b) l)).

Definition sum_dim_b (x : tn bool) (d : Z) : option (tn Z) :=
  match wrap_dim (rank x) d with
  | Some k =>
      let sh := shp x in
      Some (mkTn (drop_dim sh k)
              (tab2 (outer sh k) (inner sh k) (fun o i => count_row (fibre false (extent sh k) (inner sh k) (dat x) o i))))
  | None => None
  end.

(* Tensor.sort(dim) on a 2-D long tensor along its LAST dimension: "Sorts the elements of the input tensor along a given
   dimension in ascending order by value. ... A namedtuple of (values, indices) is returned, where the values are the
   sorted values and indices are the indices of the elements in the original input tensor."  ASSUMPTION: equal elements
   keep their original order (what torch promises only with stable=True; optimal_completion's result does not depend on
   it: after the duplicate propagation equal tokens carry equal mask bits).  The index list of one row is the stable
   insertion sort PV.C03.Model.sort_idx uses (restated here: MiniTorch does not import the models) *)
Fixpoint insert_by (key : nat -> Z) (i : nat) (l : list nat) : list nat :=
  match l with
  | [] => [i]
  | j :: t => if (key i <=? key j)%Z then i :: l else j :: insert_by key i t
  end.

Definition sort_row_idx (r : list Z) : list nat :=
  fold_right (insert_by (fun i => nth i r 0%Z)) [] (seq 0 (List.length r)).

Definition row_of {X} (x : tn X) (w n : nat) : list X := firstn w (skipn (n * w) (dat x)).

Definition sort_last2 (x : tn Z) (d : Z) : option (tn Z * tn Z) :=
  match shp x, wrap_dim 2 d with
  | [n; w], Some 1 =>
      Some (mkTn [n; w] (flat_map (fun i => let r := row_of x w i in map (fun s => nth s r 0%Z) (sort_row_idx r)) (seq 0 n)),
            mkTn [n; w] (flat_map (fun i => map Z.of_nat (sort_row_idx (row_of x w i))) (seq 0 n)))
  | _, _ => None
  end.

(* Tensor.expand( *sizes) / Tensor.expand_as(other) of a 2-D tensor to 3 sizes: "Returns a new view of the self tensor
   with singleton dimensions expanded to a larger size.  Passing -1 as the size for a dimension means not changing the
   size of that dimension.  Tensor can be also expanded to a larger number of dimensions, and the new ones will be
   appended at the front."  Modelled: (a, b) -> (h, a', b') with a' / b' = -1 or the present size, or the present size
   being 1.  None otherwise *)
Definition expand_lead2 {X} (d : X) (x : tn X) (h s1 s2 : Z) : option (tn X) :=
  match shp x with
  | [a; b] =>
      match expand_size a s1, expand_size b s2 with
      | Some a', Some b' =>
          if (h <? 0)%Z then None
          else Some (mkTn [Z.to_nat h; a'; b']
                       (tab3 (Z.to_nat h) a' b' (fun _ i j => nth (bidx a i * b + bidx b j) (dat x) d)))
      | _, _ => None
      end
  | _ => None
  end.

(* Tensor.gather(2, index) on 3-D tensors of EQUAL shape: "out[i][j][k] = input[i][j][index[i][j][k]]  # if dim == 2";
   every index within [0, input.size(2)) (torch raises otherwise: None) *)
Definition gather_last3 {X} (d : X) (x : tn X) (idx : tn Z) : option (tn X) :=
  match shp x, shp idx with
  | [a; b; c], [a'; b'; c'] =>
      if (a =? a') && (b =? b') && (c =? c') && forallb (fun j => (0 <=? j)%Z && (j <? Z.of_nat c)%Z) (dat idx)
      then Some (mkTn [a; b; c]
                   (tab3 a b c (fun i j k => nth ((i * b + j) * c + Z.to_nat (nth ((i * b + j) * c + k) (dat idx) 0%Z)) (dat x) d)))
      else None
  | _, _ => None
  end.

(* x[..., a:b] / x[:, a:b]: the slice a:b (no step) of the LAST dimension, all of the leading ones.  [rows] = product of
   the leading sizes.  None: 0-d *)
Definition slice_last {X} (d : X) (x : tn X) (a b : option Z) : option (tn X) :=
  match rev (shp x) with
  | w :: lead_rev =>
      let lo := slice_bound w 0 a in
      let hi := slice_bound w w b in
      let rows := numel (rev lead_rev) in
      Some (mkTn (rev lead_rev ++ [hi - lo])
              (tab2 rows (hi - lo) (fun r j => nth (r * w + lo + j) (dat x) d)))
  | [] => None
  end.

(* torch.cat([x, y], dim) for the LAST dimension: "Concatenates the given sequence of tensors in the given dimension.
   All tensors must ... have the same shape (except in the concatenating dimension)".  None: ranks / leading sizes
   differ, 0-d *)
Definition cat_last {X} (d : X) (x y : tn X) : option (tn X) :=
  match rev (shp x), rev (shp y) with
  | wx :: lx, wy :: ly =>
      if nats_eqb lx ly
      then let rows := numel (rev lx) in
           Some (mkTn (rev lx ++ [wx + wy])
                   (tab2 rows (wx + wy) (fun r j => if j <? wx then nth (r * wx + j) (dat x) d else nth (r * wy + (j - wx)) (dat y) d)))
      else None
  | _, _ => None
  end.

(* torch.masked_select(input, mask) with a mask of input's shape: "Returns a new 1-D tensor which indexes the input
   tensor according to the boolean mask" - the selected elements in row-major order.  None: shapes differ *)
Fixpoint mselect {X} (m : list bool) (x : list X) : list X :=
  match m, x with
  | b :: m', a :: x' => if b then a :: mselect m' x' else mselect m' x'
  | _, _ => []
  end.

Definition masked_select {X} (x : tn X) (mask : tn bool) : option (tn X) :=
  if nats_eqb (shp x) (shp mask)
  then let r := mselect (dat mask) (dat x) in Some (mkTn [List.length r] r)
  else None.

(* Tensor.masked_scatter_(mask, source) with a mask of self's shape: "Copies elements from source into self tensor at
   positions where the mask is True.  Elements from source are copied into self starting at position 0 of source and
   continuing in order one-by-one for each occurrence of mask being True. ... The source should have at least as many
   elements as the number of ones in mask."  The updated self.  outer None: shapes differ; inner None: source too
   short (RuntimeError) *)
Fixpoint mscatter {X} (m : list bool) (dst src : list X) : option (list X) :=
  match m, dst with
  | b :: m', t :: dst' =>
      if b then match src with
                | s :: src' => option_map (cons s) (mscatter m' dst' src')
                | [] => None
                end
      else option_map (cons t) (mscatter m' dst' src)
  | _, _ => Some dst
  end.

Definition masked_scatter {X} (x : tn X) (mask : tn bool) (src : tn X) : option (option (tn X)) :=
  if nats_eqb (shp x) (shp mask)
  then Some (option_map (mkTn (shp x)) (mscatter (dat mask) (dat x) (dat src)))
  else None.

(* Tensor.max() without arguments: "Returns the maximum value of all elements in the input tensor." (a 0-d tensor);
   None: no element (RuntimeError "max(): Expected reduction dim to be specified for input.numel() == 0") *)
Definition max_all (x : tn Z) : option Z :=
  match dat x with
  | [] => None
  | a :: r => Some (fold_left Z.max r a)
  end.
