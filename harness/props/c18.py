"""C18 — normalisation statistics, deltas, returns: correspondence between /repo and PV.C18.Model.

Case kinds (all JSON-able dicts, tensors as {"shape": [...], "data": [ints]} with value = int/scale):
  ops     a history of MeanVarianceNormalization: accumulate / store(delete_stats, bessel), then forward
  norm    mean_var_norm / the module with given or missing mean and std
  deltas  feat_deltas / FeatureDeltas
  return  time_distributed_return / TimeDistributedReturn
  cmd     compute-mvn-stats-for-torch-feat-data-dir on a scratch directory
"""
import itertools
import json
import math
import os
import shutil
import warnings
from fractions import Fraction

import torch

from vlib import cb, cl, cn, co, cp, cq, cz, coq_eval_bools, coq_eval_print, exc_kind, load_corpus, shrink

warnings.filterwarnings("ignore")
torch.set_num_threads(1)

IMPORTS = "From PV Require Import C18.Model C18.Spec.\n"
DT = {"f32": torch.float32, "f64": torch.float64}
MODES = ["replicate", "constant", "reflect", "circular"]
CMODE = {"replicate": "Replicate", "constant": "Constant", "reflect": "Reflect", "circular": "Circular"}
TINY = 1.1754943508222875e-38
TOL64 = Fraction(1, 10**9)
TOL32 = Fraction(1, 10**4)
THEOREMS = {
    "ops": ["c18_accumulate_pooled_sums", "c18_stats_partition_order_invariant", "c18_store_is_pooled_mean_var",
            "c18_store_needs_two_frames", "c18_normalised_zero_mean_unit_var", "c18_normalisation_formula"],
    "norm": ["c18_own_stats_when_none", "c18_own_stats_normalised", "c18_normalised_given_stats", "c18_normalisation_formula"],
    "deltas": ["c18_padding_is_extension", "c18_delta_line_eq_regression", "c18_feat_deltas_layout",
               "c18_feat_deltas_defined", "c18_feat_deltas_errors"],
    "return": ["c18_return_recursion", "c18_return_eq_spec", "c18_return_error_iff"],
    "cmd": ["c18_cmd_directory_stats", "c18_store_is_pooled_mean_var"],
}


# ------------------------------------------------------------------------------------------
# literals
# ------------------------------------------------------------------------------------------
def numel(shape):
    n = 1
    for s in shape:
        n *= s
    return n


def mk(t, scale, dtype):
    return torch.tensor([i / scale for i in t["data"]], dtype=dtype).reshape(t["shape"])


# ------------------------------------------------------------------------------------------
# robustness dimensions (audit): memory layout, entry point, call history.  The LOGICAL input of a case never changes
# with these fields, so the model term is the one of the plain case; what changes is how the tensors are laid out in
# memory, through which public entry point the implementation is reached, and what happened to the objects before.
# ------------------------------------------------------------------------------------------
LAYOUTS = ["tct", "off", "step", "expand"]
_SIDE = {}    # id(case) -> description of a failed relation that needs no model (same call twice, input modified, ...)


def _side(case, what):
    _SIDE.setdefault(id(case), what)


def relayout(x, layout):
    """the same logical tensor (shape, dtype, values) as a view with another memory layout:
    tct    = transposed-contiguous-transposed (first and last axis): column-major strides
    off    = interior of a larger NaN-filled buffer: storage offset and non-dense strides on every axis
    step   = every second cell of the last axis of a NaN-filled buffer
    expand = stride-0 broadcast view along an axis on which the tensor is constant (falls back to `off`)"""
    if layout is None or x.dim() == 0:
        return x
    if layout == "tct":
        if x.dim() < 2:
            layout = "step"
        else:
            return x.transpose(0, -1).contiguous().transpose(0, -1)
    if layout == "expand":
        for a in range(x.dim()):
            if x.shape[a] > 1 and x.numel() and bool((x == x.narrow(a, 0, 1)).all()):
                return x.narrow(a, 0, 1).contiguous().expand(x.shape)
        layout = "off"
    if layout == "step":
        big = torch.full(list(x.shape[:-1]) + [2 * x.shape[-1] + 1], float("nan"), dtype=x.dtype)
        v = big[..., 1::2]
        v.copy_(x)
        return v
    big = torch.full([n + 2 for n in x.shape], float("nan"), dtype=x.dtype)
    v = big[tuple(slice(1, 1 + n) for n in x.shape)]
    v.copy_(x)
    return v


def mkl(t, scale, dtype, layout=None):
    return relayout(mk(t, scale, dtype), layout)


def same_tensor(a, b):
    return a.shape == b.shape and a.dtype == b.dtype and bool(torch.equal(a, b) or
                                                               (torch.isnan(a) == torch.isnan(b)).all() and
                                                               torch.equal(torch.nan_to_num(a), torch.nan_to_num(b)))


def kind_of(e):
    """exception kind; a TorchScript `raise X(...)` surfaces as torch.jit.Error with 'builtins.X: ...' in its text"""
    if type(e).__name__ == "Error" and type(e).__module__.startswith("torch.jit"):
        import re as _re
        m = _re.findall(r"builtins\.(\w+):", str(e))
        return m[-1] if m else "RuntimeError"
    return exc_kind(e)


def _res_of(fn):
    try:
        return ("ok", fn())
    except Exception as e:  # noqa: BLE001
        return ("err", kind_of(e))


def _res_same(a, b, rtol):
    if a[0] != b[0]:
        return False
    if a[0] == "err":
        return a[1] == b[1]
    x, y = a[1], b[1]
    if x.shape != y.shape or x.dtype != y.dtype:
        return False
    if rtol == 0:
        return same_tensor(x, y)
    return bool(torch.allclose(x.double(), y.double(), rtol=rtol, atol=rtol, equal_nan=True))


def call_twice(case, make_callable, inputs, x_key=0, rtol=0.0):
    """Run the case's entry point.  With case['twice']: (a) the SAME entry object on the SAME tensor objects again must give
    the same result and leave every input as it was; (b) after overwriting the main input IN PLACE with other values the
    same objects must give what a fresh entry object gives on a fresh tensor with those values (no cache keyed by object
    identity, no state carried over).  Returns the first result, canonicalised."""
    f = make_callable()
    before = [None if t is None else t.clone() for t in inputs]
    r1 = _res_of(lambda: f(*inputs))
    first = r1 if r1[0] == "err" else ("ok", impl_tensor(r1[1]))   # now: the result may alias the input (gamma = 0)
    if r1[0] == "ok":
        r1 = ("ok", r1[1].clone())
    for t, b in zip(inputs, before):
        if t is not None and not same_tensor(t, b):
            _side(case, "the call modified one of its input tensors in place")
    if case.get("twice"):
        r2 = _res_of(lambda: f(*inputs))
        if not _res_same(r1, r2, 0.0):
            _side(case, "calling the same object twice on the same tensor objects gives two different results")
        x = inputs[x_key]
        if x.numel() and case.get("layout") != "expand" and x.dim() > 0:
            new = x.flip(0).clone() * 2 + 1
            x.copy_(new)
            r3 = _res_of(lambda: f(*inputs))
            fresh = list(inputs)
            fresh[x_key] = new.clone()
            r4 = _res_of(lambda: make_callable()(*fresh))
            if not _res_same(r3, r4, rtol):
                _side(case, "after overwriting the input tensor in place, the same objects give a result that differs from "
                            "a fresh call on a fresh tensor with the same values")
    return first


def lit_tensor_fr(shape, fracs):
    return f"(mkT {cl([cn(s) for s in shape])} {cl([cq(f) for f in fracs])})"


def lit_case_tensor(t, scale, dtype=None):
    """exact value of what the implementation receives: ints/scale is exact for the dyadic scales; off the grid
    (scale 10) it is the float of the given dtype nearest to int/scale"""
    if scale in (1, 2, 4, 8):
        return lit_tensor_fr(t["shape"], [Fraction(i, scale) for i in t["data"]])
    vals = torch.tensor([i / scale for i in t["data"]], dtype=dtype or torch.float64).double().tolist()
    return lit_tensor_fr(t["shape"], [Fraction(v) for v in vals])


def fr_list(xs):
    return [Fraction(float(v)) for v in xs]


def lit_qs(fracs):
    return cl([cq(f) for f in fracs])


def lit_err(kind):
    return {"IndexError": "(Err EIndex)", "RuntimeError": "(Err ERuntime)"}.get(kind)


def finite(xs):
    return all(math.isfinite(float(v)) for v in xs)


# ------------------------------------------------------------------------------------------
# extreme-magnitude regime: tolerances from the conditioning of the documented formulas
# ------------------------------------------------------------------------------------------
UNIT = {"f32": 2.0 ** -24, "f64": 2.0 ** -53}     # unit roundoff


def ulp(dtype, m):
    """spacing of the floats of this dtype around magnitude m"""
    m = abs(float(m))
    if m == 0 or not math.isfinite(m):
        return 0.0
    return 2.0 ** (math.floor(math.log2(m)) - (23 if dtype == "f32" else 52))


def _case_max_abs(tensors, scale):
    return max([abs(i) for t in tensors for i in t["data"]] + [0]) / scale


def offset_var_tol(case, xs, bessel, n):
    """|std^2 - var| allowed for store() on data with a large common offset: the documented statistic is
    var = sumsq / count - (sum / count)^2 held in float64 buffers.  With exact sums (dyadic data) the roundings are
    fl(sum/count) [u], its square [2u + u], fl(sumsq/count) [u], each relative to M^2 = max x^2  ->  4 u64 M^2 (a worst-case
    bound: cancellation makes the error absolute in M^2, not relative to var), times count/(count-1) under Bessel."""
    M = _case_max_abs(xs, case["scale"])
    t = 4.04 * UNIT["f64"] * M * M
    if bessel and n > 1:
        t *= n / (n - 1)
    return t + 1e-15


def norm_cond_tol(dtype, means, dens, own_mean, ymax):
    """|y - (x - mean)/max(std, eps)| allowed: the subtrahend is `mean.to(x.dtype)` (half an ulp of the input dtype at |mean|
    when the mean is the tensor's own float64 mean; a handed mean is on the grid, hence exact), two ulps of float64 for the
    float64 mean itself, divided by the denominator; plus three roundings (std.to, clamp, divide) relative to |y|."""
    worst = 0.0
    for m, d in zip(means, dens):
        dm = 2 * ulp("f64", m) if own_mean else 0.0
        if own_mean and dtype == "f32":
            dm += 0.5 * ulp("f32", m)
        if d > 0:
            worst = max(worst, dm / d)
    return Fraction(worst * 1.01) + Fraction(3 * UNIT[dtype] + 1e-13) * Fraction(max(1.0, ymax))


def impl_tensor(y):
    return {"shape": list(y.shape), "data": [float(v) for v in y.detach().double().flatten().tolist()]}


def lit_impl_tensor(t):
    return lit_tensor_fr(t["shape"], fr_list(t["data"]))


def lit_res_tensor(r):
    """r = ("ok", tensor dict) | ("err", kind)"""
    if r[0] == "ok":
        return f"(Ok {lit_impl_tensor(r[1])})"
    return lit_err(r[1])


def res_nonfinite(r):
    return r[0] == "ok" and not finite(r[1]["data"])


# ------------------------------------------------------------------------------------------
# ops: histories of the module
# ------------------------------------------------------------------------------------------
def _init_stats(case):
    """statistics handed to the constructor (ints / scale), or None"""
    ini = case.get("init") or {}
    f = lambda v: None if v is None else torch.tensor([i / case["scale"] for i in v], dtype=torch.float64)  # noqa: E731
    return f(ini.get("mean")), f(ini.get("std"))


def _last_stats(case, out):
    """(mean, std) the module must normalise with after the history: those of the last successful store (as recorded when
    it happened), else the ones given to the constructor (when both were), else None"""
    ok = [s for s in out["stores"] if s[0] == "ok"]
    if ok:
        return ok[-1][1], ok[-1][2]
    ini = case.get("init") or {}
    if ini.get("mean") is not None and ini.get("std") is not None:
        return [i / case["scale"] for i in ini["mean"]], [i / case["scale"] for i in ini["std"]]
    return None


def _do_store(m, op, defaults):
    """store through positional, keyword or (where the flags equal the documented defaults) omitted arguments"""
    d, b = op["delete"], op["bessel"]
    if not defaults:
        return m.store(delete_stats=d, bessel=b)
    if d and not b:
        return m.store()
    if d:
        return m.store(bessel=b)
    if not b:
        return m.store(d)
    return m.store(d, b)


def _new_mvn(case, with_init=True):
    from pydrobert.torch.modules import MeanVarianceNormalization

    mean0, std0 = _init_stats(case) if with_init else (None, None)
    if case.get("ctor_kw"):
        m = MeanVarianceNormalization(dim=case["dim"], mean=mean0, std=std0, eps=case["eps"])
    elif case["dim"] == -1 and mean0 is None and std0 is None and case["eps"] == TINY and case.get("store_defaults"):
        m = MeanVarianceNormalization()
    else:
        m = MeanVarianceNormalization(case["dim"], mean0, std0, case["eps"])
    if case.get("script"):
        m = torch.jit.script(m)
    return m


def run_ops(case):
    dt = DT[case["dtype"]]
    lay = case.get("layout")
    m = _new_mvn(case)
    # a second object driven through the same history one step behind (interleaved use of two objects)
    m2 = _new_mvn(case) if case.get("interleave") and not any("overwrite" in o for o in case["ops"]) else None
    stores, stores2, final, live = [], [], None, []
    objs, holds = {}, {}    # acc index -> tensor object; id(object) -> index of the acc whose values it holds now

    def tensor_for(k, op):
        if ("same" in op and op["same"] in objs and objs[op["same"]].dtype == dt and
                same_tensor(objs[op["same"]], mk(op["x"], case["scale"], dt))):     # the very same tensor object again
            x = objs[op["same"]]
        elif ("overwrite" in op and op["overwrite"] in objs and lay != "expand" and
              list(objs[op["overwrite"]].shape) == list(op["x"]["shape"])):          # same object, overwritten in place
            x = objs[op["overwrite"]]
            x.copy_(mk(op["x"], case["scale"], dt))
        else:
            x = mkl(op["x"], case["scale"], dt, lay)
        objs[k] = x
        holds[id(x)] = k
        return x

    def apply(mod, k, op, rec):
        if op["op"] == "acc":
            mod.accumulate(objs[k])
            return
        try:
            _do_store(mod, op, case.get("store_defaults"))
            rec.append(("ok", [float(v) for v in mod.mean.tolist()], [float(v) for v in mod.std.tolist()],
                        str(mod.mean.dtype), str(mod.std.dtype)))
            if op["delete"]:
                if not (mod.count is None and mod.sum is None and mod.sumsq is None):
                    rec.append(("bad", "statistics survive delete_stats=True"))
        except Exception as e:  # noqa: BLE001
            rec.append(("err", kind_of(e)))

    try:
        prev = None
        for k, op in enumerate(case["ops"]):
            if op["op"] == "acc":
                live.append(tensor_for(k, op))
            apply(m, k, op, stores)
            if m2 is not None:
                if prev is not None:
                    apply(m2, prev[0], prev[1], stores2)
                prev = (k, op)
        if m2 is not None and prev is not None:
            apply(m2, prev[0], prev[1], stores2)
        if m.count is None:
            final = ("ok", None)
        else:
            final = ("ok", [float(m.count.item()), [float(v) for v in m.sum.tolist()], [float(v) for v in m.sumsq.tolist()]])
    except Exception as e:  # noqa: BLE001
        final = ("err", kind_of(e))
    out = {"stores": stores, "final": final, "fwd": None}
    if m2 is not None and final[0] == "ok":
        f2 = None if m2.count is None else [float(m2.count.item()), [float(v) for v in m2.sum.tolist()],
                                            [float(v) for v in m2.sumsq.tolist()]]
        if stores2 != stores or f2 != final[1]:
            _side(case, "two MeanVarianceNormalization objects used in turns on the same history do not end with the same "
                        "statistics (state shared between objects)")
    # every tensor object must still hold the values it was given
    for k, x in objs.items():
        if holds.get(id(x)) == k and not same_tensor(x, mk(case["ops"][k]["x"], case["scale"], dt)):
            _side(case, "accumulate()/store() modified an input tensor in place")
    # forward with the last stored (or constructor-given) statistics on every accumulated tensor: the SAME tensor objects
    # where they still hold the values of that step
    if _last_stats(case, out) is not None and final[0] == "ok" and case.get("forward", True):
        fwd = []
        for k, op in enumerate(case["ops"]):
            if op["op"] != "acc":
                continue
            if k in objs and holds.get(id(objs[k])) == k:
                x = objs[k]
            else:
                x = mkl(op["x"], case["scale"], dt, lay)
            if m.mean is not None and m.std is not None and _forward_overflows(x, case["dim"], m.mean, m.std, case["eps"]):
                fwd.append(("skip", None))   # (x - mean) / ~1e-38 is beyond the float range: nothing to compare
                continue
            try:
                fwd.append(("ok", impl_tensor(m(x))))
            except Exception as e:  # noqa: BLE001
                fwd.append(("err", kind_of(e)))
            if not same_tensor(x, mk(op["x"], case["scale"], dt)):
                _side(case, "forward() modified its input tensor in place")
        out["fwd"] = fwd
    return out


def _forward_overflows(x, dim, mean, std, eps):
    """a non-zero numerator over a denominator max(std, eps) < 1e-20 (a history whose last store saw a constant
    coefficient, applied to earlier data with eps = TINY): the quotient overflows legitimately"""
    try:
        if not (torch.isfinite(mean).all() and torch.isfinite(std).all()):
            return False
        num = (x.movedim(dim, -1).double() - mean).abs().reshape(-1, mean.numel()).max(0).values
        den = std.clamp_min(eps)
        return bool(((num > 0) & (den < 1e-20)).any())
    except Exception:  # noqa: BLE001
        return False


def lit_ops(case):
    items = []
    for op in case["ops"]:
        if op["op"] == "acc":
            items.append(f"OpAcc {lit_case_tensor(op['x'], case['scale'], DT[case['dtype']])}")
        else:
            items.append(f"OpStore {cb(op['delete'])} {cb(op['bessel'])}")
    return cl(items)


def _lit_store(s):
    if s[0] == "ok":
        return f"(Ok ({lit_qs(fr_list(s[1]))}, {lit_qs(fr_list(s[2]))}))"
    return lit_err(s[1])


def ops_nonfinite(out):
    for s in out["stores"]:
        if s[0] == "ok" and not (finite(s[1]) and finite(s[2])):
            return "store() produced a non-finite mean or std"
    if out["final"][0] == "ok" and out["final"][1] is not None:
        c, sm, sq = out["final"][1]
        if not (finite([c]) and finite(sm) and finite(sq)):
            return "non-finite accumulators"
    for f in out["fwd"] or []:
        if res_nonfinite(f):
            return "normalisation with stored statistics produced non-finite values"
    return None


def ops_term(case, out):
    if any(s[0] == "bad" for s in out["stores"]):
        return "false"
    if any(s[0] == "err" and lit_err(s[1]) is None for s in out["stores"]):
        return "false"
    if out["final"][0] == "err" and lit_err(out["final"][1]) is None:
        return "false"
    loose = case.get("offgrid") and case["dtype"] == "f32"   # float32 sums of off-grid data carry ~1e-8 of rounding
    tol = cq(Fraction(1, 10**5) if loose else TOL64)
    if case.get("offset"):
        tol = cq(Fraction(_ops_offset_tol(case)))
    stores = cl([_lit_store(s) for s in out["stores"]])
    if out["final"][0] == "err":
        final = lit_err(out["final"][1])
    elif out["final"][1] is None:
        final = "(Ok None)"
    else:
        c, sm, sq = out["final"][1]
        final = f"(Ok (Some ({cq(Fraction(c))}, {lit_qs(fr_list(sm))}, {lit_qs(fr_list(sq))})))"
    tola = cq((Fraction(1, 10**5) if loose else TOL64) if case.get("offgrid") else Fraction(0))
    parts = [f"check_ops {cz(case['dim'])} {lit_ops(case)} {tol} {tola} {stores} {final}"]
    if out["fwd"] is not None:
        lm, ls = _last_stats(case, out)
        last = ("ok", lm, ls)
        accs = [op for op in case["ops"] if op["op"] == "acc"]
        for op, f in zip(accs, out["fwd"]):
            if f[0] == "skip":
                continue
            if f[0] == "err" and lit_err(f[1]) is None:
                return "false"
            parts.append(
                f"check_norm {lit_case_tensor(op['x'], case['scale'], DT[case['dtype']])} {cz(case['dim'])} (Some {lit_qs(fr_list(last[1]))}) "
                f"(Some {lit_qs(fr_list(last[2]))}) {cq(Fraction(case['eps']))} [] {cq(_fwd_tol(case, f, last))} {lit_res_tensor(f)}")
    return "(" + " && ".join(parts) + ")"


def _fwd_tol(case, f, last=None):
    """tolerance for one normalised tensor, relative to its largest entry"""
    mx = 1.0
    if f[0] == "ok" and f[1]["data"] and finite(f[1]["data"]):
        mx = max(mx, max(abs(v) for v in f[1]["data"]))
    if case.get("offset") and last is not None:
        # the float64 statistics are converted to the input dtype before use: conditioning of (x - mean) / max(std, eps)
        return norm_cond_tol(case["dtype"], last[1], [max(s, case["eps"]) for s in last[2]], True, mx)
    base = TOL32 if case["dtype"] == "f32" else TOL64
    return base * Fraction(mx)


def _ops_offset_tol(case):
    """one tolerance for every store of an offset history (check_ops takes a single one): the largest per-store bound"""
    h = _history(case)
    t = 1e-9
    for live, bessel, ok in (h[0] if h else []):
        if ok:
            t = max(t, offset_var_tol(case, live, bessel, sum(_frames_of(x, case["dim"]) for x in live)))
    return t


def _pooled(case, live):
    """per coefficient: the exact pooled values (Fractions) of the tensors in `live` along case['dim']"""
    cols = None
    for x in live:
        t = torch.tensor(x["data"], dtype=torch.long).reshape(x["shape"]).movedim(case["dim"], -1)
        rows = t.reshape(-1, t.shape[-1]).tolist()
        if cols is None:
            cols = [[] for _ in range(t.shape[-1])]
        for r in rows:
            for i, v in enumerate(r):
                cols[i].append(Fraction(v, case["scale"]))
    return cols or []


def ops_offset_relation(case, out):
    """Extreme-magnitude regime, judged in exact rational arithmetic on the implementation's outputs alone: every store's
    mean within one float64 rounding of the pooled mean, std^2 within the conditioning bound of the float64
    sufficient-statistics formula (offset_var_tol) of the pooled biased/Bessel variance, and the float64 buffers EQUAL to the
    exact pooled count / sum / sum of squares (all representable)."""
    h = _history(case)
    if h is None or out["final"][0] != "ok" or len(h[0]) != len(out["stores"]):
        return None
    for k, ((live, bessel, must_ok), st) in enumerate(zip(h[0], out["stores"])):
        if not must_ok or st[0] != "ok":
            continue
        for i, col in enumerate(_pooled(case, live)):
            n = len(col)
            mu = sum(col) / n
            var = sum((v - mu) ** 2 for v in col) / (n - 1 if bessel else n)
            tv = offset_var_tol(case, live, bessel, n) + 4 * UNIT["f64"] * float(var)
            got_m, got_v = Fraction(st[1][i]), Fraction(st[2][i]) ** 2
            if abs(got_m - mu) > Fraction(1.01 * UNIT["f64"]) * abs(mu) + Fraction(1, 10 ** 300):
                return {"what": "store(): mean differs from the pooled mean by more than one float64 rounding",
                        "store": k, "coefficient": i, "got": st[1][i], "expected": float(mu)}
            if abs(got_v - var) > Fraction(tv):
                return {"what": "store(): std^2 differs from the pooled %s variance by more than the conditioning bound "
                                "4 u64 max|x|^2 of sumsq/count - mean^2 in float64" % ("Bessel" if bessel else "biased"),
                        "store": k, "coefficient": i, "got_std": st[2][i], "expected_std": math.sqrt(float(var)),
                        "abs_error_in_variance": float(abs(got_v - var)), "bound": tv, "frames": n,
                        "input_dtype": case["dtype"]}
    if out["final"][1] is not None and h[1]:
        c, sm, sq = out["final"][1]
        cols = _pooled(case, h[1])
        if cols and Fraction(c) != len(cols[0]):
            return {"what": "count buffer differs from the number of pooled frames", "got": c}
        for i, col in enumerate(cols):
            if Fraction(sm[i]) != sum(col) or Fraction(sq[i]) != sum(v * v for v in col):
                return {"what": "float64 sum / sumsq buffers differ from the exact pooled sums (which are representable)",
                        "coefficient": i, "got": [sm[i], sq[i]], "expected": [float(sum(col)), float(sum(v * v for v in col))],
                        "input_dtype": case["dtype"]}
    return None


def _frames_of(x, dim):
    D = len(x["shape"])
    if dim < -D or dim >= D:
        return 0
    n = 1
    for i, v in enumerate(x["shape"]):
        if i != dim % D:
            n *= v
    return n


def _history(case):
    """python bookkeeping for the spec: for every store the tensors accumulated since the last *successful deleting*
    store (with its bessel flag and whether it must succeed: >= 2 frames), and the tensors live at the end.
    None when the tensors do not agree on the coefficient count (broadcast / error histories: outcome fixed uniquely)."""
    live, stores = [], []
    sizes = set()
    for op in case["ops"]:
        if op["op"] == "acc":
            live.append(op["x"])
            D = len(op["x"]["shape"])
            if case["dim"] < -D or case["dim"] >= D:
                return None
            sizes.add(op["x"]["shape"][case["dim"]])
        else:
            ok = sum(_frames_of(x, case["dim"]) for x in live) >= 2
            stores.append((list(live), op["bessel"], ok))
            if ok and op["delete"]:
                live = []
    if len(sizes) > 1:
        return None
    return stores, live


def ops_spec_term(case, out):
    """The property's own reading of a history, on the implementation's outputs alone: EVERY store's mean/std against the
    pooled statistics of the tensors accumulated since the last deleting store, the buffers left at the end against the
    pooled sums of the live tensors, and the documented formula on every normalised tensor."""
    if out["final"][0] != "ok" or any(s[0] == "bad" for s in out["stores"]):
        return None
    h = _history(case)
    if h is None or len(h[0]) != len(out["stores"]):
        return None
    dt = DT[case["dtype"]]
    loose = case.get("offgrid") and case["dtype"] == "f32"
    tol = cq(Fraction(1, 10**5) if loose else TOL64)
    if case.get("offset"):
        tol = cq(Fraction(_ops_offset_tol(case)))
    tola = cq((Fraction(1, 10**5) if loose else TOL64) if case.get("offgrid") else Fraction(0))
    parts = []
    for (live, bessel, must_ok), st in zip(h[0], out["stores"]):
        if not must_ok:
            parts.append(cb(st[0] == "err" and st[1] == "RuntimeError"))
            continue
        if st[0] != "ok" or not (finite(st[1]) and finite(st[2])):
            return "false"
        xs = cl([lit_case_tensor(x, case["scale"], dt) for x in live])
        parts.append(f"spec_stats_okb {cz(case['dim'])} {xs} {cb(bessel)} {tol} {lit_qs(fr_list(st[1]))} {lit_qs(fr_list(st[2]))}")
    live = h[1]
    if out["final"][1] is None:
        parts.append(cb(not live))
    elif not live:
        parts.append("false")
    else:
        c, sm, sq = out["final"][1]
        xs = cl([lit_case_tensor(x, case["scale"], dt) for x in live])
        parts.append(f"spec_buffers_okb {cz(case['dim'])} {xs} {tola} {cq(Fraction(c))} {lit_qs(fr_list(sm))} {lit_qs(fr_list(sq))}")
    ls = _last_stats(case, out)
    last = [("ok", ls[0], ls[1])] if ls is not None else []
    accs = [op for op in case["ops"] if op["op"] == "acc"]
    for op, f in zip(accs, out["fwd"] or []):
        if f[0] != "ok" or not last:
            continue
        parts.append(f"spec_norm_formula_okb {lit_case_tensor(op['x'], case['scale'], dt)} {cz(case['dim'])} "
                     f"{lit_qs(fr_list(last[-1][1]))} {lit_qs(fr_list(last[-1][2]))} {cq(Fraction(case['eps']))} "
                     f"{cq(_fwd_tol(case, f, last[-1]))} {lit_impl_tensor(f[1])}")
    return "(" + " && ".join(parts or ["true"]) + ")"


def ops_metamorphic(case, out, rng_seed):
    """Relations the property states, checked on the implementation alone:
    (a) any re-partition / re-ordering of the pooled frames gives the same buffers, mean and std;
    (b) normalising the pooled data with the stored statistics gives zero mean / unit variance."""
    import random
    from pydrobert.torch.modules import MeanVarianceNormalization

    ops = case["ops"]
    if out["final"][0] != "ok" or any(s[0] != "ok" for s in out["stores"]):
        return None
    if sum(1 for o in ops if o["op"] == "store") != 1 or ops[-1]["op"] != "store":
        return None
    dt = DT[case["dtype"]]
    xs = [mk(o["x"], case["scale"], dt) for o in ops if o["op"] == "acc"]
    try:
        frames = torch.cat([x.movedim(case["dim"], -1).reshape(-1, x.shape[case["dim"]]) for x in xs])
    except Exception:  # noqa: BLE001
        return None
    if frames.shape[0] < 2 or frames.shape[1] == 0:
        return None
    r = random.Random(rng_seed)
    perm = list(range(frames.shape[0]))
    r.shuffle(perm)
    frames2 = frames[perm]
    m2 = MeanVarianceNormalization(-1)
    i = 0
    while i < frames2.shape[0]:
        k = r.randint(1, max(1, frames2.shape[0] - i))
        ch = frames2[i:i + k]
        if r.random() < 0.3 and k % 2 == 0:
            ch = ch.reshape(2, k // 2, -1)
        m2.accumulate(ch)
        i += k
    bessel = ops[-1]["bessel"]
    m2.store(bessel=bessel)
    st = out["stores"][-1]
    if case.get("offgrid"):
        t = 1e-5 if case["dtype"] == "f32" else 1e-9
        same = (all(abs(a - b) <= t for a, b in zip(m2.mean.tolist(), st[1])) and
                all(abs(a * a - b * b) <= t for a, b in zip(m2.std.tolist(), st[2])) and finite(m2.std.tolist()))
    else:
        same = [float(v) for v in m2.mean.tolist()] == st[1] and [float(v) for v in m2.std.tolist()] == st[2]
    if not same:
        return {"what": "statistics depend on how the pooled frames were partitioned/ordered",
                "repartition": {"mean": m2.mean.tolist(), "std": m2.std.tolist()}, "original": {"mean": st[1], "std": st[2]}}
    if not (finite(st[1]) and finite(st[2])):
        return None
    if out["fwd"] and all(f[0] == "ok" for f in out["fwd"]) and case["dtype"] == "f64":  # (no "skip" entries)
        n = frames.shape[0]
        ys = []
        accs = [o for o in ops if o["op"] == "acc"]
        for o, f in zip(accs, out["fwd"]):
            y = torch.tensor(f[1]["data"], dtype=torch.double).reshape(f[1]["shape"])
            ys.append(y.movedim(case["dim"], -1).reshape(-1, frames.shape[1]))
        Y = torch.cat(ys)
        pvar = frames.double().var(0, unbiased=False)
        for i in range(frames.shape[1]):
            if pvar[i].item() < 1e-6 or st[2][i] < case["eps"]:
                continue
            mu = Y[:, i].mean().item()
            var = Y[:, i].var(unbiased=False).item()
            want = (n - 1) / n if bessel else 1.0
            thr = 1e-7
            if case.get("offset"):   # std^2 is only known to the conditioning bound of the statistic
                thr += 2 * _ops_offset_tol(case) / pvar[i].item()
            if abs(mu) > thr or abs(var - want) > thr:
                return {"what": "normalised pooled data do not have zero mean / unit variance",
                        "coefficient": i, "mean": mu, "var": var, "expected_var": want}
    return None


# ------------------------------------------------------------------------------------------
# norm: mean_var_norm with / without statistics
# ------------------------------------------------------------------------------------------
def _stat_tensor(vals, scale, dtype, layout):
    """a statistics vector: float64 (or float32) on the grid; layouts: None, 'step', 'off', 'expand' (all entries equal)"""
    if vals is None:
        return None
    v = torch.tensor([i / scale for i in vals], dtype=dtype)
    if layout == "expand" and len(set(vals)) != 1:
        layout = "off"
    return relayout(v, layout)


def _omit_defaults(pairs):
    """keyword arguments without those that equal the documented default (None vs explicit default)"""
    return dict((k, v) for k, v, d in pairs if not (v is d or (type(v) is type(d) and v == d)))


def run_norm(case):
    from pydrobert.torch.functional import mean_var_norm
    from pydrobert.torch.modules import MeanVarianceNormalization

    x = mkl(case["x"], case["scale"], DT[case.get("dtype", "f64")], case.get("layout"))
    sdt = DT[case.get("sdtype", "f64")]
    mean = _stat_tensor(case["mean"], case["scale"], sdt, case.get("slayout"))
    std = _stat_tensor(case["std"], case["scale"], sdt, case.get("slayout"))
    if case.get("alias") and mean is not None and case["mean"] == case["std"]:
        std = mean                                      # the same tensor object for both statistics
    dim, eps, via = case["dim"], case["eps"], case["via"]

    def make():
        if via == "module":
            m = MeanVarianceNormalization(dim, mean, std, eps)
            return lambda x_, mean_, std_: m(x_)
        if via == "script":
            m = torch.jit.script(MeanVarianceNormalization(dim=dim, mean=mean, std=std, eps=eps))
            return lambda x_, mean_, std_: m(x_)
        if via == "script_fn":
            f = torch.jit.script(mean_var_norm)
            return lambda x_, mean_, std_: f(x_, dim, mean_, std_, eps)
        if via == "kw":
            return lambda x_, mean_, std_: mean_var_norm(x=x_, dim=dim, mean=mean_, std=std_, eps=eps)
        if via == "defaults":
            return lambda x_, mean_, std_: mean_var_norm(x_, **_omit_defaults(
                [("dim", dim, -1), ("mean", mean_, None), ("std", std_, None), ("eps", eps, TINY)]))
        return lambda x_, mean_, std_: mean_var_norm(x_, dim, mean_, std_, eps)

    try:
        return call_twice(case, make, [x, mean, std], rtol=1e-12 if case.get("dtype", "f64") == "f64" else 1e-5)
    except Exception as e:  # noqa: BLE001  (constructor errors)
        return ("err", kind_of(e))


def norm_sigma(case):
    """sqrt oracle: torch's float64 biased std of each coefficient of the centred input."""
    if case["std"] is not None:
        return []
    x = mk(case["x"], case["scale"], torch.float64)
    D = x.dim()
    d = case["dim"]
    if d < -D or d >= D:
        return []
    X = x.shape[d]
    rows = x.movedim(d, 0).reshape(X, -1)
    if case["mean"] is not None:
        if len(case["mean"]) != X:
            return []
        rows = rows - torch.tensor([v / case["scale"] for v in case["mean"]], dtype=torch.float64).unsqueeze(1)
    if rows.shape[1] == 0:
        return [0.0] * X
    if case.get("offset"):
        # the variance does not move under a common shift: remove the first sample of each coefficient (exact on the grid)
        # so that the oracle itself is well conditioned (relative error ~1e-16 instead of ~1e-16 (M / sigma)^2)
        rows = rows - rows[:, :1]
    return [float(v) for v in rows.std(1, unbiased=False).tolist()]


def _norm_offset_tol(case, out):
    """conditioning bound of (x - mean) / max(std, eps) for the extreme-magnitude stream"""
    ymax = 1.0
    if out[0] == "ok" and out[1]["data"] and finite(out[1]["data"]):
        ymax = max(1.0, max(abs(v) for v in out[1]["data"]))
    x = mk(case["x"], case["scale"], torch.float64)
    X = x.shape[case["dim"]]
    rows = x.movedim(case["dim"], 0).reshape(X, -1)
    means = [v / case["scale"] for v in case["mean"]] if case["mean"] is not None else rows.mean(1).tolist()
    sig = [v / case["scale"] for v in case["std"]] if case["std"] is not None else norm_sigma(case)
    return norm_cond_tol(case.get("dtype", "f64"), means, [max(s, case["eps"]) for s in sig], case["mean"] is None, ymax)


def _lit_opt_ints(v, scale):
    return "None" if v is None else f"(Some {lit_qs([Fraction(i, scale) for i in v])})"


def norm_term(case, out):
    if out[0] == "err" and lit_err(out[1]) is None:
        return "false"
    mx = 1.0
    if out[0] == "ok" and out[1]["data"]:
        mx = max(1.0, max(abs(v) for v in out[1]["data"]))
    tol = TOL64 * Fraction(mx)
    if case.get("offset"):
        tol = _norm_offset_tol(case, out)
    return (f"check_norm {lit_case_tensor(case['x'], case['scale'])} {cz(case['dim'])} {_lit_opt_ints(case['mean'], case['scale'])} "
            f"{_lit_opt_ints(case['std'], case['scale'])} {cq(Fraction(case['eps']))} {lit_qs(fr_list(norm_sigma(case)))} "
            f"{cq(tol)} {lit_res_tensor(out)}")


def norm_spec_term(case, out):
    """own statistics: the output has zero mean and (where the variance is positive) unit variance"""
    if out[0] != "ok":
        return None
    if case["mean"] is not None and case["std"] is not None:
        mx = max([1.0] + [abs(v) for v in out[1]["data"]])
        return (f"spec_norm_formula_okb {lit_case_tensor(case['x'], case['scale'])} {cz(case['dim'])} "
                f"{lit_qs([Fraction(i, case['scale']) for i in case['mean']])} {lit_qs([Fraction(i, case['scale']) for i in case['std']])} "
                f"{cq(Fraction(case['eps']))} {cq(_norm_offset_tol(case, out) if case.get('offset') else TOL64 * Fraction(mx))} "
                f"{lit_impl_tensor(out[1])}")
    if case["mean"] is not None or case["std"] is not None:
        return None
    sig = norm_sigma(case)
    degenerate = cl([cb(s < max(case["eps"], 1e-6)) for s in sig])
    tol = Fraction(1, 10**7)
    if case.get("offset"):   # zero mean / unit variance of an output that is itself only known to the conditioning bound
        tol = max(tol, 4 * _norm_offset_tol(case, out) * Fraction(max([1.0] + [abs(v) for v in out[1]["data"]])))
    return (f"spec_normalised_okb {cz(case['dim'])} [{lit_impl_tensor(out[1])}] {cn(len(sig))} {cq(tol)} {degenerate}")


# ------------------------------------------------------------------------------------------
# deltas
# ------------------------------------------------------------------------------------------
MODULE_VIAS = ("module", "script", "module_kw")


def run_deltas(case):
    from pydrobert.torch.functional import feat_deltas
    from pydrobert.torch.modules import FeatureDeltas

    via = case["via"]
    # the module keeps float32 filters and does not convert them: it only accepts float32 input
    f32 = via in MODULE_VIAS or via == "fn32"
    x = mkl(case["x"], case["scale"], torch.float32 if f32 else torch.float64, case.get("layout"))
    value = case["value"] / case["scale"]
    a = (case["dim"], case["time_dim"], case["concatenate"], case["order"], case["width"], case["mode"], value)
    kw = dict(dim=a[0], time_dim=a[1], concatenate=a[2], order=a[3], width=a[4], pad_mode=a[5], value=a[6])

    def make():
        if via in MODULE_VIAS:
            m = FeatureDeltas(**kw) if via == "module_kw" else FeatureDeltas(*a)
            if via == "script":
                m = torch.jit.script(m)
            if case.get("warm"):
                # the module object has been used before, on other data of another shape
                for w in (x.flip(-1) * 3 - 1, torch.ones([3] * x.dim(), dtype=x.dtype).cumsum(0)):
                    try:
                        m(w)
                    except Exception:  # noqa: BLE001
                        pass
            return m
        if via == "script_fn":
            f = torch.jit.script(feat_deltas)
            return lambda x_: f(x_, *a)
        if via == "kw":
            return lambda x_: feat_deltas(x=x_, **kw)
        if via == "defaults":
            return lambda x_: feat_deltas(x_, **_omit_defaults(
                [("dim", a[0], -1), ("time_dim", a[1], -2), ("concatenate", a[2], True), ("order", a[3], 2),
                 ("width", a[4], 2), ("pad_mode", a[5], "replicate"), ("value", a[6], 0.0)]))
        return lambda x_: feat_deltas(x_, *a)

    try:
        return call_twice(case, make, [x], rtol=1e-5 if f32 else 1e-11)
    except Exception as e:  # noqa: BLE001  (constructor errors)
        return ("err", kind_of(e))


def _deltas_args(case):
    return (f"{lit_case_tensor(case['x'], case['scale'])} {cz(case['dim'])} {cz(case['time_dim'])} {cb(case['concatenate'])}")


def _deltas_tol(case):
    """1e-5 for |x| <= 8 (the composite filters are built in float32).  Extreme-magnitude stream: each of the `order` kernel
    applications carries coefficients rounded to float32 (sum |w_k| = 3/(2 width + 1) <= 1) and the module convolves in float32:
    |error| <= 2 (order + 2) u32 max|x|"""
    if not (case.get("offset") or case.get("magtol")):     # magtol: size cases (|x| up to ~130, orders up to 128)
        return Fraction(1, 10**5)
    M = max(_case_max_abs([case["x"]], case["scale"]), abs(case["value"]) / case["scale"])
    return Fraction(1, 10**5) + Fraction(2 * (max(case["order"], 0) + 2) * UNIT["f32"] * M * 1.01)


def deltas_term(case, out):
    if out[0] == "err" and lit_err(out[1]) is None:
        return "false"
    return (f"check_deltas {_deltas_args(case)} {cz(case['order'])} {cz(case['width'])} {CMODE[case['mode']]} "
            f"{cq(Fraction(case['value'], case['scale']))} {cq(_deltas_tol(case))} {lit_res_tensor(out)}")


def deltas_spec_term(case, out):
    if out[0] != "ok" or case["order"] < 0 or case["width"] < 1:
        return None
    return (f"spec_deltas_okb {_deltas_args(case)} {cn(case['order'])} {cn(case['width'])} {CMODE[case['mode']]} "
            f"{cq(Fraction(case['value'], case['scale']))} {cq(_deltas_tol(case))} {lit_impl_tensor(out[1])}")


def deltas_metamorphic(case, out):
    """concatenation = stacking at the same position followed by merging the two axes; the module equals the function"""
    from pydrobert.torch.functional import feat_deltas
    from pydrobert.torch.modules import FeatureDeltas

    if out[0] != "ok":
        return None
    x = mk(case["x"], case["scale"], torch.float64)
    value = case["value"] / case["scale"]
    args = (case["order"], case["width"], case["mode"], value)
    y = torch.tensor(out[1]["data"], dtype=torch.double).reshape(out[1]["shape"])
    D = x.dim()
    atol = 1e-4 + 2 * float(_deltas_tol(case))
    if case["concatenate"]:
        d = case["dim"] % D
        s = feat_deltas(x, d, case["time_dim"], False, *args)
        if s.flatten(d, d + 1).shape != y.shape or not torch.allclose(s.flatten(d, d + 1), y, atol=atol, rtol=0):
            return {"what": "concatenated deltas differ from stacked deltas merged along the same dimension"}
    other = (FeatureDeltas(case["dim"], case["time_dim"], case["concatenate"], *args)(x.float())
             if case["via"] not in MODULE_VIAS else feat_deltas(x, case["dim"], case["time_dim"], case["concatenate"], *args))
    if other.shape != y.shape or not torch.allclose(other.double(), y, atol=atol, rtol=0):
        return {"what": "FeatureDeltas module and feat_deltas function disagree"}
    return None


# ------------------------------------------------------------------------------------------
# returns
# ------------------------------------------------------------------------------------------
def _gamma(case):
    g = case["gamma"]
    return float(Fraction(g[0], g[1])) if isinstance(g, list) else float(g)


def run_return(case):
    from pydrobert.torch.functional import time_distributed_return
    from pydrobert.torch.modules import TimeDistributedReturn

    r = mkl(case["r"], case["scale"], DT[case.get("dtype", "f64")], case.get("layout"))
    g = _gamma(case)
    if case.get("gamma_int") and g == int(g):
        g = int(g)                      # a Python int where a float is documented (0 and 1 are the usual ones)
    bf, via = case["bf"], case["via"]

    def make():
        if via == "module":
            return TimeDistributedReturn(g, bf)
        if via == "module_kw":
            return TimeDistributedReturn(gamma=g, batch_first=bf)
        if via == "script":
            return torch.jit.script(TimeDistributedReturn(float(g), bf))
        if via == "script_fn":
            f = torch.jit.script(time_distributed_return)
            return lambda r_: f(r_, float(g), bf)
        if via == "kw":
            return lambda r_: time_distributed_return(r=r_, gamma=g, batch_first=bf)
        if via == "defaults":
            return lambda r_: time_distributed_return(r_, g, **_omit_defaults([("batch_first", bf, False)]))
        return lambda r_: time_distributed_return(r_, g, bf)

    try:
        return call_twice(case, make, [r], rtol=1e-5 if case.get("dtype", "f64") == "f32" else 1e-11)
    except Exception as e:  # noqa: BLE001  (constructor errors)
        return ("err", kind_of(e))


def _return_abs_scale(case):
    """per position (t, n): S_t = sum_{t' >= t} |gamma|^(t'-t) |r_t'| -- the quantity every rounding of the discounted
    sum is relative to; returned as a flat list in the layout of r (None when r is not a matrix)"""
    sh = case["r"]["shape"]
    if len(sh) != 2:
        return None
    T, N = (sh[1], sh[0]) if case["bf"] else (sh[0], sh[1])
    g = abs(_gamma(case))
    data = [abs(i) / case["scale"] for i in case["r"]["data"]]
    S = [0.0] * (T * N)
    for n in range(N):
        acc = 0.0
        for t in range(T - 1, -1, -1):
            k = n * T + t if case["bf"] else t * N + n
            acc = data[k] + g * acc
            S[k] = acc
    return S, T


def _return_f32_bound(case):
    """float32: R_t is a dot product of powers gamma^k (gamma rounded to float32: k u32; pow: 2 ulp) with the rewards,
    accumulated in float32 (T u32): |error| <= (2T + 8) u32 S_t; one number for the tensor = the largest S_t"""
    st = _return_abs_scale(case)
    if st is None or not st[0]:
        return 0.0
    S, T = st
    return (2 * T + 8) * UNIT["f32"] * max(S) * 1.01 + 1e-30


def return_tol(case, out):
    g = _gamma(case)
    if case.get("dtype", "f64") == "f32":
        return Fraction(_return_f32_bound(case))
    if case.get("exact"):
        return Fraction(0)
    mx = 1.0
    if out[0] == "ok" and out[1]["data"] and finite(out[1]["data"]):
        mx = max(1.0, max(abs(v) for v in out[1]["data"]))
    return TOL64 * Fraction(mx)


def return_term(case, out):
    if out[0] == "err" and lit_err(out[1]) is None:
        return "false"
    return (f"check_return {lit_case_tensor(case['r'], case['scale'])} {cq(Fraction(_gamma(case)))} {cb(case['bf'])} "
            f"{cq(return_tol(case, out))} {lit_res_tensor(out)}")


def return_spec_term(case, out):
    if out[0] != "ok" or len(case["r"]["shape"]) != 2:
        return None
    return (f"spec_return_okb {lit_case_tensor(case['r'], case['scale'])} {cq(Fraction(_gamma(case)))} {cb(case['bf'])} "
            f"{cq(return_tol(case, out))} {lit_impl_tensor(out[1])}")


def return_python_spec(case, out):
    """R_t = r_t + gamma R_(t+1) evaluated exactly (Fractions) and compared with the float output;
    used for the long horizons that are too big for vm_compute, and for non-finite policing."""
    if out[0] != "ok" or len(case["r"]["shape"]) != 2:
        return None
    sh = case["r"]["shape"]
    T, N = (sh[1], sh[0]) if case["bf"] else (sh[0], sh[1])
    g = Fraction(_gamma(case))
    data = [Fraction(i, case["scale"]) for i in case["r"]["data"]]

    def at(t, n):
        return data[n * T + t] if case["bf"] else data[t * N + n]

    f32 = case.get("dtype", "f64") == "f32"
    S = _return_abs_scale(case)[0] if f32 else None
    if out[1]["shape"] != sh:
        return {"what": "return has the wrong shape", "shape": out[1]["shape"]}
    if not finite(out[1]["data"]):
        bad = [i for i, v in enumerate(out[1]["data"]) if not math.isfinite(v)][:5]
        return {"what": "time_distributed_return produced non-finite values although every true return is far below overflow",
                "flat_positions": bad}
    for n in range(N):
        R = Fraction(0)
        for t in range(T - 1, -1, -1):
            R = at(t, n) + g * R
            got = out[1]["data"][n * T + t] if case["bf"] else out[1]["data"][t * N + n]
            want = float(R)
            if f32:
                k = n * T + t if case["bf"] else t * N + n
                bad = abs(got - want) > (2 * T + 8) * UNIT["f32"] * 1.01 * S[k] + 1e-30
            else:
                bad = abs(got - want) > 1e-9 * max(1.0, abs(want))
            if bad:
                return {"what": "R_t differs from r_t + gamma * R_(t+1)", "t": t, "n": n, "got": got, "expected": want}
    return None


# ------------------------------------------------------------------------------------------
# command line
# ------------------------------------------------------------------------------------------
def _cmd_names(case):
    """(prefix, suffix, id -> id string, gid -> gid string): the default scheme u%03d / g%d, or the unusual-but-legal names of
    the `names` option (ids that are prefixes of each other or contain the prefix / suffix, group ids like 'None', '1', 'g1'
    vs 'g10')"""
    nm = case.get("names")
    ids = sorted(set([f["id"] for f in case["files"]] + [i for i, _ in (case["id2gid"] or [])]))
    gids = sorted(set(g for _, g in (case["id2gid"] or [])))
    if not nm:
        return "", ".pt", dict((i, "u%03d" % i) for i in ids), dict((g, "g%d" % g) for g in gids)
    return (nm["prefix"], nm["suffix"], dict((i, nm["ids"][k % len(nm["ids"])] + ("" if k < len(nm["ids"]) else str(k)))
                                               for k, i in enumerate(ids)),
            dict((g, nm["gids"][k % len(nm["gids"])] + ("" if k < len(nm["gids"]) else str(k))) for k, g in enumerate(gids)))


def _cmd_sorted_files(case):
    """the order in which the command visits the files: sorted by id string"""
    idn = _cmd_names(case)[2]
    return sorted(case["files"], key=lambda f: idn[f["id"]])


def run_cmd(case, workdir):
    from pydrobert.torch import command_line

    d = os.path.join(str(workdir), "cmd-%d" % os.getpid())
    shutil.rmtree(d, ignore_errors=True)
    os.makedirs(os.path.join(d, "feat"))
    prefix, suffix, idn, gidn = _cmd_names(case)
    try:
        for f in case["files"]:
            torch.save(mk(f["x"], case["scale"], DT[case["dtype"]]), os.path.join(d, "feat", prefix + idn[f["id"]] + suffix))
        for name in case.get("junk", []):
            open(os.path.join(d, "feat", name), "w").write("not a feature file")
        for name in (case.get("names") or {}).get("decoys", []):
            # tensors the command must not read: neither prefix + id + suffix; far-off values would move the statistics
            if name not in os.listdir(os.path.join(d, "feat")):
                sh = case["files"][0]["x"]["shape"] if case["files"] else [2, 2]
                torch.save(torch.full(sh, 1000.0, dtype=DT[case["dtype"]]), os.path.join(d, "feat", name))
        args = [os.path.join(d, "feat"), os.path.join(d, "out.pt"), "--dim", str(case["dim"]),
                "--num-workers", str(case.get("num_workers", 0))]
        if case.get("names"):
            args += ["--file-prefix", prefix, "--file-suffix", suffix]
        if case["bessel"]:
            args.append("--bessel")
        if case["id2gid"] is not None:
            p = os.path.join(d, "id2gid")
            with open(p, "w") as fh:
                for i, g in case["id2gid"]:
                    fh.write("%s %s\n" % (idn[i], gidn[g]))
                    if case.get("blank_lines"):
                        fh.write("\n")
            args += ["--id2gid", p]
        try:
            with open(os.devnull, "w") as devnull:
                import contextlib
                with contextlib.redirect_stderr(devnull):
                    rc = command_line.compute_mvn_stats_for_torch_feat_data_dir(args)
        except Exception as e:  # noqa: BLE001
            return ("exc", exc_kind(e))
        if rc:
            return ("ret", int(rc))
        res = torch.load(os.path.join(d, "out.pt"))
        if case["id2gid"] is None:
            groups = [[0, res["mean"].tolist(), res["std"].tolist()]]
        else:
            back = dict((v, k) for k, v in gidn.items())
            groups = [[back.get(k, 10 ** 6), v["mean"].tolist(), v["std"].tolist()] for k, v in res.items()]
        return ("ok", groups)
    finally:
        shutil.rmtree(d, ignore_errors=True)


def cmd_nonfinite(out):
    return out[0] == "ok" and not all(finite(g[1]) and finite(g[2]) for g in out[1])


def cmd_term(case, out):
    files = cl([cp(cn(f["id"]), lit_case_tensor(f["x"], case["scale"])) for f in _cmd_sorted_files(case)])
    id2gid = "None" if case["id2gid"] is None else "(Some " + cl([cp(cn(i), cn(g)) for i, g in case["id2gid"]]) + ")"
    if out[0] == "ret":
        impl = "CmdRet1" if out[1] == 1 else None
    elif out[0] == "exc":
        impl = None if lit_err(out[1]) is None else "(CmdExc " + lit_err(out[1])[5:-1] + ")"
    else:
        impl = "(CmdOk " + cl([cp(cn(g[0]), cp(lit_qs(fr_list(g[1])), lit_qs(fr_list(g[2])))) for g in out[1]]) + ")"
    if impl is None:
        return "false"
    return f"check_cmd {files} {id2gid} {cz(case['dim'])} {cb(case['bessel'])} {cq(TOL64)} {impl}"


def cmd_spec_term(case, out):
    """every reported group has the pooled statistics of the files mapped to it"""
    if out[0] != "ok":
        return None
    m = None if case["id2gid"] is None else dict((i, g) for i, g in case["id2gid"])
    parts = []
    for g in out[1]:
        xs = [f["x"] for f in case["files"] if (m is None or m.get(f["id"]) == g[0])]
        parts.append(f"spec_stats_okb {cz(case['dim'])} {cl([lit_case_tensor(x, case['scale']) for x in xs])} {cb(case['bessel'])} "
                     f"{cq(TOL64)} {lit_qs(fr_list(g[1]))} {lit_qs(fr_list(g[2]))}")
    return "(" + " && ".join(parts or ["true"]) + ")"


# ------------------------------------------------------------------------------------------
# dispatch
# ------------------------------------------------------------------------------------------
def run_impl(case, workdir):
    _SIDE.pop(id(case), None)
    k = case["kind"]
    if k == "ops":
        return run_ops(case)
    if k == "norm":
        return run_norm(case)
    if k == "deltas":
        return run_deltas(case)
    if k == "return":
        return run_return(case)
    return run_cmd(case, workdir)


def model_term(case, out):
    k = case["kind"]
    if k == "return" and case.get("python_only"):
        return "true"
    return {"ops": ops_term, "norm": norm_term, "deltas": deltas_term, "return": return_term, "cmd": cmd_term}[k](case, out)


def spec_term(case, out):
    k = case["kind"]
    return {"ops": ops_spec_term, "norm": norm_spec_term, "deltas": deltas_spec_term, "return": return_spec_term,
            "cmd": cmd_spec_term}[k](case, out)


def nonfinite(case, out):
    k = case["kind"]
    if k == "ops":
        return ops_nonfinite(out)
    if k in ("norm", "deltas", "return"):
        return "non-finite output" if res_nonfinite(out) else None
    return "non-finite group statistics" if cmd_nonfinite(out) else None


def nontrivial(case):
    k = case["kind"]
    if k == "ops":
        accs = [o for o in case["ops"] if o["op"] == "acc"]
        return len(accs) >= 2 and any(o["op"] == "store" for o in case["ops"])
    if k == "norm":
        return numel(case["x"]["shape"]) >= 2
    if k == "deltas":
        return case["order"] >= 1 and numel(case["x"]["shape"]) >= 2
    if k == "return":
        sh = case["r"]["shape"]
        return len(sh) == 2 and (sh[1] if case["bf"] else sh[0]) >= 2 and numel(sh) > 0
    return len(case["files"]) >= 2


# ------------------------------------------------------------------------------------------
# generators
# ------------------------------------------------------------------------------------------
def rand_tensor(rng, shape, lo=-8, hi=8):
    return {"shape": list(shape), "data": [rng.randint(lo, hi) for _ in range(numel(shape))]}


def ordered_partitions(items):
    """all ways to split a set into an ordered sequence of non-empty blocks (blocks keep a canonical inner order,
    and every permutation inside a block is taken on alternate blocks by the caller)"""
    if not items:
        yield []
        return
    n = len(items)
    for r in range(1, n + 1):
        for first in itertools.combinations(range(n), r):
            rest = [items[i] for i in range(n) if i not in first]
            for tail in ordered_partitions(rest):
                yield [[items[i] for i in first]] + tail


def gen_ops_exhaustive(chk, thorough):
    frames = [[1, -2], [3, 5], [-4, 5], [7, 0], [2, 2]]
    frames = frames if thorough else frames[:4]
    cases = []
    for k, part in enumerate(ordered_partitions(frames)):
        ops = []
        for b, block in enumerate(part):
            blk = list(reversed(block)) if (k + b) % 2 else block
            ops.append({"op": "acc", "x": {"shape": [len(blk), 2], "data": [v for f in blk for v in f]}})
        if k % 3 == 1 and len(ops) >= 2:   # store(delete_stats=False) mid-way, every other time twice in a row
            mid = [{"op": "store", "delete": False, "bessel": k % 2 == 0}]
            if k % 6 == 1:
                mid.append({"op": "store", "delete": False, "bessel": k % 2 == 1})
            cut = 1 + (k // 3) % (len(ops) - 1)
            ops = ops[:cut] + mid + ops[cut:]
        ops.append({"op": "store", "delete": k % 3 == 0, "bessel": k % 2 == 1})
        if k % 5 == 2:                     # and a repeated final store
            ops.append({"op": "store", "delete": False, "bessel": k % 2 == 0})
        cases.append(dict(kind="ops", dim=-1, scale=4, dtype="f64", eps=TINY, ops=ops, stream="exhaustive"))
    return cases


def gen_ops_random(rng, malformed=False):
    dim = rng.choice([-1, -1, -2, 0, 1, -3, 2])
    X = rng.choice([1, 2, 2, 3, 4])
    ops = []
    nacc = rng.choice([1, 2, 2, 3, 4, 5])
    nd_min = dim + 1 if dim >= 0 else -dim
    for i in range(nacc):
        D = rng.randint(nd_min, max(nd_min, 3) + (1 if rng.random() < 0.2 else 0))
        shape = [rng.choice([1, 1, 2, 2, 3, 4, 0] if rng.random() < 0.15 else [1, 2, 2, 3, 4]) for _ in range(D)]
        shape[dim] = X
        if malformed and i > 0 and rng.random() < 0.5:
            what = rng.choice(["size1", "size", "ndim"])
            if what == "size1":
                shape[dim] = 1
            elif what == "size":
                shape[dim] = X + 1
            else:
                shape = shape[:max(nd_min - 1, 0)]
        ops.append({"op": "acc", "x": rand_tensor(rng, shape)})
        if rng.random() < 0.2:
            ops.append({"op": "store", "delete": rng.random() < 0.5, "bessel": rng.random() < 0.5})
    if rng.random() < 0.06:
        ops = [o for o in ops if o["op"] != "acc"]
    ops.append({"op": "store", "delete": rng.random() < 0.5, "bessel": rng.random() < 0.5})
    return dict(kind="ops", dim=dim, scale=rng.choice([1, 4]), dtype=rng.choice(["f64", "f64", "f32"]),
                eps=rng.choice([TINY, 1e-5, 0.5, 3.0]), ops=ops, stream="malformed" if malformed else "random")


def gen_ops_history(rng):
    """histories around non-deleting stores: accumulate*, store(delete_stats=False), [store again], accumulate*, store, ..."""
    dim = rng.choice([-1, -1, 0, 1, -2])
    X = rng.choice([1, 2, 3])
    nd_min = dim + 1 if dim >= 0 else -dim

    def acc():
        D = rng.randint(nd_min, max(nd_min, 3))
        shape = [rng.choice([1, 2, 2, 3]) for _ in range(D)]
        shape[dim] = X
        return {"op": "acc", "x": rand_tensor(rng, shape)}

    ops = [acc() for _ in range(rng.choice([1, 2, 3]))]
    for stage in range(rng.choice([1, 2, 2, 3])):
        ops.append({"op": "store", "delete": False if stage == 0 else rng.random() < 0.3, "bessel": rng.random() < 0.5})
        if rng.random() < 0.4:   # a repeated store with nothing in between
            ops.append({"op": "store", "delete": False, "bessel": rng.random() < 0.5})
        ops += [acc() for _ in range(rng.choice([0, 1, 1, 2]))]
    ops.append({"op": "store", "delete": rng.random() < 0.5, "bessel": rng.random() < 0.5})
    return dict(kind="ops", dim=dim, scale=rng.choice([1, 4]), dtype=rng.choice(["f64", "f64", "f32"]),
                eps=rng.choice([TINY, 1e-5, 0.5]), ops=ops, stream="history")


def gen_ops_offgrid(rng):
    """regime N: data OFF the dyadic grid (tenths) with a coefficient that is constant over the pooled frames; the float
    variance sumsq/n - mean^2 then rounds to about -1e-18 and an unclamped sqrt gives NaN"""
    X = rng.choice([1, 2, 3])
    const = rng.randrange(X)
    cval = rng.choice([1, 2, 3, 7, 11, 13, 23, 47, -3, -9])
    ops = []
    for _ in range(rng.choice([1, 2, 3])):
        n = rng.choice([1, 2, 3, 5, 7])
        data = []
        for _ in range(n):
            data += [cval if j == const else rng.randint(-30, 30) for j in range(X)]
        ops.append({"op": "acc", "x": {"shape": [n, X], "data": data}})
    if sum(o["x"]["shape"][0] for o in ops) < 2:
        ops.append(dict(ops[0]))
    ops.append({"op": "store", "delete": rng.random() < 0.5, "bessel": rng.random() < 0.5})
    return dict(kind="ops", dim=-1, scale=10, dtype="f64", eps=rng.choice([TINY, 1e-5, 0.5]), offgrid=True, ops=ops,
                stream="offgrid")


def gen_norm_random(rng, malformed=False):
    D = rng.randint(1, 4)
    shape = [rng.choice([1, 2, 2, 3, 4]) for _ in range(D)]
    dim = rng.randint(-D, D - 1)
    X = shape[dim]
    if rng.random() < 0.15:  # a constant coefficient
        x = rand_tensor(rng, shape)
        t = torch.tensor(x["data"]).reshape(shape)
        t.movedim(dim, 0)[rng.randrange(X)] = rng.randint(-8, 8)
        x["data"] = [int(v) for v in t.flatten().tolist()]
    else:
        x = rand_tensor(rng, shape)
    mean = [rng.randint(-8, 8) for _ in range(X)] if rng.random() < 0.5 else None
    std = [rng.choice([0, 1, 2, 3, 5, 8, 12]) for _ in range(X)] if rng.random() < 0.5 else None
    if malformed:
        what = rng.choice(["dim", "mean", "std"])
        if what == "dim":
            dim = rng.choice([D, -D - 1, D + 1])
        elif what == "mean":
            mean = [1] * (X + rng.choice([1, 2]))
        else:
            std = [1] * (X + rng.choice([1, 2]))
    via = "module" if (rng.random() < 0.5 and (mean is None or len(mean)) and (std is None or len(std))) else "function"
    if via == "module" and mean is not None and std is not None and len(mean) != len(std):
        via = "function"
    eps = rng.choice([TINY, 1e-5, 3.0, 0.5])
    if std is not None and min(std) > 0 and rng.random() < 0.3:
        eps = 0.0
    return dict(kind="norm", x=x, scale=4, dim=dim, mean=mean, std=std, eps=eps,
                via=via, stream="malformed" if malformed else "random")


def _min_T(mode, order, width):
    p = order * width
    return {"replicate": 1, "constant": 1, "reflect": p + 1, "circular": max(p, 1)}[mode]


def deltas_layouts(maxD):
    for D in range(1, maxD + 1):
        for td in range(-D, D):
            for conc in (True, False):
                DD = D if conc else D + 1
                for dim in range(-DD, DD):
                    yield D, td, conc, dim


def gen_deltas_exhaustive(chk, thorough):
    cases = []
    opts = [(o, w, m) for o in range(0, 4) for w in range(1, 4) for m in MODES]
    k = 0
    sizes = [2, 3, 2, 1]
    for D, td, conc, dim in deltas_layouts(4):
        if thorough:
            chosen = [opts[(k * 7 + j * 5) % len(opts)] for j in range(16)]
        else:
            chosen = [opts[(k * 7) % len(opts)]] if (D < 4 or k % 3 == 0) else []
        for (o, w, m) in chosen:
            shape = [sizes[(i + k) % 4] for i in range(D)]
            shape[td] = max(_min_T(m, o, w), 2 + k % 2)
            data = [((i * 7 + k * 3) % 17) - 8 for i in range(numel(shape))]
            cases.append(dict(kind="deltas", x={"shape": shape, "data": data}, scale=1, dim=dim, time_dim=td,
                              concatenate=conc, order=o, width=w, mode=m, value=((k % 5) - 2) if m == "constant" else 0,
                              via="module" if k % 2 else "function", stream="exhaustive"))
        k += 1
    return cases


def gen_deltas_random(rng, malformed=False):
    D = rng.randint(1, 4)
    order = rng.choice([0, 1, 1, 2, 2, 3])
    width = rng.choice([1, 1, 2, 2, 3])
    mode = rng.choice(MODES)
    td = rng.randint(-D, D - 1)
    conc = rng.random() < 0.5
    DD = D if conc else D + 1
    dim = rng.randint(-DD, DD - 1)
    shape = [rng.choice([1, 2, 2, 3]) for _ in range(D)]
    mt = _min_T(mode, order, width)
    shape[td] = mt + rng.choice([0, 0, 1, 2, 3])
    if rng.random() < 0.05:
        shape[rng.randrange(D)] = 0 if D > 1 else shape[0]
        if shape[td] == 0:
            shape[td] = mt
    via = rng.choice(["module", "function"])
    if malformed:
        what = rng.choice(["dim", "time_dim", "order", "width", "short", "T0"])
        via = "function"
        if what == "dim":
            dim = rng.choice([DD, -DD - 1])
        elif what == "time_dim":
            td_bad = rng.choice([D, -D - 1])
            td = td_bad
        elif what == "order":
            order = -1
        elif what == "width":
            width = rng.choice([0, -1])
        elif what == "short":
            mode = rng.choice(["reflect", "circular"])
            order, width = max(order, 1), width
            shape[td] = max(1, _min_T(mode, order, width) - rng.choice([1, 1, 2]))
        else:
            shape[td] = 0
    value = rng.randint(-8, 8) if (mode == "constant" or rng.random() < 0.04) else 0
    return dict(kind="deltas", x=rand_tensor(rng, shape), scale=rng.choice([1, 4]), dim=dim, time_dim=td, concatenate=conc,
                order=order, width=width, mode=mode, value=value, via=via,
                stream="malformed" if malformed else "random")


EXACT_GAMMAS = [[0, 1], [1, 2], [1, 1], [3, 2], [3, 1], [-1, 1], [2, 1], [1, 4], [-1, 2]]


def gen_return_exhaustive(chk, thorough):
    cases = []
    k = 0
    for T in range(0, 6 if thorough else 5):
        for N in range(0, 3):
            for g in EXACT_GAMMAS[:9 if thorough else 6]:
                for bf in (False, True):
                    shape = [N, T] if bf else [T, N]
                    data = [((i * 5 + k) % 13) - 6 for i in range(T * N)]
                    cases.append(dict(kind="return", r={"shape": shape, "data": data}, scale=1, gamma=g, bf=bf, exact=True,
                                      via="module" if k % 2 else "function", stream="exhaustive"))
                    k += 1
    return cases


def gen_return_random(rng, malformed=False):
    T, N = rng.randint(0, 12), rng.randint(0, 4)
    bf = rng.random() < 0.5
    shape = [N, T] if bf else [T, N]
    if malformed:
        shape = rng.choice([[rng.randint(0, 3)], [2, 2, 2], []])
    if rng.random() < 0.6 or malformed:
        g, exact = rng.choice(EXACT_GAMMAS), True
    else:
        g, exact = rng.choice([0.9, 0.99, 0.1, 1.1, 0.3, -0.7, 2.5]), False
    return dict(kind="return", r=rand_tensor(rng, shape), scale=rng.choice([1, 4]) if not exact else 1, gamma=g, bf=bf,
                exact=exact, via="function" if malformed else rng.choice(["module", "function"]),
                stream="malformed" if malformed else "random")


def gen_return_long(rng, thorough):
    """regime N: long horizons and gamma > 1 (the unfixed gamma^t'/gamma^t form returned NaN here)"""
    cases = []
    combos = [(0.5, 150), (0.5, 1100), (0.9, 1100), (1.0, 400), (1.5, 1100), (3.0, 100), (3.0, 600), (0.25, 600)]
    for i, (g, T) in enumerate(combos):
        for bf in ((False, True) if thorough else (bool(i % 2),)):
            N = 2
            shape = [N, T] if bf else [T, N]
            cases.append(dict(kind="return", r=rand_tensor(rng, shape, -3, 3), scale=1, gamma=g, bf=bf, exact=False,
                              python_only=True, via="function", stream="long-horizon"))
    # mid-size horizons that the model still evaluates
    for g, T in [([1, 2], 80), ([3, 1], 60), (0.9, 40)]:
        cases.append(dict(kind="return", r=rand_tensor(rng, [T, 1], -3, 3), scale=1, gamma=g, bf=False,
                          exact=False, via="function", stream="long-horizon"))
    return cases


# ---- extreme-magnitude regime -------------------------------------------------------------------------------------
def _offsets(rng, X, scale):
    """per coefficient: a common offset of magnitude 1e3..1e4 (either sign), on the grid 1/scale"""
    return [rng.choice([1, 1, -1]) * (rng.choice([rng.randint(1000, 2000), rng.randint(2000, 10000), 8191, 8192, 10000]) * scale
                                      + rng.randrange(scale)) for _ in range(X)]


def _offset_tensor(rng, shape, dim, offs, scale):
    """unit spread around the offsets: ints/scale with |deviation| <= 2"""
    t = torch.zeros(shape, dtype=torch.long)
    v = t.movedim(dim, -1)
    for idx in itertools.product(*[range(n) for n in v.shape]):
        v[idx] = offs[idx[-1]] + rng.randint(-2 * scale, 2 * scale)
    return {"shape": list(shape), "data": [int(x) for x in t.flatten().tolist()]}


def gen_norm_offset(rng):
    """mean_var_norm on features with a large common offset, float64 and float32 (every value is exactly representable in
    both: |int| < 2^24); tolerance = conditioning of (x - mean) / max(std, eps), see norm_cond_tol"""
    D = rng.choice([2, 2, 3])
    shape = [rng.choice([2, 3, 4, 5]) for _ in range(D)]
    dim = rng.randint(-D, D - 1)
    X = shape[dim]
    scale = rng.choice([1, 4, 8])
    offs = _offsets(rng, X, scale)
    x = _offset_tensor(rng, shape, dim, offs, scale)
    mean = [o + rng.randint(-scale, scale) for o in offs] if rng.random() < 0.35 else None
    std = [rng.choice([1, 2, 3, 5, 8]) * rng.choice([1, scale]) for _ in range(X)] if rng.random() < 0.3 else None
    return dict(kind="norm", x=x, scale=scale, dim=dim, mean=mean, std=std, eps=rng.choice([TINY, 1e-5, 0.5]),
                via=rng.choice(["module", "function"]), dtype=rng.choice(["f64", "f32"]), offset=True, stream="offset")


def gen_ops_offset(rng, dtype):
    """accumulate / store on features with a large common offset.  Sums and sums of squares of the dyadic data are exactly
    representable in the float64 buffers; store() is judged with the conditioning bound offset_var_tol."""
    dim = rng.choice([-1, -1, 0, 1])
    X = rng.choice([1, 2, 3])
    scale = rng.choice([1, 4, 8])
    offs = _offsets(rng, X, scale)
    nd_min = dim + 1 if dim >= 0 else -dim
    ops = []
    for _ in range(rng.choice([1, 2, 3])):
        D = max(nd_min, rng.choice([2, 2, 3]))
        shape = [rng.choice([2, 3, 4, 6]) for _ in range(D)]
        shape[dim] = X
        ops.append({"op": "acc", "x": _offset_tensor(rng, shape, dim, offs, scale)})
        if rng.random() < 0.25:
            ops.append({"op": "store", "delete": False, "bessel": rng.random() < 0.5})
    ops.append({"op": "store", "delete": rng.random() < 0.5, "bessel": rng.random() < 0.5})
    return dict(kind="ops", dim=dim, scale=scale, dtype=dtype, eps=rng.choice([TINY, 1e-5]), offset=True, ops=ops,
                stream="offset")


def gen_deltas_offset(rng):
    """feat_deltas / FeatureDeltas on features with a common offset of magnitude 1e3..1e4 (regression deltas of a constant are
    0: the float32 filter coefficients leave a residue proportional to the offset, see _deltas_tol)"""
    c = gen_deltas_random(rng)
    off = rng.choice([1, -1]) * rng.randint(1000, 10000) * c["scale"]
    c["x"] = dict(c["x"], data=[v + off for v in c["x"]["data"]])
    if c["mode"] == "constant":
        c["value"] = rng.choice([0, off, off + rng.randint(-8, 8)])
    c.update(offset=True, stream="offset")
    return c


def gen_return_f32(rng, thorough):
    """float32 rewards: random short horizons (every gamma of the float64 stream) and long horizons whose true returns stay
    far below the float32 range; judged with the dot-product bound _return_f32_bound and policed for non-finite values"""
    cases = []
    for _ in range(40 * (8 if thorough else 1)):
        c = gen_return_random(rng)
        c.update(dtype="f32", stream="float32")
        cases.append(c)
    combos = [(0.5, 150), (0.5, 400), (0.9, 1100), (1.0, 400), (0.25, 200), (1.5, 150), (3.0, 60), (-0.5, 300), (0.99, 700)]
    for i, (g, T) in enumerate(combos):
        for bf in ((False, True) if thorough else (bool(i % 2),)):
            shape = [2, T] if bf else [T, 2]
            cases.append(dict(kind="return", r=rand_tensor(rng, shape, -3, 3), scale=1, gamma=g, bf=bf, exact=False,
                              python_only=True, via="function", dtype="f32", stream="float32"))
    return cases


def gen_cmd_random(rng, malformed=False):
    dim = rng.choice([-1, -1, 0, 1, -2])
    X = rng.choice([1, 2, 3])
    n = rng.choice([1, 2, 3, 4, 5])
    ids = rng.sample(range(0, 40), n)
    files = []
    nd_min = dim + 1 if dim >= 0 else -dim
    for i in ids:
        D = rng.randint(nd_min, max(nd_min, 3))
        shape = [rng.choice([1, 2, 3, 4]) for _ in range(D)]
        shape[dim] = X
        files.append({"id": i, "x": rand_tensor(rng, shape)})
    id2gid = None
    if rng.random() < 0.6:
        ng = rng.choice([1, 2, 3])
        id2gid = [[i, rng.randrange(ng)] for i in ids]
        rng.shuffle(id2gid)
        if rng.random() < 0.3:  # a listed id without a file: its group may stay empty
            id2gid.append([41 + rng.randrange(5), ng])
    if malformed:
        what = rng.choice(["unlisted", "duplicate", "empty", "single-frame", "dim"])
        if what == "unlisted":
            id2gid = [[i, 0] for i in ids[:-1]] + [[77, 1]]
        elif what == "duplicate":
            id2gid = [[i, 0] for i in ids] + [[ids[0], 1]]
        elif what == "empty":
            files = []
        elif what == "single-frame":
            sh = [1] * max(nd_min, 1)
            sh[dim] = X
            files = [{"id": ids[0], "x": rand_tensor(rng, sh)}]
            id2gid = None
        else:
            dim = 5
    return dict(kind="cmd", files=files, id2gid=id2gid, dim=dim, bessel=rng.random() < 0.5, scale=rng.choice([1, 4]),
                dtype=rng.choice(["f32", "f64"]), junk=["README.txt"] if rng.random() < 0.3 else [],
                num_workers=2 if rng.random() < 0.08 else 0,
                blank_lines=rng.random() < 0.3, stream="malformed" if malformed else "random")


# ---- robustness audit: entry points, memory layouts, call histories, boundary parameters, unusual names -----------------
NEW_VIAS = {"norm": ["script", "script_fn", "kw", "defaults", "module", "function"],
            "deltas": ["script", "script", "script_fn", "kw", "defaults", "fn32", "module_kw", "module", "function"],
            "return": ["script", "script_fn", "kw", "defaults", "module_kw", "module", "function"]}


def _const_along(rng, t, avoid=None):
    """make the tensor constant along one axis of size > 1 (so that it can be passed as an `expand`ed view)"""
    sh = t["shape"]
    axes = [a for a in range(len(sh)) if sh[a] > 1 and a != avoid] or [a for a in range(len(sh)) if sh[a] > 1]
    if not axes or not numel(sh):
        return t
    a = rng.choice(axes)
    x = torch.tensor(t["data"], dtype=torch.long).reshape(sh)
    x = x.narrow(a, 0, 1).expand(sh).contiguous()
    return {"shape": list(sh), "data": [int(v) for v in x.flatten().tolist()]}


def vary(rng, c, stream):
    """put a plain case into another entry point / memory layout / call history; its logical input stays what it is"""
    k = c["kind"]
    lay = rng.choice(LAYOUTS + [None])
    c["layout"] = lay
    if k == "ops":
        # (an out-of-range dim is an IndexError eagerly and a RuntimeError under TorchScript: malformed histories stay eager)
        c["script"] = rng.random() < 0.5 and c.get("stream") != "malformed"
        c["store_defaults"] = rng.random() < 0.5
        c["ctor_kw"] = rng.random() < 0.3
        if lay == "expand":
            for o in c["ops"]:
                if o["op"] == "acc":
                    o["x"] = _const_along(rng, o["x"], c["dim"] % max(len(o["x"]["shape"]), 1))
    else:
        c["via"] = rng.choice(NEW_VIAS[k])
        if c.get("stream") == "malformed" and k != "return":
            # a module refuses some malformed options in its constructor (ValueError): those go through the function only
            c["via"] = rng.choice(["script_fn", "kw", "defaults", "function"])
        c["twice"] = rng.random() < 0.6
        key = "r" if k == "return" else "x"
        if lay == "expand":
            avoid = None
            if k == "deltas" and -len(c["x"]["shape"]) <= c["time_dim"] < len(c["x"]["shape"]):
                avoid = c["time_dim"] % len(c["x"]["shape"])
            c[key] = _const_along(rng, c[key], avoid)
        if k == "norm":
            c["slayout"] = rng.choice([None, "step", "off", "expand"])
            c["sdtype"] = rng.choice(["f64", "f64", "f32"])
            if c["slayout"] == "expand":
                for nm in ("mean", "std"):
                    if c[nm] is not None and rng.random() < 0.7:
                        c[nm] = [c[nm][0]] * len(c[nm])
            if c["mean"] is not None and c["std"] is not None and len(c["mean"]) == len(c["std"]) and rng.random() < 0.3:
                c["mean"] = list(c["std"])
                c["alias"] = True
        if k == "deltas":
            c["warm"] = rng.random() < 0.5
    c["stream"] = stream
    return c


def gen_deltas_layout(rng, far):
    """every axis a different size >= 2 (a swapped or shifted axis changes the shape AND the values); `far`: the time axis at
    least three axes from the end (time_dim <= ndim - 3, e.g. (T, N, F) with time_dim = 0), where swapping the time axis
    to the end and shifting it there are different permutations"""
    D = rng.choice([3, 3, 4]) if far else rng.choice([2, 3, 4])
    order = rng.choice([1, 1, 2]) if D < 4 else 1
    width = rng.choice([1, 2])
    mode = rng.choice(MODES)
    sizes = rng.sample([2, 3, 4] if D == 4 else [2, 3, 4, 5], D - 1)
    T = rng.choice([t for t in (5, 6, 7) if t not in sizes and t >= _min_T(mode, order, width)])
    td = rng.randint(0, D - 3) if far else rng.randint(0, D - 1)
    shape = sizes[:td] + [T] + sizes[td:]
    conc = rng.random() < 0.5
    DD = D if conc else D + 1
    dim = rng.randint(-DD, DD - 1)
    c = dict(kind="deltas", x=rand_tensor(rng, shape), scale=rng.choice([1, 4]), dim=dim,
             time_dim=td if rng.random() < 0.5 else td - D, concatenate=conc, order=order, width=width, mode=mode,
             value=rng.randint(-8, 8) if mode == "constant" else 0, via="function")
    c = vary(rng, c, "deltas-far" if far else "deltas-layout")
    if rng.random() < 0.35:
        c["layout"] = None
    return c


def gen_return_boundary(rng):
    """gamma EXACTLY 1.0 / 0.0 (and -0.0, -1.0, the ints 0 / 1 / 2), both layouts with batch_first favoured, T != N"""
    g = rng.choice([[1, 1], [1, 1], [1, 1], [0, 1], [0, 1], -0.0, [-1, 1], [2, 1], [1, 2]])
    T, N = rng.choice([(1, 3), (2, 5), (3, 1), (3, 2), (4, 2), (5, 3), (6, 4), (7, 2), (9, 4), (2, 3), (3, 5), (1, 1), (4, 1)])
    bf = rng.random() < 0.65
    c = dict(kind="return", r=rand_tensor(rng, [N, T] if bf else [T, N]), scale=rng.choice([1, 4]), gamma=g, bf=bf,
             exact=True, via="function")
    c = vary(rng, c, "return-boundary")
    if rng.random() < 0.3 and c["via"] in ("function", "kw", "defaults", "module", "module_kw"):
        c["gamma_int"] = True
    c["dtype"] = "f64"
    return c


def gen_return_boundary_long(rng):
    """gamma exactly 1.0 over a long, non-square horizon (plain suffix sums), both layouts"""
    cases = []
    for bf in (True, False):
        T, N = rng.choice([(300, 3), (200, 2)])
        c = dict(kind="return", r=rand_tensor(rng, [N, T] if bf else [T, N], -3, 3), scale=1, gamma=[1, 1], bf=bf, exact=False,
                 python_only=True, via=rng.choice(["function", "script", "module"]), layout=rng.choice(["tct", None]),
                 stream="return-boundary")
        cases.append(c)
    return cases


def gen_ops_history2(rng):
    """call histories of one module object: the same tensor object accumulated again, a tensor object overwritten in place and
    accumulated again, accumulates AFTER the last (non-deleting) store, statistics given to the constructor and then replaced
    (or kept, when the store fails), a store that fails for want of frames followed by more data, two objects used in turns;
    eager and scripted"""
    dim = rng.choice([-1, -1, 0, 1, -2])
    X = rng.choice([1, 2, 3])
    nd_min = dim + 1 if dim >= 0 else -dim
    ops, root, cur = [], {}, {}

    def fresh(one_frame=False):
        D = rng.randint(nd_min, max(nd_min, 3))
        shape = [1 if one_frame else rng.choice([1, 2, 2, 3]) for _ in range(D)]
        shape[dim] = X
        return rand_tensor(rng, shape)

    def acc(one_frame=False):
        k = len(ops)
        prev = [i for i, o in enumerate(ops) if o["op"] == "acc"]
        u = rng.random()
        if prev and u < 0.22 and not one_frame:
            j = rng.choice(prev)
            op = {"op": "acc", "x": dict(cur[root[j]]), "same": j}
            root[k] = root[j]
        elif prev and u < 0.42 and not one_frame:
            j = rng.choice(prev)
            x = rand_tensor(rng, cur[root[j]]["shape"])
            op = {"op": "acc", "x": x, "overwrite": j}
            root[k] = root[j]
            cur[root[j]] = x
        else:
            op = {"op": "acc", "x": fresh(one_frame)}
            root[k] = k
            cur[k] = op["x"]
        ops.append(op)

    def store(delete=None):
        ops.append({"op": "store", "delete": rng.random() < 0.4 if delete is None else delete, "bessel": rng.random() < 0.5})

    only_failing = rng.random() < 0.15   # nothing but a failing store: the constructor's statistics must survive it
    if rng.random() < 0.2 or only_failing:          # a store that must fail: nothing or one frame so far
        if rng.random() < 0.7:
            acc(one_frame=True)
        store()
    if not only_failing:
        for _ in range(rng.choice([1, 2, 3])):
            acc()
        for stage in range(rng.choice([1, 1, 2, 3])):
            store(False if rng.random() < 0.7 else None)
            if rng.random() < 0.3:
                store(False)
            for _ in range(rng.choice([0, 1, 1, 2])):
                acc()
        if rng.random() < 0.55:
            store()
        elif ops[-1]["op"] != "acc":
            acc()
    init = None
    if only_failing:
        init = {"mean": [rng.randint(-8, 8) for _ in range(X)], "std": [rng.choice([1, 2, 3, 5, 8]) for _ in range(X)]}
    elif rng.random() < 0.4:
        what = rng.choice(["both", "both", "both", "mean", "std"])
        init = {"mean": [rng.randint(-8, 8) for _ in range(X)] if what != "std" else None,
                "std": [rng.choice([1, 2, 3, 5, 8]) for _ in range(X)] if what != "mean" else None}
    c = dict(kind="ops", dim=dim, scale=rng.choice([1, 4]), dtype=rng.choice(["f64", "f64", "f32"]),
             eps=rng.choice([TINY, 1e-5, 0.5]), ops=ops, init=init, interleave=rng.random() < 0.4)
    c = vary(rng, c, "history2")
    if c["layout"] == "expand" or rng.random() < 0.3:
        c["layout"] = None
    return c


ID_POOLS = [["a", "ab", "abc", "b.pt", "pt", "a.pt", "u1", "u10", "u", "ua"],
            ["utt", "utt.1", "utt.10", "utt_", "feat", "feat_utt", "x.feat", "x", "xx", "1"],
            ["0", "00", "01", "1", "10", "1.0", "None", "none", "g0", "u000"]]
GID_POOLS = [["g", "g1", "g10", "1", "None"], ["None", "none", "0", "00", "spk"], ["a", "ab", "b", "ba", "u000"]]


def gen_cmd_names(rng):
    """unusual but legal names: non-default --file-prefix / --file-suffix, ids that are prefixes of each other or contain the
    prefix / suffix, group ids such as 'None', '1', 'g1' / 'g10'; files in the directory that do not match must be ignored"""
    c = gen_cmd_random(rng)
    prefix = rng.choice(["", "feat_", "u", "a"])
    suffix = rng.choice([".pt", ".feat.pt", ".a", "pt"])
    ids = list(rng.choice(ID_POOLS))
    rng.shuffle(ids)
    decoys = []
    nm = rng.choice(ids)
    for d in (("x" + prefix + nm + suffix) if prefix else None, prefix + nm + suffix + ".bak", prefix + nm + suffix[:-1],
              (prefix[:-1] + nm + suffix) if len(prefix) > 1 else None):
        if d and not (d.startswith(prefix) and d.endswith(suffix)):
            decoys.append(d)
    c["names"] = {"prefix": prefix, "suffix": suffix, "ids": ids, "gids": list(rng.choice(GID_POOLS)), "decoys": sorted(set(decoys))}
    c["junk"] = []
    c["num_workers"] = 0
    c["stream"] = "names"
    return c


def gen_audit(chk, rng):
    th = chk.tier == "thorough"
    m = 8 if th else 1
    cases = []
    for _ in range(28 * m):
        cases.append(vary(rng, gen_norm_random(rng, malformed=rng.random() < 0.1), "entry"))
    for _ in range(30 * m):
        c = gen_deltas_random(rng, malformed=rng.random() < 0.1)
        cases.append(vary(rng, c, "entry"))
    for _ in range(22 * m):
        cases.append(vary(rng, gen_return_random(rng, malformed=rng.random() < 0.1), "entry"))
    for _ in range(20 * m):
        cases.append(vary(rng, gen_ops_random(rng, malformed=rng.random() < 0.15), "entry"))
    for _ in range(44 * m):
        cases.append(gen_ops_history2(rng))
    for _ in range(30 * m):
        cases.append(gen_deltas_layout(rng, far=True))
    for _ in range(24 * m):
        cases.append(gen_deltas_layout(rng, far=False))
    for _ in range(44 * m):
        cases.append(gen_return_boundary(rng))
    cases += gen_return_boundary_long(rng)
    for _ in range(10 * m):
        cases.append(gen_cmd_names(rng))
    return cases


# ---- size thresholds / algorithm regimes ----------------------------------------------------------------------------------
# Library kernels and tempting rewrites change algorithm with the extent of a tensor / list: sort / small-size paths at 16,
# blocked and vectorised reductions at 32 / 64 / 128, int8 / uint8 indices and counters at 2^7 / 2^8, BLAS and convolution
# kernels.  Every extent of every entry point of the property gets a ladder of cases, ONE extent at a time, the others small.
SIZE_ABOVE = (17, 33, 65, 129, 257)     # one above a power of two: crossed with the options that select a code path


def size_ladder(thorough, top=257, extra=()):
    s = [17, 31, 32, 33, 63, 64, 65, 128, 129, 257] + ([127, 255, 256] if thorough else [])
    return sorted(set([n for n in s if n <= top] + list(extra)))


def size_tensor(rng, shape, axis, amp=8):
    """payload of a size case: no entry is zero (a dropped or duplicated cell changes the sum AND the sum of squares), the
    slices along `axis` are pairwise different (the entries of the first line along it are distinct, in random arrangement: a
    permutation or a swapped pair along the extent is visible, so is the LAST slice taken for its neighbour)"""
    n = shape[axis]
    vals = [v for v in range(-(n // 2 + 1), n // 2 + 2) if v != 0][:n]
    rng.shuffle(vals)
    t = torch.tensor([rng.choice([-1, 1]) * rng.randint(1, amp) for _ in range(numel(shape))], dtype=torch.long).reshape(shape)
    if n and numel(shape):
        t.movedim(axis, 0)[(slice(None),) + (0,) * (len(shape) - 1)] = torch.tensor(vals, dtype=torch.long)
    return {"shape": list(shape), "data": [int(v) for v in t.flatten().tolist()]}


def _tag(c, extent, n, stream="size"):
    c["size"] = {"extent": extent, "n": n}
    c["stream"] = stream
    return c


def gen_size_ops(rng, th):
    """MeanVarianceNormalization: frames of ONE accumulated tensor (along the first, the last and a middle axis: the reduction
    runs over contiguous / strided memory), coefficients, number of accumulate calls (with peeks in between)"""
    cases = []
    st = lambda d=None, b=None: {"op": "store", "delete": rng.random() < 0.5 if d is None else d,  # noqa: E731
                                 "bessel": rng.random() < 0.5 if b is None else b}
    k = rng.randrange(4)
    for n in size_ladder(th):
        # just above a power of two: two of the four layouts (frames along the first / last / middle axis)
        for rep in range(2 if n in SIZE_ABOVE else 1):
            k += 1
            shape, dim, ax = [([n, 2], -1, 0), ([2, n], 0, 1), ([2, n, 2], -1, 1), ([n, 2, 1], 1, 0)][k % 4]
            small = list(shape)
            small[ax] = 1
            ops = [{"op": "acc", "x": size_tensor(rng, shape, ax)}, {"op": "acc", "x": size_tensor(rng, small, ax)}]
            if k % 3 == 0:
                ops.reverse()
            ops.append(st())
            cases.append(_tag(dict(kind="ops", dim=dim, scale=rng.choice([1, 4]), dtype=rng.choice(["f64", "f64", "f32"]),
                                   eps=rng.choice([TINY, 1e-5]), ops=ops, script=k % 5 == 0, forward=n <= 65 and not rep),
                              "ops.frames", n))
    for n in size_ladder(th):
        k += 1
        shape, dim, ax = [([2, n], -1, 1), ([n, 2], 0, 0), ([1, n, 2], 1, 1), ([n, 3], -2, 0)][k % 4]
        one = list(shape)
        one[1 - ax if len(shape) == 2 else 2] = 1
        ops = [{"op": "acc", "x": size_tensor(rng, shape, ax)}, {"op": "acc", "x": size_tensor(rng, one, ax)}, st()]
        cases.append(_tag(dict(kind="ops", dim=dim, scale=rng.choice([1, 4]), dtype=rng.choice(["f64", "f64", "f32"]),
                               eps=rng.choice([TINY, 1e-5]), ops=ops, script=k % 5 == 0, forward=n <= 33),
                          "ops.coefficients", n))
    for n in size_ladder(th):
        k += 1
        X = rng.choice([1, 2, 3])
        dim = rng.choice([-1, 0])
        ops = []
        peeks = set(rng.sample(range(1, n), 2))
        for i in range(n):
            sh = [rng.choice([1, 1, 2]), X] if dim == -1 else [X, rng.choice([1, 1, 2])]
            ops.append({"op": "acc", "x": size_tensor(rng, sh, 1 if dim == -1 else 0)})
            if i in peeks:
                ops.append(st(False))
        ops.append(st())
        if k % 2:
            ops.append(st(False))
        cases.append(_tag(dict(kind="ops", dim=dim, scale=rng.choice([1, 4]), dtype=rng.choice(["f64", "f64", "f32"]),
                               eps=1e-5, ops=ops, script=k % 5 == 0, forward=False), "ops.accumulate_calls", n))
    return cases


def gen_size_norm(rng, th):
    """mean_var_norm / forward: frames and coefficients, own and given statistics"""
    cases = []
    k = rng.randrange(4)
    for extent in ("norm.frames", "norm.coefficients"):
        for n in size_ladder(th):
            k += 1
            m = 2 if n < 200 else 1            # the other extent: minimal for the largest case (cost of the model term)
            if extent == "norm.frames":
                shape, dim, ax = [([n, m], -1, 0), ([m, n], 0, 1), ([m, n, 1], 0, 1), ([n, m + 1], 1, 0)][k % 4]
            else:
                shape, dim, ax = [([m, n], -1, 1), ([n, m], 0, 0), ([m + 1, n], 1, 1), ([m, n, 1], -2, 1)][k % 4]
            X = shape[dim]
            u = rng.random()
            if extent == "norm.frames":        # the frames only enter through the input's OWN statistics: at least one missing
                u = 0.0 if u < 0.6 else 0.5 if u < 0.8 else 0.9
            mean = [rng.randint(-8, 8) for _ in range(X)] if 0.45 <= u < 0.85 else None
            std = [rng.choice([1, 2, 3, 5, 8, 12]) for _ in range(X)] if u >= 0.7 else None
            cases.append(_tag(dict(kind="norm", x=size_tensor(rng, shape, ax), scale=4, dim=dim, mean=mean, std=std,
                                   eps=rng.choice([TINY, 1e-5, 0.5]), via=["function", "module", "script", "kw"][k % 4]),
                              extent, n))
    return cases


def gen_size_deltas(rng, th):
    """feat_deltas / FeatureDeltas: time, the lines that become the batch of the convolution (trailing features, leading batch),
    number of orders (output channels), width (kernel length 2 * width * order + 1)"""
    cases = []
    k = rng.randrange(12)
    vias = ["function", "module", "function", "script", "fn32", "function", "module_kw", "script_fn"]

    def case(x, td, order, width, mode, extent, n):
        D = len(x["shape"])
        conc = rng.random() < 0.5
        DD = D if conc else D + 1
        return _tag(dict(kind="deltas", x=x, scale=rng.choice([1, 4]), dim=rng.randint(-DD, DD - 1), time_dim=td, concatenate=conc,
                         order=order, width=width, mode=mode, value=rng.randint(-8, 8) if mode == "constant" else 0,
                         via=vias[k % len(vias)], magtol=True), extent, n)

    for n in size_ladder(th):
        k += 1
        order, width, mode = rng.choice([1, 1, 2] if n < 200 else [1]), rng.choice([1, 2, 3]), MODES[k % 4]
        m = 2 if n < 200 else 1                # the other extent: minimal for the largest case (cost of the model term)
        shape, td, ax = [([n, m], -2, 0), ([m, n], -1, 1), ([n, 1, m], 0, 0), ([1, n], 1, 1)][k % 4]
        cases.append(case(size_tensor(rng, shape, ax), td, order, width, mode, "deltas.time", n))
        if n in SIZE_ABOVE:                    # just above a power of two: every other pad mode as well, on a single line
            for other in MODES:
                if other != mode:
                    k += 1
                    shape, td, ax = [([n, 1], -2, 0), ([1, n], -1, 1)][k % 2]
                    cases.append(case(size_tensor(rng, shape, ax), td, 1, rng.choice([1, 2]), other, "deltas.time", n))
    for n in size_ladder(th):
        k += 1
        order, width, mode = rng.choice([1, 1, 2] if n < 200 else [1]), rng.choice([1, 2]), MODES[k % 4]
        T = _min_T(mode, order, width) + (rng.choice([1, 2, 3]) if n < 200 else 0)
        shape, td, ax = [([T, n], 0, 1), ([n, T], -1, 0), ([n, T, 1], 1, 0), ([1, T, n], -2, 2)][k % 4]
        cases.append(case(size_tensor(rng, shape, ax), td, order, width, mode, "deltas.lines", n))
    for n in size_ladder(th, top=65):                         # n = order + 1 orders (output channels); 2 (n - 1) + 1 taps
        k += 1
        # (the model convolves T + 2 p cells with n filters of 2 p + 1 exact rationals: reflect / circular need T > p, which
        # costs 3 s of vm_compute at n = 32, 30 - 50 s at n = 64; the short lines of replicate / constant 1 - 2 s)
        order, width, mode = n - 1, 1, (MODES[k % 4] if n <= (33 if th else 17) else MODES[k % 2])
        T = _min_T(mode, order, width) + rng.choice([0, 1, 2])
        shape, td, ax = [([T, 1], 0, 0), ([2, T], 1, 1)][k % 2]
        cases.append(case(size_tensor(rng, shape, ax, amp=3), td, order, width, mode, "deltas.orders", n))
    for n in size_ladder(th, top=129 if th else 65, extra=(8, 16)):   # n = width; the kernel has 2 n order + 1 taps: 17, 33, 35,
        k += 1                                                        # 63 .. 67, 127 .. 131 (3.5 - 4.5 s at width 128: thorough)
        order, width, mode = (2 if n <= 17 and k % 2 else 1), n, MODES[k % 4]
        T = _min_T(mode, order, width) + rng.choice([0, 1, 2])
        shape, td, ax = [([T, 1], 0, 0), ([2, T], 1, 1)][k % 2]
        cases.append(case(size_tensor(rng, shape, ax, amp=3), td, order, width, mode, "deltas.width", n))
    return cases


def gen_size_return(rng, th):
    """time_distributed_return: horizon and batch in both layouts.  gamma = 1 / -1: every R_t depends on the LAST reward, sums
    exact; 1/2, 3/4, 0.9: the discount structure.  The model is cubic in T: horizons above 65 are judged by the exact rational
    recursion of the property's definition in Python (return_python_spec), as for the long-horizon stream"""
    cases = []
    k = rng.randrange(10)
    gammas = [[1, 1], [1, 2], [-1, 1], 0.9, [1, 1], [3, 4], [1, 2]]
    vias = ["function", "module", "script", "function", "script_fn", "kw"]
    by_model = rng.choice([63, 64, 65])        # quick: one horizon of this band by the model (~1.5 s), all three in thorough
    for n in size_ladder(th):
        for bf in ((False, True) if (th or n > 33 or n in SIZE_ABOVE) else (bool(k % 2),)):
            k += 1
            g = gammas[k % len(gammas)]
            N = rng.choice([1, 2, 3])
            exact = g in ([1, 1], [-1, 1]) or (g == [1, 2] and n <= 33)
            c = dict(kind="return", r=size_tensor(rng, [N, n] if bf else [n, N], 1 if bf else 0, amp=3), scale=1, gamma=g, bf=bf,
                     exact=exact, via=vias[k % len(vias)])
            # vm_compute: O(T^3 N^2) list steps on rationals whose size grows with T (0.2 s at T = 33, 1.5 - 2.5 s at 65, 24 s at
            # 129; minutes for gamma = 0.9 = a 53-bit fraction): above 33 one case per run by the model, gamma dyadic
            if n == by_model and g in (0.9, [3, 4]):
                c["gamma"] = g = [1, 2]
            if n > 65 or (n > 17 and g == 0.9) or (n > 33 and not th and n != by_model):
                c["python_only"] = True
            if n == by_model:
                by_model = 0
            cases.append(_tag(c, "return.horizon", n))
    for n in size_ladder(th):
        k += 1
        bf = bool(k % 2)
        T = rng.choice([3, 4, 5, 6])
        g = gammas[k % len(gammas)]
        cases.append(_tag(dict(kind="return", r=size_tensor(rng, [n, T] if bf else [T, n], 0 if bf else 1, amp=3), scale=1, gamma=g,
                               bf=bf, exact=g != 0.9, via=vias[k % len(vias)]), "return.batch", n))
    return cases


def gen_size_cmd(rng, th):
    """the command: number of files (with and without groups), number of groups (every file its own; listed ids without a
    file leave groups empty), frames of one file"""
    cases = []
    k = rng.randrange(6)

    def files(n, X, dim):
        out = []
        for i in rng.sample(range(0, 2 * n + 8), n):
            sh = [rng.choice([1, 2]), X] if dim == -1 else [X, rng.choice([1, 2])]
            out.append({"id": i, "x": size_tensor(rng, sh, 1 if dim == -1 else 0)})
        return out

    def case(fs, id2gid, dim, extent, n):
        return _tag(dict(kind="cmd", files=fs, id2gid=id2gid, dim=dim, bessel=rng.random() < 0.5, scale=rng.choice([1, 4]),
                         dtype=rng.choice(["f32", "f64"]), junk=["README.txt"] if rng.random() < 0.3 else [],
                         num_workers=0, blank_lines=rng.random() < 0.3), extent, n)

    for n in size_ladder(th, top=257 if th else 129):
        for rep in range(2 if n in SIZE_ABOVE else 1):     # just above a power of two: with AND without the id map
            k += 1
            dim, X = rng.choice([-1, 0]), rng.choice([1, 2, 3])
            fs = files(n, X, dim)
            id2gid = None
            if k % 2:
                id2gid = [[f["id"], rng.randrange(3)] for f in fs]
                rng.shuffle(id2gid)
            cases.append(case(fs, id2gid, dim, "cmd.files", n))
    for n in size_ladder(th, top=129 if th else 65):
        k += 1
        dim, X = rng.choice([-1, 0]), rng.choice([1, 2])
        fs = files(n, X, dim)
        for f in fs:                                   # every group must hold two frames
            sh = [2, X] if dim == -1 else [X, 2]
            f["x"] = size_tensor(rng, sh, 1 if dim == -1 else 0)
        id2gid = [[f["id"], g] for g, f in enumerate(fs)]
        if k % 2:                                      # listed ids without a file: their groups stay empty and are not saved
            id2gid += [[2 * n + 10 + j, n + j] for j in range(3)]
        rng.shuffle(id2gid)
        cases.append(case(fs, id2gid, dim, "cmd.groups", n))
    for n in size_ladder(th, top=129):
        k += 1
        if not th and n not in (17, 33, 65, 129):
            continue
        dim, X = rng.choice([-1, 0]), 2
        sh = [n, X] if dim == -1 else [X, n]
        fs = [{"id": 1, "x": size_tensor(rng, sh, 0 if dim == -1 else 1)}, {"id": 2, "x": size_tensor(rng, [1, X] if dim == -1 else [X, 1], 0)}]
        cases.append(case(fs, None if k % 2 else [[1, 0], [2, 0]], dim, "cmd.frames", n))
    return cases


def gen_size(chk, rng):
    th = chk.tier == "thorough"
    cases = []
    for _ in range(3 if th else 1):     # thorough: all 13 sizes of every ladder, three draws of payloads / options / layouts
        cases += (gen_size_ops(rng, th) + gen_size_norm(rng, th) + gen_size_deltas(rng, th) + gen_size_return(rng, th) +
                  gen_size_cmd(rng, th))
    return cases


def _weight(case):
    """rough cost of a case's model term (the size cases are dealt evenly over the shards of the Coq evaluation)"""
    s = case.get("size")
    if not s or case.get("python_only"):
        return 0
    return s["n"] ** (3 if s["extent"] == "return.horizon" else 1)


def spread_order(cases, shard):
    """evaluation order of the terms: the shards are cut from it consecutively, so the heavy terms (size cases) are dealt
    over the shards heaviest first instead of filling the last two shards"""
    n = len(cases)
    heavy = sorted([i for i in range(n) if _weight(cases[i])], key=lambda i: -_weight(cases[i]))
    light = [i for i in range(n) if not _weight(cases[i])]
    S = max(1, -(-n // shard))
    buckets = [[] for _ in range(S)]
    for j, i in enumerate(heavy):
        r = j % (2 * S)
        buckets[r if r < S else 2 * S - 1 - r].append(i)
    it = iter(light)
    for b in buckets:
        while len(b) < shard:
            i = next(it, None)
            if i is None:
                break
            b.append(i)
    rest = list(it)
    order = [i for b in buckets for i in b] + rest
    assert sorted(order) == list(range(n))
    return order


def gen_cases(chk):
    th = chk.tier == "thorough"
    rng = chk.rng
    cases = []
    cases += gen_ops_exhaustive(chk, th)
    cases += gen_deltas_exhaustive(chk, th)
    cases += gen_return_exhaustive(chk, th)
    chk.extra["exhaustive"] = True
    chk.extra["exhaustive_scope"] = (
        "ops: every ordered partition of %d fixed frames (alternate blocks reversed), store flags rotating; "
        "deltas: every (ndim<=4, time_dim, concatenate, dim) layout incl. negative arguments, %s; "
        "returns: T<=%d x N<=2 x %d dyadic gammas (incl. 0, 1, >1, negative) x both layouts, compared bit-exactly"
        % (5 if th else 4, "16 of the 48 (order,width,mode) combinations each" if th else "one rotating (order,width,mode) each (every third 4-D layout)",
           5 if th else 4, 9 if th else 6))
    for c in load_corpus("C18"):
        c = dict(c.get("case", c))
        c["stream"] = "corpus"
        cases.append(c)
    mult = 16 if th else 1
    for _ in range(120 * mult):
        cases.append(gen_ops_random(rng))
    for _ in range(30 * mult):
        cases.append(gen_ops_random(rng, malformed=True))
    for _ in range(60 * mult):
        cases.append(gen_ops_history(rng))
    for _ in range(40 * mult):
        cases.append(gen_ops_offgrid(rng))
    for _ in range(110 * mult):
        cases.append(gen_norm_random(rng))
    for _ in range(25 * mult):
        cases.append(gen_norm_random(rng, malformed=True))
    for _ in range(160 * mult):
        cases.append(gen_deltas_random(rng))
    for _ in range(40 * mult):
        cases.append(gen_deltas_random(rng, malformed=True))
    for _ in range(100 * mult):
        cases.append(gen_return_random(rng))
    for _ in range(12 * mult):
        cases.append(gen_return_random(rng, malformed=True))
    cases += gen_return_long(rng, th)
    for _ in range(30 * mult):
        cases.append(gen_cmd_random(rng))
    for _ in range(14 * mult):
        cases.append(gen_cmd_random(rng, malformed=True))
    # extreme-magnitude regime (drawn after every older stream, so those keep their cases for a given seed)
    emult = 8 if th else 1
    for _ in range(45 * emult):
        cases.append(gen_norm_offset(rng))
    for _ in range(30 * emult):
        cases.append(gen_ops_offset(rng, "f64"))
    for _ in range(8 * emult):
        cases.append(gen_ops_offset(rng, "f32"))
    for _ in range(20 * emult):
        cases.append(gen_deltas_offset(rng))
    cases += gen_return_f32(rng, th)
    # robustness audit (drawn last)
    cases += gen_audit(chk, rng)
    # size thresholds / algorithm regimes (drawn after everything else)
    cases += gen_size(chk, rng)
    return cases


# ------------------------------------------------------------------------------------------
# shrinking
# ------------------------------------------------------------------------------------------
def _slice_tensor(t, d, keep):
    x = torch.tensor(t["data"], dtype=torch.long).reshape(t["shape"])
    y = x.narrow(d, 0, keep).contiguous()
    return {"shape": list(y.shape), "data": [int(v) for v in y.flatten().tolist()]}


def _drop_op(ops, i):
    """the history without its i-th step; references to tensor objects of other steps (`same` / `overwrite`) are renumbered,
    references to the dropped step become plain fresh tensors"""
    out = []
    for k, o in enumerate(ops):
        if k == i:
            continue
        o = dict(o)
        for key in ("same", "overwrite"):
            if key in o:
                if o[key] == i:
                    del o[key]
                elif o[key] > i:
                    o[key] -= 1
        out.append(o)
    return out


def _cands(case):
    k = case["kind"]
    if k == "ops":
        for i in range(len(case["ops"])):
            c = dict(case)
            c["ops"] = _drop_op(case["ops"], i)
            if c["ops"]:
                yield c
        for key in ("script", "interleave", "layout", "init", "store_defaults", "ctor_kw"):
            if case.get(key):
                yield dict(case, **{key: None})
    elif k in ("deltas", "norm", "return"):
        key = "r" if k == "return" else "x"
        t = case[key]
        for d, s in enumerate(t["shape"]):
            for keep in ([s // 2] if s > 8 else []) + [s - 1]:       # halve a long axis first (size cases)
                if s > 1:
                    c = dict(case)
                    c[key] = _slice_tensor(t, d, keep)
                    if k == "norm":
                        if (case["mean"] is not None and len(case["mean"]) == s) or (case["std"] is not None and len(case["std"]) == s):
                            continue
                    yield c
        for key in ("twice", "layout", "warm", "slayout", "alias", "gamma_int"):
            if case.get(key):
                yield dict(case, **{key: None})
        if k == "deltas":
            if case["order"] > 1:
                yield dict(case, order=case["order"] - 1)
            if case["width"] > 1:
                yield dict(case, width=case["width"] - 1)
            if case["mode"] != "constant":
                yield dict(case, mode="constant")
    else:
        for i in range(len(case["files"])):
            c = dict(case)
            c["files"] = case["files"][:i] + case["files"][i + 1:]
            yield c


def _eval_one(chk, case):
    out = run_impl(case, chk.workdir)
    if nonfinite(case, out) or _SIDE.pop(id(case), None):
        return out, False
    ok = coq_eval_bools(chk.workdir, IMPORTS, [model_term(case, out)], tag="one")[0]
    return out, ok


def _model_show(chk, case):
    k = case["kind"]
    if k == "ops":
        t = f"run_ops {cz(case['dim'])} None {lit_ops(case)} []"
    elif k == "norm":
        t = (f"mean_var_norm {lit_case_tensor(case['x'], case['scale'])} {cz(case['dim'])} {_lit_opt_ints(case['mean'], case['scale'])} "
             f"{_lit_opt_ints(case['std'], case['scale'])} {cq(Fraction(case['eps']))} {lit_qs(fr_list(norm_sigma(case)))}")
    elif k == "deltas":
        t = (f"feat_deltas {_deltas_args(case)} {cz(case['order'])} {cz(case['width'])} {CMODE[case['mode']]} "
             f"{cq(Fraction(case['value'], case['scale']))}")
    elif k == "return":
        if case.get("python_only"):
            return "(horizon too long for vm_compute; judged by the exact recursion in Python)"
        t = f"time_distributed_return {lit_case_tensor(case['r'], case['scale'])} {cq(Fraction(_gamma(case)))} {cb(case['bf'])}"
    else:
        files = cl([cp(cn(f["id"]), lit_case_tensor(f["x"], case["scale"])) for f in _cmd_sorted_files(case)])
        id2gid = "None" if case["id2gid"] is None else "(Some " + cl([cp(cn(i), cn(g)) for i, g in case["id2gid"]]) + ")"
        t = f"compute_mvn_stats {files} {id2gid} {cz(case['dim'])} {cb(case['bessel'])}"
    return coq_eval_print(chk.workdir, IMPORTS, t)


def known_sig(entry, record):
    """known_findings signature: std = NaN from store() on a coefficient that is constant over the pooled frames."""
    sig = entry.get("signature", {})
    return sig.get("kind") == record.get("signature_kind")


# ------------------------------------------------------------------------------------------
# run
# ------------------------------------------------------------------------------------------
def run(chk, cases=None):
    chk.rule = (
        "five case kinds on dyadic-grid data (ints/1 or ints/4, |v|<=8, float64 unless stated): ops = a history of "
        "MeanVarianceNormalization (accumulate / store(delete_stats, bessel)): every store's mean and std^2 and the final "
        "count/sum/sumsq buffers (bit-exact) against PV.C18.Model.run_ops, then forward on every accumulated tensor; norm = "
        "mean_var_norm with given/missing mean/std (torch's own std is the audited sqrt oracle); deltas = feat_deltas / "
        "FeatureDeltas; return = time_distributed_return (bit-exact for dyadic gamma); cmd = the console command on a scratch "
        "directory. Every output is also policed for non-finite values and checked against the relations the property states "
        "(re-partitioning, zero mean / unit variance, stack vs concatenate, exact recursion). non-trivial = >=2 accumulated "
        "tensors and a store / >=2 elements / order>=1 / horizon>=2 / >=2 files")
    chk.assumptions += [
        "IEEE rounding is not modelled: data on a dyadic grid make sums exact; mean/std/deltas compared with tolerance 1e-9 "
        "(1e-5 for deltas: the filters are built in float32; 1e-4 relative for float32 forward)",
        "sqrt is an oracle: the model returns variances, the implementation's std is squared before comparison",
        "long horizons (T up to 1100) are judged by the exact rational recursion in Python, not by vm_compute",
        "the command is called in-process with num_workers=0 on files named u%03d.pt",
        "extreme-magnitude regime (stream 'offset'): features = per-coefficient offset of magnitude 1e3..1e4 (either sign) + unit "
        "spread on a dyadic grid, float64 and float32 (every value exact in both).  Tolerances follow the conditioning of the "
        "documented formulas, not a fixed number: store(): |mean - mu| <= u64 |mu|, |std^2 - var| <= 4 u64 max|x|^2 (x count/(count-1) "
        "under Bessel) for var = sumsq/count - mean^2 in float64 buffers, buffers EQUAL to the exact pooled sums (judged in exact "
        "rational arithmetic in Python AND by check_ops with that tolerance); forward / mean_var_norm: |y - (x-mean)/max(std,eps)| "
        "<= (ulp_dtype(mean)/2 [own or stored float64 mean cast to the input dtype] + 2 ulp64(mean)) / max(std,eps) + 3 u_dtype |y|; "
        "the sqrt oracle of the offset stream is computed on shifted data (variance is shift invariant) so that it is itself "
        "well conditioned",
        "float32 returns (stream 'float32'): |R_t - exact| <= (2T+8) u32 sum_{t'>=t} |gamma|^(t'-t) |r_t'| (gamma rounded to float32, "
        "pow, dot product), horizons up to 1100 with true returns far below the float32 range, non-finite values policed",
        "robustness audit (streams entry / history2 / deltas-far / deltas-layout / return-boundary / names): the LOGICAL input of a "
        "case is judged by the same Coq check term as before; what varies is (a) the entry point: function, keyword call, call with "
        "the documented defaults omitted, torch.jit.script of the function, module (positional / keyword constructor), scripted "
        "module; (b) the memory layout of every input tensor: transposed-contiguous-transposed, interior of a larger NaN-filled "
        "buffer (storage offset), every second cell, stride-0 expand()ed; statistics vectors as float32 / non-contiguous / the SAME "
        "object for mean and std; (c) the call history: the same callable twice on the same tensor objects (equal results, inputs "
        "untouched), the input overwritten IN PLACE and passed again (= a fresh object on a fresh tensor), a module used before on "
        "other data; for MeanVarianceNormalization: the same tensor object accumulated again, an object overwritten in place and "
        "accumulated again, accumulates after the last non-deleting store (forward must still use the stored statistics), "
        "statistics given to the constructor and then replaced / kept by a failing store, two module objects used in turns, "
        "store() through omitted / positional / keyword flags; (d) boundaries: gamma exactly 1.0 / 0.0 / -0.0 / -1.0 and the ints "
        "0, 1, 2 with T != N in both layouts; delta layouts with pairwise distinct axis sizes and the time axis >= 3 axes from the "
        "end; (e) the command with non-default --file-prefix / --file-suffix, ids that are prefixes of each other or contain the "
        "prefix / suffix, group ids 'None' / '1' / 'g1' / 'g10', decoy files that match only one of prefix and suffix",
        "size thresholds (stream 'size'): every tensor / list extent of every entry point - frames of one accumulated tensor, "
        "coefficients, number of accumulate calls; frames and coefficients of mean_var_norm; time, lines (batch of the convolution), "
        "number of orders, width (kernel taps) of feat_deltas; horizon and batch of time_distributed_return in both layouts; files, "
        "groups and frames per file of the command - at 17, 31..33, 63..65, 128, 129, 257 (thorough: + 127, 255, 256, three draws), "
        "one extent at a time, the others 1..3; payload: no zero entry, slices along the extent pairwise different, so a dropped / "
        "duplicated / swapped cell or a lost last position changes the result; sizes one above a power of two are crossed with the "
        "options that select a code path (4 pad modes, 2 layouts, with / without id map).  Judged by the same Coq check terms (exact "
        "count / sum / sumsq buffers); horizons above 65 (above 33 but for one per run) by the exact rational recursion in Python "
        "because the model's matrix product is cubic in T; deltas of the size stream use the magnitude-aware tolerance 1e-5 + "
        "2 (order + 2) u32 max|x| of the offset stream (orders up to 64, |x| up to 130)",
    ]
    replaying = cases is not None
    cases = cases if cases is not None else gen_cases(chk)
    outs, terms, recs = [], [], []
    for idx, c in enumerate(cases):
        stream = c.pop("stream", "random")
        out = run_impl(c, chk.workdir)
        outs.append(out)
        sd = _SIDE.pop(id(c), None)
        if sd:
            recs.append((idx, {"what": sd, "signature_kind": "layout-entry-history"}))
        nf = nonfinite(c, out)
        chk.note_case(c, nontrivial(c), stream)
        chk.count("kind=" + c["kind"])
        _histogram(chk, c, out)
        if nf:
            terms.append("true")  # reported directly below
            recs.append((idx, {"what": nf + " (the exact-arithmetic value is finite)", "signature_kind": _nf_signature(c, out)}))
            continue
        if c["kind"] == "ops" and c.get("offset"):
            rel = ops_offset_relation(c, out)
            if rel:
                terms.append("true")  # reported directly below, with its own signature
                rel["signature_kind"] = "offset-statistics-" + c["dtype"]
                recs.append((idx, rel))
                continue
        terms.append(model_term(c, out))
        mm = None
        try:
            if c["kind"] == "ops":
                mm = ops_metamorphic(c, out, chk.seed + idx)
            elif c["kind"] == "deltas":
                mm = deltas_metamorphic(c, out)
            elif c["kind"] == "return":
                mm = return_python_spec(c, out)
        except Exception as e:  # noqa: BLE001
            mm = {"what": "a relation stated by the property could not be evaluated on the implementation: " + repr(e)}
        if mm:
            recs.append((idx, mm))
    order = spread_order(cases, 60)
    res_o = coq_eval_bools(chk.workdir, IMPORTS, [terms[i] for i in order], shard=60)
    res = [True] * len(terms)
    for i, ok in zip(order, res_o):
        res[i] = ok
    bad = [i for i, ok in enumerate(res) if not ok]
    chk.extra["model_disagreements"] = len(bad)
    chk.extra["relation_failures"] = len(recs)
    # concrete failures found by the stated relations / non-finite policing
    for idx, mm in recs[:6]:
        rec = {"case": cases[idx], "impl": outs[idx], "model": _model_show(chk, cases[idx])}
        rec.update(mm)
        chk.report(rec, known_sig)
    # model disagreements: shrink, then judge with the spec checker on the implementation's output
    found_concrete = bool(recs)
    pending = []
    for i in bad[:6]:
        case = cases[i] if replaying else shrink(cases[i], lambda c: not _eval_one(chk, c)[1], _cands, budget=30)
        out = run_impl(case, chk.workdir)
        st = None if nonfinite(case, out) else spec_term(case, out)
        spec_ok = None
        if st is not None:
            spec_ok = coq_eval_bools(chk.workdir, IMPORTS, [st], tag="spec")[0]
        rec = {"case": case, "impl": out, "model": _model_show(chk, case), "spec_accepts_impl": spec_ok,
               "correspondence": "corr:C18:" + case["kind"], "theorems_at_stake": THEOREMS[case["kind"]]}
        if spec_ok:
            rec["what"] = "implementation differs from the model but its output satisfies the property's boolean reading"
            pending.append(rec)
        else:
            rec["what"] = ("output differs from the model and " +
                           ("violates the property's reading (spec checker rejects it)" if spec_ok is False else
                            "the property fixes this outcome uniquely (error kind / shape / non-finite)"))
            found_concrete = True
            chk.report(rec, known_sig)
    if pending and not found_concrete:
        chk.report(pending[0], no_failing_input=True)
    elif pending:
        for rec in pending[:2]:
            chk.report(rec, no_failing_input=True)
    source_tie(chk, cases, outs)
    from props import c18_tie
    c18_tie.source_tieB(chk, cases, outs)      # second tie: _feats.py (mean_var_norm, MeanVarianceNormalization, feat_deltas)


# ------------------------------------------------------------------------------------------
# source tie (returns): the translated Python text, interpreted inside Coq, on the cases of this run
# ------------------------------------------------------------------------------------------
IMPORTS_SRC = IMPORTS + "From PV Require C18.SrcRun.\n"
SRC_TIE_MAX_T = 80      # horizon up to which the interpreted source is evaluated by vm_compute (the T x T discount matrix)
SRC_TIE_MAX_N = 8


def src_return_term(case, out):
    """bool: PV.Gen.C18Src.tdr_body (the body of time_distributed_return as regenerated from the working tree by py2coq),
    run by PV.MiniPy.Interp with the torch calls given the exact-rational meaning of PV.MiniTorch.Ops (SrcRun.ext18), gives
    what the implementation gave - same inputs as exact rationals, same comparison and tolerance as Model.check_return."""
    t = return_term(case, out)
    if not t.startswith("check_return "):
        return None
    return "SrcRun.src_return_check " + t[len("check_return "):]


def _src_tie_eligible(case, out):
    if case.get("kind") != "return" or case.get("python_only") or nonfinite(case, out):
        return False
    sh = case["r"]["shape"]
    if len(sh) == 2:
        T, N = (sh[1], sh[0]) if case["bf"] else (sh[0], sh[1])
        if case.get("size") and T > 33:     # the size ladder's 63..65 horizon costs 2 s here as well: the model judges it
            return False
        return T <= SRC_TIE_MAX_T and N <= SRC_TIE_MAX_N
    return numel(sh) <= 64


def source_tie(chk, cases, outs):
    """run the translated source inside Coq on the return cases of this run: validates the translator, MiniPy's semantics,
    ext18 and the MiniTorch definitions against CPython + torch; independent of whether the tie lemmas still compile"""
    from vlib import CoqError
    idx, terms = [], []
    for i, (c, o) in enumerate(zip(cases, outs)):
        if _src_tie_eligible(c, o):
            t = src_return_term(c, o)
            if t is not None:
                idx.append(i)
                terms.append(t)
    if not idx:
        chk.extra["source_tie_run"] = {"cases": 0, "disagreements": 0}
        return
    import time
    t0 = time.time()
    try:
        res = coq_eval_bools(chk.workdir, IMPORTS_SRC, terms, shard=25, tag="src")
    except CoqError as e:
        chk.extra["source_tie_run"] = "not evaluated: " + str(e)[-400:]
        return
    bad = [idx[j] for j, ok in enumerate(res) if not ok]
    chk.extra["source_tie_run"] = {"cases": len(idx), "disagreements": len(bad), "wall_s": round(time.time() - t0, 1),
                                   "batch_first": sum(1 for i in idx if cases[i]["bf"]),
                                   "not_2d": sum(1 for i in idx if len(cases[i]["r"]["shape"]) != 2),
                                   "gamma_zero": sum(1 for i in idx if _gamma(cases[i]) == 0),
                                   "max_T": max([max(cases[i]["r"]["shape"] + [0]) for i in idx])}
    chk.count("source_tie_cases", len(idx))
    if bad:
        i = bad[0]
        chk.report({"case": cases[i], "impl": outs[i],
                    "what": "the Python source of time_distributed_return as translated to MiniPy and interpreted in Coq "
                            "(PV.C18.SrcRun.src_return, torch calls = PV.MiniTorch.Ops) does not reproduce the implementation's "
                            "output: translator / interpreter / ext18 / MiniTorch no longer describe the code",
                    "disagreeing_cases": len(bad),
                    "correspondence": "tie:C18:py2coq+MiniPy.Interp+MiniTorch:time_distributed_return",
                    "theorems_at_stake": ["c18_source_return_is_model", "c18_source_return_raises",
                                          "c18_source_return_refines_model", "c18_source_return_recursion",
                                          "c18_source_return_eq_spec"]}, no_failing_input=True)


def _nf_signature(case, out):
    if case["kind"] in ("ops", "cmd"):
        return "nan-std-constant-coefficient"
    return "non-finite-" + case["kind"]


def _histogram(chk, c, out):
    k = c["kind"]
    if c.get("size"):
        chk.count("size.%s=%d" % (c["size"]["extent"], c["size"]["n"]))
    if "layout" in c:
        chk.count("audit.%s.layout=%s" % (k, c.get("layout")))
        if k == "ops":
            chk.count("audit.ops.script=%s" % bool(c.get("script")))
            chk.count("audit.ops.interleave=%s" % bool(c.get("interleave")))
            chk.count("audit.ops.init=%s" % ("none" if not c.get("init") else
                                             "+".join(n for n in ("mean", "std") if c["init"].get(n) is not None)))
            chk.count("audit.ops.same_object=%d" % sum(1 for o in c["ops"] if "same" in o))
            chk.count("audit.ops.overwritten_object=%d" % sum(1 for o in c["ops"] if "overwrite" in o))
            chk.count("audit.ops.ends_with=%s" % c["ops"][-1]["op"])
        else:
            chk.count("audit.%s.via=%s" % (k, c["via"]))
            chk.count("audit.%s.twice=%s" % (k, bool(c.get("twice"))))
    if k == "deltas":
        D = len(c["x"]["shape"])
        if -D <= c["time_dim"] < D:
            chk.count("deltas.time_axis_from_end=%d" % (D - 1 - c["time_dim"] % D))
    if k == "cmd" and c.get("names"):
        chk.count("cmd.names.prefix=%r,suffix=%r" % (c["names"]["prefix"], c["names"]["suffix"]))
    if k == "ops":
        chk.count("ops.dim=%d" % c["dim"])
        chk.count("ops.n_acc=%d" % sum(1 for o in c["ops"] if o["op"] == "acc"))
        chk.count("ops.n_store=%d" % sum(1 for o in c["ops"] if o["op"] == "store"))
        chk.count("ops.dtype=" + c["dtype"])
        for s in out["stores"]:
            chk.count("ops.store=" + (s[0] if s[0] != "err" else s[1]))
        chk.count("ops.final=" + (out["final"][0] if out["final"][0] == "ok" else out["final"][1]))
        for o in c["ops"]:
            if o["op"] == "store":
                chk.count("ops.bessel=%s,delete=%s" % (o["bessel"], o["delete"]))
    elif k == "norm":
        chk.count("norm.mean=%s,std=%s" % (c["mean"] is not None, c["std"] is not None))
        chk.count("norm.outcome=" + (out[0] if out[0] == "ok" else out[1]))
        chk.count("norm.via=" + c["via"])
    elif k == "deltas":
        chk.count("deltas.order=%d" % c["order"])
        chk.count("deltas.width=%d" % c["width"])
        chk.count("deltas.mode=" + c["mode"])
        chk.count("deltas.concatenate=%s" % c["concatenate"])
        chk.count("deltas.ndim=%d" % len(c["x"]["shape"]))
        chk.count("deltas.outcome=" + (out[0] if out[0] == "ok" else out[1]))
    elif k == "return":
        chk.count("return.gamma=%s" % (c["gamma"],))
        chk.count("return.bf=%s" % c["bf"])
        sh = c["r"]["shape"]
        T = (sh[1] if c["bf"] else sh[0]) if len(sh) == 2 else -1
        chk.count("return.T=" + ("<=12" if T <= 12 else "13..199" if T < 200 else ">=200"))
        chk.count("return.outcome=" + (out[0] if out[0] == "ok" else out[1]))
    else:
        chk.count("cmd.id2gid=%s" % (c["id2gid"] is not None))
        chk.count("cmd.outcome=" + (out[0] if out[0] == "ok" else "%s:%s" % (out[0], out[1])))


def replay(chk, path):
    rec = json.loads(open(path).read())
    case = dict(rec.get("case", rec))
    case.pop("stream", None)
    run(chk, [case])
