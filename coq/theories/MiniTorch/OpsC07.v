(* MiniTorch, unit C07 — the meaning given to the torch operations that occur in the translated
   `_sequence_log_probs_tensor` (_decoding.py) and `_lens_from_eos` (_string.py), and the encoding
   of their tensors as MiniPy values.  DEFINITIONS ONLY; the algebra is in LemmasC07.v.

   Tensors are (shape, row-major flat data) of ANY number of dimensions, over three element types:
     bool      (torch.bool)                                  tagged "$tensor.bool"
     Z         (torch.long; unbounded, no wrap-around)      tagged "$tensor.long"
     xq        (floating point: an exact rational or -inf)  tagged "$tensor"
   +inf and NaN are NOT modelled (a float tensor holding them cannot be encoded); IEEE rounding,
   devices, strides/contiguity and aliasing of views are not modelled either (DESIGN.md section 3).
   Every operation returns [None] outside the domain stated with it; the unit's [ext] turns [None]
   into [Stuck], so a tie lemma about a run that leaves the domain cannot be proved (fail-closed).

   Each definition quotes the sentence of the torch documentation (2.x) it models.  This file is
   TRUSTED by the C07 tie; it is exercised on every run by the harness-side [src_slp_check]
   (torch vs the interpreted source on the same inputs). *)
From Coq Require Import List ZArith QArith Bool Arith String.
From PV Require Import MiniPy.Syntax MiniTorch.Ops.
Import ListNotations.
Local Open Scope nat_scope.

(* ---- elements and tensors ------------------------------------------------------------------- *)
Inductive xq := Fin (q : Q) | NInf.

Definition xzero : xq := Fin 0.

(* IEEE addition restricted to rationals and -inf: (-inf) + x = x + (-inf) = -inf; finite sums are
   exact and kept in lowest terms; adding an exact zero returns the other operand as it is (the same
   rational, also the same representative - this makes (xq, xadd, xzero) a monoid with a LEFT UNIT for
   Leibniz equality, which the C07 model theorems ask of the score carrier) *)
Definition xadd (a b : xq) : xq :=
  match a, b with
  | Fin p, Fin q => if Qeq_bool p 0 then Fin q else if Qeq_bool q 0 then Fin p else Fin (Qred (p + q))
  | _, _ => NInf
  end.

Record tn (X : Type) := mkTn { shp : list nat; dat : list X }.
Arguments mkTn {X}. Arguments shp {X}. Arguments dat {X}.

Definition rank {X} (x : tn X) : nat := List.length (shp x).

(* number of elements of a shape *)
Fixpoint numel (sh : list nat) : nat :=
  match sh with
  | [] => 1
  | [n] => n
  | n :: r => n * numel r
  end.

(* a shape seen from dimension k: (outer, extent, inner) = (product of the sizes before k, size of
   k, product of the sizes after k); the row-major position of (o, t, i) is (o * extent + t) * inner + i *)
Definition outer (sh : list nat) (k : nat) : nat := numel (firstn k sh).
Definition extent (sh : list nat) (k : nat) : nat := nth k sh 0.
Definition inner (sh : list nat) (k : nat) : nat := numel (skipn (S k) sh).
Definition drop_dim (sh : list nat) (k : nat) : list nat := firstn k sh ++ skipn (S k) sh.

Definition tab2 {X} (O I : nat) (f : nat -> nat -> X) : list X :=
  flat_map (fun o => map (f o) (seq 0 I)) (seq 0 O).
Definition tab3 {X} (O N I : nat) (f : nat -> nat -> nat -> X) : list X :=
  flat_map (fun o => flat_map (fun t => map (f o t) (seq 0 I)) (seq 0 N)) (seq 0 O).
Definition tab4 {X} (O N I J : nat) (f : nat -> nat -> nat -> nat -> X) : list X :=
  flat_map (fun o => flat_map (fun t => flat_map (fun i => map (f o t i) (seq 0 J)) (seq 0 I)) (seq 0 N)) (seq 0 O).

(* the entries along the dimension, at outer position o and inner position i *)
Definition fibre {X} (d : X) (N I : nat) (l : list X) (o i : nat) : list X :=
  map (fun t => nth ((o * N + t) * I + i) l d) (seq 0 N).

Fixpoint zipw {X Y W} (f : X -> Y -> W) (l1 : list X) (l2 : list Y) : list W :=
  match l1, l2 with
  | x :: t1, y :: t2 => f x y :: zipw f t1 t2
  | _, _ => []
  end.

Fixpoint nats_eqb (a b : list nat) : bool :=
  match a, b with
  | [], [] => true
  | x :: a', y :: b' => (x =? y) && nats_eqb a' b'
  | _, _ => false
  end.

Definition b2z (b : bool) : Z := if b then 1%Z else 0%Z.

(* ---- shape queries and shape-only operations (any element type; the data are unchanged) ------- *)

(* Tensor.unsqueeze(dim): "Returns a new tensor with a dimension of size one inserted at the
   specified position. ... A dim value within the range [-input.dim() - 1, input.dim() + 1) can be
   used.  Negative dim will correspond to unsqueeze() applied at dim = dim + input.dim() + 1." *)
Definition unsqueeze {X} (x : tn X) (d : Z) : option (tn X) :=
  match wrap_dim (S (rank x)) d with
  | Some k => Some (mkTn (firstn k (shp x) ++ 1 :: skipn k (shp x)) (dat x))
  | None => None
  end.

(* Tensor.squeeze(dim): "Returns a tensor with all specified dimensions of input of size 1 removed.
   ... When dim is given, a squeeze operation is done only in the given dimension(s).  If input is
   of shape (A x 1 x B), squeeze(input, 0) leaves the tensor unchanged, but squeeze(input, 1) will
   squeeze the tensor to the shape (A x B)."   None: dim outside [-rank, rank) (0-d: not modelled) *)
Definition squeeze_dim {X} (x : tn X) (d : Z) : option (tn X) :=
  match wrap_dim (rank x) d with
  | Some k => Some (if extent (shp x) k =? 1 then mkTn (drop_dim (shp x) k) (dat x) else x)
  | None => None
  end.

(* Tensor.flatten(start_dim): "Flattens input by reshaping it into a one-dimensional tensor.  If
   start_dim or end_dim are passed, only dimensions starting with start_dim and ending with end_dim
   are flattened.  The order of elements in input is unchanged."  (end_dim = -1.)
   None: start_dim outside [-rank, rank) (0-d: not modelled) *)
Definition flatten_from {X} (x : tn X) (s : Z) : option (tn X) :=
  match wrap_dim (rank x) s with
  | Some k => Some (mkTn (firstn k (shp x) ++ [numel (skipn k (shp x))]) (dat x))
  | None => None
  end.

(* Tensor.view( *shape): "Returns a new tensor with the same data as the self tensor but of a
   different shape.  The returned tensor shares the same data and must have the same number of
   elements ..."; "the size -1 is inferred from other dimensions".  At most one -1, which needs the
   product of the other sizes to be non-zero and to divide the number of elements (else torch
   raises: None).  The contiguity condition of view is not modelled (every tensor is row-major). *)
Definition view_shape (n : nat) (spec : list Z) : option (list nat) :=
  if existsb (fun z => (z <? -1)%Z) spec then None else
  let known := numel (map Z.to_nat (filter (fun z => (0 <=? z)%Z) spec)) in
  match List.length (filter (fun z => (z =? -1)%Z) spec) with
  | 0 => if known =? n then Some (map Z.to_nat spec) else None
  | 1 => if known =? 0 then None
         else if n mod known =? 0
              then Some (map (fun z => if (z =? -1)%Z then n / known else Z.to_nat z) spec)
              else None
  | _ => None
  end.

Definition view {X} (x : tn X) (spec : list Z) : option (tn X) :=
  option_map (fun sh => mkTn sh (dat x)) (view_shape (numel (shp x)) spec).

(* Tensor.view_as(other): "View this tensor as the same size as other.  self.view_as(other) is
   equivalent to self.view(other.size())." *)
Definition view_as {X} (x : tn X) (other_shape : list nat) : option (tn X) :=
  if numel (shp x) =? numel other_shape then Some (mkTn other_shape (dat x)) else None.

(* ---- element-wise operations ------------------------------------------------------------------ *)

(* Tensor.lt(other) / ge / eq with a NUMBER: "Computes input < other (>=, equality) element-wise.
   The second argument can be a number ...  Returns: a boolean tensor that is True where input is
   less than (greater than or equal to, equal to) other and False elsewhere".  Integer tensor,
   integer number. *)
Definition cmp_scalar (f : Z -> Z -> bool) (x : tn Z) (c : Z) : tn bool :=
  mkTn (shp x) (map (fun v => f v c) (dat x)).
Definition lt_s := cmp_scalar Z.ltb.
Definition ge_s := cmp_scalar Z.geb.
Definition eq_s := cmp_scalar Z.eqb.
(* eq on a BOOLEAN tensor and an integer number: type promotion reads True as 1, False as 0 *)
Definition eq_sb (x : tn bool) (c : Z) : tn bool := mkTn (shp x) (map (fun v => Z.eqb (b2z v) c) (dat x)).

(* `a | b`, `a & b` on boolean tensors = torch.bitwise_or / bitwise_and: "For bool tensors, it
   computes the logical OR (AND)."  Modelled for operands of EQUAL shape only (no broadcasting). *)
Definition zip_same {X Y W} (f : X -> Y -> W) (a : tn X) (b : tn Y) : option (tn W) :=
  if nats_eqb (shp a) (shp b) then Some (mkTn (shp a) (zipw f (dat a) (dat b))) else None.
Definition bor := zip_same orb.
Definition band := zip_same andb.

(* `x + c` with an integer tensor and an integer number = torch.add: "Adds other, scaled by alpha,
   to input" (alpha = 1), element-wise *)
Definition add_s (x : tn Z) (c : Z) : tn Z := mkTn (shp x) (map (fun v => (v + c)%Z) (dat x)).

(* Tensor.masked_fill(mask, value): "Fills elements of self tensor with value where mask is True.
   The shape of mask must be broadcastable with the shape of the underlying tensor."  Modelled for
   a mask of EXACTLY the tensor's shape. *)
Definition masked_fill {X} (x : tn X) (m : tn bool) (v : X) : option (tn X) :=
  zip_same (fun e (b : bool) => if b then v else e) x m.

(* torch.arange(end), integer end >= 0, default dtype for integer arguments = torch.int64:
   "Returns a 1-D tensor of size ceil((end - start) / step) with values from the interval
   [start, end) taken with common difference step beginning from start" (start = 0, step = 1).
   device= is ignored.  None: negative end *)
Definition arange (n : Z) : option (tn Z) :=
  if (n <? 0)%Z then None else Some (mkTn [Z.to_nat n] (map Z.of_nat (seq 0 (Z.to_nat n)))).

(* `a >= b` on two integer tensors = torch.ge with broadcasting ("Two tensors are broadcastable if
   ... when iterating over the dimension sizes, starting at the trailing dimension, the dimension
   sizes must either be equal, one of them is 1, or one of them does not exist"; the missing leading
   dimensions count as size 1; along a dimension of size 1 the single entry is repeated).  Any
   number of dimensions.  [bc_data] walks the (padded) shapes from the leading dimension, carrying
   the row-major offset of each operand. *)
Definition pad_shape (n : nat) (sh : list nat) : list nat := repeat 1 (n - List.length sh) ++ sh.

Fixpoint bc_shape (sa sb : list nat) : option (list nat) :=
  match sa, sb with
  | [], [] => Some []
  | a :: ra, b :: rb =>
      match bdim a b, bc_shape ra rb with
      | Some n, Some r => Some (n :: r)
      | _, _ => None
      end
  | _, _ => None
  end.

Fixpoint bc_data {X Y W} (f : X -> Y -> W) (dx : X) (dy : Y) (sa sb : list nat)
  (la : list X) (lb : list Y) (oa ob : nat) : list W :=
  match sa, sb with
  | a :: ra, b :: rb =>
      match bdim a b with
      | Some n => flat_map (fun i => bc_data f dx dy ra rb la lb (oa * a + bidx a i) (ob * b + bidx b i)) (seq 0 n)
      | None => []
      end
  | _, _ => [f (nth oa la dx) (nth ob lb dy)]
  end.

Definition broadcast {X Y W} (f : X -> Y -> W) (dx : X) (dy : Y) (a : tn X) (b : tn Y) : option (tn W) :=
  let r := Nat.max (rank a) (rank b) in
  let sa := pad_shape r (shp a) in
  let sb := pad_shape r (shp b) in
  match bc_shape sa sb with
  | Some sh => Some (mkTn sh (bc_data f dx dy sa sb (dat a) (dat b) 0 0))
  | None => None
  end.

Definition ge_t (a b : tn Z) : option (tn bool) := broadcast Z.geb 0%Z 0%Z a b.

(* ---- operations along one dimension ------------------------------------------------------------ *)

(* torch.cumsum(input, dim, dtype=torch.long) on a BOOLEAN tensor: "Returns the cumulative sum of
   elements of input in the dimension dim ... y_i = x_1 + x_2 + x_3 + ... + x_i"; "dtype: ... the
   input tensor is casted to dtype before the operation is performed" (True -> 1, False -> 0).
   None: dim outside [-rank, rank) *)
Fixpoint run_sum (acc : Z) (l : list Z) : list Z :=
  match l with
  | [] => []
  | x :: r => (acc + x)%Z :: run_sum (acc + x)%Z r
  end.

Definition cumsum_bool (x : tn bool) (d : Z) : option (tn Z) :=
  match wrap_dim (rank x) d with
  | Some k =>
      let sh := shp x in
      let N := extent sh k in
      let I := inner sh k in
      Some (mkTn sh (tab3 (outer sh k) N I
                       (fun o t i => nth t (run_sum 0 (map b2z (fibre false N I (dat x) o i))) 0%Z)))
  | None => None
  end.

(* Tensor.max(dim) on a BOOLEAN tensor: "Returns a namedtuple (values, indices) where values is the
   maximum value of each row of the input tensor in the given dimension dim.  And indices is the
   index location of each maximum value found (argmax). ... dim is squeezed ..., resulting in the
   output tensors having 1 fewer dimension than input."; "If there are multiple maximal values in a
   reduced row then the indices of the first maximal value are returned."  (False < True: a row
   with a True has maximum True, first at the first True; a row without has maximum False, first at
   index 0.)
   None: dim outside [-rank, rank).  Some None: the reduced dimension has size 0 - torch raises
   IndexError "max(): Expected reduction dim to have non-zero size." *)
Fixpoint first_true (l : list bool) : option nat :=
  match l with
  | [] => None
  | b :: t => if b then Some 0 else option_map S (first_true t)
  end.

Definition max_bool (x : tn bool) (d : Z) : option (option (tn bool * tn Z)) :=
  match wrap_dim (rank x) d with
  | Some k =>
      let sh := shp x in
      let N := extent sh k in
      let I := inner sh k in
      let O := outer sh k in
      if N =? 0 then Some None else
      let ft := fun o i => first_true (fibre false N I (dat x) o i) in
      Some (Some (mkTn (drop_dim sh k) (tab2 O I (fun o i => match ft o i with Some _ => true | None => false end)),
                  mkTn (drop_dim sh k) (tab2 O I (fun o i => match ft o i with Some j => Z.of_nat j | None => 0%Z end))))
  | None => None
  end.

(* Tensor.sum(dim) on a float tensor: "Returns the sum of each row of the input tensor in the given
   dimension dim. ... dim is squeezed ..., resulting in the output tensor having 1 fewer
   dimension".  Exact arithmetic: the order of summation does not matter; an empty row sums to 0.
   None: dim outside [-rank, rank) *)
Definition sum_dim (x : tn xq) (d : Z) : option (tn xq) :=
  match wrap_dim (rank x) d with
  | Some k =>
      let sh := shp x in
      let N := extent sh k in
      let I := inner sh k in
      Some (mkTn (drop_dim sh k)
              (tab2 (outer sh k) I (fun o i => fold_right xadd xzero (fibre xzero N I (dat x) o i))))
  | None => None
  end.

(* Tensor.gather(dim, index) for dim = the LAST dimension: "Gathers values along an axis specified
   by dim.  For a 3-D tensor the output is specified by: out[i][j][k] = input[i][j][index[i][j][k]]
   # if dim == 2.  input and index must have the same number of dimensions.  It is also required
   that index.size(d) <= input.size(d) for all dimensions d != dim.  out will have the same shape
   as index."  Modelled when the leading sizes are EQUAL (not just <=) and every index is within
   [0, input.size(-1)) (torch raises RuntimeError otherwise: None). *)
Definition gather_last (x : tn xq) (idx : tn Z) : option (tn xq) :=
  match shp x, shp idx with
  | _ :: _, _ :: _ =>
      let V := last (shp x) 0 in
      let K := last (shp idx) 0 in
      if nats_eqb (removelast (shp x)) (removelast (shp idx))
         && forallb (fun j => (0 <=? j)%Z && (j <? Z.of_nat V)%Z) (dat idx)
      then Some (mkTn (shp idx)
                   (tab2 (numel (removelast (shp idx))) K
                      (fun r k => nth (r * V + Z.to_nat (nth (r * K + k) (dat idx) 0%Z)) (dat x) xzero)))
      else None
  | _, _ => None
  end.

(* ---- tensors as MiniPy values -------------------------------------------------------------------- *)
Local Open Scope string_scope.

Definition tag_bool : string := "$tensor.bool".
Definition tag_long : string := "$tensor.long".
Definition tag_float : string := "$tensor".

Definition enc_shape (sh : list nat) : val := VList (map (fun n => VInt (Z.of_nat n)) sh).
Definition xq_val (x : xq) : val := match x with Fin q => VQ q | NInf => VInf false end.

Definition enc_b (t : tn bool) : val := VTuple [VStr tag_bool; enc_shape (shp t); VList (map VBool (dat t))].
Definition enc_i (t : tn Z) : val := VTuple [VStr tag_long; enc_shape (shp t); VList (map VInt (dat t))].
Definition enc_f (t : tn xq) : val := VTuple [VStr tag_float; enc_shape (shp t); VList (map xq_val (dat t))].

Fixpoint dec_nats (l : list val) : option (list nat) :=
  match l with
  | [] => Some []
  | VInt z :: r => if Z.leb 0 z then option_map (cons (Z.to_nat z)) (dec_nats r) else None
  | _ => None
  end.

Fixpoint dec_list {X} (f : val -> option X) (l : list val) : option (list X) :=
  match l with
  | [] => Some []
  | v :: r => match f v, dec_list f r with Some x, Some xs => Some (x :: xs) | _, _ => None end
  end.

Definition val_bool (v : val) : option bool := match v with VBool b => Some b | _ => None end.
Definition val_int (v : val) : option Z := match v with VInt z => Some z | _ => None end.
Definition val_xq (v : val) : option xq :=
  match v with VQ q => Some (Fin q) | VInf false => Some NInf | _ => None end.

Inductive anyt := TB (t : tn bool) | TI (t : tn Z) | TF (t : tn xq).

Definition dec_any (v : val) : option anyt :=
  match v with
  | VTuple [VStr tag; VList sh; VList d] =>
      match dec_nats sh with
      | Some s =>
          if String.eqb tag tag_bool then option_map (fun l => TB (mkTn s l)) (dec_list val_bool d)
          else if String.eqb tag tag_long then option_map (fun l => TI (mkTn s l)) (dec_list val_int d)
          else if String.eqb tag tag_float then option_map (fun l => TF (mkTn s l)) (dec_list val_xq d)
          else None
      | None => None
      end
  | _ => None
  end.

Definition enc_any (t : anyt) : val :=
  match t with TB x => enc_b x | TI x => enc_i x | TF x => enc_f x end.

Definition any_shape (t : anyt) : list nat :=
  match t with TB x => shp x | TI x => shp x | TF x => shp x end.

(* a shape-only operation applied to a tensor of any element type *)
Definition any_map (f : forall X, tn X -> option (tn X)) (t : anyt) : option anyt :=
  match t with
  | TB x => option_map TB (f bool x)
  | TI x => option_map TI (f Z x)
  | TF x => option_map TF (f xq x)
  end.
