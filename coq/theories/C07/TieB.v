(* C07, second source tie - `ctc_greedy_search`: the tie theorems.  PV.Gen.C07BSrc.greedy_body is the MiniPy term
   harness/py2coq/translate.py regenerates from /repo/src/pydrobert/torch/_decoding.py on every run (whole body of
   ctc_greedy_search); PV.MiniPy.Interp is its semantics; the torch calls mean what MiniTorch.OpsC07 / OpsC07B say
   (through SrcRunB.ext07B), Tensor.log_softmax is an oracle.  TieBGreedy.greedy_run is the symbolic run (one pass,
   the four two-way branches on is_probs / batch_first merged, in_lens split); here it is restated against
   ModelB.ctc_greedy_g (every float carrier value), against Model.ctc_greedy (floats that are integers) and composed
   with the model theorem ProofsGreedy.greedy_correct. *)
From Coq Require Import ZArith QArith List String Bool Arith Lia ZifyBool ZifyNat.
From PV Require Import MiniPy.Syntax MiniPy.Interp MiniTorch.Ops MiniTorch.OpsC07 MiniTorch.LemmasC07 MiniTorch.OpsC07B MiniTorch.LemmasC07B.
From PV Require Import Gen.C07BSrc C07.SrcRun C07.SrcRunB C07.TieBLib C07.TieBGreedy.
From PV Require C07.Model C07.Spec C07.ModelB C07.TieBModel C07.ProofsGreedy MiniTorch.Lemmas.
Import ListNotations.
Local Open Scope string_scope.

#[local] Arguments dec_any : simpl never.
#[local] Arguments enc_b : simpl never.
#[local] Arguments enc_i : simpl never.
#[local] Arguments enc_f : simpl never.
#[local] Arguments exec : simpl never.
#[local] Arguments ext07B : simpl never.
#[local] Arguments cmp_eval : simpl never.
#[local] Arguments Z.of_nat : simpl never.
#[local] Arguments Z.add : simpl never.
#[local] Arguments Z.sub : simpl never.
#[local] Arguments Z.opp : simpl never.
#[local] Arguments Z.ltb : simpl never.
#[local] Arguments Z.gtb : simpl never.
#[local] Arguments Z.eqb : simpl never.
#[local] Arguments then_ : simpl never.

(* well-formed batch-first scores: N elements, T frames each, V classes each *)
Definition wf_lp {X} (N T V : nat) (lp : list (list (list X))) : Prop :=
  List.length lp = N /\ forall fr, List.In fr lp -> List.length fr = T /\ forall row, List.In row fr -> List.length row = V.

Lemma lp_of_lp3 : forall N T V (lp : list (list (list xq))), wf_lp N T V lp -> TieBModel.lp_of N T V (lp3 xzero lp) = lp.
Proof.
  intros N T V lp [HN Hfr]. unfold TieBModel.lp_of, lp3. symmetry.
  rewrite (list_as_map_nth lp N [] HN) at 1. apply map_ext_seq. intros n Hn.
  assert (Hin : List.In (nth n lp []) lp) by (apply nth_In; lia). destruct (Hfr _ Hin) as [HT Hrow].
  rewrite (list_as_map_nth (nth n lp []) T [] HT) at 1. apply map_ext_seq. intros t Ht.
  assert (Hin2 : List.In (nth t (nth n lp []) []) (nth n lp [])) by (apply nth_In; lia).
  apply list_as_map_nth. now apply Hrow.
Qed.

Lemma xargmax_from_fin : forall l best bi i, is_fin best = true -> forallb is_fin l = true -> is_fin (fst (xargmax_from best bi i l)) = true.
Proof.
  induction l as [|x l IH]; intros best bi i Hb Hl; cbn [xargmax_from]; [assumption|].
  cbn [forallb] in Hl. apply andb_prop in Hl. destruct Hl as [Hx Hl]. destruct (xltb best x); now apply IH.
Qed.

Lemma xargmax_fin : forall row, forallb is_fin row = true -> is_fin (fst (xargmax row)) = true.
Proof.
  intros [|x t] H; [reflexivity|]. cbn [forallb] in H. apply andb_prop in H. destruct H. now apply xargmax_from_fin.
Qed.

Definition all_fin3 (lp : list (list (list xq))) : bool := forallb (forallb (forallb is_fin)) lp.

Lemma all_fin3_row : forall N T V lp n t, wf_lp N T V lp -> all_fin3 lp = true -> (n < N)%nat -> (t < T)%nat ->
  forallb is_fin (map (lp3 xzero lp n t) (seq 0 V)) = true.
Proof.
  intros N T V lp n t [HN Hfr] Hall Hn Ht.
  assert (Hin : List.In (nth n lp []) lp) by (apply nth_In; lia). destruct (Hfr _ Hin) as [HT Hrow].
  assert (Hin2 : List.In (nth t (nth n lp []) []) (nth n lp [])) by (apply nth_In; lia).
  unfold all_fin3 in Hall. rewrite forallb_forall in Hall. specialize (Hall _ Hin). rewrite forallb_forall in Hall.
  specialize (Hall _ Hin2). unfold lp3. rewrite <- (list_as_map_nth _ V xzero (Hrow _ Hin2)). exact Hall.
Qed.

Section Tie.
  Variables (lsm : tn xq -> tn xq) (mn : tn xq -> tn Z).
  Notation E := (ext07B lsm mn).

  (* blank index out of range: `raise RuntimeError`, whatever the other arguments are *)
  Lemma greedy_run_raises : forall (L0 : tn xq) il blank (bf ip : bool),
    List.length (shp L0) = 3%nat ->
    (blank < - Z.of_nat (nth 2 (shp L0) 0%nat) \/ Z.of_nat (nth 2 (shp L0) 0%nat) - 1 < blank)%Z ->
    exists st, run_greedy lsm mn L0 il blank bf ip = Exc runtime_error st.
  Proof.
    intros L0 il blank bf ip Hlen Hb. unfold run_greedy. rewrite run_fin. unfold greedy_body, greedy_vars.
    rewrite exec_seq, exec_if. cbn. rewrite method_enc_f, ext_dim_f. cbn. rewrite cmp_ne_int, Hlen.
    change (Z.of_nat 3 =? 3)%Z with true. cbn. rewrite exec_pass. cbn. unfold then_ at 1.
    rewrite exec_seq, exec_assign1. cbn. rewrite method_enc_f.
    rewrite (ext_size_f lsm mn L0 2 2) by (rewrite Hlen; reflexivity). cbn. unfold then_ at 1.
    rewrite exec_seq, exec_if. cbn. rewrite cmp_lt_int.
    destruct (blank <? - Z.of_nat (nth 2 (shp L0) 0%nat))%Z eqn:E1; cbn.
    - rewrite exec_raise. cbn. eexists. reflexivity.
    - rewrite cmp_gt_int. replace (blank >? Z.of_nat (nth 2 (shp L0) 0%nat) - 1)%Z with true by lia. cbn.
      rewrite exec_raise. cbn. eexists. reflexivity.
  Qed.

  (* ---- against ModelB.ctc_greedy_g: every float value (rationals and -inf) ------------------------------------------ *)
  Definition greedy_result (bf : bool) (N T : nat) (g : @ModelB.greedy_out_g xq) : val :=
    VTuple [enc_f (mkTn [N] (ModelB.gg_score g));
            enc_i (paths2 bf N T (fun n t => Z.of_nat (nth t (nth n (ModelB.gg_paths g) []) 0%nat)));
            enc_i (mkTn [N] (map Z.of_nat (ModelB.gg_lens g)))].

  Theorem greedy_tie : forall (L0 : tn xq) N T V (lp : list (list (list xq))) in_lens blank (bf ip : bool),
    shp L0 = (if bf then [N; T; V] else [T; N; V]) ->
    (if ip then L0 else lsm L0) = logits3 bf N T V (lp3 xzero lp) ->
    wf_lp N T V lp ->
    (forall ls, in_lens = Some ls -> List.length ls = N) ->
    (ip = true -> all_fin3 lp = true) ->
    match ModelB.ctc_greedy_g xltb xadd xmul xzero xone xone ip (Z.of_nat V) blank T in_lens lp with
    | Some g => exists st, run_greedy lsm mn L0 (in_lens_tensor in_lens) blank bf ip = Ok (greedy_result bf N T g) st
    | None => exists st, run_greedy lsm mn L0 (in_lens_tensor in_lens) blank bf ip = Exc runtime_error st
    end.
  Proof.
    intros L0 N T V lp in_lens blank bf ip Hsh HL Hwf Hil Hfin.
    assert (Hlen : List.length (shp L0) = 3%nat) by (rewrite Hsh; destruct bf; reflexivity).
    assert (HV : nth 2 (shp L0) 0%nat = V) by (rewrite Hsh; destruct bf; reflexivity).
    destruct ((blank <? - Z.of_nat V)%Z || (Z.of_nat V - 1 <? blank)%Z) eqn:Hb.
    - unfold ModelB.ctc_greedy_g. rewrite Hb. apply greedy_run_raises; [assumption|]. rewrite HV. lia.
    - set (il := option_map (fun ls : list Z => fun n => nth n ls 0%Z) in_lens).
      assert (Eil : il_list N il = in_lens).
      { unfold il, il_list. destruct in_lens as [ls|]; cbn [option_map]; [|reflexivity]. f_equal. symmetry.
        apply list_as_map_nth. now apply Hil. }
      assert (Eit : il_tensor N il = in_lens_tensor in_lens).
      { unfold il, il_tensor, in_lens_tensor. destruct in_lens as [ls|]; cbn [option_map]; [|reflexivity].
        rewrite (Hil ls eq_refl). do 2 f_equal. symmetry. apply list_as_map_nth. now apply Hil. }
      pose proof (greedy_run lsm mn L0 N T V (lp3 xzero lp) il blank bf ip Hsh HL ltac:(lia)) as Hrun.
      cbv zeta in Hrun. rewrite Eil, Eit in Hrun.
      pose proof (TieBModel.ctc_greedy_g_tab N T V (lp3 xzero lp) (Z.to_nat ((blank + Z.of_nat V) mod Z.of_nat V)) in_lens ip Hil blank
                    ltac:(lia) eq_refl) as Hm.
      rewrite (lp_of_lp3 N T V lp Hwf) in Hm. rewrite Hm. clear Hm.
      unfold greedy_result. cbn [ModelB.gg_score ModelB.gg_paths ModelB.gg_lens]. rewrite map_map. apply Hrun.
      intros Hip n t Hn Ht. apply xargmax_fin. apply (all_fin3_row N T V lp n t Hwf (Hfin Hip) Hn Ht).
  Qed.

  (* ---- floats that are integers: Model.ctc_greedy itself, and the model theorem ----------------------------------------- *)
  Definition greedy_result_Z (bf : bool) (N T : nat) (g : Model.greedy_out) : val :=
    VTuple [enc_f (mkTn [N] (map zq (Model.g_score g)));
            enc_i (paths2 bf N T (fun n t => Z.of_nat (nth t (nth n (Model.g_paths g) []) 0%nat)));
            enc_i (mkTn [N] (map Z.of_nat (Model.g_lens g)))].

  Definition zq3 (lp : list (list (list Z))) : list (list (list xq)) := map (map (map zq)) lp.

  Lemma wf_lp_map : forall {X Y} (h : X -> Y) N T V lp, wf_lp N T V lp -> wf_lp N T V (map (map (map h)) lp).
  Proof.
    intros X Y h N T V lp [HN Hfr]. split; [now rewrite map_length|].
    intros fr Hin. apply in_map_iff in Hin. destruct Hin as [fr0 [<- Hin]]. destruct (Hfr _ Hin) as [HT Hrow].
    split; [now rewrite map_length|]. intros row Hr. apply in_map_iff in Hr. destruct Hr as [r0 [<- Hr]].
    rewrite map_length. now apply Hrow.
  Qed.

  Lemma all_fin3_zq : forall lp, all_fin3 (zq3 lp) = true.
  Proof.
    intros lp. unfold all_fin3, zq3. apply forallb_forall. intros fr Hfr. apply in_map_iff in Hfr. destruct Hfr as [fr0 [<- _]].
    apply forallb_forall. intros row Hr. apply in_map_iff in Hr. destruct Hr as [r0 [<- _]].
    apply forallb_forall. intros x Hx. apply in_map_iff in Hx. destruct Hx as [z0 [<- _]]. reflexivity.
  Qed.

  Theorem greedy_tie_Z : forall (L0 : tn xq) N T V (lp : list (list (list Z))) in_lens blank (bf ip : bool),
    shp L0 = (if bf then [N; T; V] else [T; N; V]) ->
    (if ip then L0 else lsm L0) = logits3 bf N T V (lp3 xzero (zq3 lp)) ->
    wf_lp N T V lp ->
    (forall ls, in_lens = Some ls -> List.length ls = N) ->
    match Model.ctc_greedy ip 1%Z (Z.of_nat V) blank T in_lens lp with
    | Some g => exists st, run_greedy lsm mn L0 (in_lens_tensor in_lens) blank bf ip = Ok (greedy_result_Z bf N T g) st
    | None => exists st, run_greedy lsm mn L0 (in_lens_tensor in_lens) blank bf ip = Exc runtime_error st
    end.
  Proof.
    intros L0 N T V lp in_lens blank bf ip Hsh HL Hwf Hil.
    pose proof (greedy_tie L0 N T V (zq3 lp) in_lens blank bf ip Hsh HL (wf_lp_map zq N T V lp Hwf) Hil (fun _ => all_fin3_zq lp)) as H.
    unfold zq3 in H. rewrite TieBModel.ctc_greedy_g_zq in H.
    destruct (Model.ctc_greedy ip 1%Z (Z.of_nat V) blank T in_lens lp) as [g|]; exact H.
  Qed.

  (* composed with ProofsGreedy.greedy_correct: purely about the interpreted source - it returns, per batch element, the
     frame-wise best labels within the valid length with repeats and blanks removed, their number, and the summed (or
     multiplied) frame maxima *)
  Theorem source_greedy_correct : forall (L0 : tn xq) N T V (lp : list (list (list Z))) in_lens blank (bf ip : bool),
    shp L0 = (if bf then [N; T; V] else [T; N; V]) ->
    (if ip then L0 else lsm L0) = logits3 bf N T V (lp3 xzero (zq3 lp)) ->
    wf_lp N T V lp ->
    (forall ls, in_lens = Some ls -> List.length ls = N) ->
    (- Z.of_nat V <= blank <= Z.of_nat V - 1)%Z ->
    let b := Spec.norm_blank (Z.of_nat V) blank in
    let ll := Spec.eff_lens T in_lens N in
    exists g st, run_greedy lsm mn L0 (in_lens_tensor in_lens) blank bf ip = Ok (greedy_result_Z bf N T g) st /\
      Model.g_lens g = Model.map2 (fun l fr => List.length (Spec.row_path b T l fr)) ll lp /\
      Model.map2 (fun l p => firstn l p) (Model.g_lens g) (Model.g_paths g) = Model.map2 (Spec.row_path b T) ll lp /\
      Model.g_score g = Model.map2 (Spec.row_score ip 1%Z T) ll lp.
  Proof.
    intros L0 N T V lp in_lens blank bf ip Hsh HL Hwf Hil Hb b ll.
    pose proof (greedy_tie_Z L0 N T V lp in_lens blank bf ip Hsh HL Hwf Hil) as H.
    destruct Hwf as [HN Hfr].
    destruct (ProofsGreedy.greedy_correct ip 1%Z (Z.of_nat V) blank T in_lens lp Hb
                (fun fr Hin => proj1 (Hfr fr Hin)) ltac:(intros ls Hls; rewrite HN; now apply Hil)) as [g [Hg [H1 [H2 H3]]]].
    rewrite Hg in H. destruct H as [st Hst]. exists g, st. rewrite HN in *. repeat split; assumption.
  Qed.
End Tie.
