(* C12 — lemmas, part 1: the validate/repair pass against the declarative spec. *)
From Coq Require Import List ZArith Bool Lia.
From Coq Require Import ZifyBool ZifyNat.
From PV Require Import C12.Model C12.Spec.
Import ListNotations.
Local Open Scope Z_scope.

(* ---------------------------------------------------------------- small facts *)

Lemma dtype_beq_eq a b : dtype_beq a b = true <-> a = b.
Proof. destruct a, b; cbn; split; intro H; try reflexivity; try easy. Qed.

Lemma dtype_beq_refl a : dtype_beq a a = true.
Proof. apply dtype_beq_eq; reflexivity. Qed.

Lemma dtype_beq_neq a b : dtype_beq a b = false <-> a <> b.
Proof.
  split.
  - intros H E. subst. rewrite dtype_beq_refl in H. discriminate.
  - intro H. destruct (dtype_beq a b) eqn:E; [|reflexivity]. apply dtype_beq_eq in E. contradiction.
Qed.

Lemma upcast_long d : upcast d = DI64 <-> (d = DI64 \/ upcastable d = true).
Proof. destruct d; cbn; intuition discriminate. Qed.

Lemma upcast_idem d : upcast (upcast d) = upcast d.
Proof. destruct d; reflexivity. Qed.

(* "repair under tolerance fx": nothing without a tolerance *)
Definition repair_row' (fx : option Z) (T : Z) (r : row) : row :=
  match fx with Some k => repair_row k T r | None => r end.
Definition repair_feat' (fx : option Z) (f : feat) : feat :=
  match fx with Some _ => repair_feat f | None => f end.
Definition repair_ali' (fx : option Z) (T : nat) (a : ali) : ali :=
  match fx with Some k => repair_ali k T a | None => a end.
Definition repair_ref' (fx : option Z) (T : nat) (r : ref) : ref :=
  match fx with Some k => repair_ref k T r | None => r end.
Definition repair_utt' (fx : option Z) (u : utt) : utt :=
  match fx with Some k => repair_utt k u | None => u end.

Lemma repair_map fx d : repair fx d = map (repair_utt' fx) d.
Proof. destruct fx; cbn; [reflexivity|]. symmetry. apply map_id. Qed.

(* ---------------------------------------------------------------- one reference row *)

Ltac zcmp :=
  repeat (match goal with
          | |- context[Z.ltb ?a ?b] => destruct (Z.ltb_spec a b)
          | |- context[Z.leb ?a ?b] => destruct (Z.leb_spec a b)
          | |- context[Z.gtb ?a ?b] => destruct (Z.gtb_spec a b)
          | |- context[Z.geb ?a ?b] => destruct (Z.geb_spec a b)
          | |- context[Z.eqb ?a ?b] => destruct (Z.eqb_spec a b)
          end; cbn [andb orb xorb negb]; try lia).

Lemma row_part_sound fx T r r' w :
  row_part fx T r = inr (r', w) -> r' = repair_row' fx T r /\ bounds_ok T r'.
Proof.
  destruct r as [[tok s] e]. unfold row_part, repair_row', repair_row, bounds_ok.
  destruct fx as [k|]; cbn [is_some]; zcmp;
    first [ easy | (let H := fresh in intro H; inversion H; subst; clear H; split; [reflexivity|cbn; lia]) ].
Qed.

Lemma row_part_complete fx T r :
  bounds_ok T (repair_row' fx T r) -> exists w, row_part fx T r = inr (repair_row' fx T r, w).
Proof.
  destruct r as [[tok s] e]. unfold row_part, repair_row', repair_row, bounds_ok.
  destruct fx as [k|]; cbn [is_some]; zcmp;
    first [ lia | (intros _; eexists; reflexivity) ].
Qed.

(* without a tolerance nothing is marked for writing; and an unmarked row is unchanged *)
Lemma row_part_wb fx T r r' : row_part fx T r = inr (r', false) -> r' = r.
Proof.
  destruct r as [[tok s] e]. unfold row_part.
  destruct ((s <? 0) && (e <? 0)); [intro H; inversion H; reflexivity|].
  destruct ((s <? 0) || (e <? 0)).
  - destruct (is_some fx); [intro H; inversion H|easy].
  - destruct (e <? s); [easy|]. destruct (e >? T).
    + destruct fx; [|easy]. destruct ((s <=? T) && (T >=? e - z)); [intro H; inversion H|easy].
    + intro H; inversion H; reflexivity.
Qed.

Lemma row_part_strict T r r' w : row_part None T r = inr (r', w) -> w = false.
Proof.
  destruct r as [[tok s] e]. unfold row_part. cbn [is_some].
  destruct ((s <? 0) && (e <? 0)); [intro H; inversion H; reflexivity|].
  destruct ((s <? 0) || (e <? 0)); [easy|].
  destruct (e <? s); [easy|]. destruct (e >? T); [easy|].
  intro H; inversion H; reflexivity.
Qed.

Lemma rows_part_sound fx T rows : forall rows' w,
  rows_part fx T rows = inr (rows', w) ->
  rows' = map (repair_row' fx T) rows /\ Forall (bounds_ok T) rows'.
Proof.
  induction rows as [|r rest IH]; cbn [rows_part map]; intros rows' w H.
  - inversion H. split; [reflexivity|constructor].
  - destruct (row_part fx T r) as [x|[r1 w1]] eqn:E1; [easy|].
    destruct (rows_part fx T rest) as [x|[rest1 w2]] eqn:E2; [easy|].
    inversion H; subst; clear H.
    apply row_part_sound in E1. destruct E1 as [-> B].
    destruct (IH _ _ eq_refl) as [-> F]. split; [reflexivity|constructor; assumption].
Qed.

Lemma rows_part_complete fx T rows :
  Forall (bounds_ok T) (map (repair_row' fx T) rows) ->
  exists w, rows_part fx T rows = inr (map (repair_row' fx T) rows, w).
Proof.
  induction rows as [|r rest IH]; cbn [rows_part map]; intro H.
  - eexists; reflexivity.
  - inversion H; subst. destruct (row_part_complete fx T r H2) as [w1 ->].
    destruct (IH H3) as [w2 ->]. eexists; reflexivity.
Qed.

Lemma rows_part_wb fx T rows : forall rows', rows_part fx T rows = inr (rows', false) -> rows' = rows.
Proof.
  induction rows as [|r rest IH]; cbn [rows_part]; intros rows' H.
  - inversion H; reflexivity.
  - destruct (row_part fx T r) as [x|[r1 w1]] eqn:E1; [easy|].
    destruct (rows_part fx T rest) as [x|[rest1 w2]] eqn:E2; [easy|].
    inversion H; subst; clear H. apply orb_false_iff in H2. destruct H2; subst.
    apply row_part_wb in E1. subst. rewrite (IH _ eq_refl). reflexivity.
Qed.

Lemma rows_part_strict T rows : forall rows' w, rows_part None T rows = inr (rows', w) -> w = false.
Proof.
  induction rows as [|r rest IH]; cbn [rows_part]; intros rows' w H.
  - inversion H; reflexivity.
  - destruct (row_part None T r) as [x|[r1 w1]] eqn:E1; [easy|].
    destruct (rows_part None T rest) as [x|[rest1 w2]] eqn:E2; [easy|].
    inversion H; subst; clear H. apply row_part_strict in E1. rewrite (IH _ _ eq_refl), E1. reflexivity.
Qed.

(* a row that already satisfies the condition is left alone by every tolerance *)
Lemma repair_row_ok k T r : bounds_ok T r -> repair_row k T r = r.
Proof.
  destruct r as [[tok s] e]. unfold bounds_ok, repair_row. intro H.
  destruct (Z.ltb_spec s 0), (Z.ltb_spec e 0); cbn [xorb]; try lia.
  - destruct (Z.leb_spec 0 s); [lia|]. reflexivity.
  - destruct (Z.ltb_spec T e); [lia|]. rewrite !andb_false_r. reflexivity.
Qed.

(* ---------------------------------------------------------------- alignments *)

Lemma ali_part_sound fx T a a' :
  ali_part true fx T a = inr a' -> a' = repair_ali' fx T a /\ ali_ok T a'.
Proof.
  destruct a as [cu dt da]. unfold ali_part, repair_ali', repair_ali, ali_ok. cbn [negb a_cuda a_dtype a_data].
  destruct (cu && negb (is_some fx)) eqn:Ec; [easy|].
  destruct (negb (dtype_beq dt DI64) && negb (is_some fx && upcastable dt)) eqn:Ed; [easy|].
  destruct da as [v|dims flat]; [|easy].
  assert (Hup : forall k, fx = Some k -> upcast dt = DI64).
  { intros k ->. cbn in Ed. apply upcast_long. destruct (dtype_beq dt DI64) eqn:E.
    - left. apply dtype_beq_eq. assumption.
    - right. cbn in Ed. destruct (upcastable dt); [reflexivity|easy]. }
  assert (Hnone : fx = None -> cu = false /\ dt = DI64).
  { intros ->. cbn in Ec, Ed. rewrite andb_true_r in Ec, Ed. split; [assumption|].
    apply dtype_beq_eq. destruct (dtype_beq dt DI64); [reflexivity|easy]. }
  destruct (Z.eqb_spec (Z.of_nat (length v)) (Z.of_nat T)) as [El|El].
  - intro H; inversion H; subst; clear H. cbn [a_cuda a_dtype a_data]. split.
    + destruct fx as [k|].
      * rewrite (Hup k eq_refl). destruct (Z.ltb_spec (Z.of_nat T) (Z.of_nat (length v))); [lia|]. reflexivity.
      * destruct (Hnone eq_refl) as [-> ->]. reflexivity.
    + repeat split. exists v. split; [reflexivity|lia].
  - destruct fx as [k|]; [|easy].
    destruct ((Z.of_nat T + k >=? Z.of_nat (length v)) && (Z.of_nat (length v) >? Z.of_nat T)) eqn:Eb; [|easy].
    intro H; inversion H; subst; clear H. cbn [a_cuda a_dtype a_data]. split.
    + rewrite (Hup k eq_refl).
      destruct (Z.ltb_spec (Z.of_nat T) (Z.of_nat (length v))); [|lia].
      destruct (Z.leb_spec (Z.of_nat (length v)) (Z.of_nat T + k)); [|lia]. reflexivity.
    + repeat split. exists (firstn T v). split; [reflexivity|]. rewrite firstn_length. lia.
Qed.

Lemma ali_part_complete fx T a :
  ali_ok T (repair_ali' fx T a) -> ali_part true fx T a = inr (repair_ali' fx T a).
Proof.
  destruct a as [cu dt da]. unfold ali_part, repair_ali', repair_ali, ali_ok. cbn [negb].
  destruct fx as [k|]; cbn [a_cuda a_dtype a_data is_some negb andb].
  - intros (_ & Hd & v' & Hv & Hl). rewrite andb_false_r.
    apply upcast_long in Hd as Hd'. rewrite Hd.
    assert (negb (dtype_beq dt DI64) && negb (upcastable dt) = false) as ->.
    { destruct Hd' as [->| ->]; [reflexivity|]. apply andb_false_r. }
    destruct da as [v|dims flat]; [|easy].
    destruct (Z.ltb_spec (Z.of_nat T) (Z.of_nat (length v))) as [L1|L1]; cbn [andb] in Hv.
    + destruct (Z.leb_spec (Z.of_nat (length v)) (Z.of_nat T + k)) as [L2|L2].
      * destruct (Z.eqb_spec (Z.of_nat (length v)) (Z.of_nat T)); [lia|].
        destruct (Z.geb_spec (Z.of_nat T + k) (Z.of_nat (length v))); [|lia].
        destruct (Z.gtb_spec (Z.of_nat (length v)) (Z.of_nat T)); [|lia]. reflexivity.
      * injection Hv as <-. lia.
    + injection Hv as <-. destruct (Z.eqb_spec (Z.of_nat (length v)) (Z.of_nat T)); [|lia]. reflexivity.
  - intros (Hc & Hd & v' & Hv & Hl). subst. rewrite andb_true_r. cbn.
    destruct (Z.eqb_spec (Z.of_nat (length v')) (Z.of_nat (length v'))); [|lia]. reflexivity.
Qed.

Lemma repair_ali_ok k T a : ali_ok T a -> repair_ali k T a = a.
Proof.
  destruct a as [cu dt da]. unfold ali_ok, repair_ali. cbn.
  intros (-> & -> & v & -> & <-). cbn.
  destruct (Z.ltb_spec (Z.of_nat (length v)) (Z.of_nat (length v))); [lia|]. reflexivity.
Qed.

(* ---------------------------------------------------------------- features *)

Definition st_dt_ok (st : vstate) (dt : dtype) : Prop := forall d, s_dt st = Some d -> d = dt.
Definition st_nf_ok (st : vstate) (F : nat) : Prop := forall n, s_nf st = Some n -> n = F.
Definition st_2d_ok (st : vstate) (b : bool) : Prop := forall x, s_2d st = Some x -> x = b.

Lemma feat_part_sound fx st f f' T F st1 :
  feat_part true fx st f = inr (f', T, F, st1) ->
  f' = repair_feat' fx f /\ f_cuda f' = false /\ f_shape f = [T; F] /\
  st_dt_ok st (f_dtype f) /\ st_nf_ok st F /\
  st1 = mkSt (Some F) (s_2d st) (Some (f_dtype f)).
Proof.
  destruct f as [cu dt sh]. unfold feat_part, repair_feat', repair_feat. cbn [f_cuda f_dtype f_shape andb].
  destruct (negb match s_dt st with Some d => dtype_beq d dt | None => true end) eqn:E1; [easy|].
  destruct (cu && negb (is_some fx)) eqn:E2; [easy|].
  destruct sh as [|T0 [|F0 [|x sh]]]; try easy.
  assert (Hdt : st_dt_ok st dt).
  { intros d Hd. rewrite Hd in E1. apply dtype_beq_eq. destruct (dtype_beq d dt); [reflexivity|easy]. }
  assert (Hf : (if cu then mkFeat false dt [T0; F0] else mkFeat cu dt [T0; F0])
               = match fx with Some _ => mkFeat false dt [T0; F0] | None => mkFeat cu dt [T0; F0] end
               /\ f_cuda (if cu then mkFeat false dt [T0; F0] else mkFeat cu dt [T0; F0]) = false).
  { destruct cu; destruct fx; cbn in *; try easy; split; reflexivity. }
  destruct Hf as [Hf1 Hf2].
  destruct (s_nf st) as [nf|] eqn:En.
  - destruct (Nat.eqb_spec F0 nf) as [->|Hne]; cbn [negb]; [|easy].
    intro H; inversion H; subst; clear H. repeat split; try assumption.
    intros n Hn. congruence.
  - intro H; inversion H; subst; clear H. repeat split; try assumption.
    intros n Hn. congruence.
Qed.

Lemma feat_part_complete fx st f T F :
  f_cuda (repair_feat' fx f) = false -> f_shape f = [T; F] ->
  st_dt_ok st (f_dtype f) -> st_nf_ok st F ->
  feat_part true fx st f
  = inr (repair_feat' fx f, T, F, mkSt (Some F) (s_2d st) (Some (f_dtype f))).
Proof.
  destruct f as [cu dt sh]. unfold feat_part, repair_feat', repair_feat. cbn [f_cuda f_dtype f_shape andb].
  intros Hc -> Hdt Hnf.
  assert (negb match s_dt st with Some d => dtype_beq d dt | None => true end = false) as ->.
  { destruct (s_dt st) as [d|] eqn:E; [|reflexivity]. rewrite (Hdt d E), dtype_beq_refl. reflexivity. }
  assert (cu && negb (is_some fx) = false) as ->.
  { destruct fx; cbn in *; [apply andb_false_r|]. rewrite Hc. reflexivity. }
  destruct (s_nf st) as [nf|] eqn:En.
  - rewrite (Hnf nf En), Nat.eqb_refl. cbn [negb].
    destruct cu, fx; cbn in *; try easy; reflexivity.
  - destruct cu, fx; cbn in *; try easy; reflexivity.
Qed.

(* ---------------------------------------------------------------- _load_ref = wrap *)

Lemma load_rdata_R1 c dt t : c_tokens_only c = false ->
  load_rdata c dt (R1 t) = inr (R1 (wrap (c_sos c) (c_eos c) t)).
Proof.
  destruct c as [sos eos to sa]. cbn. intros ->. unfold load_rdata, wrap. cbn.
  destruct sos, eos; cbn; rewrite ?app_nil_r; reflexivity.
Qed.

Lemma load_rdata_R2 c dt rows : c_tokens_only c = false -> dt <> DU8 ->
  load_rdata c dt (R2 rows)
  = inr (R2 (wrap (option_map sym_of (c_sos c)) (option_map sym_of (c_eos c)) rows)).
Proof.
  destruct c as [sos eos to sa]. cbn. intros -> Hd. unfold load_rdata, wrap, sym_of. cbn.
  assert (minus1 dt = -1) as E by (destruct dt; try reflexivity; contradiction).
  destruct sos, eos; cbn; rewrite ?E, ?app_nil_r; reflexivity.
Qed.

Lemma wrap_forall {A} (P : A -> Prop) sos eos l :
  (forall s, sos = Some s -> P s) -> (forall s, eos = Some s -> P s) ->
  (Forall P (wrap sos eos l) <-> Forall P l).
Proof.
  intros Hs He. unfold wrap. rewrite !Forall_app.
  split.
  - intros (_ & H & _). assumption.
  - intro H. repeat split; [|assumption|].
    + destruct sos; constructor; [apply Hs; reflexivity|constructor].
    + destruct eos; constructor; [apply He; reflexivity|constructor].
Qed.

Definition plain_yield (c : cfg) : Prop := c_tokens_only c = false /\ c_suppress_alis c = false.
Definition no_syms (c : cfg) : Prop := c_sos c = None /\ c_eos c = None.
(* the reference written back is the reference stored (no symbols were added on loading) *)
Definition clean_writes (c : cfg) (fx : option Z) : Prop := fx = None \/ no_syms c.

Lemma load_ref_nosyms c r : c_tokens_only c = false -> no_syms c -> load_ref c r = inr r.
Proof.
  destruct c as [sos eos to sa], r as [cu dt da]. unfold no_syms. cbn. intros -> [-> ->].
  unfold load_ref, load_rdata. cbn. reflexivity.
Qed.

(* ---------------------------------------------------------------- the reference block *)

Definition ref_dim (r : ref) : bool := match r_data r with R2 _ => true | _ => false end.

Definition ref_pass (st : vstate) (T : nat) (r : ref) : Prop :=
  r_cuda r = false /\ r_dtype r = DI64 /\
  ((exists t, r_data r = R1 t /\ s_2d st <> Some true) \/
   (exists rows, r_data r = R2 rows /\ s_2d st <> Some false /\ Forall (bounds_ok (Z.of_nat T)) rows)).

Lemma ref_pass_ok st T r :
  ref_pass st T r <-> ref_ok (ref_dim r) T r /\ st_2d_ok st (ref_dim r).
Proof.
  unfold ref_pass, ref_ok, st_2d_ok, ref_dim. split.
  - intros (Hc & Hd & [(t & Ht & Hs)|(rows & Hr & Hs & HF)]).
    + rewrite Ht. repeat split; try assumption.
      * left. split; [reflexivity|]. eexists; reflexivity.
      * intros x Hx. destruct x; [congruence|reflexivity].
    + rewrite Hr. repeat split; try assumption.
      * right. split; [reflexivity|]. eexists; split; [reflexivity|assumption].
      * intros x Hx. destruct x; [reflexivity|congruence].
  - intros ((Hc & Hd & [(E & t & Ht)|(E & rows & Hr & HF)]) & Hs); rewrite ?Ht, ?Hr in *; repeat split; try assumption.
    + left. exists t. split; [reflexivity|]. intro Hx. specialize (Hs _ Hx). discriminate.
    + right. exists rows. repeat split; try assumption. intro Hx. specialize (Hs _ Hx). discriminate.
Qed.

Lemma load_ref_shape c r lr : load_ref c r = inr lr -> r_cuda lr = r_cuda r /\ r_dtype lr = r_dtype r.
Proof.
  unfold load_ref. destruct (load_rdata c (r_dtype r) (r_data r)); [easy|].
  intro H; inversion H; subst; cbn. split; reflexivity.
Qed.

Lemma load_ref_pass c r lr st T : c_tokens_only c = false -> load_ref c r = inr lr ->
  (ref_pass st T lr <-> ref_pass st T r) /\ (r_dtype r = DI64 -> ref_dim lr = ref_dim r).
Proof.
  intros Hto Hl. destruct (load_ref_shape _ _ _ Hl) as [Ec Ed].
  unfold load_ref in Hl. destruct r as [cu dt da]. cbn [r_cuda r_dtype r_data] in *.
  assert (Hmain : dt = DI64 ->
            (ref_pass st T lr <-> ref_pass st T (mkRef cu dt da)) /\ ref_dim lr = ref_dim (mkRef cu dt da)).
  { intros ->. unfold ref_pass, ref_dim. rewrite Ec, Ed. cbn [r_cuda r_dtype r_data].
    destruct da as [t|rows|w rows|nd].
    - rewrite load_rdata_R1 in Hl by assumption. inversion Hl; subst; clear Hl. cbn [r_data].
      split; [|reflexivity]. split; intros (Hc & Hd & [(t' & Ht & Hs)|(rows & Hr & _)]); try easy;
        (repeat split; try assumption; left; eexists; split; [reflexivity|assumption]).
    - rewrite load_rdata_R2 in Hl by (assumption || easy). inversion Hl; subst; clear Hl. cbn [r_data].
      split; [|reflexivity].
      assert (HW : forall rows', Forall (bounds_ok (Z.of_nat T))
                     (wrap (option_map sym_of (c_sos c)) (option_map sym_of (c_eos c)) rows')
                   <-> Forall (bounds_ok (Z.of_nat T)) rows').
      { intro rows'. apply wrap_forall; intros s Hs; destruct (c_sos c), (c_eos c); cbn in Hs;
          inversion Hs; subst; unfold sym_of, bounds_ok; lia. }
      split; intros (Hc & Hd & [(t' & Ht & Hs)|(rows' & Hr & Hs & HF)]); try easy;
        injection Hr as <-; repeat split; try assumption; right; eexists; (split; [reflexivity|]);
        (split; [assumption|]); apply HW; assumption.
    - assert (exists w' rows', r_data lr = R2w w' rows') as (w' & rows' & E).
      { destruct c as [sos eos to sa]; cbn in Hto; subst to. unfold load_rdata in Hl. cbn in Hl.
        destruct w; destruct sos, eos; cbn in Hl; inversion Hl; subst; cbn; eauto. }
      rewrite E. split; [|reflexivity].
      split; intros (Hc & Hd & [(t' & Ht & Hs)|(rows'' & Hr & _)]); easy.
    - assert (r_data lr = RN nd) as E.
      { destruct c as [sos eos to sa]; cbn in Hto; subst to. unfold load_rdata in Hl. cbn in Hl.
        destruct sos, eos; cbn in Hl; inversion Hl; subst; reflexivity. }
      rewrite E. split; [|reflexivity].
      split; intros (Hc & Hd & [(t' & Ht & Hs)|(rows'' & Hr & _)]); easy. }
  split.
  - split; intro H.
    + assert (dt = DI64) by (destruct H as (_ & Hd & _); congruence). apply Hmain; assumption.
    + assert (dt = DI64) by (destruct H as (_ & Hd & _); assumption). apply Hmain; assumption.
  - intro Hd. apply Hmain; assumption.
Qed.

Lemma load_ref_err_nopass c r e st T : c_tokens_only c = false -> load_ref c r = inl e -> ~ ref_pass st T r.
Proof.
  intros Hto Hl (Hc & Hd & H). unfold load_ref in Hl. destruct r as [cu dt da]. cbn in *.
  destruct H as [(t & -> & _)|(rows & -> & _)].
  - rewrite load_rdata_R1 in Hl by assumption. discriminate.
  - rewrite load_rdata_R2 in Hl by (assumption || (subst; easy)). discriminate.
Qed.

Lemma ref_part_sound fx T st lr r' wb st2 :
  ref_part fx T st lr = inr (r', wb, st2) ->
  r' = repair_ref' fx T lr /\ ref_pass st T r' /\
  st2 = mkSt (s_nf st) (Some (ref_dim r')) (s_dt st) /\
  (wb = false -> r' = lr) /\ (fx = None -> wb = false).
Proof.
  destruct lr as [cu dt da]. unfold ref_part, repair_ref', repair_ref, ref_pass, ref_dim.
  cbn [r_cuda r_dtype r_data].
  destruct (cu && negb (is_some fx)) eqn:Ec; [easy|].
  destruct (negb (dtype_beq dt DI64) && negb (is_some fx && upcastable dt)) eqn:Ed; [easy|].
  assert (Hup : forall k, fx = Some k -> upcast dt = DI64).
  { intros k ->. cbn in Ed. apply upcast_long. destruct (dtype_beq dt DI64) eqn:E.
    - left. apply dtype_beq_eq. assumption.
    - right. cbn in Ed. destruct (upcastable dt); [reflexivity|discriminate]. }
  assert (Hnone : fx = None -> cu = false /\ dt = DI64).
  { intros ->. cbn in Ec, Ed. rewrite andb_true_r in Ec, Ed. split; [assumption|].
    apply dtype_beq_eq. destruct (dtype_beq dt DI64); [reflexivity|discriminate]. }
  assert (Hwb0 : cu || negb (dtype_beq dt DI64) = false -> cu = false /\ dt = DI64).
  { intro H. apply orb_false_iff in H. destruct H as [-> H]. split; [reflexivity|].
    apply dtype_beq_eq. destruct (dtype_beq dt DI64); [reflexivity|discriminate]. }
  assert (Hwb0' : fx = None -> cu || negb (dtype_beq dt DI64) = false).
  { intro H. destruct (Hnone H) as [-> ->]. reflexivity. }
  destruct da as [t|rows|w rows|nd]; try easy.
  - destruct (s_2d st) as [[|]|] eqn:E2; try easy;
      (intro H; inversion H; subst; clear H; cbn [r_cuda r_dtype r_data];
       split; [destruct fx as [k|]; [rewrite (Hup k eq_refl); reflexivity|destruct (Hnone eq_refl) as [-> ->]; reflexivity]|];
       split; [repeat split; left; eexists; split; [reflexivity|easy]|];
       split; [reflexivity|]; split; [intro Hw; destruct (Hwb0 Hw) as [-> ->]; reflexivity|assumption]).
  - assert (Hgo : forall x, s_2d st <> Some false ->
       match rows_part fx (Z.of_nat T) rows with
       | inl x => inl x
       | inr (rows', wb) =>
           inr (mkRef false DI64 (R2 rows'), (cu || negb (dtype_beq dt DI64)) || wb,
                mkSt (s_nf st) (Some true) (s_dt st))
       end = inr (r', wb, st2) -> x = tt ->
       r' = match fx with
            | Some k => mkRef false (upcast dt) (R2 (map (repair_row k (Z.of_nat T)) rows))
            | None => mkRef cu dt (R2 rows) end /\
       (r_cuda r' = false /\ r_dtype r' = DI64 /\
        ((exists t, r_data r' = R1 t /\ s_2d st <> Some true) \/
         (exists rows0, r_data r' = R2 rows0 /\ s_2d st <> Some false /\ Forall (bounds_ok (Z.of_nat T)) rows0))) /\
       st2 = mkSt (s_nf st) (Some match r_data r' with R2 _ => true | _ => false end) (s_dt st) /\
       (wb = false -> r' = mkRef cu dt (R2 rows)) /\ (fx = None -> wb = false)).
    { intros x Hs H _. destruct (rows_part fx (Z.of_nat T) rows) as [e|[rows' w1]] eqn:Er; [easy|].
      inversion H; subst; clear H. cbn [r_cuda r_dtype r_data].
      destruct (rows_part_sound _ _ _ _ _ Er) as [-> HF].
      split; [destruct fx as [k|]; cbn [repair_row'];
              [rewrite (Hup k eq_refl); reflexivity
              |destruct (Hnone eq_refl) as [-> ->]; rewrite map_id; reflexivity]|].
      split; [repeat split; right; eexists; split; [reflexivity|split; assumption]|].
      split; [reflexivity|]. split.
      - intro Hw. apply orb_false_iff in Hw. destruct Hw as [Hw ->].
        destruct (Hwb0 Hw) as [-> ->]. apply rows_part_wb in Er. rewrite Er. reflexivity.
      - intro Hn. rewrite (Hwb0' Hn). subst fx. apply rows_part_strict in Er. subst. reflexivity. }
    destruct (s_2d st) as [[|]|] eqn:E2; try easy; intro H; apply (Hgo tt); easy.
Qed.

Lemma ref_part_complete fx T st lr :
  ref_pass st T (repair_ref' fx T lr) ->
  exists wb, ref_part fx T st lr
             = inr (repair_ref' fx T lr, wb, mkSt (s_nf st) (Some (ref_dim (repair_ref' fx T lr))) (s_dt st)).
Proof.
  destruct lr as [cu dt da]. unfold ref_part, repair_ref', ref_pass, ref_dim.
  destruct fx as [k|]; unfold repair_ref; cbn [r_cuda r_dtype r_data is_some negb andb].
  - intros (_ & Hd & Hdata). rewrite andb_false_r.
    apply upcast_long in Hd as Hd'.
    assert (negb (dtype_beq dt DI64) && negb (upcastable dt) = false) as ->
      by (destruct Hd' as [->| ->]; [reflexivity|apply andb_false_r]).
    rewrite Hd.
    destruct da as [t|rows|w rows|nd]; cbn [r_data] in *.
    + destruct Hdata as [(t' & Ht & Hs)|(rows' & Hr' & _)]; [|easy].
      destruct (s_2d st) as [[|]|]; try easy; eexists; reflexivity.
    + destruct Hdata as [(t' & Ht & _)|(rows' & Hr' & Hs & HF)]; [easy|].
      injection Hr' as <-.
      destruct (rows_part_complete (Some k) _ _ HF) as [w Hw]. cbn [repair_row'] in Hw. rewrite Hw.
      destruct (s_2d st) as [[|]|]; try easy; eexists; reflexivity.
    + destruct Hdata as [(t' & Ht & _)|(rows' & Hr' & _)]; easy.
    + destruct Hdata as [(t' & Ht & _)|(rows' & Hr' & _)]; easy.
  - intros (-> & -> & Hdata). cbn [negb andb dtype_beq orb].
    destruct da as [t|rows|w rows|nd]; cbn [r_data] in *.
    + destruct Hdata as [(t' & Ht & Hs)|(rows' & Hr' & _)]; [|easy].
      destruct (s_2d st) as [[|]|]; try easy; eexists; reflexivity.
    + destruct Hdata as [(t' & Ht & _)|(rows' & Hr' & Hs & HF)]; [easy|].
      injection Hr' as <-.
      assert (Hm : map (repair_row' None (Z.of_nat T)) rows = rows) by apply map_id.
      rewrite <- Hm in HF.
      destruct (rows_part_complete None _ _ HF) as [w Hw]. rewrite Hm in Hw. rewrite Hw.
      destruct (s_2d st) as [[|]|]; try easy; eexists; reflexivity.
    + destruct Hdata as [(t' & Ht & _)|(rows' & Hr' & _)]; easy.
    + destruct Hdata as [(t' & Ht & _)|(rows' & Hr' & _)]; easy.
Qed.

Lemma repair_ref_ok k d2 T r : ref_ok d2 T r -> repair_ref k T r = r.
Proof.
  destruct r as [cu dt da]. unfold ref_ok, repair_ref. cbn.
  intros (-> & -> & [(_ & t & ->)|(_ & rows & -> & HF)]); cbn; [reflexivity|].
  f_equal. f_equal. induction HF; cbn; [reflexivity|]. rewrite IHHF, repair_row_ok by assumption. reflexivity.
Qed.

(* ---------------------------------------------------------------- one utterance *)

Definition utt_pass (st : vstate) (u : utt) (st' : vstate) : Prop :=
  exists T F,
    f_cuda (u_feat u) = false /\ f_shape (u_feat u) = [T; F] /\
    st_dt_ok st (f_dtype (u_feat u)) /\ st_nf_ok st F /\
    (forall a, u_ali u = Some a -> ali_ok T a) /\
    (forall r, u_ref u = Some r -> ref_pass st T r) /\
    st' = mkSt (Some F) (match u_ref u with Some r => Some (ref_dim r) | None => s_2d st end)
               (Some (f_dtype (u_feat u))).

Definition ref_tokens_nonneg (r : ref) : Prop := Forall (fun t => 0 <= t) (rdata_tokens (r_data r)).
Definition utt_tokens_nonneg (u : utt) : Prop := forall r, u_ref u = Some r -> ref_tokens_nonneg r.

Lemma ref_pass_2d st st' T r : s_2d st = s_2d st' -> ref_pass st T r -> ref_pass st' T r.
Proof. unfold ref_pass. intros <-. trivial. Qed.

Lemma repair_feat'_shape fx f : f_shape (repair_feat' fx f) = f_shape f /\ f_dtype (repair_feat' fx f) = f_dtype f.
Proof. destruct fx; split; reflexivity. Qed.

Lemma ref_info_noinfo rows : forall acc,
  ref_info_rows false acc rows
  = if forallb (fun r => 0 <=? tok_of r) rows then inr acc else inl ValueErr.
Proof.
  induction rows as [|[[tok s] e] t IH]; intro acc; cbn [ref_info_rows forallb tok_of fst].
  - reflexivity.
  - destruct (Z.ltb_spec tok 0); destruct (Z.leb_spec 0 tok); try lia; cbn [andb]; [reflexivity|apply IH].
Qed.

(* the token loop on a reference that passed the validate block *)
Lemma token_loop_pass st T r acc :
  ref_pass st T r -> ref_tokens_nonneg r ->
  exists rows, ref_rows (r_data r) = Some rows /\ ref_info_rows false acc rows = inr acc.
Proof.
  unfold ref_tokens_nonneg. intros (_ & _ & [(t & E & _)|(rows & E & _)]) Hn; rewrite E in *; cbn in *.
  - eexists; split; [reflexivity|]. rewrite ref_info_noinfo.
    assert (forallb (fun r => 0 <=? tok_of r) (map (fun tok => (tok, -1, -1)) t) = true) as ->; [|reflexivity].
    clear E. induction Hn; cbn; [reflexivity|]. rewrite IHHn. destruct (Z.leb_spec 0 x); [reflexivity|lia].
  - eexists; split; [reflexivity|]. rewrite ref_info_noinfo.
    assert (forallb (fun r => 0 <=? tok_of r) rows = true) as ->; [|reflexivity].
    clear E. induction rows as [|r0 rows IH]; cbn; [reflexivity|]. inversion Hn; subst.
    rewrite IH by assumption. destruct (Z.leb_spec 0 (tok_of r0)); [reflexivity|lia].
Qed.

Lemma token_loop_acc rows acc acc' : ref_info_rows false acc rows = inr acc' -> acc' = acc.
Proof. rewrite ref_info_noinfo. destruct (forallb _ rows); intro H; inversion H; reflexivity. Qed.

Lemma repair_row_tok k T r : tok_of (repair_row k T r) = tok_of r.
Proof.
  destruct r as [[tok s] e]. unfold repair_row.
  destruct (xorb _ _); [reflexivity|]. destruct (_ && _); reflexivity.
Qed.

Lemma repair_ref'_tokens fx T r : rdata_tokens (r_data (repair_ref' fx T r)) = rdata_tokens (r_data r).
Proof.
  destruct fx as [k|]; [|reflexivity]. destruct r as [cu dt da]. cbn. destruct da; cbn; try reflexivity.
  rewrite map_map. apply map_ext. intro. apply repair_row_tok.
Qed.

Lemma load_ref_tokens c r lr : c_tokens_only c = false -> syms_nonneg c ->
  load_ref c r = inr lr -> ref_tokens_nonneg r -> r_dtype r = DI64 ->
  (exists t, r_data r = R1 t) \/ (exists rows, r_data r = R2 rows) -> ref_tokens_nonneg lr.
Proof.
  intros Hto [Hs He] Hl Hn Hd Hk. unfold load_ref in Hl. destruct r as [cu dt da]. cbn in *. subst dt.
  unfold ref_tokens_nonneg in *. cbn in *.
  destruct Hk as [(t & ->)|(rows & ->)].
  - rewrite load_rdata_R1 in Hl by assumption. inversion Hl; subst; cbn.
    apply wrap_forall; assumption.
  - rewrite load_rdata_R2 in Hl by (assumption || easy). inversion Hl; subst; cbn in *.
    unfold wrap. rewrite !map_app. rewrite !Forall_app. repeat split; try assumption.
    + destruct (c_sos c); cbn; constructor; [apply Hs; reflexivity|constructor].
    + destruct (c_eos c); cbn; constructor; [apply He; reflexivity|constructor].
Qed.

Ltac csplit := repeat match goal with |- _ /\ _ => split end.

Lemma utt_eta u : mkUtt (u_feat u) (u_ali u) (u_ref u) = u.
Proof. destruct u; reflexivity. Qed.

Lemma step_sound c fx st acc u u' st' acc' :
  plain_yield c -> clean_writes c fx ->
  step_utt false true c fx st acc u = (u', inr (st', acc')) ->
  u' = repair_utt' fx u /\ utt_pass st u' st' /\ acc' = acc.
Proof.
  intros [Hto Hsa] Hcw. unfold step_utt. rewrite Hsa.
  destruct (match u_ref u with
            | Some r => match load_ref c r with inl e => inl e | inr lr => inr (Some lr) end
            | None => inr None end) as [e|lref] eqn:Eload; [easy|].
  destruct (feat_part true fx st (u_feat u)) as [e|[[[f' T] F] st1]] eqn:Ef; [easy|].
  apply feat_part_sound in Ef. destruct Ef as (Ef & Hfc & Hsh & Hdt & Hnf & Hst1). subst f'.
  cbn [andb].
  destruct (repair_feat'_shape fx (u_feat u)) as [Hsh' Hdt'].
  destruct (match u_ali u with
            | Some a => match ali_part true fx T a with
                        | inl e => inl (mkUtt (repair_feat' fx (u_feat u)) (u_ali u) (u_ref u), e)
                        | inr a' => inr (Some a', acc) end
            | None => inr (None, acc) end) as [[ud e]|[a' acc2]] eqn:Ea; [easy|].
  assert (Ha : a' = option_map (repair_ali' fx T) (u_ali u) /\ acc2 = acc /\
               (forall a, a' = Some a -> ali_ok T a)).
  { destruct (u_ali u) as [a|].
    - destruct (ali_part true fx T a) as [e|a1] eqn:Ea1; [easy|]. inversion Ea; subst.
      apply ali_part_sound in Ea1. destruct Ea1 as [-> Hok].
      split; [reflexivity|split; [reflexivity|]]. intros ? H0. inversion H0; subst. assumption.
    - inversion Ea; subst. split; [reflexivity|split; [reflexivity|]]. easy. }
  destruct Ha as (-> & -> & Hali). clear Ea.
  assert (Hfr : frames (u_feat u) = T) by (unfold frames; rewrite Hsh; reflexivity).
  assert (Hru : forall refv, mkUtt (repair_feat' fx (u_feat u)) (option_map (repair_ali' fx T) (u_ali u)) refv
                = match fx with
                  | Some k => mkUtt (repair_feat (u_feat u)) (option_map (repair_ali k (frames (u_feat u))) (u_ali u)) refv
                  | None => mkUtt (u_feat u) (u_ali u) refv end).
  { intro refv. rewrite Hfr. destruct fx; cbn; [reflexivity|]. destruct (u_ali u); reflexivity. }
  destruct lref as [lr|].
  - (* a reference is stored *)
    destruct (u_ref u) as [r|] eqn:Er; [|easy].
    destruct (load_ref c r) as [e|lr0] eqn:El; [easy|]. inversion Eload; subst lr0; clear Eload.
    destruct (ref_part fx T st1 lr) as [e|[[r' wb] st2]] eqn:Erp; [easy|].
    apply ref_part_sound in Erp. destruct Erp as (Hr' & Hpass & Hst2 & Hwb & Hstrict).
    destruct (ref_rows (r_data r')) as [rows|]; [|easy].
    destruct (ref_info_rows false acc rows) as [e|acc3] eqn:Ei; [easy|].
    apply token_loop_acc in Ei. subst acc3.
    intro H; inversion H; subst u' st' acc'; clear H.
    assert (Hp0 : ref_pass st T r') by (apply (ref_pass_2d st1); [subst st1; reflexivity|assumption]).
    destruct Hcw as [->|Hns].
    + (* strict *)
      rewrite (Hstrict eq_refl). cbn [repair_ref'] in Hr'. subst r'.
      destruct (load_ref_pass c r lr st T Hto El) as [Hiff Hdim].
      assert (Hpr : ref_pass st T r) by (apply Hiff; assumption).
      assert (Hd64 : r_dtype r = DI64) by (destruct Hpr as (_ & Hd & _); assumption).
      split; [|split; [|reflexivity]].
      * rewrite Hru. cbn [repair_utt']. rewrite <- Er. apply utt_eta.
      * exists T, F. cbn [u_feat u_ali u_ref]. rewrite Hsh', Hdt'. csplit; try assumption.
        -- intros r0 H0. inversion H0; subst r0. assumption.
        -- rewrite Hst2, Hdim by assumption. subst st1. reflexivity.
    + (* no symbols configured: what was loaded is what is stored *)
      rewrite (load_ref_nosyms c r Hto Hns) in El. inversion El; subst lr; clear El.
      assert (Hdisk : (if wb then Some r' else Some r) = Some r').
      { destruct wb; [reflexivity|]. rewrite (Hwb eq_refl). reflexivity. }
      rewrite Hdisk.
      split; [|split; [|reflexivity]].
      * rewrite Hru. subst r'. unfold repair_utt', repair_utt. rewrite Er, Hfr.
        destruct fx; cbn [option_map repair_ref']; [reflexivity|]. rewrite <- Er. apply utt_eta.
      * exists T, F. cbn [u_feat u_ali u_ref]. rewrite Hsh', Hdt'. csplit; try assumption.
        -- intros r0 H0. inversion H0; subst r0. assumption.
        -- subst st1 st2. reflexivity.
  - (* no reference *)
    destruct (u_ref u) as [r|] eqn:Er; [destruct (load_ref c r); easy|].
    intro H; inversion H; subst u' st' acc'; clear H.
    split; [|split; [|reflexivity]].
    + rewrite Hru. unfold repair_utt', repair_utt. rewrite Er.
      destruct fx; cbn [option_map]; [reflexivity|]. rewrite <- Er. apply utt_eta.
    + exists T, F. cbn [u_feat u_ali u_ref]. rewrite Hsh', Hdt'. csplit; try assumption; try easy.
Qed.

Lemma repair_utt'_parts fx u :
  u_feat (repair_utt' fx u) = repair_feat' fx (u_feat u) /\
  u_ali (repair_utt' fx u) = option_map (repair_ali' fx (frames (u_feat u))) (u_ali u) /\
  u_ref (repair_utt' fx u) = option_map (repair_ref' fx (frames (u_feat u))) (u_ref u).
Proof.
  destruct fx; cbn; [repeat split|]. repeat split; [destruct (u_ali u)|destruct (u_ref u)]; reflexivity.
Qed.

Lemma step_complete c fx st acc u st' :
  plain_yield c -> clean_writes c fx -> syms_nonneg c -> utt_tokens_nonneg u ->
  utt_pass st (repair_utt' fx u) st' ->
  step_utt false true c fx st acc u = (repair_utt' fx u, inr (st', acc)).
Proof.
  intros [Hto Hsa] Hcw Hsy Htok (T & F & Hfc & Hsh & Hdt & Hnf & Hali & Href & Hst').
  destruct (repair_utt'_parts fx u) as (Pf & Pa & Pr).
  destruct (repair_feat'_shape fx (u_feat u)) as [Hsh' Hdt'].
  rewrite Pf in Hfc, Hsh, Hdt, Hst'. rewrite Hsh' in Hsh. rewrite Hdt' in Hdt, Hst'.
  rewrite Pa in Hali. rewrite Pr in Href, Hst'.
  assert (Hfr : frames (u_feat u) = T) by (unfold frames; rewrite Hsh; reflexivity).
  rewrite Hfr in *.
  assert (Hu : repair_utt' fx u
               = mkUtt (repair_feat' fx (u_feat u)) (option_map (repair_ali' fx T) (u_ali u))
                       (option_map (repair_ref' fx T) (u_ref u))).
  { rewrite <- Pf, <- Pa, <- Pr. symmetry. apply utt_eta. }
  rewrite Hu. clear Pf Pa Pr Hu.
  unfold step_utt. rewrite Hsa.
  (* loading *)
  assert (Hload : match u_ref u with
                  | Some r => exists lr, load_ref c r = inr lr /\
                                         (fx = None \/ lr = r) /\ ref_pass st T (repair_ref' fx T lr) /\
                                         ref_tokens_nonneg lr /\
                                         (fx = None -> ref_dim lr = ref_dim r)
                  | None => True end).
  { destruct (u_ref u) as [r|] eqn:Er; [|exact I].
    specialize (Href _ eq_refl). specialize (Htok _ Er).
    destruct Hcw as [->|Hns].
    - cbn [repair_ref'] in *. destruct (load_ref c r) as [e|lr] eqn:El.
      + exfalso. exact (load_ref_err_nopass _ _ _ _ _ Hto El Href).
      + exists lr. destruct (load_ref_pass c r lr st T Hto El) as [Hiff Hdim].
        destruct Href as (Hc & Hd & Hk) eqn:Eh. clear Eh.
        split; [reflexivity|]. split; [left; reflexivity|]. split; [apply Hiff; repeat split; assumption|].
        split; [|intros _; apply Hdim; assumption].
        apply (load_ref_tokens c r); try assumption.
        destruct Hk as [(t & Ht & _)|(rows & Hr & _)]; [left|right]; eexists; eassumption.
    - exists r. split; [apply load_ref_nosyms; assumption|]. split; [right; reflexivity|].
      split; [assumption|]. split; [assumption|]. reflexivity. }
  rewrite (feat_part_complete fx st (u_feat u) T F Hfc Hsh Hdt Hnf). cbn [andb].
  (* alignment *)
  assert (Ha : match u_ali u with
               | Some a => match ali_part true fx T a with
                           | inl e => inl (mkUtt (repair_feat' fx (u_feat u)) (u_ali u) (u_ref u), e)
                           | inr a' => inr (Some a', acc) end
               | None => inr (None, acc) end
               = inr (option_map (repair_ali' fx T) (u_ali u), acc)).
  { destruct (u_ali u) as [a|]; [|reflexivity]. cbn [option_map] in *.
    rewrite (ali_part_complete fx T a (Hali _ eq_refl)). reflexivity. }
  destruct (u_ref u) as [r|] eqn:Er.
  - destruct Hload as (lr & El & Hlr & Hpass & Htk & Hdim). rewrite El.
    change (u_ali u) with (u_ali u) in Ha.
    match goal with |- context[match ?X with inl _ => _ | inr _ => _ end] =>
      match X with context[ali_part] => replace X with (@inr (utt * exn) _ (option_map (repair_ali' fx T) (u_ali u), acc)) end end.
    set (st1 := mkSt (Some F) (s_2d st) (Some (f_dtype (u_feat u)))) in *.
    assert (Hp1 : ref_pass st1 T (repair_ref' fx T lr)) by (apply (ref_pass_2d st); [reflexivity|assumption]).
    destruct (ref_part_complete fx T st1 lr Hp1) as [wb Erp].
    rewrite Erp.
    assert (Htk' : ref_tokens_nonneg (repair_ref' fx T lr)).
    { unfold ref_tokens_nonneg. rewrite repair_ref'_tokens. assumption. }
    destruct (token_loop_pass st1 T _ acc Hp1 Htk') as (rows & -> & ->).
    apply ref_part_sound in Erp. destruct Erp as (_ & _ & _ & Hwb & Hstrict).
    f_equal.
    + f_equal. cbn [option_map]. destruct Hlr as [-> | ->].
      * rewrite (Hstrict eq_refl). reflexivity.
      * destruct wb; [reflexivity|]. rewrite (Hwb eq_refl). reflexivity.
    + f_equal. f_equal. rewrite Hst'. subst st1. cbn [s_nf s_dt option_map]. f_equal. f_equal.
      destruct Hlr as [-> | ->]; [|reflexivity]. cbn [repair_ref']. apply Hdim. reflexivity.
  - match goal with |- context[match ?X with inl _ => _ | inr _ => _ end] =>
      match X with context[ali_part] => replace X with (@inr (utt * exn) _ (option_map (repair_ali' fx T) (u_ali u), acc)) end end.
    cbn [option_map] in *. rewrite Hst'. reflexivity.
Qed.

Definition utt_partial' (fx : option Z) (u u' : utt) : Prop :=
  (u_feat u' = u_feat u \/ u_feat u' = u_feat (repair_utt' fx u)) /\
  (u_ali u' = u_ali u \/ u_ali u' = u_ali (repair_utt' fx u)) /\
  (u_ref u' = u_ref u \/ u_ref u' = u_ref (repair_utt' fx u)).

Lemma utt_partial'_spec fx u u' : utt_partial' fx u u' -> utt_partial fx u u'.
Proof.
  unfold utt_partial', utt_partial. destruct fx as [k|]; cbn [repair_utt']; [trivial|].
  intros ([A|A] & [B|B] & [C|C]); destruct u, u'; cbn in *; subst; reflexivity.
Qed.

Lemma step_error_partial c fx st acc u u' e :
  plain_yield c -> clean_writes c fx ->
  step_utt false true c fx st acc u = (u', inl e) -> utt_partial fx u u'.
Proof.
  intros [Hto Hsa] Hcw H. apply utt_partial'_spec. revert H.
  destruct (repair_utt'_parts fx u) as (Pf & Pa & Pr).
  unfold utt_partial'. rewrite Pf, Pa, Pr. clear Pf Pa Pr.
  unfold step_utt. rewrite Hsa.
  destruct (match u_ref u with
            | Some r => match load_ref c r with inl e => inl e | inr lr => inr (Some lr) end
            | None => inr None end) as [e0|lref] eqn:Eload.
  { intro H; inversion H; subst. repeat split; left; reflexivity. }
  destruct (feat_part true fx st (u_feat u)) as [e0|[[[f' T] F] st1]] eqn:Ef.
  { intro H; inversion H; subst. repeat split; left; reflexivity. }
  apply feat_part_sound in Ef. destruct Ef as (Ef & Hfc & Hsh & Hdt & Hnf & Hst1). subst f'.
  assert (Hfr : frames (u_feat u) = T) by (unfold frames; rewrite Hsh; reflexivity).
  rewrite Hfr. cbn [andb].
  destruct (u_ali u) as [a|] eqn:Ea.
  - destruct (ali_part true fx T a) as [e0|a'] eqn:Ea1.
    { intro H; inversion H; subst. cbn. csplit; [right|left|left]; reflexivity. }
    apply ali_part_sound in Ea1. destruct Ea1 as [-> _].
    destruct lref as [lr|].
    + destruct (u_ref u) as [r|] eqn:Er; [|easy].
      destruct (load_ref c r) as [e0|lr0] eqn:El; [easy|]. inversion Eload; subst lr0; clear Eload.
      destruct (ref_part fx T st1 lr) as [e0|[[r' wb] st2]] eqn:Erp.
      { intro H; inversion H; subst. cbn. csplit; [right|right|left]; reflexivity. }
      apply ref_part_sound in Erp. destruct Erp as (Hr' & _ & _ & Hwb & Hstrict).
      assert (Hdisk : (if wb then Some r' else Some r) = Some r
                      \/ (if wb then Some r' else Some r) = Some (repair_ref' fx T r)).
      { destruct wb; [|left; reflexivity]. destruct Hcw as [->|Hns].
        - specialize (Hstrict eq_refl). discriminate.
        - rewrite (load_ref_nosyms c r Hto Hns) in El. inversion El; subst lr. right. subst r'. reflexivity. }
      destruct (ref_rows (r_data r')) as [rows|].
      * destruct (ref_info_rows false acc rows) as [e0|acc3]; [|easy].
        intro H; inversion H; subst. cbn. csplit; [right; reflexivity|right; reflexivity|assumption].
      * intro H; inversion H; subst. cbn. csplit; [right; reflexivity|right; reflexivity|assumption].
    + easy.
  - destruct lref as [lr|].
    + destruct (u_ref u) as [r|] eqn:Er; [|easy].
      destruct (load_ref c r) as [e0|lr0] eqn:El; [easy|]. inversion Eload; subst lr0; clear Eload.
      destruct (ref_part fx T st1 lr) as [e0|[[r' wb] st2]] eqn:Erp.
      { intro H; inversion H; subst. cbn. csplit; [right|right|left]; reflexivity. }
      apply ref_part_sound in Erp. destruct Erp as (Hr' & _ & _ & Hwb & Hstrict).
      assert (Hdisk : (if wb then Some r' else Some r) = Some r
                      \/ (if wb then Some r' else Some r) = Some (repair_ref' fx T r)).
      { destruct wb; [|left; reflexivity]. destruct Hcw as [->|Hns].
        - specialize (Hstrict eq_refl). discriminate.
        - rewrite (load_ref_nosyms c r Hto Hns) in El. inversion El; subst lr. right. subst r'. reflexivity. }
      destruct (ref_rows (r_data r')) as [rows|].
      * destruct (ref_info_rows false acc rows) as [e0|acc3]; [|easy].
        intro H; inversion H; subst. cbn. csplit; [right; reflexivity|right; reflexivity|assumption].
      * intro H; inversion H; subst. cbn. csplit; [right; reflexivity|right; reflexivity|assumption].
    + easy.
Qed.

(* ---------------------------------------------------------------- the whole pass *)

Fixpoint seq_pass (st : vstate) (d : dir) : Prop :=
  match d with
  | [] => True
  | u :: t => exists st', utt_pass st u st' /\ seq_pass st' t
  end.

Lemma run_sound c fx : plain_yield c -> clean_writes c fx ->
  forall d st acc d' acc',
  run_pass false true c fx st acc d = (d', inr acc') ->
  d' = map (repair_utt' fx) d /\ seq_pass st d' /\ acc' = acc.
Proof.
  intros Hp Hc. induction d as [|u t IH]; intros st acc d' acc'; cbn [run_pass map].
  - intro H; inversion H; subst. repeat split.
  - destruct (step_utt false true c fx st acc u) as [u' [e|[st1 acc1]]] eqn:Es; [easy|].
    destruct (run_pass false true c fx st1 acc1 t) as [t' r] eqn:Er.
    intro H; inversion H; subst; clear H.
    destruct (step_sound _ _ _ _ _ _ _ _ Hp Hc Es) as (-> & Hpass & ->).
    destruct (IH _ _ _ _ Er) as (-> & Hseq & ->).
    split; [reflexivity|]. split; [|reflexivity]. cbn [seq_pass]. eexists; split; eassumption.
Qed.

Lemma run_complete c fx : plain_yield c -> clean_writes c fx -> syms_nonneg c ->
  forall d st acc, Forall utt_tokens_nonneg d -> seq_pass st (map (repair_utt' fx) d) ->
  run_pass false true c fx st acc d = (map (repair_utt' fx) d, inr acc).
Proof.
  intros Hp Hc Hs. induction d as [|u t IH]; intros st acc Htok; cbn [run_pass map seq_pass].
  - reflexivity.
  - intros (st' & Hpass & Hseq). inversion Htok; subst.
    rewrite (step_complete c fx st acc u st' Hp Hc Hs H1 Hpass).
    rewrite (IH st' acc H2 Hseq). reflexivity.
Qed.

Lemma utt_partial_refl fx u : utt_partial fx u u.
Proof. destruct fx; cbn; [repeat split; left|]; reflexivity. Qed.

Lemma utt_partial_repaired fx u : utt_partial fx u (repair_utt' fx u).
Proof. destruct fx; cbn; [repeat split; right|]; reflexivity. Qed.

Lemma run_error_partial c fx : plain_yield c -> clean_writes c fx ->
  forall d st acc d' e,
  run_pass false true c fx st acc d = (d', inl e) -> Forall2 (utt_partial fx) d d'.
Proof.
  intros Hp Hc. induction d as [|u t IH]; intros st acc d' e; cbn [run_pass].
  - easy.
  - destruct (step_utt false true c fx st acc u) as [u' [e0|[st1 acc1]]] eqn:Es.
    + intro H; inversion H; subst; clear H. constructor.
      * eapply step_error_partial; eassumption.
      * clear. induction t; constructor; [apply utt_partial_refl|assumption].
    + destruct (run_pass false true c fx st1 acc1 t) as [t' r] eqn:Er.
      intro H; inversion H; subst; clear H.
      destruct (step_sound _ _ _ _ _ _ _ _ Hp Hc Es) as (-> & _ & _).
      constructor; [apply utt_partial_repaired|]. eapply IH; eassumption.
Qed.

Definition compat (st : vstate) (F : nat) (dt : dtype) (d2 : bool) : Prop :=
  st_nf_ok st F /\ st_dt_ok st dt /\ st_2d_ok st d2.

Lemma ref_ok_dim d2 T r : ref_ok d2 T r -> ref_dim r = d2.
Proof.
  unfold ref_ok, ref_dim. intros (_ & _ & [(-> & t & ->)|(-> & rows & -> & _)]); reflexivity.
Qed.

Lemma seq_pass_wf d : forall st,
  seq_pass st d <-> exists F dt d2, compat st F dt d2 /\ Forall (utt_ok F dt d2) d.
Proof.
  induction d as [|u t IH]; intro st; cbn [seq_pass].
  - split; [intros _|trivial].
    exists (match s_nf st with Some n => n | None => 0%nat end),
           (match s_dt st with Some x => x | None => DF32 end),
           (match s_2d st with Some b => b | None => false end).
    split; [|constructor]. unfold compat, st_nf_ok, st_dt_ok, st_2d_ok.
    repeat split; intros x Hx; rewrite Hx; reflexivity.
  - split.
    + intros (st' & (T & F0 & Hc & Hsh & Hdt & Hnf & Hali & Href & Hst') & Hseq).
      apply IH in Hseq. destruct Hseq as (F & dt & d2 & (Cn & Cd & C2) & HF).
      assert (F = F0) by (symmetry; apply Cn; subst st'; reflexivity).
      assert (dt = f_dtype (u_feat u)) by (symmetry; apply Cd; subst st'; reflexivity).
      subst F dt.
      assert (Hfr : frames (u_feat u) = T) by (unfold frames; rewrite Hsh; reflexivity).
      exists F0, (f_dtype (u_feat u)), d2. split.
      * repeat split; try assumption.
        destruct (u_ref u) as [r|] eqn:Er.
        -- specialize (Href _ eq_refl). apply ref_pass_ok in Href. destruct Href as [_ H2].
           assert (ref_dim r = d2) as <- by (apply C2; subst st'; reflexivity). assumption.
        -- intros x Hx. apply C2. subst st'. assumption.
      * constructor; [|assumption]. unfold utt_ok, feat_ok. rewrite Hfr.
        csplit; try assumption; try reflexivity; [eexists; eassumption|].
        intros r Er. specialize (Href _ Er). apply ref_pass_ok in Href. destruct Href as [H1 _].
        assert (ref_dim r = d2) as <- by (apply C2; subst st'; rewrite Er; reflexivity). assumption.
    + intros (F & dt & d2 & (Cn & Cd & C2) & HF). inversion HF as [|? ? Hu Ht]; subst.
      destruct Hu as ((Hc & Hdt & T & Hsh) & Hali & Href).
      assert (Hfr : frames (u_feat u) = T) by (unfold frames; rewrite Hsh; reflexivity).
      rewrite Hfr in *. clear Hfr.
      eexists. split.
      * exists T, F. csplit; try eassumption; try reflexivity.
        -- subst dt. assumption.
        -- intros r Er. apply ref_pass_ok. rewrite (ref_ok_dim _ _ _ (Href _ Er)). split; [apply Href|]; assumption.
      * apply IH. exists F, dt, d2. split; [|assumption]. unfold compat, st_nf_ok, st_dt_ok, st_2d_ok. cbn.
        repeat split; intros x Hx; inversion Hx; subst; try reflexivity.
        destruct (u_ref u) as [r|] eqn:Er.
        -- inversion H0; subst. apply (ref_ok_dim _ T). apply Href. reflexivity.
        -- apply C2. assumption.
Qed.

Lemma seq_pass_wellformed d : seq_pass st0 d <-> WellFormed d.
Proof.
  rewrite seq_pass_wf. unfold WellFormed. split.
  - intros (F & dt & d2 & _ & H). eauto.
  - intros (F & dt & d2 & H). exists F, dt, d2. split; [|assumption].
    unfold compat, st_nf_ok, st_dt_ok, st_2d_ok, st0. cbn. repeat split; intros x Hx; discriminate.
Qed.

(* ---------------------------------------------------------------- validate_spect_data_set *)

Lemma norm_fix_tolerance fa : norm_fix fa = tolerance fa.
Proof. destruct fa as [|k|[|]]; reflexivity. Qed.

Lemma tokens_nonneg_utts d : tokens_nonneg d <-> Forall utt_tokens_nonneg d.
Proof. reflexivity. Qed.

Lemma validate_result c fa d d' :
  plain_yield c -> clean_writes c (tolerance fa) ->
  validate c fa d = (d', None) -> d' = repair (tolerance fa) d /\ WellFormed d'.
Proof.
  intros Hp Hc. unfold validate. rewrite norm_fix_tolerance.
  destruct (run_pass false true c (tolerance fa) st0 acc0 d) as [d1 [e|acc]] eqn:E; [easy|].
  intro H; inversion H; subst; clear H.
  destruct (run_sound c _ Hp Hc _ _ _ _ _ E) as (-> & Hs & _).
  split; [symmetry; apply repair_map|]. apply seq_pass_wellformed. assumption.
Qed.

Lemma validate_accepts c fa d :
  plain_yield c -> clean_writes c (tolerance fa) -> syms_nonneg c -> tokens_nonneg d ->
  WellFormed (repair (tolerance fa) d) -> validate c fa d = (repair (tolerance fa) d, None).
Proof.
  intros Hp Hc Hs Ht Hw. unfold validate. rewrite norm_fix_tolerance.
  rewrite repair_map in *. apply seq_pass_wellformed in Hw.
  rewrite (run_complete c _ Hp Hc Hs d st0 acc0 Ht Hw). reflexivity.
Qed.

Lemma validate_accepts_iff c fa d :
  plain_yield c -> clean_writes c (tolerance fa) -> syms_nonneg c -> tokens_nonneg d ->
  ((exists d', validate c fa d = (d', None)) <-> WellFormed (repair (tolerance fa) d)).
Proof.
  intros Hp Hc Hs Ht. split.
  - intros (d' & H). destruct (validate_result _ _ _ _ Hp Hc H) as [-> Hw]. assumption.
  - intro Hw. eexists. apply validate_accepts; assumption.
Qed.

Lemma validate_error_partial c fa d d' e :
  plain_yield c -> clean_writes c (tolerance fa) ->
  validate c fa d = (d', Some e) -> Forall2 (utt_partial (tolerance fa)) d d'.
Proof.
  intros Hp Hc. unfold validate. rewrite norm_fix_tolerance.
  destruct (run_pass false true c (tolerance fa) st0 acc0 d) as [d1 [e0|acc]] eqn:E; [|easy].
  intro H; inversion H; subst; clear H. eapply run_error_partial; eassumption.
Qed.

(* a valid tensor is left alone by every repair *)
Lemma repair_utt_ok k F dt d2 u : utt_ok F dt d2 u -> repair_utt k u = u.
Proof.
  intros ((Hc & _ & _) & Ha & Hr). unfold repair_utt.
  destruct u as [f a r]. cbn [u_feat u_ali u_ref] in *. f_equal.
  - destruct f as [cu dt0 sh]. cbn in *. subst. reflexivity.
  - destruct a as [a0|]; [|reflexivity]. cbn. rewrite (repair_ali_ok _ _ _ (Ha _ eq_refl)). reflexivity.
  - destruct r as [r0|]; [|reflexivity]. cbn. rewrite (repair_ref_ok _ _ _ _ (Hr _ eq_refl)). reflexivity.
Qed.

Lemma repair_wf_id fx d : WellFormed d -> repair fx d = d.
Proof.
  intros (F & dt & d2 & H). destruct fx as [k|]; [|reflexivity]. cbn.
  induction H; cbn; [reflexivity|]. rewrite IHForall, (repair_utt_ok k F dt d2) by assumption. reflexivity.
Qed.

Lemma repair_tokens fx d : tokens_nonneg d -> tokens_nonneg (repair fx d).
Proof.
  rewrite repair_map. unfold tokens_nonneg. intro H. induction H; cbn; constructor; [|assumption].
  intros r Hr. destruct (repair_utt'_parts fx x) as (_ & _ & Pr). rewrite Pr in Hr.
  destruct (u_ref x) as [r0|]; [|easy]. inversion Hr; subst. rewrite repair_ref'_tokens. apply H. reflexivity.
Qed.

Lemma strict_accepts_iff c d :
  plain_yield c -> syms_nonneg c -> tokens_nonneg d ->
  (validate c FNone d = (d, None) <-> WellFormed d).
Proof.
  intros Hp Hs Ht. split.
  - intro H. apply (validate_result c FNone) in H; [|assumption|left; reflexivity]. apply H.
  - intro Hw. apply (validate_accepts c FNone d Hp); try assumption. left; reflexivity.
Qed.

Lemma fix_then_strict c fa d d' :
  plain_yield c -> clean_writes c (tolerance fa) -> syms_nonneg c -> tokens_nonneg d ->
  validate c fa d = (d', None) -> forall fa', clean_writes c (tolerance fa') -> validate c fa' d' = (d', None).
Proof.
  intros Hp Hc Hs Ht H fa' Hc'. destruct (validate_result _ _ _ _ Hp Hc H) as [-> Hw].
  rewrite <- (repair_wf_id (tolerance fa') _ Hw) at 2.
  apply validate_accepts; try assumption.
  - apply repair_tokens. assumption.
  - rewrite (repair_wf_id _ _ Hw). assumption.
Qed.

(* ---- strict validation never writes, whatever the data set's options *)
Lemma feat_part_none v st f f' T F st1 : feat_part v None st f = inr (f', T, F, st1) -> f' = f.
Proof.
  unfold feat_part. cbn [is_some negb]. rewrite andb_true_r.
  destruct (v && negb _); [easy|]. destruct (v && f_cuda f) eqn:E; [easy|].
  destruct (f_shape f) as [|? [|? [|? ?]]]; try easy.
  destruct (s_nf st); [destruct (v && negb _); [easy|]|]; intro H; inversion H; reflexivity.
Qed.

Lemma ali_part_none v T a a' : ali_part v None T a = inr a' -> a' = a.
Proof.
  destruct v; [|intro H; inversion H; reflexivity].
  intro H. apply ali_part_sound in H. destruct H as [-> _]. reflexivity.
Qed.

Lemma step_strict_unchanged info v c st acc u : fst (step_utt info v c None st acc u) = u.
Proof.
  unfold step_utt.
  destruct (match u_ref u with
            | Some r => match load_ref c r with inl e => inl e | inr lr => inr (Some lr) end
            | None => inr None end) as [e|lref]; [reflexivity|].
  destruct (c_suppress_alis c); [reflexivity|].
  destruct (feat_part v None st (u_feat u)) as [e|[[[f' T] F] st1]] eqn:Ef; [reflexivity|].
  apply feat_part_none in Ef. subst f'.
  destruct (u_ali u) as [a|] eqn:Ea.
  - destruct (ali_part v None T a) as [e|a'] eqn:Ea1.
    { cbn. rewrite <- Ea. apply utt_eta. }
    apply ali_part_none in Ea1. subst a'.
    assert (Hu : forall x, mkUtt (u_feat u) (Some a) x = mkUtt (u_feat u) (u_ali u) x) by (rewrite Ea; reflexivity).
    destruct info.
    + destruct (ali_info_runs _ _) as [e|acc2]; [cbn; rewrite <- Ea; apply utt_eta|].
      destruct lref as [lr|]; [|cbn; rewrite <- Ea; apply utt_eta].
      destruct (if v then ref_part None T st1 lr else inr (lr, false, st1)) as [e|[[r' wb] st2]] eqn:Er;
        [cbn; rewrite <- Ea; apply utt_eta|].
      assert (wb = false) as ->.
      { destruct v; [apply ref_part_sound in Er; apply Er; reflexivity|inversion Er; reflexivity]. }
      destruct (ref_rows (r_data r')); [destruct (ref_info_rows _ _ _)|]; cbn; rewrite <- Ea; apply utt_eta.
    + destruct lref as [lr|]; [|cbn; rewrite <- Ea; apply utt_eta].
      destruct (if v then ref_part None T st1 lr else inr (lr, false, st1)) as [e|[[r' wb] st2]] eqn:Er;
        [cbn; rewrite <- Ea; apply utt_eta|].
      assert (wb = false) as ->.
      { destruct v; [apply ref_part_sound in Er; apply Er; reflexivity|inversion Er; reflexivity]. }
      destruct (ref_rows (r_data r')); [destruct (ref_info_rows _ _ _)|]; cbn; rewrite <- Ea; apply utt_eta.
  - destruct lref as [lr|]; [|cbn; rewrite <- Ea; apply utt_eta].
    destruct (if v then ref_part None T st1 lr else inr (lr, false, st1)) as [e|[[r' wb] st2]] eqn:Er;
      [cbn; rewrite <- Ea; apply utt_eta|].
    assert (wb = false) as ->.
    { destruct v; [apply ref_part_sound in Er; apply Er; reflexivity|inversion Er; reflexivity]. }
    destruct (ref_rows (r_data r')); [destruct (ref_info_rows _ _ _)|]; cbn; rewrite <- Ea; apply utt_eta.
Qed.

Lemma run_strict_unchanged info v c : forall d st acc, fst (run_pass info v c None st acc d) = d.
Proof.
  induction d as [|u t IH]; intros st acc; cbn [run_pass]; [reflexivity|].
  pose proof (step_strict_unchanged info v c st acc u) as Hs.
  destruct (step_utt info v c None st acc u) as [u' [e|[st1 acc1]]]; cbn in Hs; subst u'; [reflexivity|].
  specialize (IH st1 acc1). destruct (run_pass info v c None st1 acc1 t) as [t' r]. cbn in *. subst. reflexivity.
Qed.

Lemma strict_never_writes c d : fst (validate c FNone d) = d.
Proof.
  unfold validate. cbn [norm_fix].
  pose proof (run_strict_unchanged false true c d st0 acc0) as H.
  destruct (run_pass false true c None st0 acc0 d). cbn in *. assumption.
Qed.
