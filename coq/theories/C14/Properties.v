(* C14 - Batching loses nothing: buckets, loaders and collation preserve every utterance.
   Property theorems only: each is closed by [exact <lemma of Proofs*.v>] and followed by
   [Print Assumptions].  The harness re-checks this file on every run.

   Reading guide.  [bucket_iter bk sz drop s] is BucketBatchSampler.__iter__ for the sampler
   order [s], idx2bucket [bk], bucket2size [sz], drop_incomplete [drop] ([None] = RuntimeError);
   [loader_batches lens p order] is one epoch of a Spect/LangDataLoader's batch sampler for the
   utterance lengths [lens] and the epoch's order. *)
From Coq Require Import List Arith Bool ZArith Lia Sorting.Sorted Sorting.Permutation.
From PV Require Import C14.Model C14.Spec C14.Proofs.
From PV Require MiniPy.Syntax MiniPy.Interp Gen.C14Src C14.SrcRun C14.Tie.
Import ListNotations.

(* ===== clause 1: the bucketing sampler ================================================== *)

(* "each batch the bucketing sampler yields contains indices of a single bucket in sampler order":
   every batch is a non-empty contiguous block of its bucket's sub-sequence of the sampler *)
Theorem c14_batches_single_bucket_in_order : forall bk sz drop s out,
  bucket_iter bk sz drop s = Some out ->
  forall b, In b out ->
    b <> [] /\ (forall x, In x b -> bk x = bucket_of bk b) /\
    exists pre post, in_bucket bk (bucket_of bk b) s = pre ++ b ++ post.
Proof. exact batches_single_bucket_in_order. Qed.
Print Assumptions c14_batches_single_bucket_in_order.

(* "and has that bucket's size (only trailing batches may be short, and only if incomplete
   batches are kept)": full batches first, then - only without drop - at most one short batch per
   bucket, in ascending bucket order *)
Theorem c14_batch_sizes : forall bk sz drop s out,
  bucket_iter bk sz drop s = Some out ->
  exists full trailing,
    out = full ++ trailing /\
    Forall (fun b => length b = sz (bucket_of bk b)) full /\
    Forall (fun b => length b < sz (bucket_of bk b)) trailing /\
    (drop = true -> trailing = []) /\
    StronglySorted lt (map (bucket_of bk) trailing).
Proof. exact batch_sizes. Qed.
Print Assumptions c14_batch_sizes.

(* "so that every index the underlying sampler produced appears in exactly one batch": as
   multiplicities, hence also for samplers that repeat or omit indices (a distributed share) *)
Theorem c14_every_index_once : forall bk sz s out,
  bucket_iter bk sz false s = Some out ->
  forall x, count_occ Nat.eq_dec (concat out) x = count_occ Nat.eq_dec s x.
Proof. exact every_index_once. Qed.
Print Assumptions c14_every_index_once.

Theorem c14_every_index_exactly_one_batch : forall bk sz s out x,
  bucket_iter bk sz false s = Some out -> NoDup s -> In x s ->
  count_occ Nat.eq_dec (concat out) x = 1.
Proof. exact every_index_once_nodup. Qed.
Print Assumptions c14_every_index_exactly_one_batch.

(* "- or in none only when its incomplete batch was dropped": what is missing from the batches is
   a tail [rest] of its bucket's sub-sequence, shorter than the bucket's batch size, and only
   under drop *)
Theorem c14_every_index_once_or_dropped_incomplete : forall bk sz drop s out,
  bucket_iter bk sz drop s = Some out ->
  forall x, exists rest,
    count_occ Nat.eq_dec (concat out) x + count_occ Nat.eq_dec rest x = count_occ Nat.eq_dec s x
    /\ (exists pre, in_bucket bk (bk x) s = pre ++ rest)
    /\ (rest = [] \/ (drop = true /\ length rest < sz (bk x))).
Proof. exact every_index_once_or_dropped_incomplete. Qed.
Print Assumptions c14_every_index_once_or_dropped_incomplete.

(* the three clauses together are the declarative specification of Spec.v ... *)
Theorem c14_sampler_meets_spec : forall bk sz drop s out,
  bucket_iter bk sz drop s = Some out -> bbs_spec bk sz drop s out.
Proof. exact bucket_iter_spec. Qed.
Print Assumptions c14_sampler_meets_spec.

(* ... and the only way not to get batches is a bucket without a positive size *)
Theorem c14_sampler_never_raises : forall bk sz drop s,
  (forall i, In i s -> 0 < sz (bk i)) -> exists out, bucket_iter bk sz drop s = Some out.
Proof. exact bucket_iter_some. Qed.
Print Assumptions c14_sampler_never_raises.

(* the checker the harness applies to implementation outputs implies the specification *)
Theorem c14_bbs_okb_sound : forall bk sz drop s out,
  bbs_okb bk sz drop s out = true -> bbs_spec bk sz drop s out.
Proof. exact bbs_okb_sound. Qed.
Print Assumptions c14_bbs_okb_sound.

Theorem c14_loader_okb_sound : forall lens p i2b b2s order ln out,
  loader_okb lens p (Some (i2b, b2s)) order ln out = true ->
  ln = length out /\
  bbs_spec (tbl i2b) (tbl b2s) (p_drop p) order out /\
  (forall i j, i < length lens -> j < length lens -> nth i lens 0 <= nth j lens 0 -> tbl i2b i <= tbl i2b j) /\
  (forall b x y, In b out -> In x b -> In y b -> tbl i2b x = tbl i2b y).
Proof. exact loader_okb_sound. Qed.
Print Assumptions c14_loader_okb_sound.

Theorem c14_plain_okb_sound : forall bs drop order out, plain_okb bs drop order out = true ->
  exists rest, concat out ++ rest = order /\ (rest = [] \/ (drop = true /\ length rest < bs)).
Proof. exact plain_okb_sound. Qed.
Print Assumptions c14_plain_okb_sound.

(* ===== clause 2: the loaders ============================================================= *)

(* "report as their length the number of batches they actually yield":
   _get_batch_sampler_len's Counter arithmetic equals the number of batches of __iter__ ... *)
Theorem c14_len_eq_number_of_batches : forall bk sz drop s out,
  bucket_iter bk sz drop s = Some out -> sampler_len bk sz drop s = length out.
Proof. exact len_eq_number_of_batches. Qed.
Print Assumptions c14_len_eq_number_of_batches.

(* ... for bucketed and plain loaders alike *)
Theorem c14_loader_len_eq_number_of_batches : forall lens p order out, 1 <= p_bs p ->
  loader_batches lens p order = Ok out -> loader_len lens p order = Ok (length out).
Proof. exact loader_len_eq. Qed.
Print Assumptions c14_loader_len_eq_number_of_batches.

(* ... and the value cached at the first call (computed from that epoch's order) stays right for
   every later epoch presenting the same indices in another order *)
Theorem c14_cached_len_eq_number_of_batches : forall lens p order order' out, 1 <= p_bs p ->
  Permutation order order' -> loader_batches lens p order' = Ok out ->
  loader_len lens p order = Ok (length out).
Proof. exact loader_cached_len_eq. Qed.
Print Assumptions c14_cached_len_eq_number_of_batches.

(* "deliver identical batches for identical (seed, epoch)": what epoch k delivers is the same
   whether reached by iterating from epoch 0 or by starting at k; it depends on nothing but the
   order the epoch sampler draws for k (C13: a function of (seed, epoch)) *)
Theorem c14_same_seed_epoch_same_batches : forall lens p order k,
  nth k (loader_epochs lens p order 0 (S k)) (Err RuntimeError)
  = nth 0 (loader_epochs lens p order k 1) (Err RuntimeError).
Proof. exact loader_same_seed_epoch. Qed.
Print Assumptions c14_same_seed_epoch_same_batches.

Theorem c14_epoch_batches_function_of_order : forall lens p order e0 k j, j < k ->
  nth j (loader_epochs lens p order e0 k) (Err RuntimeError) = loader_batches lens p (order (e0 + j)).
Proof. exact loader_epochs_nth. Qed.
Print Assumptions c14_epoch_batches_function_of_order.

(* "length-bucketed loaders never mix utterances from different length classes": within any
   delivered batch no bucket bound separates two utterances' lengths ... *)
Theorem c14_bucket_is_length_class : forall lens p order out lb b x y,
  1 < p_nb p -> length_bounds lens (p_nb p) = Ok lb -> loader_batches lens p order = Ok out ->
  In b out -> In x b -> In y b -> same_class lb (nth x lens 0) (nth y lens 0).
Proof. exact loader_no_mixing. Qed.
Print Assumptions c14_bucket_is_length_class.

(* ... two lengths share a bucket exactly when no bound separates them (ties at a bucket boundary
   are never split), and longer utterances never get a smaller bucket ... *)
Theorem c14_class_ties_and_boundaries : forall bounds l1 l2,
  class_of bounds l1 = class_of bounds l2 <-> same_class bounds l1 l2.
Proof. exact class_of_eq_iff. Qed.
Print Assumptions c14_class_ties_and_boundaries.

Theorem c14_class_monotone : forall bounds l1 l2, l1 <= l2 -> class_of bounds l1 <= class_of bounds l2.
Proof. exact class_of_monotone. Qed.
Print Assumptions c14_class_monotone.

(* ... where the bounds are strictly increasing lengths that occur in the data set, at most
   num_length_buckets of them, the last being the longest length *)
Theorem c14_length_bounds : forall lens nb lb, length_bounds lens nb = Ok lb ->
  lens <> [] /\ StronglySorted lt lb /\ lb <> [] /\ length lb <= nb /\
  (forall b, In b lb -> In b lens) /\ (forall l, In l lens -> l <= last lb 0) /\ In (last lb 0) lens.
Proof. exact length_bounds_ok. Qed.
Print Assumptions c14_length_bounds.

(* bucket sizes: batch_size, or (size_batch_by_length) the greatest x with x * y <= Y * batch_size *)
Theorem c14_bucket_sizes : forall lens nb bs dyn i2b b2s lb j,
  bucket_params lens nb bs dyn = Ok (i2b, b2s) -> length_bounds lens nb = Ok lb -> j < length lb ->
  length b2s = length lb /\ bs <= tbl b2s j /\
  (dyn = false -> tbl b2s j = bs) /\
  (dyn = true -> let y := nth j lb 0 in let Y := last lb 0 in
                 0 < y -> tbl b2s j * y <= Y * bs /\ Y * bs < (tbl b2s j + 1) * y).
Proof. exact bucket_sizes. Qed.
Print Assumptions c14_bucket_sizes.

(* a bucketed loader's epoch satisfies the sampler specification for the tables it exposes,
   and a plain loader's epoch is the order cut into consecutive chunks *)
Theorem c14_loader_bucketed_meets_spec : forall lens p order out i2b b2s,
  loader_init lens p = Ok (Some (i2b, b2s)) -> loader_batches lens p order = Ok out ->
  bbs_spec (tbl i2b) (tbl b2s) (p_drop p) order out.
Proof. exact loader_bucketed_spec. Qed.
Print Assumptions c14_loader_bucketed_meets_spec.

Theorem c14_plain_batches : forall (n : nat) (drop : bool) (l : list nat), 0 < n ->
  exists full rest,
    l = concat full ++ rest /\ Forall (fun b => length b = n) full /\ length rest < n /\
    batch_sampler n drop l = full ++ (if drop then [] else match rest with [] => [] | _ => [rest] end).
Proof. exact batch_sampler_spec. Qed.
Print Assumptions c14_plain_batches.

(* "for every data set ... all data sets of 0..n utterances with arbitrary lengths, every batch
   size, bucket count, dynamic sizing flag, drop_last": the constructor never raises and every
   epoch delivers batches - empty data sets and zero-length utterances included *)
Theorem c14_loader_constructor_total : forall lens p, 1 <= p_nb p -> exists t, loader_init lens p = Ok t.
Proof. exact loader_init_total. Qed.
Print Assumptions c14_loader_constructor_total.

Theorem c14_loader_total : forall lens p order, 1 <= p_bs p -> 1 <= p_nb p ->
  (forall i, In i order -> i < length lens) ->
  exists out, loader_batches lens p order = Ok out.
Proof. exact loader_total. Qed.
Print Assumptions c14_loader_total.

(* "Batching loses nothing": without drop_last the collated batches of an epoch carry exactly the
   utterances the epoch sampler produced, each once; with drop_last never more *)
Theorem c14_spect_loader_delivers_all : forall ds p bf sort F W order out, 1 <= p_bs p -> p_drop p = false ->
  spect_loader ds p bf sort F W order = Ok out ->
  Permutation (concat (map b_ids out)) (map (fun i => u_id (nth i ds dflt_utt)) order).
Proof. exact spect_loader_delivers_all. Qed.
Print Assumptions c14_spect_loader_delivers_all.

Theorem c14_loader_invents_nothing : forall lens p order out x, 1 <= p_bs p ->
  loader_batches lens p order = Ok out ->
  count_occ Nat.eq_dec (concat out) x <= count_occ Nat.eq_dec order x.
Proof. exact loader_batches_sub. Qed.
Print Assumptions c14_loader_invents_nothing.

(* LangDataLoader: buckets by reference length whether or not utterance ids are delivered, so the
   theorems above apply to it; in particular it never mixes reference-length classes *)
Theorem c14_lang_loader_by_reference_length : forall ds p order,
  lang_loader_batches ds p order = loader_batches (map (fun x => length (fst x)) ds) p order.
Proof. exact lang_loader_by_ref_length. Qed.
Print Assumptions c14_lang_loader_by_reference_length.

Theorem c14_lang_bucket_is_length_class : forall (ds : list (list row * nat)) p order out lb b x y,
  1 < p_nb p -> length_bounds (map (fun r => length (fst r)) ds) (p_nb p) = Ok lb ->
  lang_loader_batches ds p order = Ok out -> In b out -> In x b -> In y b ->
  same_class lb (length (fst (nth x ds ([], 0)))) (length (fst (nth y ds ([], 0)))).
Proof. exact lang_loader_no_mixing. Qed.
Print Assumptions c14_lang_bucket_is_length_class.

(* ===== clause 3: collation =============================================================== *)

(* "cutting each padded batch entry back to its reported size returns the original tensors ...
   and utterance ids stay attached to their rows": un-collating gives the presented items back,
   features, alignment, reference and id of each row together (ali/ref for the whole batch are
   None when any is missing, as documented) ... *)
Theorem c14_collate_lossless : forall bf sort F W sq,
  Forall wf_utt sq ->
  uncollate_spect bf (spect_collate bf sort F W sq) = mask_missing (presented sort sq).
Proof. exact spect_collate_lossless. Qed.
Print Assumptions c14_collate_lossless.

(* ... the presented items being the given ones, in the given order or sorted by non-increasing
   feature length *)
Theorem c14_collate_presents_all : forall sort sq,
  Permutation (presented sort sq) sq /\
  (sort = false -> presented sort sq = sq) /\
  (sort = true -> StronglySorted (fun a b => length (u_feat b) <= length (u_feat a)) (presented sort sq)).
Proof. exact presented_perm. Qed.
Print Assumptions c14_collate_presents_all.

(* "all padding cells hold the pad value": 0 for features, INDEX_PAD_VALUE for alignments and
   references, in both layouts *)
Theorem c14_collate_padding : forall bf sort F W sq, sq <> [] ->
  let b := spect_collate bf sort F W sq in
  padding_is bf (repeat 0%Z F) (b_feats b) (b_fsz b) /\
  (forall a, b_alis b = Some a ->
     padding_is bf PADV a (map (fun u => length (oget [] (u_ali u))) (presented sort sq))) /\
  (forall r rs, b_refs b = Some r -> b_rsz b = Some rs -> padding_is bf (repeat PADV W) r rs).
Proof. exact spect_collate_padding. Qed.
Print Assumptions c14_collate_padding.

(* the same for pad_sequence itself, any element type, either layout *)
Theorem c14_pad_sequence_cut_back : forall {A} bf (pad d : A) ls,
  uncollate_field bf d (pad_sequence bf pad ls) (map (@length A) ls) = ls.
Proof. exact @uncollate_pad_sequence. Qed.
Print Assumptions c14_pad_sequence_cut_back.

Theorem c14_pad_sequence_padding : forall {A} bf (pad : A) ls, ls <> [] ->
  padding_is bf pad (pad_sequence bf pad ls) (map (@length A) ls).
Proof. exact @padding_pad_sequence. Qed.
Print Assumptions c14_pad_sequence_padding.

Theorem c14_lang_collate_lossless : forall bf sort W (sq : list (list row * nat)),
  let '(refs, sizes, ids) := lang_collate bf sort W sq in
  let sq' := if sort then sort_desc (fun x => length (fst x)) sq else sq in
  combine (uncollate_field bf [] refs sizes) ids = sq' /\ Permutation sq' sq /\
  (sq <> [] -> padding_is bf (repeat PADV W) refs sizes).
Proof. exact lang_collate_lossless. Qed.
Print Assumptions c14_lang_collate_lossless.

Theorem c14_cw_collate_lossless : forall (sq : list cw_item),
  let '(windows, alis, sizes, ids) := cw_collate sq in
  split_by sizes windows = map (fun x => fst (fst x)) sq /\ ids = map snd sq /\
  (forall a, alis = Some a ->
     Forall (fun x => exists al, snd (fst x) = Some al) sq /\
     split_by (map (fun x => length (oget [] (snd (fst x)))) sq) a = map (fun x => oget [] (snd (fst x))) sq).
Proof. exact cw_collate_lossless. Qed.
Print Assumptions c14_cw_collate_lossless.

(* edge-replicated context windows: entry k of the window around frame idx is frame
   clamp(idx - left + k, 0, T-1); reversed windows read it backwards *)
Theorem c14_extract_window_edge_replication : forall {A} (d : A) (feat : list A) idx left right k,
  idx < length feat -> k < 1 + left + right ->
  nth k (extract_window d feat idx left right false) d
  = nth (clamp_frame (length feat) idx left k) feat d.
Proof. exact @window_nth. Qed.
Print Assumptions c14_extract_window_edge_replication.

Theorem c14_extract_window_reverse : forall {A} (d : A) (feat : list A) idx left right k,
  idx < length feat -> k < 1 + left + right ->
  nth k (extract_window d feat idx left right true) d
  = nth (clamp_frame (length feat) idx left (left + right - k)) feat d.
Proof. exact @window_nth_reverse. Qed.
Print Assumptions c14_extract_window_reverse.

Theorem c14_extract_window_length : forall {A} (d : A) (feat : list A) idx left right,
  idx < length feat -> length (extract_window d feat idx left right false) = 1 + left + right.
Proof. exact @window_length. Qed.
Print Assumptions c14_extract_window_length.

(* ===== non-vacuity ======================================================================== *)

(* the docstring example of BucketBatchSampler: 14 indices, bucket 1 = multiples of 3, sizes 2 *)
Example c14_sampler_nonvacuous :
  let bk := fun n => if Nat.eqb (n mod 3) 0 then 1 else 0 in
  bucket_iter bk (fun _ => 2) true (seq 0 14) = Some [[1;2];[0;3];[4;5];[7;8];[6;9];[10;11]] /\
  bucket_iter bk (fun _ => 2) false (seq 0 14)
    = Some [[1;2];[0;3];[4;5];[7;8];[6;9];[10;11];[13];[12]] /\
  sampler_len bk (fun _ => 2) false (seq 0 14) = 8 /\ sampler_len bk (fun _ => 2) true (seq 0 14) = 6.
Proof. vm_compute. repeat split. Qed.

(* a length-bucketed loader with ties at the bucket boundary and dynamic sizes *)
Example c14_loader_nonvacuous :
  let lens := [3; 1; 4; 1; 5; 9; 2; 6] in
  let p := mkLP 2 3 true false in
  length_bounds lens 3 = Ok [1; 3; 9] /\
  bucket_params lens 3 2 true = Ok ([1; 0; 2; 0; 2; 2; 1; 2], [18; 6; 2]) /\
  loader_batches lens p [7; 2; 4; 5; 1; 3; 6; 0] = Ok [[7; 2]; [4; 5]; [1; 3]; [6; 0]] /\
  loader_len lens p [7; 2; 4; 5; 1; 3; 6; 0] = Ok 4 /\
  loader_batches [] p [] = Ok [] /\ loader_len [] p [] = Ok 0 /\
  loader_batches [0; 0; 3; 4] (mkLP 2 2 true false) [0; 1; 2; 3] = Ok [[2; 3]; [0; 1]].
Proof. vm_compute. repeat split. Qed.

(* a collation with sorting, a missing alignment and both layouts; an edge-replicated window *)
Example c14_collate_nonvacuous :
  let u1 := mkUtt [[1]; [2]]%Z (Some [7; 8]%Z) (Some [[5]]%Z) 0 in
  let u2 := mkUtt [[3]; [4]; [5]]%Z (Some [9; 10; 11]%Z) (Some [[6]; [7]]%Z) 1 in
  Forall wf_utt [u1; u2] /\
  b_feats (spect_collate true true 1 1 [u1; u2]) = [[[3]; [4]; [5]]; [[1]; [2]; [0]]]%Z /\
  b_feats (spect_collate false true 1 1 [u1; u2]) = [[[3]; [1]]; [[4]; [2]]; [[5]; [0]]]%Z /\
  b_ids (spect_collate true true 1 1 [u1; u2]) = [1; 0] /\
  extract_window 0%Z [10; 20; 30]%Z 0 2 1 false = [10; 10; 10; 20]%Z.
Proof.
  vm_compute. split; [|repeat split].
  repeat constructor; unfold wf_utt; cbn; intros a Ha; inversion Ha; reflexivity.
Qed.

(* ---- the tie to the source text ----------------------------------------------------------
   PV.Gen.C14Src.bbs_iter is regenerated from /repo/src/pydrobert/torch/_dataloaders.py
   (BucketBatchSampler.__iter__) on every run by harness/py2coq/translate.py; PV.MiniPy.Interp
   is the semantics of the translated subset.  Interpreting the regenerated term yields - as the
   generator's "yield" events, in order - exactly the batches of Model.bucket_iter, and raises
   RuntimeError exactly when the model returns None: for every sampler order, every bucket map
   and size map (given as arbitrary Python dicts that contain the sampled indices), both drop
   settings.  So the sampler theorems above are theorems about the source. *)
Theorem c14_source_bucket_iter_is_model : forall bk sz s d1 d2 drop,
  Tie.tables_ok bk sz d1 d2 s ->
  match bucket_iter bk sz drop s with
  | Some ys =>
      exists st', Interp.run SrcRun.ext_none C14Src.bbs_iter (SrcRun.self_vars s d1 d2 drop) = Interp.Ok Syntax.VNone st' /\
                  Interp.events st' = map SrcRun.yield_ev ys
  | None =>
      exists st', Interp.run SrcRun.ext_none C14Src.bbs_iter (SrcRun.self_vars s d1 d2 drop)
                  = Interp.Exc SrcRun.runtime_error st'
  end.
Proof. exact Tie.bbs_iter_tie. Qed.
Print Assumptions c14_source_bucket_iter_is_model.

Theorem c14_source_every_index_once : forall bk sz s d1 d2 out,
  Tie.tables_ok bk sz d1 d2 s -> bucket_iter bk sz false s = Some out ->
  exists st', Interp.run SrcRun.ext_none C14Src.bbs_iter (SrcRun.self_vars s d1 d2 false) = Interp.Ok Syntax.VNone st' /\
              Interp.events st' = map SrcRun.yield_ev out /\
              forall x, count_occ Nat.eq_dec (concat out) x = count_occ Nat.eq_dec s x.
Proof. exact Tie.source_every_index_once. Qed.
Print Assumptions c14_source_every_index_once.

(* ---- second tie to the source text: the batching functions besides BucketBatchSampler.__iter__ -------------
   PV.Gen.C14BWinSrc.extract_window is regenerated from /repo/src/pydrobert/torch/_datasets.py on every run.
   Tensors are sequence-encoded (PV.MiniTorch.OpsC14B: a 1-D tensor = VTuple of cells, a stack = VList of its slices
   along dimension 0); the torch calls are given meaning by SrcRunB.extB0; [junk] is the content of the
   uninitialised buffer `feat.new(win_size, F)`: the theorems hold for every junk.
   Interpreting the regenerated term on a (T, F) matrix with T >= 1 and a centre frame idx < T returns exactly
   Model.extract_window - every window (left, right), both `reverse` settings.  (idx < T is the documented
   precondition of extract_window and the hypothesis of the model's own window theorems.) *)
From PV Require Gen.C14BWinSrc C14.SrcRunB C14.TieBWin.

Theorem c14_source_extract_window_is_model : forall junk (feat : list row) idx left right reverse,
  idx < length feat ->
  exists st', SrcRunB.src_window junk feat idx left right reverse
              = Interp.Ok (SrcRunB.enc_mat (extract_window [] feat idx left right reverse)) st'.
Proof. exact TieBWin.window_tie. Qed.
Print Assumptions c14_source_extract_window_is_model.

(* composed with c14_extract_window_edge_replication / _reverse / _length: a statement purely about the interpreted
   source - row k of the window it returns is frame clamp(idx - left + k, 0, T-1) of the utterance (read backwards
   under reverse) and the window has 1 + left + right rows: no frame of the context is lost, none invented *)
Theorem c14_source_extract_window_edge_replication : forall junk (feat : list row) idx left right reverse k,
  idx < length feat -> k < 1 + left + right ->
  exists st' w,
    SrcRunB.src_window junk feat idx left right reverse = Interp.Ok (SrcRunB.enc_mat w) st' /\
    length w = 1 + left + right /\
    nth k w [] = nth (clamp_frame (length feat) idx left (if reverse then left + right - k else k)) feat [].
Proof. exact TieBWin.source_window_edge_replication. Qed.
Print Assumptions c14_source_extract_window_edge_replication.

Example c14_source_window_nonvacuous :
  SrcRunB.src_check_window [[10; 11]; [20; 21]; [30; 31]]%Z 0 2 1 false [[10; 11]; [10; 11]; [10; 11]; [20; 21]]%Z = true /\
  SrcRunB.src_check_window [[10; 11]; [20; 21]; [30; 31]]%Z 2 1 2 true [[30; 31]; [30; 31]; [30; 31]; [20; 21]]%Z = true /\
  SrcRunB.src_check_window [[10; 11]; [20; 21]; [30; 31]]%Z 1 1 1 false [[10; 11]; [20; 21]; [30; 30]]%Z = false.
Proof. vm_compute. repeat split. Qed.

(* PV.Gen.C14BSrc.cw_seq_to_batch is regenerated from context_window_seq_to_batch in
   /repo/src/pydrobert/torch/_dataloaders.py (list(zip( *seq)), the [w.size(0) for w in windows] comprehension,
   torch.cat, all(a is not None for a in alis), both has_uttids branches).  For every NON-EMPTY sequence of items
   (the batch sampler never yields an empty batch; on an empty one the code raises, the model returns empty tensors)
   the interpreted source returns the encoding of Model.cw_collate. *)
From PV Require Gen.C14BSrc C14.TieBCw.

Theorem c14_source_cw_collate_is_model : forall has_ids (sq : list cw_item), sq <> [] ->
  exists st', SrcRunB.src_cw_collate has_ids sq = Interp.Ok (SrcRunB.enc_cw_batch has_ids (cw_collate sq)) st'.
Proof. exact TieBCw.cw_tie. Qed.
Print Assumptions c14_source_cw_collate_is_model.

(* composed with c14_cw_collate_lossless: purely about the interpreted source - cutting the concatenated windows it
   returns back by the window sizes it reports gives every utterance's windows back, in order, with their ids; the
   number of windows is the sum of the utterances' frame counts: no frame is lost, none duplicated *)
Theorem c14_source_cw_collate_lossless : forall (sq : list cw_item), sq <> [] ->
  exists st' windows alis sizes ids,
    SrcRunB.src_cw_collate true sq = Interp.Ok (SrcRunB.enc_cw_batch true (windows, alis, sizes, ids)) st' /\
    split_by sizes windows = map (fun x => fst (fst x)) sq /\ ids = map snd sq /\
    length windows = fold_right Nat.add 0 (map (fun x => length (fst (fst x))) sq).
Proof. exact TieBCw.source_cw_collate_lossless. Qed.
Print Assumptions c14_source_cw_collate_lossless.

(* PV.Gen.C14BWinSrc.get_windowed_utterance is regenerated from ContextWindowDataSet.get_windowed_utterance
   (_datasets.py): `super().get_utterance_tuple(idx)[:2]` (the parent data set's item: data held by the object, see
   SrcRunB.cw_self), torch.empty (uninitialised: junk), the loop over the frames that CALLS the interpreted
   extract_window (SrcRunB.extB), both suppress_uttids branches.  For every utterance with at least one frame (the
   sequence encoding has no `.shape` for an empty matrix - the model has no feature width for one either) the
   interpreted method returns the item Model.cw_loader collates. *)
From PV Require C14.TieBWinU.

Theorem c14_source_windowed_is_model : forall junk W (ds : list utt) left right reverse suppress i,
  i < length ds -> u_feat (nth i ds dflt_utt) <> [] ->
  let u := nth i ds dflt_utt in
  exists st', SrcRunB.src_windowed junk W ds left right reverse suppress i
              = Interp.Ok (SrcRunB.enc_cw_item suppress (windowed [] (u_feat u) left right reverse, u_ali u, u_id u)) st'.
Proof. exact TieBWinU.windowed_tie. Qed.
Print Assumptions c14_source_windowed_is_model.

(* composed with the window theorems: purely about the interpreted method - ONE window per frame of the utterance,
   the c-th being the edge-replicated window around frame c, with the utterance's own alignment and id *)
Theorem c14_source_windowed_every_frame_once : forall junk W (ds : list utt) left right reverse suppress i,
  i < length ds -> u_feat (nth i ds dflt_utt) <> [] ->
  let u := nth i ds dflt_utt in
  exists st' ws,
    SrcRunB.src_windowed junk W ds left right reverse suppress i
      = Interp.Ok (SrcRunB.enc_cw_item suppress (ws, u_ali u, u_id u)) st' /\
    length ws = length (u_feat u) /\
    forall c k, c < length (u_feat u) -> k < 1 + left + right ->
      nth k (nth c ws []) []
      = nth (clamp_frame (length (u_feat u)) c left (if reverse then left + right - k else k)) (u_feat u) [].
Proof. exact TieBWinU.source_windowed_every_frame_once. Qed.
Print Assumptions c14_source_windowed_every_frame_once.

(* the two interpreted functions of the context-window loader composed: the items the interpreted data set returns for
   the indices of a batch, collated by the interpreted collate function, are the batch Model.cw_loader delivers
   (cw_loader = map of exactly these collations over the batch sampler's index batches: second conjunct).
   _partial: torch's DataLoader (fetch dataset[i] for the sampled indices, call collate_fn on the list) and the one-line
   ContextWindowDataLoader.collate_fn are hand-written glue, not translated. *)
From PV Require C14.TieBPipe.

Theorem c14_source_cw_batch_is_model_partial : forall junk W (ds : list utt) left right reverse suppress (b : list nat),
  b <> [] -> Forall (fun i => i < length ds /\ u_feat (nth i ds dflt_utt) <> []) b ->
  let items := map (TieBPipe.cw_item_of ds left right reverse) b in
  Forall2 (fun i x => exists st', SrcRunB.src_windowed junk W ds left right reverse suppress i
                                  = Interp.Ok (SrcRunB.enc_cw_item suppress x) st') b items /\
  exists st', SrcRunB.src_cw_collate (negb suppress) items
              = Interp.Ok (SrcRunB.enc_cw_batch (negb suppress) (cw_collate items)) st'.
Proof. exact TieBPipe.cw_batch_pipeline. Qed.
Print Assumptions c14_source_cw_batch_is_model_partial.

Theorem c14_source_cw_loader_is_these_batches : forall (ds : list utt) bs drop left right reverse order,
  cw_loader ds bs drop left right reverse order
  = map (fun b => cw_collate (map (TieBPipe.cw_item_of ds left right reverse) b)) (batch_sampler bs drop order).
Proof. exact TieBPipe.cw_loader_batches. Qed.
Print Assumptions c14_source_cw_loader_is_these_batches.

(* the interpreted data set item and collate function on a concrete data set; all five translated functions executed
   (spect_seq_to_batch and _get_bucket_batch_sampler_params are executed only - not proved equal to the model) *)
Example c14_source_batching_nonvacuous :
  let u1 := mkUtt [[1]; [2]]%Z (Some [7; 8]%Z) (Some [[5]]%Z) 0 in
  let u2 := mkUtt [[3]; [4]; [5]]%Z (Some [9; 10; 11]%Z) (Some [[6]; [7]]%Z) 1 in
  let it := fun u => (windowed [] (u_feat u) 1 1 false, u_ali u, u_id u) in
  SrcRunB.src_check_windowed 1 [u1; u2] 1 1 false false 1 (it u2) = true /\
  SrcRunB.src_check_cw_collate true [it u1; it u2] (cw_collate [it u1; it u2]) = true /\
  SrcRunB.src_check_cw_collate true [it u1; it u2] (cw_collate [it u2; it u1]) = false /\
  SrcRunB.src_check_spect_collate false true true true 1 [u1; u2] (spect_collate false true 1 1 [u1; u2]) = true /\
  SrcRunB.src_check_params false [3; 1; 4; 1; 5; 9; 2; 6] 3 2 true (bucket_params [3; 1; 4; 1; 5; 9; 2; 6] 3 2 true) = true.
Proof. vm_compute. repeat split. Qed.

(* PV.Gen.C14BSrc.spect_seq_to_batch is regenerated from spect_seq_to_batch (_dataloaders.py).  With
   has_alis = has_uttids = True (what SpectDataLoader.collate_fn passes unless ids are suppressed), for every non-empty
   sequence of items whose feature rows have one width F - and reference rows one width W when W <> 1: the items are
   tensors of one trailing shape -, every sort / batch_first setting and every pattern of missing alignments /
   references, the interpreted source - sorted(seq, key=lambda x: x[0].size(0), reverse=True), list(zip( *seq)), the
   all(x is not None ..) tests, the size comprehensions, the three pad_sequence calls - returns the encoding of
   Model.spect_collate.  (The other three has_alis / has_uttids combinations are executed on every run, not proved.) *)
From PV Require C14.TieBSpectF.

Theorem c14_source_spect_collate_is_model : forall bf sort F W (sq : list utt), sq <> [] ->
  TieBSpectF.widths_ok F (map u_feat sq) -> (W <> 1 -> TieBSpectF.widths_ok W (map (oget []) (map u_ref sq))) ->
  exists st', SrcRunB.src_spect_collate bf sort true true W sq
              = Interp.Ok (SrcRunB.enc_sbatch true true W (spect_collate bf sort F W sq)) st'.
Proof. exact TieBSpectF.spect_tie. Qed.
Print Assumptions c14_source_spect_collate_is_model.

(* composed with c14_collate_lossless / c14_collate_presents_all: purely about the interpreted source - un-collating
   what it returns gives back the presented items (features, alignment, reference and id of each row together), and
   the presented items are a permutation of the given ones: no utterance, no frame is lost or duplicated *)
Theorem c14_source_spect_collate_lossless : forall bf sort F W (sq : list utt), sq <> [] ->
  TieBSpectF.widths_ok F (map u_feat sq) -> (W <> 1 -> TieBSpectF.widths_ok W (map (oget []) (map u_ref sq))) ->
  Forall wf_utt sq ->
  exists st' b,
    SrcRunB.src_spect_collate bf sort true true W sq = Interp.Ok (SrcRunB.enc_sbatch true true W b) st' /\
    uncollate_spect bf b = mask_missing (presented sort sq) /\ Permutation (presented sort sq) sq.
Proof. exact TieBSpectF.source_spect_collate_lossless. Qed.
Print Assumptions c14_source_spect_collate_lossless.
