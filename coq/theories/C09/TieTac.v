(* C09 — infrastructure of the symbolic run (TieGpb.v, TiePad.v): the interpreter on encoded tensors, the statement-by-
   statement tactics, and the [Arguments] settings that keep [cbn] from unfolding tensor operations.  Those settings are
   GLOBAL in this file: import it only from the C09 tie files.
   C09 — symbolic run of the translated source (PV.Gen.C09Src.gpb_body, pad_variable_body; regenerated from
   /repo/src/pydrobert/torch/_pad.py on every run) under PV.MiniPy.Interp with the torch calls meaning what
   PV.MiniTorch.OpsC09 says (SrcRun.ext09g / ext09): on tabulated tensors of ANY sizes the interpreter returns exactly
   the list functions of TieSrc.v (src_gpb, src_pad), raising where they say so.  TieModel.v identifies those with
   PV.C09.Model; TieTop.v states the theorems on the model's own inputs.  If the source is edited so that this stops
   being true, this file stops compiling and the C09 check reports the broken obligation. *)
From Coq Require Import ZArith List String Bool Arith Lia ZifyBool ZifyNat.
From PV Require Import MiniPy.Syntax MiniPy.Interp MiniTorch.Ops MiniTorch.OpsC09 MiniTorch.LemmasC09 Gen.C09Src.
From PV Require Import C09.SrcRun C09.TieSrc.
From PV Require C09.Model.
Import ListNotations.
Local Open Scope string_scope.

(* ---- the interpreter on encoded tensors ----------------------------------------------------------------- *)
Lemma method_enc_b t m args : method (enc_b t) m args = None. Proof. reflexivity. Qed.
Lemma method_enc_i t m args : method (enc_i t) m args = None. Proof. reflexivity. Qed.
Lemma method_enc_p t m args : method (enc_p t) m args = None. Proof. reflexivity. Qed.
Lemma attribute_enc_p ext t a st : attribute ext (enc_p t) a st = ext ("$attr." ++ a) [enc_p t] [] st. Proof. reflexivity. Qed.
Lemma attribute_enc_i ext t a st : attribute ext (enc_i t) a st = ext ("$attr." ++ a) [enc_i t] [] st. Proof. reflexivity. Qed.
Lemma foreign_enc_i t : foreign (enc_i t) = true. Proof. reflexivity. Qed.
Lemma foreign_enc_b t : foreign (enc_b t) = true. Proof. reflexivity. Qed.
Lemma foreign_enc_p t : foreign (enc_p t) = true. Proof. reflexivity. Qed.
Lemma subscript_enc_i_t t k st : subscript (enc_i t) (VTuple k) st = Stuck "subscript". Proof. reflexivity. Qed.
Lemma subscript_enc_b_t t k st : subscript (enc_b t) (VTuple k) st = Stuck "subscript". Proof. reflexivity. Qed.
Lemma subscript_enc_p_t t k st : subscript (enc_p t) (VTuple k) st = Stuck "subscript". Proof. reflexivity. Qed.
Lemma subscript_enc_i_z t z st : subscript (enc_i t) (VInt z) st = Stuck "item of a library object". Proof. reflexivity. Qed.
Lemma binop_sub_ii t u st : binop_eval Sub (enc_i t) (enc_i u) st = Stuck "sub". Proof. reflexivity. Qed.
Lemma binop_sub_iz t z st : binop_eval Sub (enc_i t) (VInt z) st = Stuck "sub". Proof. reflexivity. Qed.
Lemma binop_add_ii t u st : binop_eval Add (enc_i t) (enc_i u) st = Stuck "add". Proof. reflexivity. Qed.
Lemma binop_and_bb t u st : binop_eval BitAnd (enc_b t) (enc_b u) st = Stuck "and". Proof. reflexivity. Qed.
Lemma binop_add_tt l1 l2 st : binop_eval Add (VTuple l1) (VTuple l2) st = Stuck "add". Proof. reflexivity. Qed.

Lemma operand_enc_i t : operand (enc_i t) = Some (OT (TI t)).
Proof. unfold operand. rewrite dec_any_enc_i. reflexivity. Qed.
Lemma operand_int z : operand (VInt z) = Some (OZ z). Proof. reflexivity. Qed.
Lemma operand_ints z l : operand (VTuple (VInt z :: l)) = None. Proof. reflexivity. Qed.
Lemma as_index_int z : as_index (VInt z) = Some z. Proof. reflexivity. Qed.
Lemma as_index_scalar z : as_index (enc_i (mkTn [] [z])) = Some z.
Proof. unfold as_index. now rewrite operand_enc_i. Qed.
Lemma as_size_nat n : as_size (VInt (Z.of_nat n)) = Some n.
Proof. unfold as_size. rewrite as_index_int. replace (0 <=? Z.of_nat n)%Z with true by lia. now rewrite Nat2Z.id. Qed.
Lemma as_size_scalar n : as_size (enc_i (mkTn [] [Z.of_nat n])) = Some n.
Proof. unfold as_size. rewrite as_index_scalar. replace (0 <=? Z.of_nat n)%Z with true by lia. now rewrite Nat2Z.id. Qed.
Lemma as_size_1 : as_size (VInt 1) = Some 1%nat. Proof. reflexivity. Qed.

Lemma extreme_max2 a b st : extreme_of true [VInt a; VInt b] st = Ok (VInt (Z.max a b)) st.
Proof.
  unfold extreme_of, q_extreme, cmp_eval, as_q, q_cmp, QArith_base.Qcompare. cbn [QArith_base.Qnum QArith_base.Qden QArith_base.inject_Z].
  rewrite !Z.mul_1_r. destruct (Z.compare_spec b a); f_equal; f_equal; lia.
Qed.

Lemma extreme_max3 a b c st : extreme_of true [VInt a; VInt b; VInt c] st = Ok (VInt (Z.max (Z.max a b) c)) st.
Proof.
  unfold extreme_of, q_extreme, cmp_eval, as_q, q_cmp, QArith_base.Qcompare. cbn [QArith_base.Qnum QArith_base.Qden QArith_base.inject_Z].
  rewrite !Z.mul_1_r. destruct (Z.compare_spec b a); cbn [QArith_base.Qnum QArith_base.Qden QArith_base.inject_Z]; rewrite ?Z.mul_1_r;
    match goal with |- context [(c ?= ?x)%Z] => destruct (Z.compare_spec c x) end; f_equal; f_equal; lia.
Qed.

Lemma leb_0_of_nat n : (0 <=? Z.of_nat n)%Z = true. Proof. lia. Qed.

#[global] Arguments Interp.run : simpl never.
#[global] Arguments gpb_body : simpl never.
#[global] Arguments enc_b : simpl never.
#[global] Arguments enc_i : simpl never.
#[global] Arguments enc_p : simpl never.
#[global] Arguments dec_any : simpl never.
#[global] Arguments operand : simpl never.
#[global] Arguments as_size : simpl never.
#[global] Arguments as_index : simpl never.
#[global] Arguments extreme_of : simpl never.
#[global] Arguments tab1 : simpl never.
#[global] Arguments tab2 : simpl never.
#[global] Arguments tab3 : simpl never.
#[global] Arguments Z.of_nat : simpl nomatch.
#[global] Arguments Z.to_nat : simpl nomatch.
#[global] Arguments Z.max : simpl nomatch.
#[global] Arguments Z.sub : simpl nomatch.
#[global] Arguments Z.add : simpl nomatch.
#[global] Arguments Z.gtb : simpl nomatch.
#[global] Arguments Z.geb : simpl nomatch.
#[global] Arguments Z.ltb : simpl nomatch.
#[global] Arguments Nat.min : simpl nomatch.
#[global] Arguments Nat.max : simpl nomatch.
#[global] Arguments list_max : simpl never.
#[global] Arguments OpsC09.arange : simpl never.
#[global] Arguments OpsC09.unsqueeze : simpl never.
#[global] Arguments OpsC09.flatten_from : simpl never.
#[global] Arguments OpsC09.view : simpl never.
#[global] Arguments OpsC09.expand3 : simpl never.
#[global] Arguments OpsC09.slice1 : simpl never.
#[global] Arguments OpsC09.slice3_1 : simpl never.
#[global] Arguments OpsC09.select0 : simpl never.
#[global] Arguments OpsC09.full : simpl never.
#[global] Arguments OpsC09.ew2 : simpl never.
#[global] Arguments OpsC09.ew_s : simpl never.
#[global] Arguments OpsC09.clamp_min : simpl never.
#[global] Arguments OpsC09.max_all : simpl never.
#[global] Arguments OpsC09.sum0 : simpl never.
#[global] Arguments OpsC09.any_true : simpl never.
#[global] Arguments OpsC09.bnot : simpl never.
#[global] Arguments OpsC09.band : simpl never.
#[global] Arguments OpsC09.gather1 : simpl never.
#[global] Arguments OpsC09.masked_select : simpl never.
#[global] Arguments OpsC09.masked_scatter : simpl never.
#[global] Arguments OpsC09.mselect : simpl never.
#[global] Arguments OpsC09.mscatter : simpl never.

(* ---- running a body one statement at a time: what follows is hidden behind a variable ---------------------- *)
Definition then_ (ext : string -> list val -> list (string * val) -> state -> outcome val) (b : stmt)
  : ctl -> state -> outcome ctl :=
  fun c st1 => match c with CNormal => exec ext b st1 | CReturn v => Ok c st1 end.
Lemma exec_seq' ext a b st : exec ext (SSeq a b) st = bind (exec ext a st) (then_ ext b).
Proof. reflexivity. Qed.
Lemma then_normal ext b st : then_ ext b CNormal st = exec ext b st. Proof. reflexivity. Qed.

Definition ifk (ext : string -> list val -> list (string * val) -> state -> outcome val) (t f : stmt)
  : val -> state -> outcome ctl :=
  fun cv st1 => if truthy cv then exec ext t st1 else exec ext f st1.
Lemma exec_if' ext c t f st : exec ext (SIf c t f) st = bind (eval ext c st) (ifk ext t f).
Proof. reflexivity. Qed.
Lemma ifk_true ext t f st : ifk ext t f (VBool true) st = exec ext t st. Proof. reflexivity. Qed.
Lemma ifk_false ext t f st : ifk ext t f (VBool false) st = exec ext f st. Proof. reflexivity. Qed.
#[global] Arguments then_ : simpl never.
#[global] Arguments ifk : simpl never.

Ltac rstep :=
  match goal with
  | |- context [getitem _ _ _] => unfold getitem
  | |- context [method (enc_b _) _ _] => rewrite method_enc_b
  | |- context [method (enc_i _) _ _] => rewrite method_enc_i
  | |- context [method (enc_p _) _ _] => rewrite method_enc_p
  | |- context [attribute _ (enc_p _) _ _] => rewrite attribute_enc_p
  | |- context [attribute _ (enc_i _) _ _] => rewrite attribute_enc_i
  | |- context [foreign (enc_i _)] => rewrite foreign_enc_i
  | |- context [foreign (enc_b _)] => rewrite foreign_enc_b
  | |- context [foreign (enc_p _)] => rewrite foreign_enc_p
  | |- context [subscript (enc_i _) (VTuple _) _] => rewrite subscript_enc_i_t
  | |- context [subscript (enc_b _) (VTuple _) _] => rewrite subscript_enc_b_t
  | |- context [subscript (enc_p _) (VTuple _) _] => rewrite subscript_enc_p_t
  | |- context [subscript (enc_i _) (VInt _) _] => rewrite subscript_enc_i_z
  | |- context [binop_eval Sub (enc_i _) (enc_i _) _] => rewrite binop_sub_ii
  | |- context [binop_eval Sub (enc_i _) (VInt _) _] => rewrite binop_sub_iz
  | |- context [binop_eval Add (enc_i _) (enc_i _) _] => rewrite binop_add_ii
  | |- context [binop_eval BitAnd (enc_b _) (enc_b _) _] => rewrite binop_and_bb
  | |- context [binop_eval Add (VTuple _) (VTuple _) _] => rewrite binop_add_tt
  | |- context [operand (enc_i _)] => rewrite operand_enc_i
  | |- context [operand (VInt _)] => rewrite operand_int
  | |- context [operand (VTuple (VInt _ :: _))] => rewrite operand_ints
  | |- context [as_index (VInt _)] => rewrite as_index_int
  | |- context [as_index (enc_i (mkTn [] [_]))] => rewrite as_index_scalar
  | |- context [as_size (VInt (Z.of_nat _))] => rewrite as_size_nat
  | |- context [as_size (enc_i (mkTn [] [Z.of_nat _]))] => rewrite as_size_scalar
  | |- context [as_size (VInt 1)] => rewrite as_size_1
  | |- context [extreme_of true [VInt _; VInt _] _] => rewrite extreme_max2
  | |- context [extreme_of true [VInt _; VInt _; VInt _] _] => rewrite extreme_max3
  | |- context [dec_any (enc_b _)] => rewrite dec_any_enc_b
  | |- context [dec_any (enc_i _)] => rewrite dec_any_enc_i
  | |- context [dec_any (enc_p _)] => rewrite dec_any_enc_p
  | |- context [dec_any (VTuple (VInt _ :: _))] => rewrite dec_any_ints
  | |- context [Z.max (Z.of_nat _) (Z.of_nat _)] => rewrite <- Nat2Z.inj_max
  | |- context [Z.leb 0 (Z.of_nat _)] => rewrite leb_0_of_nat
  | |- context [Z.to_nat (Z.of_nat _)] => rewrite Nat2Z.id
  | |- context [Nat.eqb ?a ?a] => rewrite Nat.eqb_refl
  | |- context [Z.eqb ?a ?a] => rewrite Z.eqb_refl
  | |- context [unsqueeze (mkTn [_] _) 1] => rewrite unsqueeze_1_1
  | |- context [unsqueeze (mkTn [_; _] _) 2] => rewrite unsqueeze_2_2
  | |- context [unsqueeze (mkTn [_; _; _] _) (-1)] => rewrite unsqueeze_3_m1
  | |- context [flatten_from (mkTn [_; _; _; 1%nat] _) 2] => rewrite flatten_4_2
  | |- context [view (mkTn [?n] _) [?n; 1%nat; 1%nat]] => rewrite view_n11
  | |- context [view (mkTn ?s _) ?s] => rewrite view_same
  | |- context [arange (Z.of_nat _)] => rewrite arange_nat
  | |- context [expand3 _ (mkTn [?n; ?m; 1%nat] (tab2 ?n ?m _)) [?n; ?m; _]] => rewrite expand3_last
  | |- context [expand3 _ (mkTn [?n; 1%nat; ?k] (tab3 ?n 1%nat ?k _)) [?n; _; ?k]] => rewrite expand3_mid
  | |- context [expand3 _ (mkTn [?n; 1%nat; 1%nat] (tab1 ?n _)) [?n; _; _]] => rewrite expand3_n11
  | |- context [expand3 _ (mkTn [?n; ?m; ?k] (tab3 ?n ?m ?k _)) [?n; ?m; ?k]] => rewrite expand3_id
  | |- context [slice1 (mkTn [?n] (tab1 ?n _)) _] => rewrite slice1_tab1
  | |- context [slice3_1 _ (mkTn [?n; ?m; ?c] (tab3 ?n ?m ?c _)) _] => rewrite slice3_1_tab3
  | |- context [select0 (mkTn [2%nat; ?m] (tab2 2%nat ?m _)) 0%nat] => rewrite select0_tab2_0
  | |- context [select0 (mkTn [2%nat; ?m] (tab2 2%nat ?m _)) 1%nat] => rewrite select0_tab2_1
  | |- context [ew2 _ _ _ (mkTn [?n] (tab1 ?n _)) (mkTn [?n] (tab1 ?n _))] => rewrite ew2_same1
  | |- context [ew2 _ _ _ (mkTn [?n; 1%nat] (tab1 ?n _)) (mkTn [?w] (tab1 ?w _))] => rewrite ew2_outer
  | |- context [ew_s _ (mkTn _ (tab1 _ _)) _] => rewrite ew_s_tab1
  | |- context [ew_s _ (mkTn _ (tab2 _ _ _)) _] => rewrite ew_s_tab2
  | |- context [clamp_min (mkTn _ (tab2 _ _ _)) _] => rewrite clamp_min_tab2
  | |- context [sum0 (mkTn [2%nat; ?m] (tab2 2%nat ?m _))] => rewrite sum0_tab2_2
  | |- context [bnot (mkTn _ (tab3 _ _ _ _))] => rewrite bnot_tab3
  | |- context [band (mkTn ?s (tab3 ?n ?m ?k _)) (mkTn ?s (tab3 ?n ?m ?k _))] => rewrite band_tab3
  | |- context [any_true (mkTn _ (tab1 _ _))] => rewrite any_true_tab1
  | |- context [masked_select (mkTn ?s _) (mkTn ?s _)] => rewrite masked_select_same
  | |- context [masked_scatter (mkTn ?s _) (mkTn ?s _) _] => rewrite masked_scatter_same
  | |- context [full [_; _; _] _] => rewrite full_3
  end.

Ltac tstep :=
  cbn;
  change (Z.of_nat 3) with 3%Z; change (Z.of_nat 2) with 2%Z; change (Z.of_nat 1) with 1%Z; change (Z.of_nat 0) with 0%Z;
  change (Z.to_nat 0) with 0%nat; change (Z.to_nat 1) with 1%nat; change (Z.to_nat 2) with 2%nat;
  change (Pos.to_nat 1) with 1%nat; change (Pos.to_nat 2) with 2%nat; change (Pos.to_nat 3) with 3%nat;
  repeat rstep.

(* the same, also using hypotheses  Nat.min a b = c  of the context (sizes of slices) *)
Ltac tstepH := tstep; repeat match goal with H : Nat.min ?a ?b = _ |- context [Nat.min ?a ?b] => rewrite H end.
Ltac go := repeat (progress tstepH).

Ltac open_seq :=
  rewrite exec_seq';
  match goal with |- context [then_ _ ?b] => (tryif is_var b then fail else idtac); let r := fresh "rest" in remember b as r end.
Ltac norm_state := unfold set_var; cbn [update vars events String.eqb Ascii.eqb Bool.eqb].
Ltac close_stmt :=
  norm_state; rewrite then_normal; match goal with H : ?r = _ |- context [exec _ ?r _] => subst r end.
Ltac stmt := open_seq; go.
Ltac open_if :=
  rewrite exec_if';
  match goal with |- context [ifk _ ?t ?f] =>
    (tryif is_var t then fail else idtac);
    let bt := fresh "bt" in let bf := fresh "bf" in remember t as bt; remember f as bf end.
Ltac take_true := rewrite ifk_true; match goal with H : ?r = _ |- context [exec _ ?r _] => subst r end.
Ltac take_false := rewrite ifk_false; match goal with H : ?r = _ |- context [exec _ ?r _] => subst r end.

Definition out_gpb (r : Model.res (tn val * tn val)) (st : state) : outcome val :=
  match r with
  | Model.Ok ab => Ok (VTuple [enc_p (fst ab); enc_p (snd ab)]) st
  | Model.ErrValue => Exc value_error st
  | Model.ErrRuntime => Exc runtime_error st
  | Model.ErrNotImpl => Exc not_implemented_error st
  end.

