(* C19 - the translated source of `simple_random_sampling_without_replacement` and `binomial_coefficient`
   (src/pydrobert/torch/_combinatorics.py) as executables: the environment [ext19], the encoding of the
   model's inputs as MiniPy values, and the correspondence entry points [src_srswor_check] /
   [src_binom_check].  Definitions only; the lemmas are in Tie*.v.

   PV.Gen.C19Src.srswor_body / binom_body (the WHOLE bodies) are regenerated from /repo on every run by
   harness/py2coq/translate.py.  The decorator `@script` is outside the body: TorchScript compilation is
   NOT modelled, the tie is about the Python text as eager CPython runs it.

   [ext19 orc junk] gives the calls of the bodies the meaning defined in PV.MiniTorch.OpsC19 (+ Ops):
   exact rationals, no dtypes (a long / bool tensor is a tensor with integer / 0-1 entries), no devices.
   [orc] is the oracle behind torch.bernoulli (see OpsC19.bernoulli: call counter = number of events
   emitted so far, one per call), [junk] the content of the memory torch.empty returns.
   What arrives here (see MiniPy.Interp):
     x.max(), x.item(), x.any(), x.numel(), x.clamp_min(c), x.clamp_min_(c), x.clamp_max(c), x.view(..),
     x.flatten(), x.cumsum(0), x.cumprod(0)          "$method.<name>" with the tensor first
         (.clamp_min_ is only ever applied to a temporary - `(remainder_t - 1).clamp_min_(1)`,
          `(length - count).clamp_min_(-1)` - and used for its value: it is clamp_min)
     binom.masked_fill_(mask, 0) AS A STATEMENT        "$method!.masked_fill_": the receiver's new value
     x.shape, x.device, x.T                            "$attr.<name>" (shape: a tuple of ints = torch.Size)
     int(number), torch.Size([n]), torch.broadcast_tensors(a, b), torch.empty(size, device=[, dtype=]),
     torch.arange(n, device=), torch.bernoulli(p), trunc_divide(a, b)
     a - b, a / b, a + b, a * b, a | b, size + size     "operator" [name; a; b]
     a > b, a < 0, a == -1 on tensors                   "compare" [name; a; b]
     x[t] = v, x[..., 0] = c, x[c, 1:] = v              "$setitem" [x; key; value] -> new x
     x[r, :-1], x[idx]                                  "$getitem" [x; key]
   Keyword arguments: only device= (the token x.device returned) / dtype=torch.long of torch.empty and
   torch.arange; ignored (values do not depend on them in the exact model).  Everything else is Stuck. *)
From Coq Require Import ZArith QArith List String Bool.
From PV Require Import MiniPy.Syntax MiniPy.Interp MiniTorch.Ops MiniTorch.Value MiniTorch.OpsC19 Gen.C19Src.
From PV Require C19.Combinatorics.
Import ListNotations.
Local Open Scope string_scope.

Definition device_token : val := VStr "$device".
Definition long_token : val := VStr "$torch.long".
Definition runtime_error : string := "RuntimeError".

(* the module globals binomial_coefficient reads: `torch` (only torch.long is used as a value) *)
Definition torch_module : val := VDict [(VStr "long", long_token)].

Definition kw_ok (kw : list (string * val)) : bool :=
  forallb (fun kv => (is (fst kv) "device" && val_eqb (snd kv) device_token)
                     || (is (fst kv) "dtype" && val_eqb (snd kv) long_token))%bool kw.

Definition enc_size (sh : list nat) : val := VTuple (map (fun n => VInt (Z.of_nat n)) sh).

(* a size: tuple / list of non-negative ints *)
Definition dec_size (v : val) : option (list nat) :=
  match v with VTuple l | VList l => dec_nats l | _ => None end.

Definition slice_v (a b c : val) : val := VTuple [VStr "$slice"; a; b; c].
Definition ellipsis_v : val := VTuple [VStr "$ellipsis"].

Definition stuck {A} (why : string) : outcome A := Stuck ("ext19: " ++ why).

Definition t1 (why : string) (args : list val) (k : tens -> state -> outcome val) (st : state) : outcome val :=
  match args with
  | [x] => match dec x with Some t => k t st | None => stuck why end
  | _ => stuck why
  end.

Definition ext_operator (o : string) (a b : val) (st : state) : outcome val :=
  match dec a, dec b with
  | Some x, Some y =>
      if is o "sub" then ret_tens "sub" (zip2 Qminus x y) st
      else if is o "add" then ret_tens "add" (zip2 Qplus x y) st
      else if is o "mul" then ret_tens "mul" (zip2 Qmult x y) st
      else if is o "truediv" then ret_tens "truediv" (div_t x y) st
      else if is o "or" then ret_tens "or" (or_t x y) st
      else stuck ("operator " ++ o)
  | Some x, None =>
      match scalar b with
      | Some c =>
          if is o "sub" then Ok (enc (op_s Qminus x c)) st
          else if is o "mul" then Ok (enc (op_s Qmult x c)) st
          else stuck ("operator " ++ o)
      | None => stuck ("operator " ++ o)
      end
  | None, _ =>
      match dec_size a, dec_size b, a, b with
      | Some s1, Some s2, VTuple _, VTuple _ =>          (* torch.Size + torch.Size: tuple concatenation *)
          if is o "add" then Ok (enc_size (s1 ++ s2)) st else stuck ("operator " ++ o)
      | _, _, _, _ => stuck ("operator " ++ o)
      end
  end.

Definition ext_compare (o : string) (a b : val) (st : state) : outcome val :=
  match dec a, dec b with
  | Some x, Some y => if is o "gt" then ret_tens "gt" (cmp_t q_gt x y) st else stuck ("compare " ++ o)
  | Some x, None =>
      match scalar b with
      | Some c =>
          if is o "lt" then Ok (enc (cmp_s q_lt x c)) st
          else if is o "eq" then Ok (enc (cmp_s Qeq_bool x c)) st
          else stuck ("compare " ++ o)
      | None => stuck ("compare " ++ o)
      end
  | None, _ => stuck ("compare " ++ o)
  end.

Definition ext_setitem (x k v : val) (st : state) : outcome val :=
  match dec x with
  | None => stuck "setitem"
  | Some t =>
      match k with
      | VInt i =>
          match dec v, scalar v with
          | Some u, _ => ret_tens "x[t] = tensor" (set_row t i u) st
          | None, Some c => ret_tens "x[t] = number" (set_row_s t i c) st
          | None, None => stuck "setitem"
          end
      | VTuple [e; VInt 0%Z] =>
          if val_eqb e ellipsis_v
          then match scalar v with Some c => ret_tens "x[..., 0] = number" (set_col0_s t c) st | None => stuck "setitem" end
          else stuck "setitem"
      | VTuple [VInt r; s] =>
          if val_eqb s (slice_v (VInt 1) VNone VNone)
          then match dec v with Some u => ret_tens "x[r, 1:] = tensor" (set_row_from1 t r u) st | None => stuck "setitem" end
          else stuck "setitem"
      | _ => stuck "setitem"
      end
  end.

Definition ext_getitem (x k : val) (st : state) : outcome val :=
  match dec x with
  | None => stuck "getitem"
  | Some t =>
      match dec k, k with
      | Some idx, _ => ret_tens "x[index tensor]" (gather t idx) st
      | None, VTuple [VInt r; s] =>
          if val_eqb s (slice_v VNone (VInt (-1)) VNone) then ret_tens "x[r, :-1]" (row_but_last t r) st else stuck "getitem"
      | None, _ => stuck "getitem"
      end
  end.

Definition ext19 (orc : oracle) (junk : nat -> Q)
  (f : string) (args : list val) (kw : list (string * val)) (st : state) : outcome val :=
  if is f "torch.empty" then
    match args with
    | [sz] => match dec_size sz with
              | Some sh => if kw_ok kw then Ok (enc (empty junk sh)) st else stuck "empty: keyword"
              | None => stuck "empty"
              end
    | _ => stuck "empty"
    end
  else if is f "torch.arange" then
    match args with
    | [VInt n] => if kw_ok kw then ret_tens "arange" (arange n) st else stuck "arange: keyword"
    | _ => stuck "arange"
    end
  else if negb (match kw with [] => true | _ => false end) then stuck ("keyword arguments of " ++ f)
  else if is f "$method.max" then
    t1 "max" args (fun t st => match max_all t with
                               | Some m => Ok (enc (mkTens [] [m])) st
                               | None => Exc runtime_error st      (* torch: max() of a tensor without elements raises *)
                               end) st
  else if is f "$method.item" then
    t1 "item" args (fun t st => match tdata t with [q] => Ok (VQ q) st | _ => stuck "item" end) st
  else if is f "int" then
    match args with
    | [VQ q] => Ok (VInt (int_of_q q)) st
    | [VInt z] => Ok (VInt z) st
    | _ => stuck "int"
    end
  else if is f "$method.any" then t1 "any" args (fun t st => Ok (VBool (any_t t)) st) st
  else if is f "$method.numel" then t1 "numel" args (fun t st => Ok (VInt (Z.of_nat (numel (tshape t)))) st) st
  else if is f "$attr.shape" then t1 "shape" args (fun t st => Ok (enc_size (tshape t)) st) st
  else if is f "$attr.device" then t1 "device" args (fun _ st => Ok device_token st) st
  else if is f "$attr.T" then t1 "T" args (fun t st => ret_tens "T" (transpose2 t) st) st
  else if is f "torch.Size" then
    match args with
    | [VList l] => match dec_nats l with Some sh => Ok (enc_size sh) st | None => stuck "Size" end
    | _ => stuck "Size"
    end
  else if is f "torch.broadcast_tensors" then
    match args with
    | [a; b] => match dec a, dec b with
                | Some x, Some y => match broadcast_pair x y with
                                    | Some (x', y') => Ok (VTuple [enc x'; enc y']) st
                                    | None => stuck "broadcast_tensors: outside the modelled domain"
                                    end
                | _, _ => stuck "broadcast_tensors"
                end
    | _ => stuck "broadcast_tensors"
    end
  else if is f "torch.bernoulli" then
    match args with
    | [p] => match dec p with
             | Some t => Ok (enc (bernoulli orc (List.length (events st)) t)) (emit ("torch.bernoulli", [p]) st)
             | None => stuck "bernoulli"
             end
    | _ => stuck "bernoulli"
    end
  else if is f "operator" then
    match args with [VStr o; a; b] => ext_operator o a b st | _ => stuck "operator" end
  else if is f "compare" then
    match args with [VStr o; a; b] => ext_compare o a b st | _ => stuck "compare" end
  else if is f "$setitem" then
    match args with [x; k; v] => ext_setitem x k v st | _ => stuck "setitem" end
  else if is f "$getitem" then
    match args with [x; k] => ext_getitem x k st | _ => stuck "getitem" end
  else if (is f "$method.clamp_min" || is f "$method.clamp_min_")%bool then
    match args with
    | [x; c] => match dec x, scalar c with
                | Some t, Some q => Ok (enc (clamp_min t q)) st
                | _, _ => stuck "clamp_min"
                end
    | _ => stuck "clamp_min"
    end
  else if is f "$method.clamp_max" then
    match args with
    | [x; c] => match dec x, scalar c with
                | Some t, Some q => Ok (enc (clamp_max t q)) st
                | _, _ => stuck "clamp_max"
                end
    | _ => stuck "clamp_max"
    end
  else if is f "$method.view" then
    match args with
    | [x; VInt a; VInt b] =>
        match dec x, dec_nats [VInt a; VInt b] with
        | Some t, Some sh => ret_tens "view" (view t sh) st
        | _, _ => stuck "view"
        end
    | [x; sz] =>
        match dec x, dec_size sz with
        | Some t, Some sh => ret_tens "view" (view t sh) st
        | _, _ => stuck "view"
        end
    | _ => stuck "view"
    end
  else if is f "$method.flatten" then t1 "flatten" args (fun t st => Ok (enc (flatten t)) st) st
  else if is f "$method.cumsum" then
    match args with
    | [x; VInt 0%Z] => match dec x with Some t => ret_tens "cumsum" (cumsum1 t) st | None => stuck "cumsum" end
    | _ => stuck "cumsum"
    end
  else if is f "$method.cumprod" then
    match args with
    | [x; VInt 0%Z] => match dec x with Some t => ret_tens "cumprod" (cumprod1 t) st | None => stuck "cumprod" end
    | _ => stuck "cumprod"
    end
  else if is f "trunc_divide" then
    match args with [a; b] => on_tens2 "trunc_divide" a b trunc_div st | _ => stuck "trunc_divide" end
  else if is f "$method!.masked_fill_" then
    match args with
    | [x; m; c] => match dec x, dec m, scalar c with
                   | Some t, Some mk, Some q => ret_tens "masked_fill_" (masked_fill t mk q) st
                   | _, _, _ => stuck "masked_fill_"
                   end
    | _ => stuck "masked_fill_"
    end
  else stuck f.

(* ---- encodings ------------------------------------------------------------------------------------ *)
(* a tensor of integer counts *)
Definition ztens (sh : list nat) (zs : list Z) : tens := mkTens sh (map inject_Z zs).

Definition out_val (out : option Z) : val := match out with Some o => VInt o | None => VNone end.

(* the arguments of simple_random_sampling_without_replacement(total_count, given_count, out_size) *)
Definition srswor_vars (tc gc : tens) (out : option Z) : list (string * val) :=
  [("total_count", enc tc); ("given_count", enc gc); ("out_size", out_val out)].

Definition run_srswor (orc : oracle) (junk : nat -> Q) (tc gc : tens) (out : option Z) : outcome val :=
  Interp.run (ext19 orc junk) srswor_body (srswor_vars tc gc out).

(* the arguments of binomial_coefficient(length, count), and the module global `torch` *)
Definition binom_vars (len cnt : tens) : list (string * val) :=
  [("length", enc len); ("count", enc cnt); ("torch", torch_module)].

Definition run_binom (junk : nat -> Q) (len cnt : tens) : outcome val :=
  Interp.run (ext19 (fun _ _ _ => false) junk) binom_body (binom_vars len cnt).

(* ---- executable entry points for the correspondence ------------------------------------------------
   outer None: the interpreter got stuck / returned something that is not a tensor / raised something else
   than RuntimeError;  Some None: RuntimeError *)
Definition read_outcome (o : outcome val) : option (option tens) :=
  match o with
  | Ok v _ => option_map Some (dec v)
  | Exc name _ => if String.eqb name runtime_error then Some None else None
  | Stuck _ => None
  end.

(* the implementation's answer: None = RuntimeError, Some (shape, integer entries) *)
Definition same_tensor (t : tens) (sh : list nat) (zs : list Z) : bool :=
  shape_eqb (tshape t) sh && Nat.eqb (List.length (tdata t)) (List.length zs)
  && forallb (fun qz => Qeq_bool (fst qz) (inject_Z (snd qz))) (combine (tdata t) zs).

Definition agrees (o : outcome val) (impl : option (list nat * list Z)) : bool :=
  match read_outcome o, impl with
  | Some None, None => true
  | Some (Some t), Some (sh, zs) => same_tensor t sh zs
  | _, _ => false
  end.

(* the harness scripts torch.bernoulli by uniforms us[k][i] (k-th call, flat position i): 1 iff u < p *)
Definition orc_of_script (us : list (list Q)) : oracle :=
  fun k ps i => q_gt (nth i ps 0%Q) (nth i (nth k us []) 0%Q).

(* uninitialised memory in the executable runs: an arbitrary non-0/1 pattern (the result must not depend on it) *)
Definition junk_check (i : nat) : Q := inject_Z (7 + Z.of_nat i).

Definition src_srswor_check (tsh : list nat) (totals : list Z) (gsh : list nat) (givens : list Z) (out : option Z)
  (us : list (list Q)) (impl : option (list nat * list Z)) : bool :=
  agrees (run_srswor (orc_of_script us) junk_check (ztens tsh totals) (ztens gsh givens) out) impl.

Definition src_binom_check (lsh : list nat) (lens : list Z) (csh : list nat) (cnts : list Z)
  (impl : option (list nat * list Z)) : bool :=
  agrees (run_binom junk_check (ztens lsh lens) (ztens csh cnts)) impl.
