(* C20, second tie - `MultiHeadedAttention.forward` (_attn.py) = PV.C20.Model.mha: the symbolic run of the translated
   body (PV.Gen.C20BSrc.mha_forward under SrcRunB.ext_mha) and the tie theorem.  See TieB.v. *)
From Coq Require Import ZArith QArith List String Bool Arith Lia ZifyBool ZifyNat.
From PV Require Import MiniPy.Syntax MiniPy.Interp MiniTorch.Ops MiniTorch.OpsC07 MiniTorch.OpsC20 MiniTorch.LemmasC20.
From PV Require Import MiniTorch.OpsC20B MiniTorch.LemmasC20B.
From PV Require Import Gen.C20Src Gen.C20BSrc C20.SrcRun C20.SrcRunB C20.TieOps C20.Tie C20.TieB.
From PV Require C20.Model C20.ModelB C20.Spec C20.Index C20.Proofs C20.Broadcast C20.MHA MiniTorch.LemmasC07.
Import ListNotations.
Local Open Scope string_scope.

#[local] Arguments enc_b : simpl never.
#[local] Arguments enc_f : simpl never.
#[local] Arguments enc_q : simpl never.
#[local] Arguments dec_b : simpl never.
#[local] Arguments dec_q : simpl never.
#[local] Arguments dec_x : simpl never.
#[local] Arguments mat : simpl never.
#[local] Arguments rd : simpl never.
#[local] Arguments runsq : simpl never.
#[local] Arguments Z.add : simpl never.
#[local] Arguments Z.sub : simpl never.
#[local] Arguments Z.of_nat : simpl never.
#[local] Arguments Z.eqb : simpl never.
#[local] Arguments Z.ltb : simpl never.
#[local] Arguments Z.leb : simpl never.
#[local] Arguments Nat.mul : simpl never.
#[local] Arguments dec_nats : simpl never.
#[local] Arguments extB_ops : simpl never.
#[local] Arguments ext20_ops : simpl never.
#[local] Arguments cmp_eval : simpl never.
#[local] Arguments subscript : simpl never.
#[local] Arguments broadcast_shapes : simpl never.
#[local] Arguments shape_val : simpl never.
#[local] Arguments call_with : simpl never.
#[local] Arguments single_forward : simpl never.
#[local] Arguments linear_layer : simpl never.
#[local] Arguments linear_val : simpl never.
#[local] Arguments rows_tensor : simpl never.
#[local] Arguments vec_tensor : simpl never.

Lemma linear_layer_run expf cols W b x st :
  linear_layer expf (linear_val cols W b) (enc_q x) st
  = ret_q "linear" (linear x (rows_tensor cols W) (option_map vec_tensor b)) st.
Proof.
  unfold linear_layer, linear_val. destruct b as [bl|]; cbn.
  - exact (ext_linear expf x (rows_tensor cols W) (Some (vec_tensor bl)) st).
  - exact (ext_linear expf x (rows_tensor cols W) None st).
Qed.

Ltac mstep :=
  cstep;
  rewrite ?extB_device_q, ?extB_ones, ?extB_scripting;
  cbn.

Section MhaRun.
  Variables (expf tanhf : Q -> Q) (cls : score_classB) (dim : Z) (qs ks vs : nat) (P : Model.mha_params) (sha : val).
  Variables (q k v : tn Q).
  Notation self := (self_mha dim qs ks vs P sha).
  Variables QL QH KL KH VL VH CAT CF OUT : tn Q.
  Hypothesis HQL : linear q (rows_tensor qs (Model.WQ P)) (option_map vec_tensor (Model.bQ P)) = Some QL.
  Hypothesis HQH : unflatten_last QL [Model.num_heads P; Model.d_q P] = Some QH.
  Hypothesis HKL : linear k (rows_tensor ks (Model.WK P)) (option_map vec_tensor (Model.bK P)) = Some KL.
  Hypothesis HKH : unflatten_last KL [Model.num_heads P; Model.d_k P] = Some KH.
  Hypothesis HVL : linear v (rows_tensor vs (Model.WV P)) (option_map vec_tensor (Model.bV P)) = Some VL.
  Hypothesis HVH : unflatten_last VL [Model.num_heads P; Model.d_v P] = Some VH.
  Hypothesis HCF : flatten_from CAT (-2) = Some CF.
  Hypothesis HOUT : linear CF (rows_tensor (Model.num_heads P * Model.d_v P) (Model.WC P)) (option_map vec_tensor (Model.bC P)) = Some OUT.

  Lemma mha_run_nomask :
    (forall st, call_with (extB_ops expf tanhf) mha_check_input
                          (forward_vars_v self (enc_q q) (enc_q k) (enc_q v) (enc_b (ones_bool [1%nat]))) st = Ok VNone st) ->
    (exists st', single_forward expf tanhf cls sha (enc_q QH) (enc_q KH) (enc_q VH) VNone = Ok (enc_q CAT) st') ->
    exists st, run_mha expf tanhf cls self q k v None = Ok (enc_q OUT) st.
  Proof.
    intros Hci [st' Hsh]. unfold run_mha, Interp.run, mha_forward, forward_vars, mask_val, globals20.
    mstep. mstep. mstep. mstep. rewrite Hci. mstep.
    rewrite linear_layer_run, HQL. mstep. rewrite extB_unflatten, HQH. mstep.
    rewrite linear_layer_run, HKL. mstep. rewrite extB_unflatten, HKH. mstep.
    rewrite linear_layer_run, HVL. mstep. rewrite extB_unflatten, HVH. mstep.
    rewrite Hsh. mstep. rewrite extB_flatten, HCF. mstep. rewrite linear_layer_run, HOUT. mstep.
    eexists. reflexivity.
  Qed.

  Lemma mha_run_mask mt MU :
    (forall st, call_with (extB_ops expf tanhf) mha_check_input
                          (forward_vars_v self (enc_q q) (enc_q k) (enc_q v) (enc_b mt)) st = Ok VNone st) ->
    unsqueeze mt (-1) = Some MU ->
    (exists st', single_forward expf tanhf cls sha (enc_q QH) (enc_q KH) (enc_q VH) (enc_b MU) = Ok (enc_q CAT) st') ->
    exists st, run_mha expf tanhf cls self q k v (Some mt) = Ok (enc_q OUT) st.
  Proof.
    intros Hci HMU [st' Hsh]. unfold run_mha, Interp.run, mha_forward, forward_vars, mask_val, globals20.
    mstep. mstep. mstep. rewrite Hci. mstep.
    rewrite linear_layer_run, HQL. mstep. rewrite extB_unflatten, HQH. mstep.
    rewrite linear_layer_run, HKL. mstep. rewrite extB_unflatten, HKH. mstep.
    rewrite linear_layer_run, HVL. mstep. rewrite extB_unflatten, HVH. mstep.
    rewrite extB_unsqueeze_b, HMU. mstep.
    rewrite Hsh. mstep. rewrite extB_flatten, HCF. mstep. rewrite linear_layer_run, HOUT. mstep.
    eexists. reflexivity.
  Qed.
End MhaRun.

(* an exception of check_input propagates out of forward *)
Lemma mha_run_exc expf tanhf cls self q k v m n :
  (forall mt st, call_with (extB_ops expf tanhf) mha_check_input
                           (forward_vars_v self (enc_q q) (enc_q k) (enc_q v) (enc_b mt)) st = Exc n st) ->
  exists st, run_mha expf tanhf cls self q k v m = Exc n st.
Proof.
  intros Hci. unfold run_mha, Interp.run, mha_forward, forward_vars, mask_val, globals20.
  destruct m as [mt|]; mstep; mstep; mstep; try mstep; rewrite Hci; mstep; eexists; reflexivity.
Qed.

(* ---- the tie: MultiHeadedAttention.forward = Model.mha ----------------------------------------------------- *)
Import C20.Model C20.Spec C20.Index C20.Proofs C20.ModelB C20.Broadcast.
Local Open Scope nat_scope.

(* what the wrapped single-head module has to satisfy: its interpreted forward is the model's [attend] with score
   [sc] (proved for the dot-product and generalised classes in Tie.v, for the concat class in TieBConcat.v) *)
Definition single_tie (expf tanhf : Q -> Q) (cls : score_classB) (sha : val) (sc : list Q -> list Q -> Q)
           (dim : Z) (dq dk : nat) : Prop :=
  forall q k v m p out,
    axis_pos dim (List.length (tshape k)) = Some p ->
    attend expf sc q k v m p dq dk = Some out ->
    exists st, run_single expf tanhf cls sha (flat q) (flat k) (flat v) (option_map flat m) = Ok (enc_q (flat out)) st.

(* the head axis is one more axis to the right of the sequence axis; dim >= 0 (MultiHeadedAttention.__init__ raises
   ValueError for a wrapped attention with a negative dim) counts from the left and is unaffected *)
Lemma axis_pos_succ dim kr p : (0 <= dim)%Z -> axis_pos dim kr = Some p -> axis_pos dim (S kr) = Some (S p).
Proof.
  unfold axis_pos. intros H0. assert (N : (dim <? 0)%Z = false) by lia. rewrite N.
  destruct ((1 - Z.of_nat kr <=? dim)%Z && (0 <=? dim)%Z && (dim <? Z.of_nat kr - 1)%Z) eqn:B; [|discriminate].
  intros E. injection E as <-.
  assert (B' : ((1 - Z.of_nat (S kr) <=? dim)%Z && (0 <=? dim)%Z && (dim <? Z.of_nat (S kr) - 1)%Z) = true) by lia.
  rewrite B'. f_equal. lia.
Qed.

Lemma bshape_nil_r a : bshape a [] = Some a.
Proof. destruct a; reflexivity. Qed.

Lemma bshape_one es : exists ms, bshape es [1] = Some ms.
Proof.
  destruct es as [|x r]; [eexists; reflexivity|]. cbn [bshape]. rewrite bshape_nil_r.
  destruct (Nat.eqb x 1); [eexists; reflexivity|]. cbn. eexists; reflexivity.
Qed.

Lemma mha_legal_inv q k v m p qs ks vs : mha_legalb q k v m p qs ks vs = true ->
  exists sq' sk' sv' es ps,
    tshape q = qs :: sq' /\ tshape k = ks :: sk' /\ tshape v = vs :: sv' /\
    S (List.length sq') = List.length sk' /\ List.length sv' = List.length sk' /\ 1 <= p /\ p <= List.length sk' /\
    bshape (ins (p - 1) 1 sq') sk' = Some es /\
    match m with None => True | Some mt => exists ms, bshape es (tshape mt) = Some ms end /\
    bshape (1 :: es) (tshape v) = Some ps.
Proof.
  unfold mha_legalb. intros L.
  repeat (apply andb_true_iff in L; destruct L as [L ?]).
  match goal with X : Nat.leb 1 p = true |- _ => apply Nat.leb_le in X; rename X into Hp1 end.
  match goal with X : Nat.ltb p _ = true |- _ => apply Nat.ltb_lt in X; rename X into Hpk end.
  match goal with X : Nat.eqb (List.length (tshape v)) _ = true |- _ => apply Nat.eqb_eq in X; rename X into Hvr end.
  match goal with X : Nat.eqb (hd 0 (tshape q)) _ = true |- _ => apply Nat.eqb_eq in X; rename X into Hq end.
  match goal with X : Nat.eqb (hd 0 (tshape k)) _ = true |- _ => apply Nat.eqb_eq in X; rename X into Hk end.
  match goal with X : Nat.eqb (hd 0 (tshape v)) _ = true |- _ => apply Nat.eqb_eq in X; rename X into Hv end.
  apply Nat.eqb_eq in L. rename L into Hqr.
  destruct (tshape q) as [|fq sq'] eqn:Eq; [cbn in Hqr; lia|].
  destruct (tshape k) as [|fk sk'] eqn:Ek; [cbn in Hpk; lia|].
  destruct (tshape v) as [|fv sv'] eqn:Ev; [cbn in Hvr; lia|].
  cbn [hd] in Hq, Hk, Hv. subst fq fk fv. cbn [List.length] in Hqr, Hvr, Hpk.
  match goal with X : match bshape _ _ with Some _ => _ | None => _ end = true |- _ => rename X into Hb end.
  rewrite unsq_shape, Eq in Hb. replace p with (S (p - 1)) in Hb at 1 by lia. rewrite ins_S in Hb. cbn [tl] in Hb.
  destruct (bshape (ins (p - 1) 1 sq') sk') as [es|] eqn:Ees; [|discriminate].
  apply andb_true_iff in Hb. destruct Hb as [Hm Hps].
  destruct (bshape (1 :: es) (vs :: sv')) as [ps|] eqn:Eps; [|discriminate].
  exists sq', sk', sv', es, ps. repeat split; try reflexivity; try lia; try assumption.
  destruct m as [mt|]; [|exact I]. destruct (bshape es (tshape mt)) as [ms|]; [|discriminate]. eexists; reflexivity.
Qed.

Lemma mat_sizes_inv W b rows cols : mat_sizes W b rows cols = true ->
  List.length W = rows /\ Forall (fun w => List.length w = cols) W /\ match b with None => True | Some bl => List.length bl = List.length W end.
Proof.
  unfold mat_sizes. intros H. apply andb_true_iff in H. destruct H as [H Hb]. apply andb_true_iff in H. destruct H as [Hl Hr].
  apply Nat.eqb_eq in Hl. split; [exact Hl|]. split.
  - apply Forall_forall. intros w Hw. rewrite forallb_forall in Hr. apply Nat.eqb_eq, Hr, Hw.
  - destruct b as [bl|]; [apply Nat.eqb_eq; exact Hb|exact I].
Qed.

(* the materialised projection, un-flattened = the model's head tensor, materialised *)
Lemma heads_mat W b H d (T : tensor Q) n s :
  tshape T = n :: s -> List.length W = H * d ->
  OpsC20B.unflatten_last (mat (linear W b T)) [H; d] = Some (flat (Model.unflatten_last H d (memo 0%Q (linear W b T)))).
Proof.
  intros E HW. unfold flat.
  rewrite <- (mat_eta (linear W b T)), <- (mat_memo 0%Q (linear W b T)).
  apply unflatten_last_mat.
  - rewrite memo_shape. cbn [linear tshape hd]. exact HW.
  - rewrite memo_shape. cbn [linear tshape]. discriminate.
Qed.

Lemma call_with_ok ext body vars0 v :
  (exists st', Interp.run ext body vars0 = Ok v st') -> forall st, call_with ext body vars0 st = Ok v st.
Proof. intros [st' H] st. unfold call_with. rewrite H. reflexivity. Qed.

Lemma call_with_exc ext body vars0 n :
  (exists st', Interp.run ext body vars0 = Exc n st') -> forall st, call_with ext body vars0 st = Exc n st.
Proof. intros [st' H] st. unfold call_with. rewrite H. reflexivity. Qed.

(* the shape of what the wrapped attention returns on head tensors: (.., H, d_v) *)
Lemma cat_shape expf sc qh kh vh mh p dq dk cat H dv sqh skh svh :
  attend expf sc qh kh vh mh (S p) dq dk = Some cat -> 1 <= p ->
  tshape qh = dq :: H :: sqh -> tshape kh = dk :: H :: skh -> tshape vh = dv :: H :: svh ->
  exists s, tshape cat = dv :: H :: s.
Proof.
  intros Hatt Hp Eq Ek Ev. destruct (attend_inv _ _ _ _ _ _ _ _ _ _ Hatt) as [es [ps [F ->]]].
  rewrite memo_shape. cbn [tshape].
  pose proof (af_es _ _ _ _ _ _ _ F) as Hes. rewrite unsq_shape, Eq, Ek in Hes.
  replace (S p) with (S (S (p - 1))) in Hes by lia. rewrite !ins_S in Hes. cbn [tl] in Hes.
  destruct (MHA.bshape_cons_same _ _ _ _ Hes) as [r [_ ->]].
  pose proof (af_ps _ _ _ _ _ _ _ F) as Hps. rewrite Ev in Hps.
  rewrite bshape_cons in Hps. destruct (bshape (H :: r) (H :: svh)) as [r2|] eqn:E2; [|discriminate].
  rewrite bdim_one_l in Hps. injection Hps as <-.
  destruct (MHA.bshape_cons_same _ _ _ _ E2) as [r3 [_ ->]].
  replace (S p) with (S (S (p - 1))) by lia. rewrite !del_S. eexists; reflexivity.
Qed.

Theorem mha_forward_tie expf tanhf cls sha sc P dim qs ks vs q k v m p out :
  single_tie expf tanhf cls sha sc dim (d_q P) (d_k P) ->
  (0 <= dim)%Z ->
  axis_pos dim (List.length (tshape k)) = Some p ->
  mha_sizes P qs ks vs = true ->
  mha expf sc P q k v m p 0 qs ks vs = Some out ->
  exists st, run_mha expf tanhf cls (self_mha dim qs ks vs P sha) (flat q) (flat k) (flat v) (option_map flat m)
             = Ok (enc_q (flat out)) st.
Proof.
  intros Hsingle H0 Hax Hsz Hm.
  destruct (MHA.mha_inv _ _ _ _ _ _ _ _ _ _ _ _ _ Hm) as [Hleg [cat [Hcat ->]]].
  destruct (mha_legal_inv _ _ _ _ _ _ _ _ Hleg)
    as [sq' [sk' [sv' [es [ps [Eq [Ek [Ev [Hqr [Hvr [Hp1 [Hpk [Hes [Hmask Hps]]]]]]]]]]]]]].
  unfold mha_sizes in Hsz. apply andb_true_iff in Hsz. destruct Hsz as [Hsz SC].
  apply andb_true_iff in Hsz. destruct Hsz as [Hsz SV]. apply andb_true_iff in Hsz. destruct Hsz as [SQ SK].
  destruct (mat_sizes_inv _ _ _ _ SQ) as [LQ [AQ BQ]]. destruct (mat_sizes_inv _ _ _ _ SK) as [LK [AK BK]].
  destruct (mat_sizes_inv _ _ _ _ SV) as [LV [AV BV]]. destruct (mat_sizes_inv _ _ _ _ SC) as [_ [AC BC]].
  set (H := num_heads P) in *. set (dq := d_q P) in *. set (dk := d_k P) in *. set (dv := d_v P) in *.
  assert (Sqh : tshape (q_heads P q) = dq :: H :: sq').
  { unfold q_heads. rewrite MHA.unflatten_shape, memo_shape, MHA.linear_shape, Eq. reflexivity. }
  assert (Skh : tshape (k_heads P k) = dk :: H :: sk').
  { unfold k_heads. rewrite MHA.unflatten_shape, memo_shape, MHA.linear_shape, Ek. reflexivity. }
  assert (Svh : tshape (v_heads P v) = dv :: H :: sv').
  { unfold v_heads. rewrite MHA.unflatten_shape, memo_shape, MHA.linear_shape, Ev. reflexivity. }
  destruct (cat_shape _ _ _ _ _ _ _ _ _ _ _ _ _ _ _ Hcat Hp1 Sqh Skh Svh) as [s Ecat].
  (* the wrapped single-head attention on the head tensors *)
  assert (Hax' : axis_pos dim (List.length (tshape (k_heads P k))) = Some (S p)).
  { rewrite Skh. rewrite Ek in Hax. cbn [List.length] in *. apply axis_pos_succ; assumption. }
  destruct (Hsingle _ _ _ _ _ _ Hax' Hcat) as [st1 Hrun1].
  (* the operations, step by step *)
  pose proof (linear_mat q (WQ P) (bQ P) qs sq' Eq AQ BQ) as HQL.
  pose proof (linear_mat k (WK P) (bK P) ks sk' Ek AK BK) as HKL.
  pose proof (linear_mat v (WV P) (bV P) vs sv' Ev AV BV) as HVL.
  pose proof (heads_mat (WQ P) (bQ P) H dq q qs sq' Eq LQ) as HQH.
  pose proof (heads_mat (WK P) (bK P) H dk k ks sk' Ek LK) as HKH.
  pose proof (heads_mat (WV P) (bV P) H dv v vs sv' Ev LV) as HVH.
  pose proof (flatten_from_mat dv H s cat Ecat) as HCF.
  assert (Efl : tshape (flatten_last2 cat) = (H * dv) :: s).
  { cbn [flatten_last2 tshape]. rewrite Ecat. reflexivity. }
  pose proof (linear_mat (flatten_last2 cat) (WC P) (bC P) (H * dv) s Efl AC BC) as HOUT.
  (* check_input *)
  assert (Hu : unsqueeze (flat q) dim = Some (runsq p (mat q))).
  { apply (unsqueeze_query_raw q k dim p Hax). rewrite Eq, Ek. cbn [List.length]. lia. }
  assert (Hci : forall mt ms, bshape es (rev (shp mt)) = Some ms ->
            forall st, call_with (extB_ops expf tanhf) mha_check_input
                         (forward_vars_v (self_mha dim qs ks vs P sha) (enc_q (flat q)) (enc_q (flat k)) (enc_q (flat v)) (enc_b mt)) st
                       = Ok VNone st).
  { intros mt ms Hms. apply call_with_ok. unfold self_mha.
    apply (mha_check_input_accepts expf tanhf _ (flat q) (flat k) (flat v) mt dim qs ks vs sq' sk' sv'
             (runsq p (mat q)) (ins (p - 1) 1 sq') es ms ps); try reflexivity; try assumption;
      unfold flat; rewrite ?rshp_mat, ?shp_mat, ?rev_length, ?Eq, ?Ek, ?Ev; cbn [List.length]; try reflexivity; try lia.
    - pose proof (axis_pos_range _ _ _ Hax) as R. rewrite Ek in R. cbn [List.length] in R. exact R.
    - rewrite rshp_runsq, rshp_mat, Eq. replace p with (S (p - 1)) at 1 by lia. rewrite ins_S. reflexivity.
    - rewrite <- Ev. exact Hps. }
  destruct m as [mt|].
  - destruct Hmask as [ms Hms]. cbn [option_map].
    apply (mha_run_mask expf tanhf cls dim qs ks vs P sha (flat q) (flat k) (flat v)
             _ _ _ _ _ _ _ _ _ HQL HQH HKL HKH HVL HVH HCF HOUT (flat mt) (flat (unsq 0 mt))).
    + apply (Hci (flat mt) ms). unfold flat. rewrite rshp_mat. exact Hms.
    + unfold flat. rewrite unsqueeze_last, runsq0_mat. reflexivity.
    + exists st1. exact Hrun1.
  - destruct (bshape_one es) as [ms Hms]. cbn [option_map].
    apply (mha_run_nomask expf tanhf cls dim qs ks vs P sha (flat q) (flat k) (flat v)
             _ _ _ _ _ _ _ _ _ HQL HQH HKL HKH HVL HVH HCF HOUT).
    + apply (Hci (ones_bool [1]) ms). exact Hms.
    + exists st1. exact Hrun1.
Qed.

(* ---- the wrapped classes of the first tie ---------------------------------------------------------------------- *)
Lemma single_tie_dot expf tanhf tanhf' sc dim dq :
  single_tie expf tanhf DotB (self_dot dim dq dq sc) (score tanhf' (Dot sc)) dim dq dq.
Proof. intros q k v m p out Hax Hatt. exact (forward_dot_tie expf tanhf' sc dim dq q k v m p out Hax Hatt). Qed.

Lemma single_tie_general expf tanhf tanhf' W b dim dq dk :
  fl_sizes (General W b) dq dk = true ->
  single_tie expf tanhf GeneralB (self_general dim dq dk W b) (score tanhf' (General W b)) dim dq dk.
Proof. intros Hfl q k v m p out Hax Hatt. exact (forward_general_tie expf tanhf' W b dim dq dk q k v m p out Hax Hfl Hatt). Qed.
